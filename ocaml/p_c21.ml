(* C21 glue: the monitor's report (every accessor called on every node of a tree built by the generated
   parser) is judged directly against the property; the model (Types.accessor) predicts the same report. *)
open Io
open BinNums
open Datatypes
module T = Types
module SL = Stdlib.List

type fld = { sel : int list; after : int; required : bool; islist : bool; asrt : int }

let parse_types x =
  match lst x with
  | [rts; cats; inj] ->
    let rts = SL.map (fun rt -> SL.map (fun f -> match lst f with
      | [sel; a; r; l; s] -> { sel = get_list get_int sel; after = get_int a; required = get_bool r; islist = get_bool l; asrt = get_int s }
      | _ -> failwith "field") (lst rt)) (lst rts) in
    let cats = SL.map (fun c -> match lst c with [ts; n] -> (get_list get_int ts, get_bool n) | _ -> failwith "cat") (lst cats) in
    (rts, cats, get_int inj)
  | _ -> failwith "types"

let mfield f = { T.f_sel = SL.map n_of_int f.sel; T.f_after = z_of_int f.after; T.f_required = f.required;
                 T.f_list = f.islist; T.f_assert = z_of_int f.asrt }
let mcat (ts, n) = { T.c_types = SL.map n_of_int ts; T.c_nil = n }

let () = Reg.register "c21.run" (fun inp out ->
  let (types, _text) = (match lst inp with [t; s] -> (t, s) | _ -> failwith "case") in
  let (rts, cats, inj) = parse_types types in
  let mcats = SL.map mcat cats in
  match out with
  | L (A "tree" :: nodes) ->
    let bad = ref "ok" in
    let has_empty = ref false in
    let fail s = if !bad = "ok" then bad := s in
    let model_nodes = SL.map (fun nd -> match lst nd with
      | [ty; kids; results; em] ->
        if get_int em = 1 then has_empty := true;
        let t = get_int ty in
        let kids_l = get_list get_int kids in
        let fs = (if t >= 1 && t <= SL.length rts then SL.nth rts (t - 1) else []) in
        (* ---- oracle on the implementation's report ---- *)
        let covered = Array.make (SL.length kids_l) false in
        let rs = lst results in
        if SL.length rs <> SL.length fs then fail "bad:accessor-report-incomplete";
        SL.iter (fun r -> match lst r with
          | [fi; A "p"] ->
            let f = SL.nth fs (get_int fi) in
            (* the one panic that is understood: an absent optional child is turned into NilNode, which does not
               implement a category that is called TokenSet *)
            if (not f.islist) && (not f.required) && f.asrt >= 1 && not (Stdlib.snd (SL.nth cats (f.asrt - 1)))
               && not (SL.exists (fun k -> SL.mem k f.sel) kids_l)
            then fail "bad:accessor-panics-absent-child-of-category-named-TokenSet"
            else fail "bad:accessor-panics"
          | fi :: rest ->
            let f = SL.nth fs (get_int fi) in
            let idxs = (if f.islist then SL.map get_int rest
                        else if f.required then (match rest with [i] -> [get_int i] | _ -> failwith "single")
                        else (match rest with
                              | [A ok; i] -> let i = get_int i in
                                if (ok = "true") <> (i >= 0) then fail "bad:optional-accessor-flag-disagrees-with-node";
                                if i >= 0 then [i] else []
                              | _ -> failwith "optional")) in
            if f.required && not f.islist && (match idxs with [i] -> i < 0 | _ -> true) then fail "bad:required-accessor-returned-no-node";
            SL.iter (fun i ->
              if i = -2 then fail "bad:accessor-returned-a-node-that-is-not-a-child"
              else if i >= 0 then begin
                covered.(i) <- true;
                if not (SL.mem (SL.nth kids_l i) f.sel) then fail "bad:accessor-returned-node-outside-declared-types"
              end else if f.islist then fail "bad:list-accessor-returned-nil") idxs
          | _ -> failwith "result") rs;
        SL.iteri (fun i k -> if k <> inj && not covered.(i) then fail "bad:annotated-child-not-returned-by-any-accessor") kids_l;
        (* ---- model ---- *)
        let mrs = T.accessors mcats (SL.map mfield fs) (SL.map n_of_int kids_l) in
        let mres = SL.mapi (fun i r ->
          let f = SL.nth fs i in
          match r with
          | T.RPanic -> L [put_int i; A "p"]
          | T.ROne (v, idx) -> if f.required then L [put_int i; put_z idx] else L [put_int i; A (if v then "true" else "false"); put_z idx]
          | T.RMany l -> L (put_int i :: SL.map put_nat l)) mrs in
        L [ty; kids; L mres; em]
      | _ -> failwith "node") nodes in
    (* a zero-length node is attached by offsets only: the tree builder may hang it under the next sibling *)
    let verdict = (if !has_empty && (!bad = "bad:required-accessor-returned-no-node" || !bad = "bad:annotated-child-not-returned-by-any-accessor")
                   then !bad ^ "-in-a-tree-with-empty-nodes" else !bad) in
    (L (A "tree" :: model_nodes), verdict)
  | L (A "syntax" :: _) -> (A "tree", "bad:sentence-of-the-grammar-rejected")
  | _ -> (A "tree", "bad:generated-ast-failed"))

let () = Reg.register "c21.gen" (fun _ _ -> (A "compiles", "bad:legal-ast-grammar-rejected"))

(* the proved-sound validator evaluated on the fields textmapper inferred *)
let rec cexpr_of x = match lst x with
  | [A "e"] -> T.CEmpty
  | [A "n"; t] -> T.CNode (get_n t)
  | [A "q"; a; b] -> T.CSeq (cexpr_of a, cexpr_of b)
  | [A "c"; a; b] -> T.CChoice (cexpr_of a, cexpr_of b)
  | [A "o"; a] -> T.COpt (cexpr_of a)
  | [A "l"; a; ne] -> T.CList (cexpr_of a, get_bool ne)
  | _ -> failwith "cexpr"

(* c21.types: per range type, first the validator that is universal (TypesSym.check_type_any: symbolic for
   bodies with lists of any length, enumeration for list-free bodies); types it cannot decide (lists AND
   FetchAfter chains / shared node types) fall back to the enumeration with at most 2 repetitions per list *)
let sym_universal = ref 0 and sym_bounded = ref 0

(* number of child sequences Types.child_seqs would enumerate (capped) *)
let rec nseqs rep e =
  let cap x = if x > 1000000 then 1000000 else x in
  match e with
  | T.CEmpty | T.CNode _ -> 1
  | T.CSeq (a, b) -> cap (nseqs rep a * nseqs rep b)
  | T.CChoice (a, b) -> cap (nseqs rep a + nseqs rep b)
  | T.COpt a -> cap (1 + nseqs rep a)
  | T.CList (a, _) -> let x = nseqs rep a in
      let rec pow k acc tot = if k = 0 then tot else let acc = cap (acc * x) in pow (k - 1) acc (cap (tot + acc)) in
      pow rep 1 1
let () = if Sys.getenv_opt "C21_SYMSTAT" <> None then
  at_exit (fun () -> Printf.eprintf "c21.types: %d types validated universally, %d by bounded enumeration only\n" !sym_universal !sym_bounded)

let () = Reg.register "c21.types" (fun inp _out ->
  let (types, bodies) = (match lst inp with [t; b] -> (t, lst b) | _ -> failwith "case") in
  let (rts, cats, inj) = parse_types types in
  let run count cats =
    SL.map2 (fun fs bs ->
      let bs = SL.map cexpr_of (lst bs) in
      if bs = [] then true   (* a reported token: no accessors *)
      else begin
        let mc = SL.map mcat cats and mf = SL.map mfield fs in
        (* the enumeration is only attempted when the number of child sequences is moderate; a body that the
           symbolic validator rejects and that is too large to enumerate counts as not validated *)
        let small = SL.fold_left (fun acc b -> acc + nseqs 2 b) 0 bs <= 20000 in
        if not small then
          (if SL.for_all (fun b -> TypesSym.check_sym mc mf (n_of_int inj) b) bs then (if count then incr sym_universal; true) else false)
        else if TypesSym.check_type_any mc mf (n_of_int inj) (nat_of_int 2) bs then (if count then incr sym_universal; true)
        else if T.check_type mc mf (n_of_int inj) (nat_of_int 2) bs then (if count then incr sym_bounded; true)
        else false
      end) rts bodies in
  let res = run true cats in
  let verdict =
    if SL.for_all (fun b -> b) res then "ok"
    else if SL.for_all (fun b -> b) (run false (SL.map (fun (ts, _) -> (ts, true)) cats))
    then "bad:accessor-panics-absent-child-of-category-named-TokenSet"
    else "bad:inferred-fields-do-not-fit-some-child-sequence" in
  (L (SL.map put_bool res), verdict))

(* ---------- c21.infer: the step-by-step model of syntax/types.go (Infer.extract_types) ---------- *)
module I = Infer

let get_str x = SL.map get_n (lst x)
let put_str s = L (SL.map put_n s)

let rec iexpr_of x = match lst x with
  | [A "e"] -> I.XEmpty
  | [A "k"] -> I.XLook
  | [A "r"; s] -> I.XRef (get_nat s)
  | [A "a"; n; e] -> I.XArrow (get_str n, iexpr_of e)
  | A "q" :: subs -> I.XSeq (SL.map iexpr_of subs)
  | A "c" :: subs -> I.XChoice (SL.map iexpr_of subs)
  | [A "s"; n; e] -> I.XAssign (get_str n, iexpr_of e)
  | [A "p"; n; e] -> I.XAppend (get_str n, iexpr_of e)
  | [A "o"; e] -> I.XOpt (iexpr_of e)
  | [A "l"; e; sep; oom] -> I.XList (iexpr_of e, iexpr_of sep, get_bool oom)
  | [A "x"; e] -> I.XPrec (iexpr_of e)
  | _ -> failwith "iexpr"

let imodel_of x = match lst x with
  | [nterms; nts; inputs; cats; toks] ->
    { I.m_nterms = get_nat nterms;
      I.m_nonterms = SL.map iexpr_of (lst nts);
      I.m_inputs = SL.map (fun i -> match lst i with [n; s] -> (get_nat n, get_bool s) | _ -> failwith "input") (lst inputs);
      I.m_cats = SL.map get_str (lst cats);
      I.m_tokens = SL.map (fun t -> match lst t with [k; n] -> (get_nat k, get_str n) | _ -> failwith "token") (lst toks) }
  | _ -> failwith "imodel"

let () = Reg.register "c21.infer" (fun inp out ->
  let m = imodel_of inp in
  let t = I.extract_types m in
  let rts = SL.map2 (fun n fs ->
    L [put_str n; L (SL.map (fun f -> L [put_str f.I.rf_name; L (SL.map put_str f.I.rf_sel); put_z f.I.rf_after;
                                          put_bool f.I.rf_req; put_bool f.I.rf_list]) fs)]) t.I.t_names t.I.t_fields in
  let cats = SL.map (fun (n, ts) -> L [put_str n; L (SL.map put_str ts)]) t.I.t_cats in
  let model = L [L rts; L cats; L [A "err"; put_bool t.I.t_err_assign; put_bool t.I.t_err_cats; put_bool t.I.t_err_overlap]] in
  (* oracle on the implementation's output, independent of the model: structural sanity of the inferred types *)
  let verdict = (match out with
    | L [L rts; L _; L (A "err" :: _)] ->
      let ok = SL.for_all (fun rt -> match rt with
        | L [_; L fs] ->
          let n = SL.length fs in
          let rec chk i = function
            | [] -> true
            | L [_; L sel; after; _; _] :: r -> let a = get_int after in sel <> [] && a >= -1 && a < i && chk (i + 1) r
            | _ -> false in
          ignore n; chk 0 fs
        | _ -> false) rts in
      if ok then "ok" else "bad:inferred-field-has-empty-selector-or-forward-fetch-after"
    | _ -> "bad:extract-types-output-malformed") in
  (model, verdict))
