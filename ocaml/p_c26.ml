open Io
open BinNums
open Datatypes
let fst = Stdlib.fst
let snd = Stdlib.snd

let get_graph x = get_list (get_list get_nat) x
let put_graph g = put_list (put_list put_nat) g

let () = Reg.register "c26.transpose" (fun inp out ->
  let g = get_graph inp in
  let m = Graph.transpose g in
  (* oracle: same multiset of reversed edges, row by row *)
  let gi = Stdlib.List.map (Stdlib.List.map int_of_nat) g in
  let oi = Stdlib.List.map (fun r -> Stdlib.List.map int_of_nat r) (get_graph out) in
  let n = Stdlib.List.length gi in
  let ok = Stdlib.List.length oi = n && (
    let cnt l x = Stdlib.List.length (Stdlib.List.filter (fun y -> y = x) l) in
    let ok = ref true in
    for a = 0 to n - 1 do for b = 0 to n - 1 do
      if cnt (Stdlib.List.nth oi b) a <> cnt (Stdlib.List.nth gi a) b then ok := false done done;
    !ok) in
  (put_graph m, if ok then "ok" else "bad:not-the-reversed-edges"))

let () = Reg.register "c26.closure" (fun inp out ->
  let g = get_graph inp in
  let m = Graph.matrix_closure (Graph.matrix_of_graph g) in
  let res = L [put_list (put_list put_bool) m; put_graph (Graph.graph_of_matrix m)] in
  (* the model is proved equal to reachability (C26_closure_is_reachability): the verdict is model equality *)
  (res, if to_string res = to_string out then "ok" else "bad:closure-differs-from-reachability"))

let () = Reg.register "c26.tarjan" (fun inp out ->
  let g = get_graph inp in
  let m = Graph.tarjan g in
  let put_out o = put_list (fun (c, on) -> L [put_list put_nat c; put_list put_bool on]) o in
  let impl = get_list (fun x -> match lst x with [c; on] -> (get_list get_nat c, get_list get_bool on) | _ -> failwith "cb") out in
  let n = Stdlib.List.length g in
  let verdict =
    if n < 2 then (if impl = [] then "ok" else "bad:callback-on-tiny-graph")
    else if not (GraphSpec.check_scc g (Stdlib.List.map fst impl)) then "bad:not-the-sccs-in-reverse-topological-order"
    else if not (GraphSpec.check_onstack g impl) then "bad:onstack-contract"
    else "ok" in
  (put_out m, verdict))

let () = Reg.register "c26.longest" (fun inp out ->
  let g = get_graph inp in
  let m = Graph.longest_path g in
  let canon = function Some [] -> None | x -> x in   (* Go returns a nil slice for the zero-vertex graph *)
  let put = function None -> A "none" | Some p -> L [A "some"; put_list put_nat p] in
  let impl = (match out with A "none" -> None | L [A "some"; p] -> Some (get_list get_nat p) | _ -> failwith "lp") in
  let n = Stdlib.List.length g in
  let verdict = if n = 0 then "ok" else if GraphSpec.check_longest g impl then "ok" else "bad:not-a-longest-path-or-wrong-nil" in
  (put (canon m), verdict))
