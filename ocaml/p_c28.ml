open Io
open BinNums
open Datatypes

let styles = [Ident.CamelCase; Ident.CamelLower; Ident.UpperCase; Ident.UpperUnderscores]

let has_lower l = Stdlib.List.exists (fun c -> c >= 97 && c <= 122) l
let first_letter l = Stdlib.List.find_opt (fun c -> (c >= 65 && c <= 90) || (c >= 97 && c <= 122)) l

let () = Reg.register "c28.produce" (fun inp out ->
  match lst inp with
  | [A cls; name] ->
    let name = get_list get_z name in
    let model = Stdlib.List.map (fun st ->
      let id = Ident.produce name st in
      L [put_list put_z id; put_bool (Ident.is_valid_ascii id)]) styles in
    (* property oracle on the implementation's identifiers (for names the tm syntax admits) *)
    let verdict =
      if cls = "raw" then "ok" else begin
        let outs = Stdlib.List.map (fun o -> match lst o with
          | [id; v] -> (Stdlib.List.map int_of_string (Stdlib.List.map atom (lst id)), get_bool v) | _ -> failwith "out") (lst out) in
        let bad = ref "ok" in
        Stdlib.List.iteri (fun i (id, valid) ->
          if !bad = "ok" then begin
            if id = [] then bad := "bad:empty-identifier"
            else if not valid then bad := "bad:invalid-identifier"
            else if not (Stdlib.List.for_all (fun c -> c < 128) id) then bad := "bad:non-ascii-identifier"
            else if (i = 2 || i = 3) && has_lower id then bad := "bad:lowercase-in-upper-style"
          end) outs;
        !bad
      end in
    (L model, verdict)
  | _ -> failwith "c28.produce")

let () = Reg.register "c28.collide" (fun inp out ->
  match lst inp with
  | [A kind; a; b] ->
    let st = if kind = "term" then Ident.UpperCase else Ident.CamelCase in
    let a = get_list get_z a and b = get_list get_z b in
    let s0 = { Ident.r_ids = []; Ident.r_errors = O } in
    (* 'input' and the terminal 'x' are declared too; they never collide with the generated names *)
    let s = Ident.declare (Ident.declare s0 a st) b st in
    let collide = int_of_nat s.Ident.r_errors > 0 in
    let same = Ident.bytes_eqb (Ident.produce a st) (Ident.produce b st) in
    (put_bool collide, if get_bool out = same then "ok" else if same then "bad:collision-not-reported" else "bad:spurious-collision")
  | [A kind; a; b; x] ->
    (* explicit ID clauses: xterm1 = second terminal explicit, xterm2 = first explicit, xterm3 = both *)
    let a = get_list get_z a and b = get_list get_z b and x = get_list get_z x in
    let ida = if kind = "xterm1" then Ident.produce a Ident.UpperCase else x in
    let idb = if kind = "xterm2" then Ident.produce b Ident.UpperCase else x in
    let same = Ident.bytes_eqb ida idb in
    (put_bool same, if get_bool out = same then "ok" else if same then "bad:collision-not-reported" else "bad:spurious-collision")
  | _ -> failwith "c28.collide")
