(* C09 glue: Tables.Scan model, checkpoint validator, derivative-based specification of longest match. *)
open Io
open BinNums
open Datatypes

let get_tables = P_c24.get_tables

let () = Reg.register "c09.wf" (fun inp out ->
  let t = get_tables inp in
  let ok = Scan.check_tables t in
  (put_bool ok, if ok then "ok" else "bad:tables-fail-checkpoint-validator"))

(* input: (tables (rule ...) sc (text ...)); rule = (dump action prec (scs)); output ((size action) ...) *)
let () = Reg.register "c09.scan" (fun inp out ->
  match lst inp with
  | [tb; rules; sc; texts] ->
    let t = get_tables tb in
    let sc = get_z sc in
    let sci = int_of_z sc in
    let texts = get_list (get_list get_z) texts in
    let active = Stdlib.List.filter_map (fun r -> match lst r with
      | [d; a; p; scs] ->
        if Stdlib.List.mem sci (get_list get_int scs)
        then Some ((Deriv.rx_of (P_c10.get_re d), get_z a), get_z p) else None
      | _ -> failwith "rule") (lst rules) in
    let model = Stdlib.List.map (fun txt -> let (s, a) = Scan.scanF t sc txt in L [put_z s; put_z a]) texts in
    let outs = lst out in
    let verdict = ref "ok" in
    (try Stdlib.List.iter2 (fun txt o ->
      let (s, a) = Deriv.spec_scan t.Tables.scan_bytes active txt in
      match lst o with
      | [os; oa] ->
        if !verdict = "ok" && (atom os <> Io.string_of_z s || atom oa <> Io.string_of_z a) then
          verdict := (if int_of_z a = 0 then "bad:invalid-token-span-differs-from-longest-viable-prefix"
                      else if atom os <> Io.string_of_z s then "bad:not-the-longest-match"
                      else "bad:wrong-rule-for-longest-match")
      | _ -> verdict := "bad:unparsable") texts outs
     with Invalid_argument _ -> verdict := "bad:unparsable");
    (L model, !verdict)
  | _ -> failwith "c09.scan")
