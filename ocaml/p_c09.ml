(* C09 glue: Tables.Scan model, checkpoint validator, derivative-based specification of longest match. *)
open Io
open BinNums
open Datatypes

let get_tables = P_c24.get_tables

let () = Reg.register "c09.wf" (fun inp out ->
  let t = get_tables inp in
  let ok = Scan.check_tables t in
  (put_bool ok, if ok then "ok" else "bad:tables-fail-checkpoint-validator"))

(* input: (tables (rule ...) sc (text ...)); rule = (dump action prec (scs)); output ((size action) ...) *)
let () = Reg.register "c09.scan" (fun inp out ->
  match lst inp with
  | [tb; rules; sc; texts] ->
    let t = get_tables tb in
    let sc = get_z sc in
    let sci = int_of_z sc in
    let texts = get_list (get_list get_z) texts in
    let active = Stdlib.List.filter_map (fun r -> match lst r with
      | [d; a; p; scs] ->
        if Stdlib.List.mem sci (get_list get_int scs)
        then Some ((Deriv.rx_of (P_c10.get_re d), get_z a), get_z p) else None
      | _ -> failwith "rule") (lst rules) in
    let model = Stdlib.List.map (fun txt -> let (s, a) = Scan.scanF t sc txt in L [put_z s; put_z a]) texts in
    let outs = lst out in
    let verdict = ref "ok" in
    (try Stdlib.List.iter2 (fun txt o ->
      let (s, a) = Deriv.spec_scan t.Tables.scan_bytes active txt in
      match lst o with
      | [os; oa] ->
        if !verdict = "ok" && (atom os <> Io.string_of_z s || atom oa <> Io.string_of_z a) then
          verdict := (if int_of_z a = 0 then "bad:invalid-token-span-differs-from-longest-viable-prefix"
                      else if atom os <> Io.string_of_z s then "bad:not-the-longest-match"
                      else "bad:wrong-rule-for-longest-match")
      | _ -> verdict := "bad:unparsable") texts outs
     with Invalid_argument _ -> verdict := "bad:unparsable");
    (L model, !verdict)
  | _ -> failwith "c09.scan")

(* c09.bisim: input (tables (rule ...) sc); the proved-sound certificate check Bisim.check_bisim between the real tables
   and the derivative vectors of the active rules.  Output "proved" when the certificate is accepted (then Scan agrees
   with spec_scan on EVERY text, C09_check_bisim_scan); "unknown:<why>" when the exploration gave up or the certificate
   was rejected for a reason that is not a difference; a difference (labels / moves) is a violation. *)
let bisim_cap = nat_of_int (try int_of_string (Sys.getenv "BISIM_CAP") with _ -> 200)
(* symbol maps with more intervals than this (large Unicode classes) are skipped: the certificate costs
   |pairs| x |intervals| x |class ranges|; set BISIM_MAXIV to check them too *)
let bisim_maxiv = (try int_of_string (Sys.getenv "BISIM_MAXIV") with _ -> 400)
let () = Reg.register "c09.bisim" (fun inp _out ->
  match lst inp with
  | [tb; rules; sc] ->
    let t = get_tables tb in
    let sc = get_z sc in
    let sci = int_of_z sc in
    let active = Stdlib.List.filter_map (fun r -> match lst r with
      | [d; a; p; scs] ->
        if Stdlib.List.mem sci (get_list get_int scs)
        then Some ((Deriv.rx_of (P_c10.get_re d), get_z a), get_z p) else None
      | _ -> failwith "rule") (lst rules) in
    if Stdlib.List.length t.Tables.symbol_map > bisim_maxiv then (A "unknown:large-symbol-map", "ok") else
    (match int_of_z (Bisim.check_bisim bisim_cap t active sc) with
     | 0 -> (A "proved", "ok")
     | 1 -> (A "unknown:exploration-cap", "ok")
     | 2 -> (A "unknown:certificate-not-applicable", "ok")
     | 3 -> (A "differs", "bad:tables-and-rule-derivatives-accept-differently-at-a-reachable-state")
     | _ -> (A "differs", "bad:tables-and-rule-derivatives-move-differently-at-a-reachable-state"))
  | _ -> failwith "c09.bisim")
