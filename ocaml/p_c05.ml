open Io
open BinNums
open Datatypes
open PTables

let get_default_enc x = match lst x with
  | [a; l; g; ft] -> { d_action = get_list get_z a; d_lalr = get_list get_z l; d_goto = get_list get_z g; d_from_to = get_list get_z ft }
  | _ -> failwith "default_enc"

let get_disp_enc x = match lst x with
  | [dg; g; da; a; b; t; c] ->
    { o_def_goto = get_list get_z dg; o_goto = get_list get_z g; o_def_act = get_list get_z da; o_action = get_list get_z a;
      o_base = get_z b; o_table = get_list get_z t; o_check = get_list get_z c }
  | _ -> failwith "disp_enc"

let put_disp_enc o = L [put_list put_z o.o_def_goto; put_list put_z o.o_goto; put_list put_z o.o_def_act; put_list put_z o.o_action;
                        put_z o.o_base; put_list put_z o.o_table; put_list put_z o.o_check]

let () = Reg.register "c05.opt" (fun inp out ->
  match lst inp with
  | [terms; rules; dr; enc] ->
    let t = get_default_enc enc in
    let terms = get_z terms and rules = get_z rules and dr = get_bool dr in
    let m = Optimize.optimize t terms rules dr in
    let o = get_disp_enc out in
    let ok = if dr then OptimizeSpec.check_enc_dr t o terms else OptimizeSpec.check_enc t o terms in
    (* the precondition of the once-and-for-all theorems (Props/C05.v: C05_optimize_passes_validator and ..._default_reduce *)
    let wf = OptimizeWf.wf_enc t terms rules in
    (put_disp_enc m, if not wf then "bad:tables-of-lalr.Compile-are-not-well-formed-(wf_enc)" else if ok then "ok" else if dr then "bad:compressed-tables-change-an-action-(defaultReduce)" else "bad:compressed-tables-decode-differently")
  | _ -> failwith "c05.opt")
