open Io
open BinNums
open Datatypes
open Expr
open Syn_io
module SL = Stdlib.List
module SS = Stdlib.String

let bytes_to_string (b : coq_Z list) : string = SS.init (SL.length b) (fun i -> Char.chr (int_of_z (SL.nth b i)))
let string_to_bytes (s : string) : coq_Z list = SL.init (SS.length s) (fun i -> z_of_int (Char.code s.[i]))

type rule = { lhs : int; rhs : int list; prec : int; value : expr; code : bool }
type facts = { syms : (string * string) list; tokens : int; inputs : (int * bool) list;
               precs : (int * int list) list; rules : rule list; las : (int * (int * bool) list) list }

let get_facts x = match lst x with
  | [syms; tokens; inputs; prec; rules; las] ->
    { syms = get_list (fun s -> match lst s with [n; i] -> (bytes_to_string (get_bytes n), bytes_to_string (get_bytes i)) | _ -> failwith "sym") syms;
      tokens = get_int tokens;
      inputs = get_list (fun i -> match lst i with [n; e] -> (get_int n, get_bool e) | _ -> failwith "input") inputs;
      precs = get_list (fun p -> match lst p with [a; ts] -> (get_int a, get_list get_int ts) | _ -> failwith "prec") prec;
      rules = get_list (fun r -> match lst r with
          | [l; rhs; p; v; c] -> { lhs = get_int l; rhs = get_list get_int rhs; prec = get_int p; value = get_expr v; code = get_bool c }
          | _ -> failwith "rule") rules;
      las = get_list (fun l -> match lst l with
          | [s; subs] -> (get_int s, get_list (fun p -> match lst p with [a; n] -> (get_int a, get_bool n) | _ -> failwith "la") subs)
          | _ -> failwith "las") las }
  | _ -> failwith "facts"

let strip_action_lines (s : string) : string =
  SS.concat "\n" (SL.filter (fun l -> not (SS.length l >= 3 && SS.sub l 0 3 = "\t\t\t")) (SS.split_on_char '\n' s))

(* ---- reading the .y file back (independent of the model) ---- *)
type parsed = { p_starts : (string * bool) list; p_precs : (string * string list) list; p_tokens : string list;
                p_groups : (string * string list) list (* name, bodies *) }

let words s = SL.filter (fun w -> w <> "") (SS.split_on_char ' ' s)
let starts_with p s = SS.length s >= SS.length p && SS.sub s 0 (SS.length p) = p

let parse_y (text : string) : parsed =
  let lines = SS.split_on_char '\n' text in
  let starts = ref [] and precs = ref [] and tokens = ref [] and groups = ref [] in
  let section = ref 0 in
  let cur = ref None in
  SL.iter (fun l ->
    if l = "%%" then incr section
    else if !section = 0 then begin
      if starts_with "%start " l then begin
        let ws = words l in
        starts := (SL.nth ws 1, SL.mem "no-eoi" ws) :: !starts
      end else if starts_with "%token " l then tokens := SL.nth (words l) 1 :: !tokens
      else if starts_with "%left" l || starts_with "%right" l || starts_with "%nonassoc" l then begin
        let ws = words l in
        precs := (SS.sub (SL.hd ws) 1 (SS.length (SL.hd ws) - 1), SL.tl ws) :: !precs
      end
    end else if !section = 1 then begin
      if starts_with "\t\t\t" l || starts_with "//" l || l = "" then ()
      else if l = ";" then (match !cur with Some (n, bs) -> groups := (n, SL.rev bs) :: !groups; cur := None | None -> ())
      else if starts_with "  " l || starts_with "| " l then
        (match !cur with Some (n, bs) -> cur := Some (n, SS.sub l 2 (SS.length l - 2) :: bs) | None -> failwith "body outside a rule")
      else if SS.length l > 2 && SS.sub l (SS.length l - 2) 2 = " :" then cur := Some (SS.sub l 0 (SS.length l - 2), [])
      else failwith ("unexpected line: " ^ l)
    end) lines;
  { p_starts = SL.rev !starts; p_precs = SL.rev !precs; p_tokens = SL.rev !tokens; p_groups = SL.rev !groups }

let bison_verdict (f : facts) (text : string) : string =
  match (try Some (parse_y text) with Failure _ -> None) with
  | None -> "bad:y-file-unreadable"
  | Some p ->
    let name s = Stdlib.fst (SL.nth f.syms s) and id s = Stdlib.snd (SL.nth f.syms s) in
    let sym_of_word w =
      (* terminals are written by ID, nonterminals by name *)
      let rec go i = if i >= SL.length f.syms then -1
        else if (i < f.tokens && id i = w) || (i >= f.tokens && name i = w) then i else go (i + 1) in go 0 in
    let tok_by_id t = (let rec go i = if i >= f.tokens then -1 else if id i = t then i else go (i + 1) in go 0) in
    let parse_body b =
      let ws = SL.filter (fun w -> not (starts_with "/*." w) && w <> "%empty") (words b) in
      let rec go ws acc = match ws with
        | "%prec" :: t :: _ -> (SL.rev acc, tok_by_id t)
        | w :: rest -> go rest (sym_of_word w :: acc)
        | [] -> (SL.rev acc, 0) in
      go ws [] in
    (* expected: rules grouped by left-hand side in order of first appearance *)
    let order = SL.fold_left (fun acc r -> if SL.mem r.lhs acc then acc else acc @ [r.lhs]) [] f.rules in
    let expected = SL.map (fun x -> (x, SL.filter (fun r -> r.lhs = x) f.rules)) order in
    let is_midrule s =
      let n = name s in
      SS.contains n '$' && (let rs = SL.filter (fun r -> r.lhs = s) f.rules in rs <> [] && SL.for_all (fun r -> r.rhs = [] && r.code) rs) in
    if SL.map (fun (n, e) -> (n, e)) p.p_starts <> SL.map (fun (nt, ne) -> (name (f.tokens + nt), ne)) f.inputs then "bad:start-symbols-differ"
    else if p.p_precs <> SL.map (fun (a, ts) -> (SL.nth ["left"; "right"; "nonassoc"] a, SL.map id ts)) f.precs then "bad:precedence-declarations-differ"
    else begin
      let in_prec = SL.concat_map Stdlib.snd f.precs in
      let want_tokens = SL.filter_map (fun t -> if t > 0 && not (SL.mem t in_prec) then Some (id t) else None) (SL.init f.tokens (fun i -> i)) in
      if SL.sort compare p.p_tokens <> SL.sort compare want_tokens then "bad:token-declarations-differ"
      else if SL.map Stdlib.fst p.p_groups <> SL.map (fun (x, _) -> name x) expected then "bad:nonterminal-order-or-set-differs"
      else begin
        let bad = ref "ok" in
        SL.iter2 (fun (n, bodies) (x, rs) ->
          if !bad = "ok" then begin
            if SL.length bodies <> SL.length rs then bad := "bad:number-of-rules-differs(" ^ n ^ ")"
            else SL.iter2 (fun b r ->
              if !bad = "ok" then begin
                let (rhs, prec) = if SL.mem_assoc x f.las then ([], 0) else parse_body b in
                if SL.mem (-1) rhs then bad := "bad:unknown-symbol-in-rule(" ^ n ^ ")"
                else if prec <> r.prec then bad := "bad:rule-precedence-differs(" ^ n ^ ")"
                else if rhs <> r.rhs then begin
                  if rhs = SL.filter (fun s -> not (is_midrule s)) r.rhs then bad := "bad:mid-rule-nonterminal-missing-from-exported-rhs"
                  else bad := "bad:rule-rhs-differs(" ^ n ^ ")"
                end
              end) bodies rs
          end) p.p_groups expected;
        !bad
      end
    end

let () = Reg.register "c30.bison" (fun inp out ->
  let f = get_facts inp in
  let text = bytes_to_string (get_bytes out) in
  let g = { Bison.bg_syms = SL.map (fun (n, i) -> { Bison.b_name = string_to_bytes n; Bison.b_id = string_to_bytes i }) f.syms;
            Bison.bg_tokens = z_of_int f.tokens;
            Bison.bg_inputs = SL.map (fun (n, e) -> (z_of_int n, e)) f.inputs;
            Bison.bg_prec = SL.map (fun (a, ts) -> (z_of_int a, SL.map z_of_int ts)) f.precs;
            Bison.bg_rules = SL.map (fun r -> { Bison.br_lhs = z_of_int r.lhs; Bison.br_value = r.value; Bison.br_has_code = r.code }) f.rules;
            Bison.bg_lookaheads = SL.map (fun (s, l) -> (z_of_int s, SL.map (fun (a, n) -> (z_of_int a, n)) l)) f.las } in
  let model = match Bison.bison_text g with
    | Some t -> put_bytes t
    | None -> A "abort" in
  (model, bison_verdict f text))
