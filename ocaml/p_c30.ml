open Io
open BinNums
open Datatypes
open Expr
open Syn_io
module SL = Stdlib.List
module SS = Stdlib.String

let bytes_to_string (b : coq_Z list) : string = SS.init (SL.length b) (fun i -> Char.chr (int_of_z (SL.nth b i)))
let string_to_bytes (s : string) : coq_Z list = SL.init (SS.length s) (fun i -> z_of_int (Char.code s.[i]))

type rule = { lhs : int; rhs : int list; prec : int; value : expr; code : bool }
type facts = { syms : (string * string) list; tokens : int; inputs : (int * bool) list;
               precs : (int * int list) list; rules : rule list; las : (int * (int * bool) list) list }

let get_facts x = match lst x with
  | [syms; tokens; inputs; prec; rules; las] ->
    { syms = get_list (fun s -> match lst s with [n; i] -> (bytes_to_string (get_bytes n), bytes_to_string (get_bytes i)) | _ -> failwith "sym") syms;
      tokens = get_int tokens;
      inputs = get_list (fun i -> match lst i with [n; e] -> (get_int n, get_bool e) | _ -> failwith "input") inputs;
      precs = get_list (fun p -> match lst p with [a; ts] -> (get_int a, get_list get_int ts) | _ -> failwith "prec") prec;
      rules = get_list (fun r -> match lst r with
          | [l; rhs; p; v; c] -> { lhs = get_int l; rhs = get_list get_int rhs; prec = get_int p; value = get_expr v; code = get_bool c }
          | _ -> failwith "rule") rules;
      las = get_list (fun l -> match lst l with
          | [s; subs] -> (get_int s, get_list (fun p -> match lst p with [a; n] -> (get_int a, get_bool n) | _ -> failwith "la") subs)
          | _ -> failwith "las") las }
  | _ -> failwith "facts"

let strip_action_lines (s : string) : string =
  SS.concat "\n" (SL.filter (fun l -> not (SS.length l >= 3 && SS.sub l 0 3 = "\t\t\t")) (SS.split_on_char '\n' s))

(* ---- reading the .y file back: the reader is BisonRead.read_file extracted from Coq (lines -> groups ->
   words -> symbols), proved exact on the model's rendering for grammars with bison_wf && decls_wf
   (Props/C30.v: C30_read_back_file); it is independent of the model of the exporter ---- *)
let bison_verdict (g : Bison.bgrammar) (f : facts) (text : string) : string =
  if not (BisonRead.bison_wf g && BisonRead.decls_wf g) then "bad:grammar-outside-the-domain-of-the-proved-reader"
  else match BisonRead.read_file g (string_to_bytes text) with
  | None -> "bad:y-file-unreadable-or-unknown-symbol"
  | Some y ->
    let ints l = SL.map int_of_z l in
    let p_starts = SL.map (fun (s, e) -> (int_of_z s, e)) y.BisonRead.y_starts in
    let p_precs = SL.map (fun (a, ts) -> (int_of_z a, ints ts)) y.BisonRead.y_precs in
    let p_tokens = ints y.BisonRead.y_tokens in
    let p_groups = SL.map (fun (x, rs) ->
        (int_of_z x, SL.map (fun (rhs, p) -> (ints rhs, match p with Some t -> int_of_z t | None -> 0)) rs)) y.BisonRead.y_groups in
    let name s = Stdlib.fst (SL.nth f.syms s) in
    (* expected: rules grouped by left-hand side in order of first appearance *)
    let order = SL.fold_left (fun acc r -> if SL.mem r.lhs acc then acc else acc @ [r.lhs]) [] f.rules in
    let expected = SL.map (fun x -> (x, SL.filter (fun r -> r.lhs = x) f.rules)) order in
    let is_midrule s =
      let n = name s in
      SS.contains n '$' && (let rs = SL.filter (fun r -> r.lhs = s) f.rules in rs <> [] && SL.for_all (fun r -> r.rhs = [] && r.code) rs) in
    if p_starts <> SL.map (fun (nt, ne) -> (f.tokens + nt, ne)) f.inputs then "bad:start-symbols-differ"
    else if p_precs <> f.precs then "bad:precedence-declarations-differ"
    else begin
      let in_prec = SL.concat_map Stdlib.snd f.precs in
      let want_tokens = SL.filter (fun t -> t > 0 && not (SL.mem t in_prec)) (SL.init f.tokens (fun i -> i)) in
      if SL.sort compare p_tokens <> SL.sort compare want_tokens then "bad:token-declarations-differ"
      else if SL.map Stdlib.fst p_groups <> order then "bad:nonterminal-order-or-set-differs"
      else begin
        let bad = ref "ok" in
        SL.iter2 (fun (x, bodies) (_, rs) ->
          let n = name x in
          if !bad = "ok" then begin
            if SL.length bodies <> SL.length rs then bad := "bad:number-of-rules-differs(" ^ n ^ ")"
            else SL.iter2 (fun (rhs, prec) r ->
              if !bad = "ok" then begin
                if prec <> r.prec then bad := "bad:rule-precedence-differs(" ^ n ^ ")"
                else if rhs <> r.rhs then begin
                  if rhs = SL.filter (fun s -> not (is_midrule s)) r.rhs then bad := "bad:mid-rule-nonterminal-missing-from-exported-rhs"
                  else bad := "bad:rule-rhs-differs(" ^ n ^ ")"
                end
              end) bodies rs
          end) p_groups expected;
        !bad
      end
    end

let () = Reg.register "c30.bison" (fun inp out ->
  let f = get_facts inp in
  let text = bytes_to_string (get_bytes out) in
  let g = { Bison.bg_syms = SL.map (fun (n, i) -> { Bison.b_name = string_to_bytes n; Bison.b_id = string_to_bytes i }) f.syms;
            Bison.bg_tokens = z_of_int f.tokens;
            Bison.bg_inputs = SL.map (fun (n, e) -> (z_of_int n, e)) f.inputs;
            Bison.bg_prec = SL.map (fun (a, ts) -> (z_of_int a, SL.map z_of_int ts)) f.precs;
            Bison.bg_rules = SL.map (fun r -> { Bison.br_lhs = z_of_int r.lhs; Bison.br_value = r.value; Bison.br_has_code = r.code }) f.rules;
            Bison.bg_lookaheads = SL.map (fun (s, l) -> (z_of_int s, SL.map (fun (a, n) -> (z_of_int a, n)) l)) f.las } in
  let model = match Bison.bison_text g with
    | Some t -> put_bytes t
    | None -> A "abort" in
  (model, bison_verdict g f text))
