(* C19: recovering generated parsers vs the recovery model (Recover.rrun); the oracle checks the property on the
   implementation's own answers: no crash, error offsets inside the input and non-decreasing, and on inputs the
   error-free variant of the grammar accepts: no error, same events and result. *)
open Io
open BinNums
open Datatypes
open PTables
open Run
open Events
open Recover

let parse_run x = match x with
  | L (A r :: rest) ->
    let rec split acc = function
      | [L (A "errors" :: errs); L (A "events" :: evs)] -> (Stdlib.List.rev acc, errs, evs)
      | A s :: tl -> split (s :: acc) tl
      | _ -> failwith "c19 out" in
    split [r] rest
  | A s -> ([s], [], [])
  | _ -> failwith "c19 run"

let redterm_fuel = nat_of_int 256

let () = Reg.register "c19.recover" (fun inp out ->
  match lst inp with
  | [gtm; tables; evt; fixws; errsym; after; names; samples] ->
    let gtm = P_c03.get_grammar gtm in
    let ((enc, opt, _, _, finals, _) as t) = P_c01.get_tables tables in
    let m = P_c01.machine_of gtm.Cfg.g_terms t in
    let names = Stdlib.Array.of_list (Stdlib.List.map atom (lst names)) in
    let evt = P_c02.get_ev_table evt and fixws = get_bool fixws in
    let shift_ok = (match opt with Some o -> Recover.shift_ok_opt o | None -> Recover.shift_ok_default enc) in
    let deep = (match opt with Some _ -> (fun _ _ -> false) | None -> (fun s a -> Run.lalr_deep enc s a)) in
    let verdict = ref "ok" in
    (* the tables pass the reduction-termination validators (RedTerm.check_redterm / check_range, premises of
       C19_recovering_parse_terminates_on_validated_tables): per grammar, for all inputs *)
    let (_, _, _, _, _, nstates) = t in
    let nterms = gtm.Cfg.g_terms in
    let nsyms = Z.add gtm.Cfg.g_terms gtm.Cfg.g_nonterms in
    if not (RedTerm.check_range m nstates nterms nsyms) then verdict := "bad:tables-mention-states-or-symbols-outside-their-range"
    else if not (RedTerm.check_redterm m nstates nterms nsyms redterm_fuel) then verdict := "bad:reduction-sequences-not-bounded(check_redterm)"
    else if not (RedTerm.check_eoi m nstates (Stdlib.List.nth finals 0)) then verdict := "bad:end-of-input-shifted-outside-the-end-state"
    else if not (let e = get_z errsym in Z.compare e Z0 <> Lt && Z.compare e nsyms = Lt) then verdict := "bad:error-symbol-outside-the-tables"
    (* premises of the certified-tables theorems (C19_recovering_parse_never_crashes, _terminates_on_certified_tables,
       _terminates_on_validated_optimized_tables), both encodings: C01's certificate check on the generated certificate and
       gotoState(s, errSymbol) agreeing with the action table *)
    else if int_of_z (CertGen.validate gtm m nstates finals P_c01.fuel_cert) <> 0 then verdict := "bad:tables-fail-the-certificate-check(C01)"
    else if not (RecoverSafe.check_err_goto m nstates nterms (get_z errsym)) then verdict := "bad:goto-on-error-disagrees-with-the-action-table"
    else if Sys.getenv_opt "VERIF_C19_F4" <> None && not (RedTerm.check_redterm m nstates nterms nsyms (nat_of_int 4)) then verdict := "bad:anchored-reduction-phase-longer-than-4"
    (* gotoState(-1, errSymbol) = -1: evaluated for the default encoding; with optimized tables the generated
       gotoState indexes tmAction[-1] (a panic the model does not reproduce), so the premise is not claimed there *)
    else if opt = None && Z.compare (m.m_goto (z_of_int (-1)) (get_z errsym)) (z_of_int (-1)) <> Eq
    then verdict := "bad:goto-on-error-from-state-minus-one";
    (match Sys.getenv_opt "VERIF_C19_DEBUG" with
     | Some _ -> Printf.eprintf "c19 redterm: nstates=%d T=%d NS=%d longest=%d verdict=%s\n%!" (int_of_z nstates) (int_of_z nterms) (int_of_z nsyms)
                   (int_of_nat (RedTerm.redterm_longest m nstates nterms nsyms redterm_fuel)) !verdict
     | None -> ());
    let model = Stdlib.List.map2 (fun s o ->
      match lst s, lst o with
      | [len; _valid; toks], [runs; plain] ->
        let toks = get_list (fun t -> let (a, b, c) = P_c02.get_triple t in { t_sym = get_z a; t_off = get_z b; t_end = get_z c }) toks in
        let eoi_off = get_z len in
        let n = Stdlib.List.length toks in
        let p = { rp_m = m; rp_evt = evt; rp_fixws = fixws; rp_eoi_off = eoi_off; rp_end = Stdlib.List.nth finals 0;
                  rp_err_sym = get_z errsym; rp_after_err = get_list get_z after; rp_shift_ok = shift_ok; rp_deep = deep } in
        let runs = lst runs in
        let mruns = Stdlib.List.mapi (fun k _ ->
          let stop_after = k in   (* modes 0:0, 0:1, 0:2 *)
          let eh cnt = stop_after = 0 || int_of_nat cnt < stop_after in
          let (oc, c) = Recover.rrun (nat_of_int (60 * n + 600)) p eh (z_of_int 0) toks in
          let res = (match oc with
            | RAccept -> [A "accept"]
            | RSyntax (o, e) -> [A "syntax"; put_z o; put_z e]
            | RCrash w -> [A ("panic" ^ string_of_int (int_of_z w))]
            | RFuel -> [A "timeout"]) in
          L (res @ [L (A "errors" :: Stdlib.List.map (fun (o, e) -> L [put_z o; put_z e]) c.rc_errors);
                    L (A "events" :: Stdlib.List.map (fun ((t, o), e) -> L [A names.(int_of_z t); put_z o; put_z e]) c.rc_x.xc_events)])) runs in
        (* the property, on the implementation's answers *)
        (if !verdict = "ok" then begin
          let (pres, _, pevs) = parse_run plain in
          Stdlib.List.iter (fun r ->
            if !verdict = "ok" then begin
              let (res, errs, evs) = parse_run r in
              let errs = Stdlib.List.map (fun e -> match lst e with [a; b] -> (get_int a, get_int b) | _ -> failwith "err") errs in
              let l = int_of_z eoi_off in
              (match res with
               | ["accept"] | ["syntax"; _; _] -> ()
               | _ -> verdict := "bad:recovering-parser-crashed-or-hung");
              if Stdlib.List.exists (fun (a, b) -> a < 0 || b > l || a > b) errs then verdict := "bad:error-range-outside-the-input";
              let rec mono = function (a, _) :: (((b, _) :: _) as tl) -> a <= b && mono tl | _ -> true in
              if not (mono errs) then verdict := "bad:error-offsets-decrease";
              if pres = ["accept"] then begin
                if errs <> [] then verdict := "bad:error-reported-on-a-sentence"
                else if res <> ["accept"] || evs <> pevs then verdict := "bad:recovery-changes-events-or-result-on-a-sentence"
              end
            end) runs
        end);
        L [L mruns; plain]
      | _ -> failwith "sample") (lst samples) (lst out) in
    (L model, !verdict)
  | _ -> failwith "c19.recover")

let () = Reg.register "c19.nocompile" (fun _ _ -> (A "compiles", "ok"))

(* the shipped recovering parsers (js with its hand-written loop, tm, test): (name valid len text) -> (status ((off end) ...)) *)
let () = Reg.register "c19.shipped" (fun inp out ->
  match lst inp, lst out with
  | [_; valid; len; _], [st; errs] ->
    let errs = Stdlib.List.map (fun e -> match lst e with [a; b] -> (get_int a, get_int b) | _ -> failwith "err") (lst errs) in
    let l = get_int len in
    let rec mono = function (a, _) :: (((b, _) :: _) as tl) -> a <= b && mono tl | _ -> true in
    let verdict =
      if atom st = "unreported" then "bad:parse-returned-a-syntax-error-the-handler-never-saw"
      else if atom st <> "ok" then "bad:recovering-parser-crashed-or-hung"
      else if Stdlib.List.exists (fun (a, b) -> a < 0 || b > l || a > b) errs then "bad:error-range-outside-the-input"
      else if not (mono errs) then "bad:error-offsets-decrease"
      else if get_int valid = 1 && errs <> [] then "bad:error-reported-on-a-sentence"
      else "ok" in
    (out, verdict)
  | _ -> failwith "c19.shipped")
