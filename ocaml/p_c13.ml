open Io
open BinNums
open Datatypes
open Expr
open Syn_io
module SL = Stdlib.List

(* language oracle: for every original nonterminal (found by name in the implementation's output) and
   every word up to a small length, membership in the extended-notation semantics of the INPUT model
   (ExtLang.ext chart on the Expr trees) must equal membership in the plain grammar read from the
   implementation's OUTPUT (Derive chart). *)
let words_for t = (* all words over [0,t) up to a length chosen so that the count stays small *)
  let maxlen = if t <= 2 then 5 else if t = 3 then 4 else 3 in
  ExtLang.words_upto (SL.init t (fun i -> z_of_int i)) (nat_of_int maxlen)

let index_of_name (n : coq_Z list) (nts : (coq_Z list * expr) list) : int =
  let rec go l k = match l with [] -> -1 | (m, _) :: r -> if m = n then k else go r (k + 1) in go nts 0

let compare_languages (m : model) (g : Cfg.grammar) (targets : (int * int) list) : string =
  let t = SL.length m.m_terms in
  let tz = z_of_int t in
  let setterms i = SL.map z_of_int (eval_tset_terms t m.m_sets 16 (SL.nth m.m_sets (int_of_z i))) in
  let in_vals = SL.map (fun nt -> nt.nt_value) m.m_nonterms in
    if SL.exists (fun (_, k) -> k < 0) targets then "bad:original-nonterminal-missing" else
    let bad = ref "ok" in
    SL.iter (fun w ->
      if !bad = "ok" then begin
        let n = Stdlib.List.length w in
        let nn = nat_of_int n in
        let fuel = nat_of_int ((n + 1) * (n + 1) * (SL.length in_vals) + 1) in
        let ec = ExtLang.ext_chart_fix fuel tz setterms in_vals w (SL.init ((n + 1) * (n + 1)) (fun _ -> [])) in
        let dc = Derive.build_chart g w in
        SL.iter (fun (i, k) ->
          let want = Cfg.mem (z_of_int (t + i)) (SL.nth ec n) in
          let got = Derive.sym_derives g w nn dc (z_of_int (t + k)) O nn in
          if want <> got && !bad = "ok" then
            bad := Printf.sprintf "bad:language-differs(nonterm=%d,word=%s,extended=%b,expanded=%b)" i
                (String.concat "." (SL.map (fun z -> string_of_int (int_of_z z)) w)) want got) targets
      end) (words_for t);
    !bad

let language_verdict (m : model) (out_nts : (coq_Z list * expr) list) : string =
  let t = SL.length m.m_terms in
  let tz = z_of_int t in
  let setterms i = SL.map z_of_int (eval_tset_terms t m.m_sets 16 (SL.nth m.m_sets (int_of_z i))) in
  let out_vals = SL.map Stdlib.snd out_nts in
  match ExtLang.to_cfg tz setterms out_vals with
  | None -> "bad:produced-rule-is-not-flat"
  | Some g when not (CfgNonneg.nonneg_rules g) -> "bad:negative-symbol-in-produced-rule"
  | Some g -> compare_languages m g (SL.mapi (fun i nt -> (i, index_of_name nt.nt_name out_nts)) m.m_nonterms)

(* classification of one known deviation: a set(...) with no terminals denotes the empty language, the
   implementation gives its nonterminal the single rule %empty *)
let set_is_empty (m : model) (i : coq_Z) : bool =
  eval_tset_terms (SL.length m.m_terms) m.m_sets 16 (SL.nth m.m_sets (int_of_z i)) = []
let rec map_sets (f : coq_Z -> expr) (e : expr) : expr =
  let r = map_sets f in
  match e with
  | ESet i -> f i
  | EOpt s -> EOpt (r s) | EChoice l -> EChoice (SL.map r l) | ESeq l -> ESeq (SL.map r l)
  | EAssign (n, s) -> EAssign (n, r s) | EAppend (n, s) -> EAppend (n, r s) | EArrow (n, f, s) -> EArrow (n, f, r s)
  | EList (fl, el, sep) -> EList (fl, r el, (match sep with None -> None | Some s -> Some (r s)))
  | ECond (p, s) -> ECond (p, r s) | EPrec (sym, s) -> EPrec (sym, r s)
  | _ -> e
let rec uses_set (p : coq_Z -> bool) (e : expr) : bool =
  match e with
  | ESet i -> p i
  | EOpt s | EAssign (_, s) | EAppend (_, s) | EArrow (_, _, s) | ECond (_, s) | EPrec (_, s) -> uses_set p s
  | EChoice l | ESeq l -> SL.exists (uses_set p) l
  | EList (_, el, sep) -> uses_set p el || (match sep with None -> false | Some s -> uses_set p s)
  | _ -> false
let has_empty_set m = SL.exists (fun nt -> uses_set (set_is_empty m) nt.nt_value) m.m_nonterms
let empty_sets_as_epsilon m =
  { m with m_nonterms = SL.map (fun nt -> { nt with nt_value = map_sets (fun i -> if set_is_empty m i then EEmpty else ESet i) nt.nt_value }) m.m_nonterms }

(* end to end: .tm text through compiler.Compile; the rules are grammar.Parser.Rules (LHS/RHS) *)
let () = Reg.register "c13.tm" (fun inp out ->
  let m = get_model inp in
  let verdict = match lst out with
    | [A "err"] -> "ok"
    | [A "ok"; t; syms; rules] ->
      let t = get_int t in
      let syms = get_list get_bytes syms in
      if t <> SL.length m.m_terms || SL.filteri (fun i _ -> i < t) syms <> m.m_terms then "bad:harness-terminal-numbering"
      else begin
        let rules = get_list (fun r -> match lst r with
            | [l; rhs] -> { Cfg.r_lhs = get_z l; Cfg.r_rhs = get_list get_z rhs; Cfg.r_prec = z_of_int 0 }
            | _ -> failwith "rule") rules in
        let g = { Cfg.g_terms = z_of_int t; Cfg.g_nonterms = z_of_int (SL.length syms - t); Cfg.g_rules = rules;
                  Cfg.g_inputs = []; Cfg.g_prec = [] } in
        let nts = SL.filteri (fun i _ -> i >= t) syms in
        let idx n = (let rec go l k = match l with [] -> -1 | x :: r -> if x = n then k else go r (k + 1) in go nts 0) in
        let targets = SL.mapi (fun i nt -> (i, idx nt.nt_name)) m.m_nonterms in
        let v = compare_languages m g targets in
        if v = "ok" || not (has_empty_set m) then v
        else if compare_languages (empty_sets_as_epsilon m) g targets = "ok"
        then "bad:empty-set-derives-the-empty-string" else v
      end
    | _ -> "bad:unparsable" in
  (A "-", verdict))

let () = Reg.register "c13.expand" (fun inp out ->
  let m = get_model inp in
  let r = Expand.expand m in
  let model = if r.Expand.res_error || r.Expand.res_fatal then L [A "err"]
    else L [A "ok"; put_nonterms r.Expand.res_nonterms; put_inputs r.Expand.res_inputs] in
  let verdict = match lst out with
    | [A "err"] -> "ok"   (* rejecting is not a language change *)
    | [A "ok"; nts; _] ->
      (* the side conditions of the Coq theorem C13_expand_correct, evaluated on this model *)
      if not (Expand.expand_checks m) then "bad:side-conditions-of-the-correctness-theorem-do-not-hold"
      (* the static hypothesis of C13_expand_correct_wf (implies expand_checks for every model) *)
      else if not (ExpandWf.wf_model m) then "bad:static-well-formedness-wf_model-does-not-hold"
      else language_verdict m (get_nonterms nts)
    | _ -> "bad:unparsable" in
  (model, verdict))
