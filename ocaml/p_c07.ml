(* C07: LALR(k) tables: the proved soundness check (ValidatorK.check_k) on lalr.Compile's tables, and the loop model
   with deep rows running on them, judged by the CFG recognisers (accepts exactly the sentences). *)
open Io
open BinNums
open Datatypes
open PTables
open Run

let rec firstn k l = if k <= 0 then [] else match l with [] -> [] | x :: r -> x :: firstn (k - 1) r


(* ---- untrusted generator of the k-lookahead certificate judged by ValidatorKC.check_kc: the LR(0) items of
   CertGen.gen_cert with LALR(k) lookahead strings propagated to a fixpoint over the tables' own gotos ---- *)
module SS = Set.Make (struct type t = int list let compare = Stdlib.compare end)

let kc_limit = 60000   (* total number of lookahead strings above which the certificate is not built *)

let gen_kcert (g : Cfg.grammar) enc (cert : Validator.cert) (k : int) =
  let t = int_of_z g.Cfg.g_terms in
  let rules = Stdlib.Array.of_list (Stdlib.List.map (fun r -> (int_of_z r.Cfg.r_lhs, Stdlib.List.map int_of_z r.Cfg.r_rhs)) g.Cfg.g_rules) in
  let nr = Stdlib.Array.length rules in
  let inputs = Stdlib.Array.of_list g.Cfg.g_inputs in
  let ns = t + int_of_z g.Cfg.g_nonterms in
  let arule r = if r < nr then snd rules.(r) else
    let (nt, eoi) = inputs.(r - nr) in if eoi then [int_of_z nt; 0] else [int_of_z nt] in
  let cat a b = firstn k (a @ b) in
  let concat a b = SS.fold (fun x acc ->
      if Stdlib.List.length x >= k then SS.add (firstn k x) acc else SS.fold (fun y acc -> SS.add (cat x y) acc) b acc) a SS.empty in
  let fk = Stdlib.Array.make (ns + 1) SS.empty in
  let sym x = if x < t then SS.singleton (firstn k [x]) else if x <= ns then fk.(x) else SS.empty in
  let seq xs = Stdlib.List.fold_right (fun x acc -> concat (sym x) acc) xs (SS.singleton []) in
  let changed = ref true in
  while !changed do
    changed := false;
    Stdlib.Array.iter (fun (l, rhs) ->
      if l >= 0 && l <= ns then begin
        let s = SS.union fk.(l) (seq rhs) in
        if SS.cardinal s <> SS.cardinal fk.(l) then (fk.(l) <- s; changed := true) end) rules
  done;
  let la : (int * int * int, SS.t) Hashtbl.t = Hashtbl.create 97 in
  let states = Stdlib.List.mapi (fun q its -> (q, Stdlib.List.map (fun ((r, d), _) -> (int_of_nat r, int_of_nat d)) its)) cert in
  Stdlib.List.iter (fun (q, its) -> Stdlib.List.iter (fun (r, d) -> Hashtbl.replace la (q, r, d) SS.empty) its) states;
  Stdlib.Array.iteri (fun i _ -> if Hashtbl.mem la (i, nr + i, 0) then Hashtbl.replace la (i, nr + i, 0) (SS.singleton [])) inputs;
  let total = ref 0 in
  let add key s =
    match Hashtbl.find_opt la key with
    | None -> ()
    | Some old -> let n = SS.union old s in
      if SS.cardinal n <> SS.cardinal old then (total := !total + SS.cardinal n - SS.cardinal old; Hashtbl.replace la key n; changed := true) in
  let goto q x = int_of_z (PTables.goto_state enc (z_of_int q) (z_of_int x)) in
  changed := true;
  while !changed && !total <= kc_limit do
    changed := false;
    Stdlib.List.iter (fun (q, its) -> Stdlib.List.iter (fun (r, d) ->
      let l = Hashtbl.find la (q, r, d) in
      let rhs = arule r in
      if not (SS.is_empty l) && d < Stdlib.List.length rhs then begin
        let x = Stdlib.List.nth rhs d in
        let q' = goto q x in
        if q' >= 0 then add (q', r, d + 1) l;
        if x >= t then begin
          let rec drop n l = if n <= 0 then l else match l with [] -> [] | _ :: r -> drop (n - 1) r in
          let l' = concat (seq (drop (d + 1) rhs)) l in
          Stdlib.Array.iteri (fun r' (lhs, _) -> if lhs = x then add (q, r', 0) l') rules
        end
      end) its) states
  done;
  if !total > kc_limit then None else begin
    let strs s = Stdlib.List.map (Stdlib.List.map z_of_int) (SS.elements s) in
    let ftk = Stdlib.List.filter_map (fun x -> if x >= t then Some (z_of_int x, strs fk.(x)) else None) (Stdlib.List.init (ns + 1) (fun x -> x)) in
    let kann = Stdlib.List.map (fun (q, its) -> Stdlib.List.map (fun (r, d) -> ((nat_of_int r, nat_of_int d), strs (Hashtbl.find la (q, r, d)))) its) states in
    Some (ftk, kann, !total)
  end

let () = Reg.register "c07.tables" (fun inp out ->
  match lst inp with
  | [g; _k; tables; batches] ->
    let g = P_c03.get_grammar g in
    let (enc, _, rl, rs, finals, nstates) = P_c01.get_tables tables in
    let m = Run.default_machine enc rl rs in
    let (cert, _) = CertGen.gen_cert g (nat_of_int 400) in
    let r = int_of_z (ValidatorK.check_k_report g enc rl rs nstates finals cert) in
    let verdict = ref "ok" in
    (* the completeness check (ValidatorKC.check_kc, proved: every sentence is accepted) with a k-lookahead certificate *)
    let kk = get_int _k in
    let rc = (match gen_kcert g enc cert kk with
      | None -> -1
      | Some (ftk, kann, _) -> int_of_z (ValidatorKC.check_kc_report g enc rl rs nstates finals (nat_of_int kk) ftk kann)) in
    (* rc = -1: certificate too large to build (more than kc_limit lookahead strings): the completeness half is then
       judged by the sampled runs only *)
    if rc > 0 then verdict := "bad:lalr-k-tables-fail-completeness-check-clause-" ^ string_of_int rc;
    if Sys.getenv_opt "C07_KC_TRACE" <> None then Printf.eprintf "C07KC k=%d report=%d\n%!" kk rc;
    Stdlib.List.iter (fun b -> match lst b with
      | [idx; strs] ->
        let i = get_int idx in
        let (nt, eoi) = Stdlib.List.nth g.Cfg.g_inputs i in
        Stdlib.List.iter (fun s ->
          if !verdict = "ok" then begin
            let w = get_list get_z s in
            let n = Stdlib.List.length w in
            let (oc, c) = Validator.parse (nat_of_int (40 * n + 400)) m finals (nat_of_int i) w in
            let sentence p = Derive.derives_dec g nt p in
            let insent = if eoi then sentence w else Stdlib.List.exists (fun j -> sentence (firstn j w)) (Stdlib.List.init (n + 1) (fun j -> j)) in
            match oc with
            | Accept -> if not insent then verdict := "bad:lalr-k-tables-accept-a-non-sentence"
            | SyntaxError (_, _, _) -> if insent then verdict := "bad:lalr-k-tables-reject-a-sentence"
            | _ -> verdict := "bad:loop-crashes-or-diverges-on-these-tables"
          end) (lst strs)
      | _ -> failwith "batch") (lst batches);
    let depth = (match lst out with [_; d] -> d | _ -> A "0") in
    (L [(if r = 0 then A "validated" else A ("rejected-clause-" ^ string_of_int r)); depth], !verdict)
  | _ -> failwith "c07.tables")

(* c07.gen: generated Go parsers of `:: parser lalr(k)` grammars (runtime deep lookahead, resolveDeepLA) on token
   sequences rendered with blanks / injected comments / invalid characters between the tokens. Oracle: the chart
   recogniser on the token sequence; all renderings must give the same result; model: the loop model (deep rows
   walking the token list) on the tables the generated parser embeds. *)
let () = Reg.register "c07.gen" (fun inp out ->
  match lst inp with
  | [cfg; _k; gtm; tables; tmap; items] ->
    let tmap = Stdlib.Array.of_list (get_list get_z tmap) in
    let cfg = P_c03.get_grammar cfg in
    let gtm = P_c03.get_grammar gtm in
    let (nt, _) = Stdlib.List.nth cfg.Cfg.g_inputs 0 in
    let (enc, opt, rl, rs, finals, _) = P_c01.get_tables tables in
    let m = (match opt with Some o -> Run.opt_machine o gtm.Cfg.g_terms rl rs | None -> Run.default_machine enc rl rs) in
    let verdict = ref "ok" in
    let bad v = if !verdict = "ok" then verdict := v in
    let model = Stdlib.List.map2 (fun it o ->
      match lst it with
      | [toks; rends] ->
        let w = get_list get_z toks in
        let n = Stdlib.List.length w in
        let wt = Stdlib.List.map (fun t -> tmap.(int_of_z t)) w in
        let (oc, _) = Validator.parse (nat_of_int (40 * n + 400)) m finals O wt in
        let mo = (match oc with
          | Accept -> L [A "accept"]
          | SyntaxError (_, _, k) -> L [A "syntax"; put_z k]
          | Crash _ -> A "panic"
          | OutOfFuel -> A "timeout") in
        let sentence = Derive.derives_dec cfg nt w in
        let plain = ref None in
        Stdlib.List.iteri (fun j r ->
          let acc = (match r with
            | L [A "accept"] -> Some true
            | L [A "syntax"; _] | L [A "syntax-at-offset"; _] -> Some false
            | _ -> None) in
          (match acc with
           | None -> bad "bad:generated-lalr-k-parser-crashed-or-hung"
           | Some a ->
             if j = 0 then begin
               plain := Some a;
               if a && not sentence then bad "bad:generated-lalr-k-parser-accepts-a-non-sentence"
               else if (not a) && sentence then bad "bad:generated-lalr-k-parser-rejects-a-sentence"
             end else if a && not sentence then
               bad (if !plain = Some a then "bad:generated-lalr-k-parser-accepts-a-non-sentence"
                    else "bad:generated-lalr-k-parser-accepts-a-non-sentence-when-comments-or-blanks-are-skipped")
             else if (not a) && sentence then
               bad (if !plain = Some a then "bad:generated-lalr-k-parser-rejects-a-sentence"
                    else "bad:generated-lalr-k-parser-rejects-a-sentence-when-comments-or-blanks-are-skipped"))) (lst o);
        L (Stdlib.List.map (fun _ -> mo) (lst rends))
      | _ -> failwith "c07.gen item") (lst items) (lst out) in
    (L model, !verdict)
  | _ -> failwith "c07.gen")

let () = Reg.register "c07.nocompile" (fun _ _ -> (A "compiles", "ok"))
