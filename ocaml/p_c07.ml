(* C07: LALR(k) tables: the proved soundness check (ValidatorK.check_k) on lalr.Compile's tables, and the loop model
   with deep rows running on them, judged by the CFG recognisers (accepts exactly the sentences). *)
open Io
open BinNums
open Datatypes
open PTables
open Run

let rec firstn k l = if k <= 0 then [] else match l with [] -> [] | x :: r -> x :: firstn (k - 1) r

let () = Reg.register "c07.tables" (fun inp out ->
  match lst inp with
  | [g; _k; tables; batches] ->
    let g = P_c03.get_grammar g in
    let (enc, _, rl, rs, finals, nstates) = P_c01.get_tables tables in
    let m = Run.default_machine enc rl rs in
    let (cert, _) = CertGen.gen_cert g (nat_of_int 400) in
    let r = int_of_z (ValidatorK.check_k_report g enc rl rs nstates finals cert) in
    let verdict = ref "ok" in
    Stdlib.List.iter (fun b -> match lst b with
      | [idx; strs] ->
        let i = get_int idx in
        let (nt, eoi) = Stdlib.List.nth g.Cfg.g_inputs i in
        Stdlib.List.iter (fun s ->
          if !verdict = "ok" then begin
            let w = get_list get_z s in
            let n = Stdlib.List.length w in
            let (oc, c) = Validator.parse (nat_of_int (40 * n + 400)) m finals (nat_of_int i) w in
            let sentence p = Derive.derives_dec g nt p in
            let insent = if eoi then sentence w else Stdlib.List.exists (fun j -> sentence (firstn j w)) (Stdlib.List.init (n + 1) (fun j -> j)) in
            match oc with
            | Accept -> if not insent then verdict := "bad:lalr-k-tables-accept-a-non-sentence"
            | SyntaxError (_, _, _) -> if insent then verdict := "bad:lalr-k-tables-reject-a-sentence"
            | _ -> verdict := "bad:loop-crashes-or-diverges-on-these-tables"
          end) (lst strs)
      | _ -> failwith "batch") (lst batches);
    let depth = (match lst out with [_; d] -> d | _ -> A "0") in
    (L [(if r = 0 then A "validated" else A ("rejected-clause-" ^ string_of_int r)); depth], !verdict)
  | _ -> failwith "c07.tables")
