open Io
open BinNums
open Datatypes
let fst = Stdlib.fst
let snd = Stdlib.snd
let length = Stdlib.List.length
open IntSet
open Closure


let get_set x = match lst x with
  | [i; es] -> { inverse = get_bool i; elems = get_list get_z es }
  | _ -> failwith "set"
let put_set s = L [put_bool s.inverse; put_list put_z s.elems]

let universe (sets : intset list) : coq_Z list =
  let all = List.concat_map (fun s -> s.elems) sets in
  let ints = List.map int_of_z all in
  let lo = List.fold_left min 0 ints - 1 and hi = List.fold_left max 0 ints + 1 in
  List.init (hi - lo + 1) (fun i -> z_of_int (lo + i))

let () = Reg.register "c25.op" (fun inp out ->
  match lst inp with
  | [A op; a; b] ->
    let a = get_set a and b = get_set b in
    let m = (match op with
      | "merge" -> IntSet.set_merge a b
      | "intersect" -> IntSet.set_intersect a b
      | "complement" -> IntSet.complement a
      | _ -> failwith "op") in
    let r = get_set out in
    let expect x = (match op with
      | "merge" -> IntSet.mem x a || IntSet.mem x b
      | "intersect" -> IntSet.mem x a && IntSet.mem x b
      | _ -> not (IntSet.mem x a)) in
    let ok = IntSet.sortedb r.elems && List.for_all (fun x -> IntSet.mem x r = expect x) (universe [a; b; r]) in
    (put_set m, if ok then "ok" else "bad:set-semantics")
  | _ -> failwith "c25.op")

let get_node x = match lst x with
  | [A op; edges; es] ->
    { n_op = (match op with "u" -> OpUnion | "i" -> OpIntersection | "c" -> OpComplement | _ -> failwith "op");
      n_edges = get_list get_nat edges; n_val = { inverse = false; elems = get_list get_z es } }
  | _ -> failwith "node"

let sort_uniq_ints l = List.sort_uniq compare l

let () = Reg.register "c25.closure" (fun inp out ->
  let nodes = get_list get_node inp in
  let st = Closure.compute nodes in
  let model =
    if st.c_oof then A "out-of-fuel"
    else match st.c_err with
    | [] -> L [A "ok"; put_list (fun nd -> put_set nd.n_val) st.c_nodes]
    | errs -> L [A "err"; put_list put_int (sort_uniq_ints (List.map int_of_nat errs))] in
  (* property oracle on the implementation's output *)
  let spec_errs = List.map int_of_nat (ClosureSpec.spec_errors nodes) in
  let verdict =
    match lst out with
    | [A "err"; errs] ->
      if spec_errs = [] then "bad:error-without-self-dependent-complement"
      else if get_list get_int errs <> spec_errs then "bad:offending-complements-differ" else "ok"
    | [A "ok"; sets] ->
      if spec_errs <> [] then "bad:self-dependent-complement-not-rejected" else begin
        let sets = get_list get_set sets in
        let all = List.concat_map (fun s -> s.elems) (sets @ List.map (fun nd -> nd.n_val) nodes) in
        let u = List.fold_left max 0 (List.map int_of_z all) + 2 in
        let un = nat_of_int u in
        let spec = ClosureSpec.spec_solve un nodes in
        let got = List.map (fun s -> Closure.bits_of un s) sets in
        if not (List.for_all (fun s -> IntSet.sortedb s.elems) sets) then "bad:unsorted-result"
        else if spec = got then "ok" else "bad:not-the-least-solution"
      end
    | _ -> "bad:unparsable" in
  (model, verdict))
