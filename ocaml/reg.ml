open Io
(* handler: input -> impl output -> (model output, verdict) ; verdict "ok" or "bad:<why>" *)
let handlers : (string, sexp -> sexp -> sexp * string) Hashtbl.t = Hashtbl.create 64
let register k f = Hashtbl.replace handlers k f
