open Io
open BinNums
open Datatypes
open Cfg
open LalrTables

let get_pair f g x = match lst x with [a; b] -> (f a, g b) | _ -> failwith "pair"

let get_grammar x = match lst x with
  | [nt; nn; rules; inputs; prec] ->
    { g_terms = get_z nt; g_nonterms = get_z nn;
      g_rules = get_list (fun r -> match lst r with [l; rhs; p] -> { r_lhs = get_z l; r_rhs = get_list get_z rhs; r_prec = get_z p } | _ -> failwith "rule") rules;
      g_inputs = get_list (get_pair get_z get_bool) inputs;
      g_prec = get_list (get_pair get_z (get_list get_z)) prec }
  | _ -> failwith "grammar"

let put_view v = L [put_list (fun (r, d) -> L [put_z r; put_z d]) v.v_kernel; put_z v.v_symbol; put_list put_z v.v_reduce;
                    put_list (fun (s, t) -> L [put_z s; put_z t]) v.v_shifts; put_bool v.v_lr0; put_list (put_list put_z) v.v_la]

let ref_fuel = nat_of_int 400

let () = Reg.register "c03.tables" (fun inp out ->
  match lst inp, lst out with
  | [g; esr; err_], [states; enc; finals; sr; rr; errk] ->
    let g = get_grammar g in
    let ro = LalrTables.reference g ref_fuel in
    let t = ro.ro_enc in
    let sr_m = ro.ro_sr and rr_m = ro.ro_rr in
    let errk_m = if sr_m = get_z esr && rr_m = get_z err_ then 0 else 1 in
    let model = L [put_list put_view ro.ro_views; P_c06.put_default_enc t; put_list put_z ro.ro_final; put_z sr_m; put_z rr_m; put_int errk_m] in
    (* property oracle on the implementation's own output *)
    let go_enc = P_c05.get_default_enc enc in
    let go_states = lst states in
    (* known weakness: the EOI shift is added to the state reached after the input nonterminal even when that
       state is also entered otherwise (it is identified by its kernel only) *)
    let nin = Stdlib.List.length g.g_inputs in
    let shared_final = Stdlib.List.exists (fun i ->
        let (nt, eoi) = Stdlib.List.nth g.g_inputs i in
        eoi && (match Stdlib.List.find_opt (fun (s, _) -> s = nt) (Stdlib.List.nth ro.ro_views i).v_shifts with
          | Some (_, lst) ->
            let incoming = Stdlib.List.concat (Stdlib.List.mapi (fun q v ->
              Stdlib.List.filter_map (fun (_, t) -> if t = lst then Some q else None) v.v_shifts) ro.ro_views) in
            Stdlib.List.length incoming > 1
          | None -> false)) (Stdlib.List.init nin (fun i -> i)) in
    let classify v = if shared_final && v <> "ok" then "bad:shared-final-state-eoi-pollution" else v in
    (* the proved-sound certificate (Props/C03.v, C03_lalr_la_exact): the reference automaton consists of
       LR(0)-valid item sets and its lookahead table is stable, hence exactly LALR(1) *)
    (* C03_reference_is_LALR1 / C03_reference_views_are_LALR1_light: the automaton clauses of the certificate are theorems
       about build_automaton; what is still evaluated per grammar is ref_cert_light (grammar well-formed, work
       list of build_loop empty, la_fix stopped on a stable table).  The full certificate is only
       evaluated when the light one fails. *)
    let certified = LalrDone.ref_cert_light g ref_fuel || LalrCert.ref_cert g ref_fuel in
    let verdict = if not certified then "bad:reference-construction-not-certified-LALR1" else classify (
      if Stdlib.List.length go_states <> Stdlib.List.length ro.ro_views then "bad:number-of-states-differs-from-the-LR0-collection" else begin
        let bad = ref "ok" in
        Stdlib.List.iter2 (fun gs v ->
          if !bad = "ok" then match lst gs with
            | [core; sym; reduce; shifts; lr0; las] ->
              let core = get_list (get_pair get_z get_z) core in
              if core <> v.v_kernel then bad := "bad:state-kernel-differs"
              else if get_list get_z reduce <> v.v_reduce then bad := "bad:reductions-differ"
              else if get_list (get_pair get_z get_z) shifts <> v.v_shifts then bad := "bad:transitions-differ"
              else if not (get_bool lr0) && get_list (get_list get_z) las <> v.v_la_all then bad := "bad:lookahead-set-differs-from-LALR1"
            | _ -> failwith "state") go_states ro.ro_views;
        if !bad <> "ok" then !bad else begin
          match int_of_z (LalrTables.check_tables g ro.ro_views go_enc (get_z sr) (get_z rr)) with
          | 0 ->
            let ek = get_int errk in
            let expect_err = not (get_z sr = get_z esr && get_z rr = get_z err_) in
            if ek = 2 then "ok"   (* some other diagnostic: outside C03 *)
            else if expect_err && ek = 0 then "bad:conflict-error-not-raised"
            else if (not expect_err) && ek = 1 then "bad:conflict-error-raised-although-counts-match-expectations"
            else "ok"
          | 3 -> "bad:action-differs-from-the-LALR1-table"
          | _ -> "bad:conflict-counts-differ"
        end
      end) in
    (model, verdict)
  | _ -> failwith "c03.tables")
