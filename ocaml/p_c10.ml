(* C10 glue: regular expression parser and charset operations. Unverified plumbing around the extracted
   models Charset / RegexParse and the specification evaluator RegexSpec. *)
open Io
open BinNums
open Datatypes

(* ---- data supplied by the Go harness from the standard library: SimpleFold and the unicode tables ---- *)
let foldtbl : (int, int) Hashtbl.t = Hashtbl.create 4096
let sf (z : coq_Z) : coq_Z =
  match Hashtbl.find_opt foldtbl (int_of_z z) with Some j -> z_of_int j | None -> z
let tables : (string, (coq_Z * (((coq_Z * coq_Z) * coq_Z) list)) * (((coq_Z * coq_Z) * coq_Z) list)) Hashtbl.t = Hashtbl.create 512
let key_of_name (n : coq_Z list) : string = String.concat " " (Stdlib.List.map (fun z -> string_of_int (int_of_z z)) n)
let named (n : coq_Z list) = Hashtbl.find_opt tables (key_of_name n)

let get_pair2 x = match lst x with [a; b] -> (get_z a, get_z b) | _ -> failwith "pair"
let get_cs x = get_list get_pair2 x
let put_cs cs = put_list (fun (a, b) -> L [put_z a; put_z b]) cs
let get_triple x = match lst x with [a; b; c] -> ((get_z a, get_z b), get_z c) | _ -> failwith "triple"
let get_bytes x = get_list get_z x

let table_set t = Charset.new_charset (Stdlib.List.rev (Charset.append_table_rev [] t))
let closure bytes cs = Charset.fold sf (nat_of_int 8) cs bytes

let rec mem_int (x : int) (cs : (coq_Z * coq_Z) list) =
  match cs with [] -> false | (a, b) :: t -> (int_of_z a <= x && x <= int_of_z b) || mem_int x t

let rec wf_int (lb : int) cs = match cs with
  | [] -> true
  | (a, b) :: t -> let a = int_of_z a and b = int_of_z b in lb <= a && a <= b && wf_int (b + 2) t

(* points at which two range lists could differ: every boundary and its neighbours *)
let probe_points (ls : (coq_Z * coq_Z) list list) : int list =
  let pts = ref [] in
  Stdlib.List.iter (fun cs -> Stdlib.List.iter (fun (a, b) ->
    let a = int_of_z a and b = int_of_z b in
    pts := (a - 1) :: a :: (a + 1) :: (b - 1) :: b :: (b + 1) :: !pts) cs) ls;
  Stdlib.List.sort_uniq compare !pts

(* ---- fold map: (c, SimpleFold c) for every c with SimpleFold c <> c ---- *)
let () = Reg.register "c10.foldmap" (fun inp out ->
  Hashtbl.reset foldtbl;
  Stdlib.List.iter (fun p -> match lst p with
    | [a; b] -> Hashtbl.replace foldtbl (get_int a) (get_int b)
    | _ -> failwith "foldmap") (lst inp);
  (* hypothesis of the fold theorem: every orbit closes within 8 steps *)
  let ok = Hashtbl.fold (fun c _ acc ->
    let rec go k f = if f = c then true else if k = 0 then false
      else go (k - 1) (match Hashtbl.find_opt foldtbl f with Some j -> j | None -> f) in
    acc && go 8 (Hashtbl.find foldtbl c)) foldtbl true in
  (A "ok", if ok then "ok" else "bad:simplefold-orbit-longer-than-8"))

(* ---- one unicode table: (kind name table foldtable); impl output = (\p{name} without fold, with fold) ---- *)
let () = Reg.register "c10.table" (fun inp out ->
  match lst inp with
  | [kind; name; t; ft] ->
    let nm = get_bytes name in
    let t = get_list get_triple t and ft = get_list get_triple ft in
    Hashtbl.replace tables (key_of_name nm) ((get_z kind, t), ft);
    let o f = { RegexParse.o_fold = f; RegexParse.o_bytes = false } in
    let m f = (match RegexParse.named_set named nm (o f) with Some cs -> put_cs cs | None -> A "unknown") in
    let model = L [m false; m true] in
    (* oracle: the documented set is the table; under folding its orbit closure *)
    let base = table_set t in
    let want_f = closure false base in
    let verdict = (match lst out with
      | [a; b] ->
        if to_string a <> to_string (put_cs base) then "bad:named-class-differs-from-unicode-table"
        else if to_string b <> to_string (put_cs want_f) then "bad:folded-named-class-is-not-the-fold-closure"
        else "ok"
      | _ -> "bad:unparsable") in
    (model, verdict)
  | _ -> failwith "c10.table")

(* ---- charset operations: (op a b flag max) ---- *)
let () = Reg.register "c10.charset" (fun inp out ->
  match lst inp with
  | [op; a; b; flag; mx] ->
    let op = atom op and a = get_cs a and b = get_cs b and flag = get_bool flag and mx = get_z mx in
    let model = (match op with
      | "new" -> Charset.new_charset a
      | "invert" -> Charset.invert a mx
      | "subtract" -> Charset.subtract a b
      | "intersect" -> Charset.intersect a b
      | "fold" -> Charset.fold sf (nat_of_int 8) a flag
      | "append" -> (match b with [(lo, hi)] -> Charset.append_range a lo hi | _ -> failwith "append")
      | _ -> failwith "op") in
    let res = (try get_cs out with _ -> []) in
    let mxi = int_of_z mx in
    (* set semantics judged pointwise at all boundary neighbourhoods *)
    let pts = probe_points [a; b; res; [(Z0, mx)]] in
    let orbit x = (let rec go k f acc = if f = x || k = 0 then acc else
                     go (k - 1) (match Hashtbl.find_opt foldtbl f with Some j -> j | None -> f) (f :: acc) in
                   go 8 (match Hashtbl.find_opt foldtbl x with Some j -> j | None -> x) [x]) in
    let expect x = (match op with
      | "new" -> mem_int x a
      | "invert" -> 0 <= x && x <= mxi && not (mem_int x a)
      | "subtract" -> mem_int x a && not (mem_int x b)
      | "intersect" -> mem_int x a && mem_int x b
      | "append" -> mem_int x a || mem_int x b
      | "fold" -> Stdlib.List.exists (fun y -> mem_int y a) (orbit x) && (mem_int x a || not (flag && x >= 128))
      | _ -> false) in
    let sem_ok = Stdlib.List.for_all (fun x -> mem_int x res = expect x) pts in
    let nf_ok = (op = "append") || wf_int (-1000000000) res in
    let verdict = if not sem_ok then "bad:charset-" ^ op ^ "-wrong-set"
                  else if not nf_ok then "bad:charset-" ^ op ^ "-not-normal-form" else "ok" in
    (put_cs model, verdict)
  | _ -> failwith "c10.charset")

(* ---- patterns ---- *)
let rec put_re (r : RegexParse.re) : sexp =
  match r with
  | RegexParse.RLit (b, text, off) -> L [A (if b then "blit" else "lit"); put_list put_z text; put_z off]
  | RegexParse.RCC (cs, off) -> L [A "cc"; put_cs cs; put_z off]
  | RegexParse.RRep (mn, mx, s) -> L [A "rep"; put_z mn; put_z mx; put_re s]
  | RegexParse.RCat l -> L (A "cat" :: Stdlib.List.map put_re l)
  | RegexParse.RAlt l -> L (A "alt" :: Stdlib.List.map put_re l)
  | RegexParse.RExt (n, off) -> L [A "ext"; put_list put_z n; put_z off]

let rec get_re (x : sexp) : RegexParse.re =
  match lst x with
  | [A "lit"; t; off] -> RegexParse.RLit (false, get_bytes t, get_z off)
  | [A "blit"; t; off] -> RegexParse.RLit (true, get_bytes t, get_z off)
  | [A "cc"; cs; off] -> RegexParse.RCC (get_cs cs, get_z off)
  | [A "rep"; mn; mx; s] -> RegexParse.RRep (get_z mn, get_z mx, get_re s)
  | A "cat" :: l -> RegexParse.RCat (Stdlib.List.map get_re l)
  | A "alt" :: l -> RegexParse.RAlt (Stdlib.List.map get_re l)
  | [A "ext"; n; off] -> RegexParse.RExt (get_bytes n, get_z off)
  | _ -> failwith "re"

exception Unknown_name

let rec get_scls (x : sexp) : RegexSpec.scls =
  match lst x with
  | [A "set"; cs] -> RegexSpec.SSet (get_cs cs)
  | [A "named"; n] ->
    (match named (get_bytes n) with
     | Some ((_, t), _) -> RegexSpec.SSet (table_set t)
     | None -> raise Unknown_name)
  | [A "cls"; neg; items; subs] ->
    let items = Stdlib.List.map (fun it -> match lst it with
      | [A "r"; lo; hi] -> RegexSpec.SSet [(get_z lo, get_z hi)]
      | _ -> get_scls it) (lst items) in
    RegexSpec.SCls (get_bool neg, items, Stdlib.List.map get_scls (lst subs))
  | _ -> failwith "scls"

let rec get_sre (x : sexp) : RegexSpec.sre =
  match lst x with
  | [A "chr"; f; c] -> RegexSpec.SChr (get_bool f, get_z c)
  | [A "cl"; f; c] -> RegexSpec.SCl (get_bool f, get_scls c)
  | [A "cle"; f; q; c] -> RegexSpec.SClE (get_bool f, get_bool q, get_scls c)
  | [A "dot"] -> RegexSpec.SDot
  | [A "rep"; mn; mx; s] -> RegexSpec.SRepS (get_z mn, get_z mx, get_sre s)
  | A "cat" :: l -> RegexSpec.SCatS (Stdlib.List.map get_sre l)
  | A "alt" :: l -> RegexSpec.SAltS (Stdlib.List.map get_sre l)
  | [A "ext"; n] -> RegexSpec.SExtS (get_bytes n)
  | _ -> failwith "sre"

let rec put_nre (n : RegexSpec.nre) : sexp =
  match n with
  | RegexSpec.NSet cs -> L [A "set"; put_cs cs]
  | RegexSpec.NCat l -> L (A "cat" :: Stdlib.List.map put_nre l)
  | RegexSpec.NAlt l -> L (A "alt" :: Stdlib.List.map put_nre l)
  | RegexSpec.NRep (mn, mx, s) -> L [A "rep"; put_z mn; put_z mx; put_nre s]
  | RegexSpec.NExt nm -> L [A "ext"; put_list put_z nm]

let rec re_sets (r : RegexParse.re) : (coq_Z * coq_Z) list list =
  match r with
  | RegexParse.RCC (cs, _) -> [cs]
  | RegexParse.RRep (_, _, s) -> re_sets s
  | RegexParse.RCat l | RegexParse.RAlt l -> Stdlib.List.concat_map re_sets l
  | _ -> []

(* input: (fold bytes pattern spec); spec = (none) | (mustfail why) | (spec sre) *)
let () = Reg.register "c10.parse" (fun inp out ->
  match lst inp with
  | [f; b; pat; spec] ->
    let fold = get_bool f and bytes = get_bool b in
    let src = get_bytes pat in
    let n = Stdlib.List.length src in
    let o = { RegexParse.o_fold = fold; RegexParse.o_bytes = bytes } in
    let model = (match RegexParse.parse_regexp sf named src o with
      | RegexParse.Ok r -> L [A "ok"; put_re r]
      | RegexParse.Err (m, a, e) -> L [A "err"; put_z m; put_z a; put_z e]) in
    let verdict = (match lst out with
      | [A "err"; _; a; e] ->
        let a = get_int a and e = get_int e in
        if not (0 <= a && a <= e && e <= n) then "bad:error-position-outside-pattern"
        else (match lst spec with
          | A "spec" :: _ -> "bad:documented-pattern-rejected"
          | _ -> "ok")
      | [A "ok"; d] ->
        let r = get_re d in
        let mx = if bytes then 255 else 1114111 in
        let sets_ok = Stdlib.List.for_all (fun cs ->
          Stdlib.List.for_all (fun (lo, hi) -> 0 <= int_of_z lo && int_of_z lo <= int_of_z hi && int_of_z hi <= mx) cs) (re_sets r) in
        if not sets_ok then "bad:class-member-outside-rune-range"
        else (match lst spec with
          | [A "mustfail"; why] -> "bad:malformed-pattern-accepted-" ^ atom why
          | [A "spec"; s] ->
            (try
              let s = get_sre s in
              let want = RegexSpec.norm_spec sf bytes false s in
              let got = to_string (put_nre (RegexSpec.norm_impl r)) in
              if to_string (put_nre want) = got then "ok"
              else if to_string (put_nre (RegexSpec.norm_spec sf bytes true s)) = got
              then "bad:fold-ignored-by-standalone-class-escape"
              else begin
                if Sys.getenv_opt "VERIF_DEBUG" <> None then prerr_endline ("want " ^ to_string (put_nre want) ^ "\ngot  " ^ got);
                "bad:parsed-language-differs-from-documented-meaning" end
            with Unknown_name -> "bad:harness-unknown-name")
          | _ -> "ok")
      | _ -> "bad:unparsable-output") in
    (model, verdict)
  | _ -> failwith "c10.parse")
