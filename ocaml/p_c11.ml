(* C11 / C12 glue: generated Go lexers vs the LexerRT model, the regex-level specification (C11) and the
   progress / tiling / line-column monitor (C12). *)
open Io
open BinNums
open Datatypes

let get_lexer x : LexerRT.lexer = match lst x with
  | [tb; rt; sp; inv; kws; tl; tc] ->
    let kws = Stdlib.List.map (fun k -> match lst k with
      | [act; mask; cases] ->
        (get_z act, get_z mask, get_list (fun c -> match lst c with
          | [b; h; key; a] -> (((get_z b, get_z h), get_list get_z key), get_z a)
          | _ -> failwith "kwcase") cases)
      | _ -> failwith "kw") (lst kws) in
    { LexerRT.lx_tables = P_c24.get_tables tb; lx_rule_token = get_list get_z rt; lx_space = get_list get_z sp;
      lx_invalid = get_z inv;
      lx_kw = Stdlib.List.map (fun (a, _, c) -> (a, c)) kws;
      lx_mask = Stdlib.List.map (fun (a, m, _) -> (a, m)) kws;
      lx_token_line = get_bool tl; lx_token_column = get_bool tc }
  | _ -> failwith "lexer"

type tokrec = { tok : int; s : int; e : int; line : int; col : int }

let parse_stream (out : sexp) : (tokrec list * bool) option =   (* tokens, overflow marker seen *)
  match out with
  | A _ -> None
  | L items ->
    let ovf = ref false in
    let toks = Stdlib.List.filter_map (fun it -> match lst it with
      | [t; s; e; l; c] -> Some { tok = get_int t; s = get_int s; e = get_int e; line = get_int l; col = get_int c }
      | _ -> ovf := true; None) items in
    Some (toks, !ovf)

let has_bom src = match src with a :: b :: c :: _ -> int_of_z a = 239 && int_of_z b = 187 && int_of_z c = 191 | _ -> false

let rec drop n l = if n <= 0 then l else match l with [] -> [] | _ :: t -> drop (n - 1) t
let rec take n l = if n <= 0 then [] else match l with [] -> [] | x :: t -> x :: take (n - 1) t

let line_col (src : int array) (start : int) : int * int =
  let line = ref 1 and lo = ref 0 in
  for i = 0 to start - 1 do if src.(i) = 10 then (incr line; lo := i + 1) done;
  (!line, start - !lo + 1)

(* the structural monitor of C12 on the implementation's own token stream *)
let monitor (src : coq_Z list) (bom : bool) (toks : tokrec list) (ovf : bool) (check_line : bool) (check_col : bool)
            (gap_ok : (int -> int -> bool) option) : string =
  let arr = Array.of_list (Stdlib.List.map int_of_z src) in
  let n = Array.length arr in
  if ovf then "bad:more-tokens-than-bytes-no-progress" else
  let rec split_eoi acc = function
    | ({ tok = 0 } :: _) as rest -> (Stdlib.List.rev acc, rest)
    | t :: rest -> split_eoi (t :: acc) rest
    | [] -> (Stdlib.List.rev acc, []) in
  let (body, eois) = split_eoi [] toks in
  if Stdlib.List.length eois <> 3 || Stdlib.List.exists (fun t -> t.tok <> 0) eois then "bad:end-of-input-token-does-not-repeat"
  else if Stdlib.List.exists (fun t -> t.s <> n || t.e <> n) (Stdlib.List.tl eois) then "bad:repeated-end-of-input-not-at-the-end"
  else begin
    let start0 = if bom && has_bom src then 3 else 0 in
    let verdict = ref "ok" in
    let prev = ref start0 in
    let set v = if !verdict = "ok" then verdict := v in
    Stdlib.List.iter (fun t ->
      if t.tok <> 0 && t.e <= t.s then set "bad:empty-token";
      if t.s < !prev then set "bad:tokens-overlap-or-out-of-order";
      if t.e > n || t.s > t.e then set "bad:token-outside-input";
      (match gap_ok with Some f -> if !verdict = "ok" && not (f !prev t.s) then set "bad:gap-is-not-space" | None -> ());
      if !verdict = "ok" && t.s <= n then begin
        let (l, c) = line_col arr t.s in
        if check_line && t.line <> l then set "bad:line-is-not-the-line-of-the-first-byte";
        if check_col && t.col <> c then set "bad:column-is-not-the-column-of-the-first-byte"
      end;
      prev := max !prev t.e) (body @ [Stdlib.List.hd eois]);
    if !verdict = "ok" && (Stdlib.List.hd eois).e <> n then set "bad:end-of-input-before-the-end";
    !verdict
  end

let get_rules rules sci =
  Stdlib.List.filter_map (fun r -> match lst r with
    | [d; tok; p; scs; sp] ->
      if Stdlib.List.mem sci (get_list get_int scs)
      then Some (Deriv.rx_of (P_c10.get_re d), get_z tok, get_z p, get_bool sp) else None
    | _ -> failwith "rule") (lst rules)

let put_stream (lx : LexerRT.lexer) (st : coq_Z list list) : sexp =
  if Stdlib.List.exists (fun o -> match o with [x] -> int_of_z x = -3 | _ -> false) st then A "timeout" else
  L (Stdlib.List.map (fun o -> match o with
    | [t; s; e; l; c] -> L [put_z t; put_z s; put_z e; (if lx.LexerRT.lx_token_line then put_z l else A "0");
                            (if lx.LexerRT.lx_token_column then put_z c else A "0")]
    | _ -> L [A "-2"]) st)

let lexer_case (kind : string) inp out =
  match lst inp with
  | [A _; _] -> (A "nobuild", "bad:generated-lexer-does-not-build")
  | [cfg; sc; src] ->
    (match lst cfg with
     | [lxs; rules] ->
       let lx = get_lexer lxs in
       let sc = get_z sc and src = get_list get_z src in
       let bytes = lx.LexerRT.lx_tables.Tables.scan_bytes in
       let model = put_stream lx (LexerRT.run_lexer lx sc src true) in
       let active = get_rules rules (int_of_z sc) in
       let srules = Stdlib.List.map (fun (r, t, p, _) -> ((r, t), p)) active in
       let space_toks = Stdlib.List.filter_map (fun (_, t, _, sp) -> if sp then Some (int_of_z t) else None) active in
       let verdict =
         (match parse_stream out with
          | None -> if atom out = "timeout" then "bad:lexer-does-not-return" else "bad:" ^ atom out
          | Some (toks, ovf) ->
            let n = Stdlib.List.length src in
            if kind = "c12" then begin
              let space_rx = Stdlib.List.fold_left (fun acc (r, _, _, sp) -> if sp then Deriv.alt acc r else acc) Deriv.Void active in
              let star = Deriv.Rep (Z0, z_of_int (-1), space_rx) in
              let gap_ok a b =
                if a >= b then true else begin
                  let seg = take (b - a) (drop a src) in
                  let rec go r seg = match seg with
                    | [] -> Deriv.nullable r
                    | _ -> let (c, w) = Deriv.decode_b bytes seg in
                           let w = max 1 (int_of_nat w) in go (Deriv.deriv c r) (drop w seg) in
                  go star seg end in
              monitor src true toks ovf lx.LexerRT.lx_token_line lx.LexerRT.lx_token_column (Some gap_ok)
            end else begin
              (* C11: the token stream the rules define *)
              let arr = Array.of_list (Stdlib.List.map int_of_z src) in
              let expected = ref [] in
              let pos = ref (if has_bom src then 3 else 0) in
              let fin = ref false in
              let guard = ref 0 in
              while not !fin && !guard < 1000 do
                incr guard;
                let rest = drop !pos src in
                let (sz, tk) = Deriv.spec_scan bytes srules rest in
                let sz = int_of_z sz and tk = int_of_z tk in
                let emit t s e = (let (l, c) = line_col arr s in
                  expected := { tok = t; s = s; e = e; line = (if lx.LexerRT.lx_token_line then l else 0);
                                col = (if lx.LexerRT.lx_token_column then c else 0) } :: !expected) in
                if tk = 0 then begin
                  if sz = 0 then begin
                    if rest = [] then (emit 0 !pos !pos; fin := true)
                    else begin
                      let (_, w) = Deriv.decode_b bytes rest in
                      let w = max 1 (int_of_nat w) in
                      emit (int_of_z lx.LexerRT.lx_invalid) !pos (!pos + w); pos := !pos + w end
                  end else (emit (int_of_z lx.LexerRT.lx_invalid) !pos (!pos + sz); pos := !pos + sz)
                end else if Stdlib.List.mem tk space_toks then pos := !pos + (max sz 1)
                else (emit tk !pos (!pos + sz); pos := !pos + sz; if sz = 0 then fin := true)
              done;
              let expected = Stdlib.List.rev !expected in
              let body = Stdlib.List.filter (fun t -> not (t.tok = 0 && t.s = n && t.e = n)) toks in
              let ebody = Stdlib.List.filter (fun t -> not (t.tok = 0 && t.s = n && t.e = n)) expected in
              if ovf then "bad:token-stream-does-not-end"
              else if Stdlib.List.length body <> Stdlib.List.length ebody then "bad:token-count-differs-from-rules"
              else begin
                let v = ref "ok" in
                Stdlib.List.iter2 (fun a b -> if !v = "ok" then begin
                  if a.s <> b.s || a.e <> b.e then v := "bad:token-boundaries-differ-from-longest-match"
                  else if a.tok <> b.tok then v := "bad:wrong-token-for-matched-text"
                  else if a.line <> b.line || a.col <> b.col then v := "bad:token-line-or-column-differs" end) body ebody;
                !v
              end
            end) in
       (model, verdict)
     | _ -> failwith "cfg")
  | _ -> failwith "lexer case"

let () = Reg.register "c11.lexer" (lexer_case "c11")
let () = Reg.register "c12.lexer" (lexer_case "c12")

let () = Reg.register "c12.shipped" (fun inp out ->
  match lst inp with
  | [_; hasline; src] ->
    let src = get_list get_z src in
    let verdict = (match parse_stream out with
      | None -> if atom out = "timeout" then "bad:lexer-does-not-return" else "bad:" ^ atom out
      | Some (toks, ovf) -> monitor src true toks ovf (get_int hasline >= 1) (get_int hasline >= 2) None) in
    (out, verdict)
  | _ -> failwith "c12.shipped")

(* hypothesis of the C12 theorems on real tables: (name lexer has_actions).  Lexers with hand-written actions
   (test, tm, js) are only required to pass the structural part: their entry behaviour is changed by the actions. *)
let () = Reg.register "c12.wf" (fun inp out ->
  match lst inp with
  | [_; lxs; acts] ->
    (match lxs with
     | L [] -> (A "0", "bad:shipped-grammar-unavailable")
     | _ ->
       let lx = get_lexer lxs in
       let st = LexerWf.wf_tables lx.LexerRT.lx_tables and en = LexerWf.wf_entry lx in
       let ok = st && (en || get_bool acts) in
       (L [put_bool st; put_bool (en || get_bool acts)], if ok then "ok" else "bad:lexer-tables-not-well-formed"))
  | _ -> failwith "c12.wf")

(* rune class tables: input symbol map; output ((class...) ((lo hi default (vals))...) use_map last) *)
let () = Reg.register "c11.maps" (fun inp out ->
  let m = get_list (fun e -> match lst e with [a; b] -> (get_z a, get_z b) | _ -> failwith "entry") inp in
  let put_rt (rt : LexerMaps.rune_tables) =
    L [put_list put_z rt.LexerMaps.rt_class;
       put_list (fun e -> L [put_z e.LexerMaps.ce_lo; put_z e.LexerMaps.ce_hi; put_z e.LexerMaps.ce_default; put_list put_z e.LexerMaps.ce_vals]) rt.LexerMaps.rt_ranges;
       put_bool rt.LexerMaps.rt_use_map; put_z rt.LexerMaps.rt_last] in
  let model = put_rt (LexerMaps.rune_tables_of m) in
  let verdict = (match lst out with
    | [cls; rgs; um; lt] ->
      let rt = { LexerMaps.rt_class = get_list get_z cls;
                 rt_ranges = get_list (fun e -> match lst e with
                   | [a; b; c; d] -> { LexerMaps.ce_lo = get_z a; ce_hi = get_z b; ce_default = get_z c; ce_vals = get_list get_z d }
                   | _ -> failwith "centry") rgs;
                 rt_use_map = get_bool um; rt_last = get_z lt } in
      (* the implementation's own tables, looked up the way the generated lexer does, against the plain map *)
      let pts = Stdlib.List.sort_uniq compare (Stdlib.List.concat_map (fun (s, _) -> let s = int_of_z s in [s - 1; s; s + 1; s + 7; s + 8; s + 9])
                  m @ [0; 1; 255; 256; 257; 2047; 2048; 2049; 65535; 65536; 1114111]) in
      let bad = Stdlib.List.find_opt (fun r -> r >= 0 && r <= 1114111 &&
        int_of_z (LexerMaps.rune_class rt (z_of_int r)) <> int_of_z (Tables.lookup_sym m (z_of_int r))) pts in
      (* hypothesis of C11_map_rune_finds_the_range, evaluated on the implementation's tmRuneRanges *)
      if not (LexerMaps.ranges_sortedb (z_of_int 256) rt.LexerMaps.rt_ranges) then "bad:rune-ranges-not-ascending-disjoint" else
      (match bad with None -> "ok" | Some _ -> "bad:rune-class-lookup-differs-from-symbol-map")
    | _ -> "bad:unparsable") in
  (model, verdict))
