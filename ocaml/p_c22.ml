(* C22: compiler.Compile outcomes. Model side: the extracted Util/LineCol (line table + binary search +
   SourceRange construction) re-derives every error origin from its offsets. Oracle side: plain OCaml over
   the byte array, independent of the model. *)
open Io
open BinNums
open Datatypes

let slug s =
  (* crash sites are keyed by file and message, not by line number (fix commits move lines) *)
  let b = Buffer.create 40 in
  let ends_with_go () = let n = Buffer.length b in n >= 3 && Buffer.sub b (n - 3) 3 = "go-" in
  let skipping = ref false in
  Stdlib.String.iter (fun c ->
    if Buffer.length b < 70 then
      (match c with
       | '0'..'9' when !skipping || ends_with_go () -> skipping := true
       | 'a'..'z' | 'A'..'Z' | '0'..'9' -> skipping := false; Buffer.add_char b c
       | _ -> skipping := false; if Buffer.length b > 0 && Buffer.nth b (Buffer.length b - 1) <> '-' then Buffer.add_char b '-')) s;
  Buffer.contents b

let string_of_bytes x = Stdlib.String.concat "" (Stdlib.List.map (fun a -> Stdlib.String.make 1 (Char.chr ((int_of_string (atom a)) land 255))) (lst x))

(* specification, directly on the array: 1 + newlines before off, bytes since the line start + 1 *)
let spec_line_col (a : int array) (off : int) : int * int =
  let line = ref 1 and start = ref 0 in
  for i = 0 to off - 1 do if a.(i) = 10 then (incr line; start := i + 1) done;
  (!line, off - !start + 1)

let c22_handler inp out =
  match lst inp with
  | [_; content] ->
    let bytes_z = get_list get_z content in
    let arr = Array.of_list (Stdlib.List.map int_of_z bytes_z) in
    let len = Array.length arr in
    (match lst out with
     | [A "ok"] -> (L [A "ok"], "ok")
     | A "errs" :: errs ->
       let lines = lazy (LineCol.line_offsets bytes_z) in
       let path = [z_of_int 103] in
       let verdict = ref "ok" in
       let set v = if !verdict = "ok" then verdict := v in
       let model = Stdlib.List.map (fun e ->
         match lst e with
         | [fc; off; en; line; col; msg] ->
           let fc = get_int fc and off = get_int off and en = get_int en and line = get_int line and col = get_int col in
           (* oracle *)
           if fc = 0 then set "bad:origin-less-error"
           else if fc <> 1 then set "bad:foreign-filename"
           else if not (0 <= off && off <= en && en <= len) then set "bad:range-outside-text"
           else begin
             let (l, c) = spec_line_col arr off in
             if l <> line || c <> col then set "bad:line-column-mismatch"
             else if line < 1 || col < 1 then set "bad:line-column-not-1-based"
           end;
           (* model: what Node.SourceRange constructs for a node with these offsets *)
           if 0 <= off && off <= len then
             (match LineCol.node_source_range path (Lazy.force lines) (Some { LineCol.n_off = z_of_int off; LineCol.n_end = z_of_int en }) with
              | Some r -> L [A "1"; put_z r.LineCol.sr_off; put_z r.LineCol.sr_end; put_z r.LineCol.sr_line; put_z r.LineCol.sr_col; msg]
              | None -> L [A "panic-in-LineColumn"])
           else L [A "offset-outside-text"]
         | _ -> failwith "c22 err") errs in
       (L (A "errs" :: model), !verdict)
     | [A "crash"; msg] -> (L [A "terminates"], "bad:crash:" ^ slug (string_of_bytes msg))
     | [A "timeout"] -> (L [A "terminates"], "bad:timeout")
     | _ -> failwith "c22 out")
  | _ -> failwith "c22.compile"

(* c22.pattern: input (content o e errOff errEnd), output (fc off end line col msg) | (none) | (crash).
   Model: the extracted Util/PatternErr.pattern_error_range (parsePattern's arithmetic over Node.SourceRange).
   Oracle, plain OCaml: ParseRegexp's offsets lie in the pattern text; the diagnostic lies inside the
   pattern, starts at the offending byte (between the slashes) when the error starts inside the text, ends
   at the error's end or at the closing slash, and its line/column are those of its offset. *)
let c22_pattern inp out =
  match lst inp with
  | [content; o; e; po; pe] ->
    let bytes_z = get_list get_z content in
    let arr = Array.of_list (Stdlib.List.map int_of_z bytes_z) in
    let o = get_int o and e = get_int e and po = get_int po and pe = get_int pe in
    let tlen = e - o - 2 in
    let path = [z_of_int 103] in
    let nd = { LineCol.n_off = z_of_int o; LineCol.n_end = z_of_int e } in
    let perr = { PatternErr.pe_off = z_of_int po; PatternErr.pe_end = z_of_int pe } in
    (match lst out with
     | [fc; off; en; line; col; msg] ->
       let fc = get_int fc and off = get_int off and en = get_int en and line = get_int line and col = get_int col in
       let model =
         match PatternErr.pattern_error_range path (LineCol.line_offsets bytes_z) nd perr with
         | Some r -> L [A "1"; put_z r.LineCol.sr_off; put_z r.LineCol.sr_end; put_z r.LineCol.sr_line; put_z r.LineCol.sr_col; msg]
         | None -> L [A "panic"] in
       let verdict =
         if not (0 <= po && po <= pe && pe <= tlen) then "bad:regexp-error-offsets-outside-pattern-text"
         else if fc <> 1 then "bad:origin-less-error"
         else if not (o <= off && off <= en && en <= e) then "bad:pattern-error-outside-pattern"
         else if po < tlen && off <> o + 1 + po then "bad:pattern-error-not-at-offending-byte"
         else if po < tlen && po < pe && en <> o + 1 + pe then "bad:pattern-error-end-not-at-error-end"
         else if po < tlen && po = pe && en <> e - 1 then "bad:empty-pattern-error-not-extended-to-closing-slash"
         else if po >= tlen && (off <> o || en <> e) then "bad:pattern-error-at-end-not-reported-for-whole-pattern"
         else begin
           let (l, c) = spec_line_col arr off in
           if l <> line || c <> col then "bad:line-column-mismatch" else "ok"
         end in
       (model, verdict)
     | [A "none"] -> (L [A "some-diagnostic"], "bad:regexp-error-not-reported")
     | [A "crash"] -> (L [A "terminates"], "bad:crash")
     | _ -> failwith "c22.pattern out")
  | _ -> failwith "c22.pattern"

let () = Reg.register "c22.compile" c22_handler
let () = Reg.register "c22.pattern" c22_pattern
