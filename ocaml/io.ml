(* Line-oriented S-expression I/O and number conversions for the extracted model. Unverified glue. *)
module List = Stdlib.List
module String = Stdlib.String
module Bool = Stdlib.Bool
open BinNums
open Datatypes
let fst = Stdlib.fst
let snd = Stdlib.snd
let length = Stdlib.List.length
module Z = BinInt.Z


type sexp = A of string | L of sexp list

let parse (s : string) : sexp =
  let n = String.length s in
  let pos = ref 0 in
  let rec skip () = if !pos < n && (s.[!pos] = ' ') then (incr pos; skip ()) in
  let rec item () =
    skip ();
    if !pos >= n then failwith "sexp: eof"
    else if s.[!pos] = '(' then begin
      incr pos;
      let items = ref [] in
      let rec loop () =
        skip ();
        if !pos >= n then failwith "sexp: unclosed"
        else if s.[!pos] = ')' then incr pos
        else (items := item () :: !items; loop ()) in
      loop (); L (List.rev !items)
    end else begin
      let st = !pos in
      while !pos < n && s.[!pos] <> ' ' && s.[!pos] <> '(' && s.[!pos] <> ')' do incr pos done;
      A (String.sub s st (!pos - st))
    end in
  item ()

let rec print (b : Buffer.t) (x : sexp) : unit =
  match x with
  | A s -> Buffer.add_string b s
  | L xs -> Buffer.add_char b '(';
      List.iteri (fun i y -> if i > 0 then Buffer.add_char b ' '; print b y) xs;
      Buffer.add_char b ')'

let to_string x = let b = Buffer.create 64 in print b x; Buffer.contents b

(* ---- numbers ---- *)
let rec pos_of_int (n : int) : positive =
  if n = 1 then Coq_xH else if n land 1 = 0 then Coq_xO (pos_of_int (n lsr 1)) else Coq_xI (pos_of_int (n lsr 1))
let rec int_of_pos (p : positive) : int =
  match p with Coq_xH -> 1 | Coq_xO q -> 2 * int_of_pos q | Coq_xI q -> 2 * int_of_pos q + 1

let z_of_int (n : int) : coq_Z = if n = 0 then Z0 else if n > 0 then Zpos (pos_of_int n) else Zneg (pos_of_int (-n))
let int_of_z (x : coq_Z) : int = match x with Z0 -> 0 | Zpos p -> int_of_pos p | Zneg p -> - (int_of_pos p)
let n_of_int (n : int) : coq_N = if n = 0 then N0 else Npos (pos_of_int n)
let int_of_n (x : coq_N) : int = match x with N0 -> 0 | Npos p -> int_of_pos p
let rec nat_of_int (n : int) : nat = if n <= 0 then O else S (nat_of_int (n - 1))
let int_of_nat (x : nat) : int = let rec go acc = function O -> acc | S k -> go (acc + 1) k in go 0 x

(* arbitrary-size decimal -> Z using the extracted arithmetic (for 64-bit values) *)
let z_of_string (s : string) : coq_Z =
  let neg = String.length s > 0 && s.[0] = '-' in
  let st = if neg then 1 else 0 in
  if String.length s - st <= 17 then z_of_int (int_of_string s) else begin
    let ten = z_of_int 10 in
    let acc = ref Z0 in
    for i = st to String.length s - 1 do
      acc := Z.add (Z.mul !acc ten) (z_of_int (Char.code s.[i] - 48))
    done;
    if neg then Z.sub Z0 !acc else !acc
  end

let rec string_of_z (x : coq_Z) : string =
  match x with
  | Z0 -> "0"
  | Zneg p -> "-" ^ string_of_z (Zpos p)
  | Zpos _ ->
    let small = (try Some (int_of_z_checked x) with Exit -> None) in
    (match small with Some i -> string_of_int i | None ->
      let (q, r) = Z.div_eucl x (z_of_int 10) in
      string_of_z q ^ string_of_int (int_of_z r))
and int_of_z_checked (x : coq_Z) : int =
  let rec bits p acc = match p with Coq_xH -> acc + 1 | Coq_xO q | Coq_xI q -> bits q (acc + 1) in
  match x with
  | Z0 -> 0
  | Zpos p -> if bits p 0 > 60 then raise Exit else int_of_pos p
  | Zneg p -> if bits p 0 > 60 then raise Exit else - (int_of_pos p)

(* ---- sexp <-> values ---- *)
let atom = function A s -> s | L _ -> failwith "expected atom"
let lst = function L xs -> xs | A s -> failwith ("expected list, got " ^ s)
let get_int x = int_of_string (atom x)
let get_z x = z_of_string (atom x)
let get_n x = Z.to_N (z_of_string (atom x))
let get_nat x = nat_of_int (get_int x)
let get_bool x = (atom x) <> "0"
let get_list f x = List.map f (lst x)
let put_int i = A (string_of_int i)
let put_z z = A (string_of_z z)
let put_n n = A (string_of_z (Z.of_N n))
let put_nat n = A (string_of_int (int_of_nat n))
let put_bool b = A (if b then "1" else "0")
let put_list f xs = L (List.map f xs)
let put_opt f = function None -> A "none" | Some x -> L [A "some"; f x]
