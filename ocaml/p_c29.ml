(* C29: cancellable generated parsers vs the cancellation layer (Cancel.crun) under the observed poll outcomes;
   the oracle compares every cancelled run with the uncancelled run of the same parser on the same input. *)
open Io
open BinNums
open Datatypes
open PTables
open Run
open Events
open Cancel

let parse_out x = match x with
  | L [res; L (A "polls" :: polls); L (A "events" :: evs)] ->
    let res = (match res with A s -> [s] | L l -> Stdlib.List.map atom l) in
    (res, Stdlib.List.map (fun p -> atom p = "1") polls, evs)
  | L (A r :: rest) when r = "syntax" || r = "accept" || r = "ctxerr" || r = "other" ->
    (* (syntax off end (polls ..) (events ..)) *)
    let rec split acc = function
      | [L (A "polls" :: polls); L (A "events" :: evs)] -> (Stdlib.List.rev acc, polls, evs)
      | A s :: tl -> split (s :: acc) tl
      | _ -> failwith "out" in
    let (res, polls, evs) = split [r] rest in
    (res, Stdlib.List.map (fun p -> atom p = "1") polls, evs)
  | _ -> failwith "c29 out"

let rec is_prefix a b = match a, b with
  | [], _ -> true
  | x :: a', y :: b' -> x = y && is_prefix a' b'
  | _ -> false

let () = Reg.register "c29.cancel" (fun inp out ->
  match lst inp with
  | [gtm; tables; evt; fixws; idx; len; toks] ->
    let gtm = P_c03.get_grammar gtm in
    let ((enc, opt, _, _, finals, _) as t) = P_c01.get_tables tables in
    let m = P_c01.machine_of gtm.Cfg.g_terms t in
    let attempts = (match opt with Some o -> Cancel.attempts_opt o | None -> Cancel.attempts_default enc) in
    let evt = P_c02.get_ev_table evt and fixws = get_bool fixws in
    let i = get_int idx in
    let toks = get_list (fun t -> let (a, b, c) = P_c02.get_triple t in { t_sym = get_z a; t_off = get_z b; t_end = get_z c }) toks in
    let eoi_off = get_z len in
    let n = Stdlib.List.length toks in
    let outs = Stdlib.List.map parse_out (lst out) in
    let verdict = ref "ok" in
    let (base_res, _, base_evs) = Stdlib.List.hd outs in
    let model = Stdlib.List.map (fun (res, polls, evs) ->
      let polls_a = Stdlib.Array.of_list polls in
      let rho nn = let k = int_of_z nn / 512 - 1 in k >= 0 && k < Stdlib.Array.length polls_a && polls_a.(k) in
      let (oc, c) = Cancel.crun (nat_of_int (40 * n + 400)) m evt fixws (z_of_int i) (Stdlib.List.nth finals i) eoi_off attempts rho toks in
      let npolls = int_of_z c.cc_counter / 512 + (if oc = CtxErr then 1 else 0) in
      let mres = (match oc with
        | CtxErr -> [A "ctxerr"]
        | Plain Accept -> [A "accept"]
        | Plain (SyntaxError (o, e, _)) -> [A "syntax"; put_z o; put_z e]
        | Plain _ -> [A "other"]) in
      let mpolls = Stdlib.List.mapi (fun k _ -> A (if k < Stdlib.Array.length polls_a && polls_a.(k) then "1" else "0")) (Stdlib.List.init npolls (fun k -> k)) in
      (* oracle on the implementation's own answers *)
      (if !verdict = "ok" then begin
        let rec first_true k = function [] -> -1 | b :: r -> if b then k else first_true (k + 1) r in
        let ft = first_true 0 polls in
        if res = ["ctxerr"] then begin
          if not (is_prefix evs base_evs) then verdict := "bad:events-before-cancellation-are-not-a-prefix-of-the-uncancelled-events"
          else if ft < 0 || ft <> Stdlib.List.length polls - 1 then verdict := "bad:context-error-without-a-done-poll-or-after-continuing-past-one"
        end else begin
          if ft >= 0 then verdict := "bad:parse-continued-after-polling-a-done-context"
          else if res <> base_res || evs <> base_evs then verdict := "bad:result-differs-from-the-uncancelled-parse"
        end
      end);
      L (mres @ [L (A "polls" :: mpolls); L (A "events" :: Stdlib.List.map (fun ((t, o), e) -> L [put_z t; put_z o; put_z e]) c.cc_x.xc_events)])) outs in
    (L model, !verdict)
  | _ -> failwith "c29.cancel")

let () = Reg.register "c29.nocompile" (fun _ _ -> (A "compiles", "ok"))
