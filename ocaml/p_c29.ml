(* C29: cancellable generated parsers vs the cancellation layer (Cancel.crun) under the observed poll outcomes;
   the oracle compares every cancelled run with the uncancelled run of the same parser on the same input. *)
open Io
open BinNums
open Datatypes
open PTables
open Run
open Events
open Cancel

let parse_out x = match x with
  | L [res; L (A "polls" :: polls); L (A "events" :: evs)] ->
    let res = (match res with A s -> [s] | L l -> Stdlib.List.map atom l) in
    (res, Stdlib.List.map (fun p -> atom p = "1") polls, evs)
  | L (A r :: rest) when r = "syntax" || r = "accept" || r = "ctxerr" || r = "other" ->
    (* (syntax off end (polls ..) (events ..)) *)
    let rec split acc = function
      | [L (A "polls" :: polls); L (A "events" :: evs)] -> (Stdlib.List.rev acc, polls, evs)
      | A s :: tl -> split (s :: acc) tl
      | _ -> failwith "out" in
    let (res, polls, evs) = split [r] rest in
    (res, Stdlib.List.map (fun p -> atom p = "1") polls, evs)
  | _ -> failwith "c29 out"

let rec is_prefix a b = match a, b with
  | [], _ -> true
  | x :: a', y :: b' -> x = y && is_prefix a' b'
  | _ -> false

let () = Reg.register "c29.cancel" (fun inp out ->
  match lst inp with
  | [gtm; tables; evt; fixws; idx; len; toks] ->
    let gtm = P_c03.get_grammar gtm in
    let ((enc, opt, _, _, finals, _) as t) = P_c01.get_tables tables in
    let m = P_c01.machine_of gtm.Cfg.g_terms t in
    let attempts = (match opt with Some o -> Cancel.attempts_opt o | None -> Cancel.attempts_default enc) in
    let evt = P_c02.get_ev_table evt and fixws = get_bool fixws in
    let i = get_int idx in
    let toks = get_list (fun t -> let (a, b, c) = P_c02.get_triple t in { t_sym = get_z a; t_off = get_z b; t_end = get_z c }) toks in
    let eoi_off = get_z len in
    let n = Stdlib.List.length toks in
    let outs = Stdlib.List.map parse_out (lst out) in
    let verdict = ref "ok" in
    let (base_res, _, base_evs) = Stdlib.List.hd outs in
    let model = Stdlib.List.map (fun (res, polls, evs) ->
      let polls_a = Stdlib.Array.of_list polls in
      let rho nn = let k = int_of_z nn / 512 - 1 in k >= 0 && k < Stdlib.Array.length polls_a && polls_a.(k) in
      let (oc, c) = Cancel.crun (nat_of_int (40 * n + 400)) m evt fixws (z_of_int i) (Stdlib.List.nth finals i) eoi_off attempts rho toks in
      let npolls = int_of_z c.cc_counter / 512 + (if oc = CtxErr then 1 else 0) in
      let mres = (match oc with
        | CtxErr -> [A "ctxerr"]
        | Plain Accept -> [A "accept"]
        | Plain (SyntaxError (o, e, _)) -> [A "syntax"; put_z o; put_z e]
        | Plain _ -> [A "other"]) in
      let mpolls = Stdlib.List.mapi (fun k _ -> A (if k < Stdlib.Array.length polls_a && polls_a.(k) then "1" else "0")) (Stdlib.List.init npolls (fun k -> k)) in
      (* oracle on the implementation's own answers *)
      (if !verdict = "ok" then begin
        let rec first_true k = function [] -> -1 | b :: r -> if b then k else first_true (k + 1) r in
        let ft = first_true 0 polls in
        if res = ["ctxerr"] then begin
          if not (is_prefix evs base_evs) then verdict := "bad:events-before-cancellation-are-not-a-prefix-of-the-uncancelled-events"
          else if ft < 0 || ft <> Stdlib.List.length polls - 1 then verdict := "bad:context-error-without-a-done-poll-or-after-continuing-past-one"
        end else begin
          if ft >= 0 then verdict := "bad:parse-continued-after-polling-a-done-context"
          else if res <> base_res || evs <> base_evs then verdict := "bad:result-differs-from-the-uncancelled-parse"
        end
      end);
      L (mres @ [L (A "polls" :: mpolls); L (A "events" :: Stdlib.List.map (fun ((t, o), e) -> L [put_z t; put_z o; put_z e]) c.cc_x.xc_events)])) outs in
    (L model, !verdict)
  | _ -> failwith "c29.cancel")

let () = Reg.register "c29.nocompile" (fun _ _ -> (A "compiles", "ok"))

(* ---------------- parsers with runtime lookaheads (Gram/CancelLA.v) ---------------- *)

type run_out = { r_res : string list; r_polls : bool list; r_depths : int list; r_evs : sexp list; r_at : int; r_after : int }

let parse_run x = match x with
  | L (A r :: rest) ->
    let rec split acc = function
      | [L (A "polls" :: polls); L (A "depths" :: depths); L (A "events" :: evs); L [A "cancel"; a; b]] ->
        { r_res = Stdlib.List.rev acc; r_polls = Stdlib.List.map (fun p -> atom p = "1") polls;
          r_depths = Stdlib.List.map get_int depths; r_evs = evs; r_at = get_int a; r_after = get_int b }
      | A s :: tl -> split (s :: acc) tl
      | _ -> failwith "c29 run" in
    split [r] rest
  | _ -> failwith "c29 run"

let rec take k l = if k <= 0 then [] else match l with [] -> [] | x :: r -> x :: take (k - 1) r
let rec first_true k = function [] -> -1 | b :: r -> if b then k else first_true (k + 1) r
let ev_end e = match e with L [_; _; c] -> get_int c | _ -> failwith "event"

(* The property, judged on the implementation's own answers: [runs] = the uncancelled run followed by cancelled runs
   of the same parser on the same input.  tok_offs = start offsets of the input's tokens (for the distance bound of
   listener-driven cancellations).  min_polls = lower bound of the number of polls of the uncancelled run. *)
let judge (runs : run_out list) (tok_offs : int array) : string =
  let base = Stdlib.List.hd runs in
  let nb = Stdlib.List.length base.r_polls in
  let verdict = ref "ok" in
  let bad s = if !verdict = "ok" then verdict := "bad:" ^ s in
  if Stdlib.List.exists (fun b -> b) base.r_polls || base.r_res = ["ctxerr"] then bad "uncancelled-run-sees-a-done-context";
  (* every 512 shifts one poll: the main loop alone shifts every token once (a lower bound of the shared counter) *)
  (match base.r_res with
   | ["accept"] -> if nb < (Stdlib.Array.length tok_offs + 1) / 512 then bad "fewer-polls-than-one-per-512-shifted-tokens"
   | _ -> ());
  Stdlib.List.iteri (fun idx r -> if idx > 0 then begin
    let np = Stdlib.List.length r.r_polls in
    let ft = first_true 0 r.r_polls in
    if r.r_res = ["ctxerr"] then begin
      if not (is_prefix r.r_evs base.r_evs) then bad "events-before-cancellation-are-not-a-prefix-of-the-uncancelled-events"
      else if ft < 0 || ft <> np - 1 then bad "context-error-without-a-done-poll-or-after-continuing-past-one"
      else if np > nb || take np r.r_depths <> take np base.r_depths then bad "poll-schedule-differs-from-the-uncancelled-run"
    end else begin
      if ft >= 0 then bad "parse-continued-after-polling-a-done-context"
      else if r.r_res <> base.r_res || r.r_evs <> base.r_evs then bad "result-differs-from-the-uncancelled-parse"
      else if r.r_depths <> base.r_depths then bad "poll-schedule-differs-from-the-uncancelled-run"
    end;
    (* cancelled before poll j: the parse must stop exactly there if the uncancelled run reaches that poll *)
    if r.r_at > 0 && r.r_at <= nb && (r.r_res <> ["ctxerr"] || np <> r.r_at) then bad "cancelled-before-a-poll-but-the-parse-went-on";
    (* cancelled by the listener during event k: every token reported afterwards was shifted after the cancellation *)
    if r.r_after > 0 && Stdlib.List.length r.r_evs >= r.r_after then begin
      let evs = Stdlib.Array.of_list r.r_evs in
      let c_off = ev_end evs.(r.r_after - 1) in
      let last = ref c_off in
      Stdlib.Array.iteri (fun i e -> if i >= r.r_after && ev_end e > !last then last := ev_end e) evs;
      let cnt = ref 0 in
      Stdlib.Array.iter (fun o -> if o >= c_off && o < !last then incr cnt) tok_offs;
      if !cnt > 512 then bad "more-than-512-tokens-shifted-after-the-cancellation"
    end
  end) runs;
  !verdict

let put_run res polls depths evs r =
  L (res @ [L (A "polls" :: polls); L (A "depths" :: depths); L (A "events" :: evs); L [A "cancel"; put_int r.r_at; put_int r.r_after]])

let () = Reg.register "c29.look" (fun inp out ->
  match lst inp with
  | [gtm; tables; evt; las; recursive; len; toks] ->
    let gtm = P_c03.get_grammar gtm in
    let ((enc, opt, _, _, finals, _) as t) = P_c01.get_tables tables in
    let m = P_c01.machine_of gtm.Cfg.g_terms t in
    let attempts = (match opt with Some o -> Cancel.attempts_opt o | None -> Cancel.attempts_default enc) in
    let evt = P_c02.get_ev_table evt in
    let finals_a = Stdlib.Array.of_list finals in
    let las = Stdlib.List.map (fun x -> match lst x with
      | [r; cases; d] ->
        (get_int r, { CancelLA.lr_cases = get_list (fun c -> match lst c with
            | [i; n; tg] -> { CancelLA.lc_input = get_z i; lc_negated = get_bool n; lc_target = get_z tg }
            | _ -> failwith "case") cases; lr_default = get_z d })
      | _ -> failwith "la rule") (lst las) in
    let lt = { CancelLA.lt_rule = (fun r -> Stdlib.List.assoc_opt (int_of_z r) las);
               lt_final = (fun i -> let k = int_of_z i in if k >= 0 && k < Stdlib.Array.length finals_a then finals_a.(k) else z_of_int (-7));
               lt_recursive = get_bool recursive; lt_depth = nat_of_int 0 } in
    let toks = get_list (fun t -> let (a, b, c) = P_c02.get_triple t in { t_sym = get_z a; t_off = get_z b; t_end = get_z c }) toks in
    let tok_offs = Stdlib.Array.of_list (Stdlib.List.map (fun t -> int_of_z t.t_off) toks) in
    let eoi_off = get_z len in
    let n = Stdlib.List.length toks in
    let fuel = nat_of_int (40 * n + 400) in
    let runs = Stdlib.List.map parse_run (lst out) in
    let model = Stdlib.List.map (fun r ->
      let polls_a = Stdlib.Array.of_list r.r_polls in
      let rho nn = let k = int_of_z nn / 512 - 1 in k >= 0 && k < Stdlib.Array.length polls_a && polls_a.(k) in
      let ((oc, c), s) = CancelLA.lrun m lt attempts eoi_off rho fuel fuel evt false (z_of_int 0) finals_a.(0) toks in
      let mres = (match oc with
        | CtxErr -> [A "ctxerr"]
        | Plain Accept -> [A "accept"]
        | Plain (SyntaxError (o, e, _)) -> [A "syntax"; put_z o; put_z e]
        | Plain _ -> [A "other"]) in
      let depths = Stdlib.List.rev (CancelLA.poll_depths s) in
      let mpolls = Stdlib.List.mapi (fun k _ -> A (if k < Stdlib.Array.length polls_a && polls_a.(k) then "1" else "0")) depths in
      put_run mres mpolls (Stdlib.List.map put_z depths)
        (Stdlib.List.map (fun ((t, o), e) -> L [put_z t; put_z o; put_z e]) c.CancelLA.lc_x.xc_events) r) runs in
    (L model, judge runs tok_offs)
  | _ -> failwith "c29.look")

(* the shipped js, tm and test parsers: oracle only (their tables are not run through the model) *)
let shipped inp out =
  match lst inp with
  | _ :: offs :: _ ->
    let tok_offs = Stdlib.Array.of_list (get_list get_int offs) in
    let runs = Stdlib.List.map parse_run (lst out) in
    (out, judge runs tok_offs)
  | _ -> failwith "c29.shipped"
let () = Reg.register "c29.js" shipped
let () = Reg.register "c29.shipped" shipped
