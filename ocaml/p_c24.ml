open Io
open BinNums
open Datatypes
open Tables
open ShiftDfa

let get_pair f g x = match lst x with [a; b] -> (f a, g b) | _ -> failwith "pair"

let get_tables x = match lst x with
  | [sb; sm; ns; stm; dfa; bt] ->
    { scan_bytes = get_bool sb; symbol_map = get_list (get_pair get_z get_z) sm; num_symbols = get_z ns;
      state_map = get_list get_z stm; dfa = get_list get_z dfa; backtrack = get_list (get_pair get_z get_z) bt }
  | _ -> failwith "tables"

let put_scanner s = L [A "ok"; put_list put_n s.sc_table; put_list put_n s.sc_on_eoi]

let () = Reg.register "c24.pack" (fun inp out ->
  let t = get_tables inp in
  match ShiftDfa.pack t with
  | PackErr _ -> (A "err", "ok")     (* refusing to pack never violates C24 *)
  | PackOk s -> (put_scanner s, "ok"))

let () = Reg.register "c24.wf" (fun inp out ->
  let t = get_tables inp in
  (put_bool (ShiftDfa.wf24b t), "ok"))

let () = Reg.register "c24.scan" (fun inp out ->
  match lst inp with
  | [tb; texts] ->
    let t = get_tables tb in
    let texts = get_list (get_list get_z) texts in
    let sc = (match ShiftDfa.pack t with PackOk s -> Some s | PackErr _ -> None) in
    let model = Stdlib.List.map (fun txt ->
      let (ls, la) = Tables.scan t Z0 txt in
      let (ss, st) = (match sc with Some s -> ShiftDfa.shift_scan s txt | None -> (z_of_int (-9), N0)) in
      L [put_z ss; put_n st; put_z ls; put_z la]) texts in
    (* the property itself, judged on the implementation's outputs: shift-DFA result = lexer-table result *)
    let ok = Stdlib.List.for_all (fun o -> match lst o with
      | [a; b; c; d] -> atom a = atom c && atom b = atom d | _ -> false) (lst out) in
    (L model, if ok then "ok" else "bad:shift-dfa-disagrees-with-lexer-tables")
  | _ -> failwith "c24.scan")
