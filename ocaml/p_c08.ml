open Io
open BinNums
open Datatypes
open Lookahead

let get_las x = get_list (fun la -> match lst la with
  | [nt; ps] -> { la_nonterm = get_z nt; la_preds = get_list (fun p -> match lst p with [i; n] -> (get_z i, get_bool n) | _ -> failwith "pred") ps }
  | _ -> failwith "la") x

let put_rule r = L [A "ok"; put_list (fun ((i, n), t) -> L [put_z i; put_bool n; put_z t]) r.r_cases; put_z r.r_default]

let () = Reg.register "c08.rule" (fun inp out ->
  let las = get_las inp in
  let model = (match Lookahead.new_rule las with LaOk r -> put_rule r | LaErr w -> L [A "err"; put_z w]) in
  (* property oracle on the implementation's answer *)
  let inputs = Stdlib.List.sort_uniq compare (Stdlib.List.concat_map (fun la -> Stdlib.List.map (fun (i, _) -> int_of_z i) la.la_preds) las) in
  let n = Stdlib.List.length inputs in
  let verdict =
    (match lst out with
     | [A "err"; _] -> "ok"        (* rejecting is always allowed by the statement *)
     | [A "ok"; cases; dflt] ->
       let r = { r_cases = get_list (fun c -> match lst c with [i; ng; t] -> ((get_z i, get_bool ng), get_z t) | _ -> failwith "case") cases;
                 r_default = get_z dflt } in
       let bad = ref "ok" in
       for mask = 0 to (1 lsl n) - 1 do
         let rho z = (let i = int_of_z z in
           let rec idx l k = (match l with [] -> -1 | x :: t -> if x = i then k else idx t (k + 1)) in
           let k = idx inputs 0 in k >= 0 && (mask lsr k) land 1 = 1) in
         let holding = Stdlib.List.filter (fun la -> Lookahead.holds rho la) las in
         (match holding with
          | [] -> ()
          | [la] -> if Lookahead.eval_rule r rho <> la.la_nonterm then bad := "bad:wrong-alternative-selected"
          | _ -> bad := "bad:non-exclusive-set-accepted")
       done;
       (* consistently ordered: no two alternatives list two common inputs in opposite orders *)
       let pos la i = (let rec go l k = (match l with [] -> -1 | (j, _) :: t -> if int_of_z j = i then k else go t (k + 1)) in go la.la_preds 0) in
       Stdlib.List.iter (fun l1 -> Stdlib.List.iter (fun l2 ->
         Stdlib.List.iter (fun a -> Stdlib.List.iter (fun b ->
           let p1a = pos l1 a and p1b = pos l1 b and p2a = pos l2 a and p2b = pos l2 b in
           if a <> b && p1a >= 0 && p1b >= 0 && p2a >= 0 && p2b >= 0 && (p1a < p1b) <> (p2a < p2b) && !bad = "ok"
           then bad := "bad:inconsistently-ordered-set-accepted") inputs) inputs) las) las;
       !bad
     | _ -> "bad:unparsable") in
  (model, verdict))
