open Io
open BinNums
open Datatypes
open Lookahead

let get_las x = get_list (fun la -> match lst la with
  | [nt; ps] -> { la_nonterm = get_z nt; la_preds = get_list (fun p -> match lst p with [i; n] -> (get_z i, get_bool n) | _ -> failwith "pred") ps }
  | _ -> failwith "la") x

let put_rule r = L [A "ok"; put_list (fun ((i, n), t) -> L [put_z i; put_bool n; put_z t]) r.r_cases; put_z r.r_default]

let () = Reg.register "c08.rule" (fun inp out ->
  let las = get_las inp in
  let model = (match Lookahead.new_rule las with LaOk r -> put_rule r | LaErr w -> L [A "err"; put_z w]) in
  (* property oracle on the implementation's answer *)
  let inputs = Stdlib.List.sort_uniq compare (Stdlib.List.concat_map (fun la -> Stdlib.List.map (fun (i, _) -> int_of_z i) la.la_preds) las) in
  let n = Stdlib.List.length inputs in
  let verdict =
    (match lst out with
     | [A "err"; _] -> "ok"        (* rejecting is always allowed by the statement *)
     | [A "ok"; cases; dflt] ->
       let r = { r_cases = get_list (fun c -> match lst c with [i; ng; t] -> ((get_z i, get_bool ng), get_z t) | _ -> failwith "case") cases;
                 r_default = get_z dflt } in
       let bad = ref "ok" in
       for mask = 0 to (1 lsl n) - 1 do
         let rho z = (let i = int_of_z z in
           let rec idx l k = (match l with [] -> -1 | x :: t -> if x = i then k else idx t (k + 1)) in
           let k = idx inputs 0 in k >= 0 && (mask lsr k) land 1 = 1) in
         let holding = Stdlib.List.filter (fun la -> Lookahead.holds rho la) las in
         (match holding with
          | [] -> ()
          | [la] -> if Lookahead.eval_rule r rho <> la.la_nonterm then bad := "bad:wrong-alternative-selected"
          | _ -> bad := "bad:non-exclusive-set-accepted")
       done;
       (* consistently ordered: no two alternatives list two common inputs in opposite orders *)
       let pos la i = (let rec go l k = (match l with [] -> -1 | (j, _) :: t -> if int_of_z j = i then k else go t (k + 1)) in go la.la_preds 0) in
       Stdlib.List.iter (fun l1 -> Stdlib.List.iter (fun l2 ->
         Stdlib.List.iter (fun a -> Stdlib.List.iter (fun b ->
           let p1a = pos l1 a and p1b = pos l1 b and p2a = pos l2 a and p2b = pos l2 b in
           if a <> b && p1a >= 0 && p1b >= 0 && p2a >= 0 && p2b >= 0 && (p1a < p1b) <> (p2a < p2b) && !bad = "ok"
           then bad := "bad:inconsistently-ordered-set-accepted") inputs) inputs) las) las;
       !bad
     | _ -> "bad:unparsable") in
  (model, verdict))

(* ---------------------------------------------------------------------------------------------------------
   c08.gen: generated parsers of random grammars with conflict points  'k' (?= ...) body -> Alt.
   Case input: ((tm ..) (opts ..) (ntok n) (preds ..) (las ..) (points ..) [(inputs ..)]), see
   harness/cmd/verifharness/c08gen.go. Model: Gram/LookaheadRun.v (group / select_on) + Gram/Lookahead.v. *)
open LookaheadRun

let field name x =
  match Stdlib.List.find_opt (fun e -> match e with L (A n :: _) -> n = name | _ -> false) (lst x) with
  | Some (L [_; v]) -> v
  | _ -> failwith ("c08.gen: missing field " ^ name)

let get_lits x = get_list (fun p -> match lst p with [i; n] -> (get_z i, get_bool n) | _ -> failwith "lit") x
let get_seqs x = get_list (fun s -> get_list get_z s) x

type g_alt = { g_sym : int; g_lits : (coq_Z * bool) list; g_first : int list; g_name : string }
type g_spec = {
  s_ntok : int;
  s_defs : pdef list;
  s_nested : (int * (coq_Z * bool) list * int list) list list;   (* per guarded predicate, per side: guard nonterminal, guard, first tokens *)
  s_las : (int * (coq_Z * bool) list) list;             (* compiled lookahead nonterminals *)
  s_points : (int * g_alt list) list;
}

let firsts_of ntok seqs =
  Stdlib.List.sort_uniq compare (Stdlib.List.concat_map (fun s -> match s with
    | [] -> [] | h :: _ -> let h = int_of_z h in if h = -1 then Stdlib.List.init ntok (fun i -> i) else [h]) seqs)

let get_spec x =
  let ntok = get_int (field "ntok" x) in
  let preds = lst (field "preds" x) in
  let side x = (match lst x with [sym; g; sq] -> (get_int sym, get_lits g, get_seqs sq) | _ -> failwith "side") in
  let defs = Stdlib.List.map (fun p -> match lst p with
    | [i; sides] -> { p_input = get_z i; p_sides = Stdlib.List.map (fun x -> let (_, g, sq) = side x in (g, sq)) (lst sides) }
    | _ -> failwith "pred") preds in
  let nested = Stdlib.List.filter_map (fun p -> match lst p with
    | [i; sides] when Stdlib.List.length (lst sides) > 1 && get_int i >= 0 ->
      Some (Stdlib.List.map (fun x -> let (sym, g, sq) = side x in (sym, g, firsts_of ntok sq)) (lst sides))
    | _ -> None) preds in
  let las = get_list (fun la -> match lst la with [nt; ps] -> (get_int nt, get_lits ps) | _ -> failwith "la") (field "las" x) in
  let points = get_list (fun p -> match lst p with
    | [k; alts] -> (get_int k, get_list (fun a -> match lst a with
        | [sym; lits; first; name] -> { g_sym = get_int sym; g_lits = get_lits lits; g_first = get_list get_int first; g_name = atom name }
        | _ -> failwith "alt") alts)
    | _ -> failwith "point") (field "points" x) in
  { s_ntok = ntok; s_defs = defs; s_nested = nested; s_las = las; s_points = points }

(* the alternatives of a point in the planner's order (ascending nonterminal = ascending lookahead index) *)
let alts_of (p : g_alt list) : alt list =
  Stdlib.List.map (fun a -> { a_la = { la_nonterm = z_of_int a.g_sym; la_preds = a.g_lits }; a_first = Stdlib.List.map z_of_int a.g_first })
    (Stdlib.List.sort (fun a b -> compare a.g_sym b.g_sym) p)

(* does the compiled grammar carry, for every alternative, the lookahead written in the source? *)
let source_matches sp =
  Stdlib.List.for_all (fun (_, alts) -> Stdlib.List.for_all (fun a ->
    a.g_sym >= 0 && (match Stdlib.List.assoc_opt a.g_sym sp.s_las with Some ps -> ps = a.g_lits | None -> false)) alts) sp.s_points
  && Stdlib.List.for_all (fun sides -> Stdlib.List.for_all (fun (sym, g, _) ->
    sym >= 0 && (match Stdlib.List.assoc_opt sym sp.s_las with Some ps -> ps = g | None -> false)) sides) sp.s_nested

(* the sets of lookahead nonterminals that conflict on some terminal (>= 2 members), from the source grammar *)
let expected_groups sp =
  let toks = Stdlib.List.init sp.s_ntok (fun i -> i) in
  let from_points = Stdlib.List.concat_map (fun (_, alts) ->
    Stdlib.List.map (fun t ->
      Stdlib.List.map (fun a -> int_of_z a.a_la.la_nonterm) (LookaheadRun.group (alts_of alts) (z_of_int t))) toks) sp.s_points in
  let from_nested = Stdlib.List.concat_map (fun sides ->
    Stdlib.List.map (fun t ->
      Stdlib.List.sort_uniq compare (Stdlib.List.filter_map (fun (sym, _, f) -> if Stdlib.List.mem t f then Some sym else None) sides)) toks) sp.s_nested in
  Stdlib.List.sort_uniq compare (Stdlib.List.filter (fun g -> Stdlib.List.length g >= 2) (from_points @ from_nested))

let las_of_group sp g =
  Stdlib.List.map (fun s -> { la_nonterm = z_of_int s; la_preds = (match Stdlib.List.assoc_opt s sp.s_las with Some ps -> ps | None -> []) }) g

let rule_text las = (match Lookahead.new_rule las with LaOk r -> put_rule r | LaErr w -> L [A "err"; put_z w])

(* all assignments over the inputs of a set: when exactly one alternative holds the rule must return it;
   no assignment may satisfy two alternatives of an accepted set *)
let truth_table las r =
  let inputs = Stdlib.List.sort_uniq compare (Stdlib.List.concat_map (fun la -> Stdlib.List.map (fun (i, _) -> int_of_z i) la.la_preds) las) in
  let n = Stdlib.List.length inputs in
  let ok = ref "ok" in
  for mask = 0 to (1 lsl n) - 1 do
    let rho z = (let i = int_of_z z in
      let rec idx l k = (match l with [] -> -1 | x :: t -> if x = i then k else idx t (k + 1)) in
      let k = idx inputs 0 in k >= 0 && (mask lsr k) land 1 = 1) in
    (match Stdlib.List.filter (fun la -> Lookahead.holds rho la) las with
     | [] -> ()
     | [la] -> if Lookahead.eval_rule r rho <> la.la_nonterm then ok := "bad:table-rule-selects-alternative-whose-predicates-do-not-hold"
     | _ -> if !ok = "ok" then ok := "bad:non-exclusive-set-accepted")
  done;
  !ok

let () = Reg.register "c08.gen.tables" (fun inp out ->
  let sp = get_spec inp in
  let groups = expected_groups sp in
  let model = L (Stdlib.List.map (fun g -> L [put_list put_int g; rule_text (las_of_group sp g)]) groups) in
  let verdict =
    if not (source_matches sp) then "bad:compiled-lookahead-differs-from-source" else
    (try
      let rules = Stdlib.List.map (fun r -> match lst r with
        | [key; L [A "ok"; cases; dflt]] ->
          (get_list get_int key,
           { r_cases = get_list (fun c -> match lst c with [i; ng; t] -> ((get_z i, get_bool ng), get_z t) | _ -> failwith "case") cases;
             r_default = get_z dflt })
        | _ -> failwith "rule") (lst out) in
      let tt = Stdlib.List.fold_left (fun acc (key, r) -> if acc <> "ok" then acc else truth_table (las_of_group sp key) r) "ok" rules in
      if tt <> "ok" then tt
      else if Stdlib.List.sort_uniq compare (Stdlib.List.map Stdlib.fst rules) <> groups
      then "bad:table-rules-are-not-the-sets-of-conflicting-alternatives"
      else "ok"
    with Failure _ -> "bad:unparsable") in
  (model, verdict))

(* the tokens of a statement: key t1 t2 ';' *)
let is_tok sp t = t >= 0 && t < sp.s_ntok

let () = Reg.register "c08.gen.run" (fun inp out ->
  let sp = get_spec inp in
  let inputs = get_list (fun i -> get_list get_int i) (field "inputs" inp) in
  let name_of alts nt = (match Stdlib.List.find_opt (fun a -> a.g_sym = nt) alts with Some a -> a.g_name | None -> "?") in
  (* model: the LR parser of the grammar scheme  input : stmt+ ; stmt : key la first any ';' -> Name *)
  let run toks =
    let rec go toks evs n =
      match toks with
      | [] -> ((if n > 0 then "accept" else "syntax"), evs)
      | k :: rest ->
        (match Stdlib.List.assoc_opt k sp.s_points with
         | None -> ("syntax", evs)
         | Some alts ->
           (match rest with
            | t1 :: _ when not (is_tok sp t1) -> ("syntax", evs)
            | _ ->
              (match LookaheadRun.select_on (z_of_int sp.s_ntok) sp.s_defs (alts_of alts) (Stdlib.List.map z_of_int rest) with
               | SelNone -> ("syntax", evs)
               | SelErr _ -> ("rule-error", evs)
               | SelOne nt ->
                 (match rest with
                  | _ :: t2 :: 100 :: rest' when is_tok sp t2 -> go rest' (evs @ [name_of alts (int_of_z nt)]) (n + 1)
                  | _ -> ("syntax", evs))))) in
    let (res, evs) = go toks [] 0 in
    L (A res :: Stdlib.List.map (fun e -> A e) evs) in
  let model = L (Stdlib.List.map run inputs) in
  (* oracle: on every well-formed statement for which exactly one applicable alternative is satisfied, the
     node reported by the generated parser must be that alternative's *)
  let verdict =
    if not (source_matches sp) then "bad:compiled-lookahead-differs-from-source" else
    (try
      let outs = lst out in
      if Stdlib.List.length outs <> Stdlib.List.length inputs then "bad:unparsable" else begin
        let bad = ref "ok" in
        Stdlib.List.iter2 (fun toks o ->
          let evs = (match lst o with A _ :: evs -> Stdlib.List.map atom evs | _ -> failwith "out") in
          let rec stmts toks evs =
            (match toks with
             | k :: (t1 :: t2 :: 100 :: rest' as rest) when is_tok sp t1 && is_tok sp t2 && Stdlib.List.mem_assoc k sp.s_points ->
               let alts = Stdlib.List.assoc k sp.s_points in
               let rho = LookaheadRun.rho_at (z_of_int sp.s_ntok) sp.s_defs (Stdlib.List.map z_of_int rest) in
               let applicable = Stdlib.List.filter (fun a -> Stdlib.List.mem t1 a.g_first) alts in
               let holding = Stdlib.List.filter (fun a -> Lookahead.holds rho { la_nonterm = z_of_int a.g_sym; la_preds = a.g_lits }) applicable in
               (match evs with
                | [] ->
                  if Stdlib.List.length holding = 1 && !bad = "ok" then bad := "bad:statement-with-unique-satisfied-alternative-rejected"
                | e :: evs' ->
                  (match holding with
                   | [a] when Stdlib.List.length applicable >= 2 && e <> a.g_name ->
                     bad := "bad:selected-alternative-whose-predicates-do-not-hold"
                   | _ -> ());
                  if not (Stdlib.List.exists (fun a -> a.g_name = e) applicable) && !bad = "ok" then bad := "bad:selected-inapplicable-alternative";
                  stmts rest' evs')
             | _ -> ()) in
          stmts toks evs) inputs outs;
        !bad
      end
    with Failure _ -> "bad:unparsable") in
  (model, verdict))

(* rejected grammars: input ((tm ..) (opts ..) (ntok n) (points ((key ((lits first) ..)) ..)) (nested ((guard ..) ..)));
   literals carry predicate numbers; impl = (rejected ((why (exprs..)) ..) other-errors) *)
let () = Reg.register "c08.gen.reject" (fun inp out ->
  let ntok = get_int (field "ntok" inp) in
  let toks = Stdlib.List.init ntok (fun i -> i) in
  let points = get_list (fun p -> match lst p with
    | [_; alts] -> get_list (fun a -> match lst a with [lits; first] -> (get_lits lits, get_list get_int first) | _ -> failwith "alt") alts
    | _ -> failwith "point") (field "points" inp) in
  let nested = get_list (fun p -> get_list get_lits p) (field "nested" inp) in
  let norm g = Stdlib.List.sort_uniq compare g in
  let groups =
    Stdlib.List.sort_uniq compare (Stdlib.List.filter (fun g -> Stdlib.List.length g >= 2)
      (Stdlib.List.concat_map (fun alts -> Stdlib.List.map (fun t ->
          norm (Stdlib.List.filter_map (fun (l, f) -> if Stdlib.List.mem t f then Some l else None) alts)) toks) points
       @ Stdlib.List.map norm nested)) in
  let mk exprs = Stdlib.List.mapi (fun i l -> { la_nonterm = z_of_int (100 + i); la_preds = l }) exprs in
  let put_expr l = put_list (fun (i, n) -> L [put_z i; put_bool n]) l in
  let model, verdict =
    (match lst out with
     | [A "rejected"; reported; _] ->
       let reps = get_list (fun r -> match lst r with [w; exprs] -> (get_z w, get_list get_lits exprs) | _ -> failwith "rep") reported in
       (* every conflicting set the model rejects must be reported with the same reason; the message lists
          (a subset of) its members *)
       let all_found = ref true in
       let m = Stdlib.List.filter_map (fun g ->
         match Lookahead.new_rule (mk g) with
         | LaOk _ -> None
         | LaErr w ->
           (match Stdlib.List.find_opt (fun (w', exprs) -> w' = w && Stdlib.List.for_all (fun e -> Stdlib.List.mem e g) exprs) reps with
            | Some (_, exprs) -> Some (L [put_z w; put_list put_expr exprs])
            | None -> all_found := false; Some (L [put_z w; put_list put_expr g]))) groups in
       let m = Stdlib.List.sort_uniq compare (Stdlib.List.map to_string m) in
       (* the model derives the conflicting sets from the first tokens of the bodies only; the compiler may report
          further sets (sub-sets that conflict in other states): every set the model rejects must be among the
          reported ones, further reports are accepted as they are *)
       ((if !all_found && m <> [] then out else L [A "rejected"; L (Stdlib.List.map (fun s -> parse s) m); A "0"]),
        "ok")   (* rejecting a grammar is always allowed by the statement *)
     | _ -> (A "?", "bad:unparsable")) in
  (model, verdict))

(* (?= notX) next to (?= !X) with two different nonterminals X and notX: not mutually exclusive, must be rejected *)
let () = Reg.register "c08.gen.clash" (fun _ out ->
  match out with
  | L [A "rejected"] -> (out, "ok")
  | L [A "accepted"; _] -> (L [A "rejected"], "bad:non-exclusive-lookahead-set-accepted")
  | _ -> (L [A "rejected"], "bad:unparsable"))
