open Io
open BinNums
open Datatypes
open Diff

let put_chunks cs = put_list (fun c -> L [put_z c.c_del; put_z c.c_ins; put_z c.c_eq]) cs
let get_chunks x = get_list (fun c -> match lst c with [d; i; e] -> { c_del = get_z d; c_ins = get_z i; c_eq = get_z e } | _ -> failwith "chunk") x

let () = Reg.register "c27.lcs" (fun inp out ->
  match lst inp with
  | [a; b] ->
    let a = get_list get_z a and b = get_list get_z b in
    let model = (match Diff.lcs a b with LcsOk cs -> put_chunks cs | LcsFatal -> A "fatal" | LcsFuel -> A "out-of-fuel") in
    let impl = get_chunks out in
    let la = Stdlib.List.length a and lb = Stdlib.List.length b in
    let verdict =
      if not (Diff.script_ok impl a b) then "bad:script-does-not-turn-a-into-b"
      else if int_of_z (Diff.cost impl) <> la + lb - 2 * int_of_z (Diff.lcs_len a b) then "bad:script-not-minimal"
      else "ok" in
    (model, verdict)
  | _ -> failwith "c27.lcs")

let put_hunk h = L [put_z h.h_left; put_z h.h_right; put_z h.h_lsize; put_z h.h_rsize;
                    put_list (fun (c, l) -> L [put_z c; put_z l]) h.h_entries]
let _unused_get_hunk x = match lst x with
  | [A hdr; es] -> failwith "hdr"
  | _ -> failwith "hunk"

let () = Reg.register "c27.linediff" (fun inp out ->
  match lst inp with
  | [a; b] ->
    let a = get_list get_z a and b = get_list get_z b in
    let model = (match Diff.line_diff a b with None -> A "none" | Some hs -> L [A "some"; put_list put_hunk hs]) in
    let equal = (a = b) in
    let verdict =
      (match out with
       | A "panic" -> "bad:linediff-panics"
       | A "none" -> if equal then "ok" else "bad:empty-diff-for-different-texts"
       | L [A "some"; hs] ->
         if equal then "bad:non-empty-diff-for-equal-texts" else begin
           let hunks = get_list (fun h -> match lst h with
             | [l; r; ls; rs; es] -> { h_left = get_z l; h_right = get_z r; h_lsize = get_z ls; h_rsize = get_z rs;
                                       h_entries = get_list (fun e -> match lst e with [c; x] -> (get_z c, get_z x) | _ -> failwith "entry") es }
             | _ -> failwith "hunk") hs in
           let elided = Stdlib.List.exists (fun h -> Stdlib.List.exists (fun (_, l) -> int_of_z l < 0) h.h_entries) hunks in
           if hunks = [] then "bad:empty-diff-for-different-texts"
           else if elided then "bad:hunk-elides-a-run-longer-than-14-lines"
           else match Diff.apply_hunks hunks a Z0 [] with
             | Some r when r = b ->
               (* header sizes = number of lines on each side *)
               if Stdlib.List.for_all (fun h ->
                    let cnt p = Stdlib.List.length (Stdlib.List.filter (fun (c, _) -> p (int_of_z c)) h.h_entries) in
                    int_of_z h.h_lsize = cnt (fun c -> c <> 2) && int_of_z h.h_rsize = cnt (fun c -> c <> 1)) hunks
               then "ok" else "bad:hunk-header-sizes"
             | _ -> "bad:hunks-do-not-apply"
         end
       | _ -> "bad:unparsable") in
    (model, verdict)
  | _ -> failwith "c27.linediff")
