(* C20: the AST builder (addNode) vs its model, judged by the forest specification; the listener events of the
   shipped parsers on valid and broken inputs judged by the well-nestedness conditions. *)
open Io
open BinNums
open Datatypes
open TreeBuilder

let get_ev x = match lst x with [a; b; c] -> ((get_z a, get_z b), get_z c) | _ -> failwith "event"

let rec put_bnode (BNode (t, o, e, ch)) = L (put_z t :: put_z o :: put_z e :: Stdlib.List.map put_bnode ch)

exception Bad_parent
let rec get_bnode x = match lst x with
  | t :: o :: e :: ch ->
    let ch = Stdlib.List.filter (fun c -> match c with A "badparent" -> raise Bad_parent | _ -> true) ch in
    BNode (get_z t, get_z o, get_z e, Stdlib.List.map get_bnode ch)
  | _ -> failwith "bnode"

let () = Reg.register "c20.build" (fun inp out ->
  match lst inp with
  | [_; evs] ->
    let evs = get_list get_ev evs in
    let model = Stdlib.List.rev (TreeBuilder.build evs) in
    let verdict =
      if not (TreeBuilder.ok_events evs) then "ok" else
      (try
        let impl = Stdlib.List.map get_bnode (lst out) in
        let nodes = Stdlib.List.sort compare (TreeBuilder.forest_nodes impl) in
        if nodes <> Stdlib.List.sort compare evs then "bad:tree-does-not-have-exactly-the-reported-nodes"
        else if not (TreeBuilder.wf_forest impl) then "bad:tree-is-not-nested-by-ranges-in-source-order"
        else "ok"
      with Bad_parent -> "bad:parent-pointer-inconsistent") in
    (L (Stdlib.List.map put_bnode model), verdict)
  | _ -> failwith "c20.build")

let events_oracle name = Reg.register name (fun inp out ->
  match lst inp, lst out with
  | [_; len; _], [st; evs] ->
    let evs = get_list get_ev evs in
    let verdict =
      if atom st <> "ok" then "bad:parser-crashed-or-hung"
      else if not (TreeBuilder.in_input (get_z len) evs) then "bad:reported-node-outside-the-input"
      else if not (TreeBuilder.ok_events evs) then "bad:reported-nodes-are-not-well-nested-with-containers-last"
      else "ok" in
    (out, verdict)
  | _ -> failwith name)

(* c20.events: the shipped parsers; c20.genev: generated parsers (input = grammar text, length, text) *)
let () = events_oracle "c20.events"
let () = events_oracle "c20.genev"

(* a generated grammar that textmapper accepted must build *)
let () = Reg.register "c20.gennobuild" (fun _ _ -> (A "builds", "bad:generated-parser-does-not-build"))
