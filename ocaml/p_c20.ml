(* C20: the AST builder (addNode) vs its model, judged by the forest specification; the listener events of the
   shipped parsers on valid and broken inputs judged by the well-nestedness conditions. *)
open Io
open BinNums
open Datatypes
open TreeBuilder

let get_ev x = match lst x with [a; b; c] -> ((get_z a, get_z b), get_z c) | _ -> failwith "event"

let rec put_bnode (BNode (t, o, e, ch)) = L (put_z t :: put_z o :: put_z e :: Stdlib.List.map put_bnode ch)

exception Bad_parent
let rec get_bnode x = match lst x with
  | t :: o :: e :: ch ->
    let ch = Stdlib.List.filter (fun c -> match c with A "badparent" -> raise Bad_parent | _ -> true) ch in
    BNode (get_z t, get_z o, get_z e, Stdlib.List.map get_bnode ch)
  | _ -> failwith "bnode"

let () = Reg.register "c20.build" (fun inp out ->
  match lst inp with
  | [_; evs] ->
    let evs = get_list get_ev evs in
    let model = Stdlib.List.rev (TreeBuilder.build evs) in
    let verdict =
      if not (TreeBuilder.ok_events evs) then "ok" else
      (try
        let impl = Stdlib.List.map get_bnode (lst out) in
        let nodes = Stdlib.List.sort compare (TreeBuilder.forest_nodes impl) in
        if nodes <> Stdlib.List.sort compare evs then "bad:tree-does-not-have-exactly-the-reported-nodes"
        else if not (TreeBuilder.wf_forest impl) then "bad:tree-is-not-nested-by-ranges-in-source-order"
        else "ok"
      with Bad_parent -> "bad:parent-pointer-inconsistent") in
    (L (Stdlib.List.map put_bnode model), verdict)
  | _ -> failwith "c20.build")

let events_oracle name = Reg.register name (fun inp out ->
  match lst inp, lst out with
  | [_; len; _], [st; evs] ->
    let evs = get_list get_ev evs in
    let verdict =
      if atom st <> "ok" then "bad:parser-crashed-or-hung"
      else if not (TreeBuilder.in_input (get_z len) evs) then "bad:reported-node-outside-the-input"
      else if not (TreeBuilder.ok_events evs) then "bad:reported-nodes-are-not-well-nested-with-containers-last"
      else "ok" in
    (out, verdict)
  | _ -> failwith name)

(* c20.events: the shipped parsers; c20.genev: generated parsers (input = grammar text, length, text) *)
let () = events_oracle "c20.events"
let () = events_oracle "c20.genev"

(* a generated grammar that textmapper accepted must build *)
let () = Reg.register "c20.gennobuild" (fun _ _ -> (A "builds", "bad:generated-parser-does-not-build"))

(* c20.pending: generated parsers with an injected comment token vs the model Pending.pxrun (fetchNext's pending list,
   flush at every shift), callback for callback; the oracle judges the implementation's stream with ok_events /
   in_input when fixWhitespace is on (the scope of C20_parser_events_with_skipped_tokens_are_well_nested). *)
let () = Reg.register "c20.pending" (fun inp out ->
  match lst inp with
  | [gtm; tables; evt; _arrows; fixws; samples] ->
    let gtm = P_c03.get_grammar gtm in
    let ((_, _, _, _, finals, _) as t) = P_c01.get_tables tables in
    let m = P_c01.machine_of gtm.Cfg.g_terms t in
    let evt = P_c02.get_ev_table evt and fixws = get_bool fixws in
    let verdict = ref "ok" in
    let model = Stdlib.List.map2 (fun s o ->
      match lst s with
      | [idx; len; toks] ->
        let i = get_int idx in
        let toks = get_list (fun x -> match lst x with
          | [A "r"; a; b; c] -> Pending.LReal { Run.t_sym = get_z a; Run.t_off = get_z b; Run.t_end = get_z c }
          | [A "s"; ty; b; c] -> Pending.LSkip ((get_z ty, get_z b), get_z c)
          | _ -> failwith "ltok") toks in
        let eoi_off = get_z len in
        let n = Stdlib.List.length toks in
        let (oc, c) = Pending.pxrun (nat_of_int (40 * n + 400)) m evt fixws (z_of_int i) (Stdlib.List.nth finals i) eoi_off toks in
        let stream = Pending.stream_of c in
        let mo = (match oc with
          | Run.Accept -> L [A "accept"; put_z eoi_off; P_c02.put_events stream]
          | Run.SyntaxError (off, e, _) -> L [A "syntax"; put_z off; put_z e; P_c02.put_events stream]
          | Run.Crash _ -> A "panic"
          | Run.OutOfFuel -> A "timeout") in
        (if !verdict = "ok" && fixws then
          match P_c02.get_impl_events o with
          | None -> verdict := "bad:sentence-not-accepted"
          | Some evs ->
            if not (TreeBuilder.in_input eoi_off evs) then verdict := "bad:reported-node-outside-the-input"
            else if not (TreeBuilder.ok_events evs) then verdict := "bad:reported-nodes-are-not-well-nested-with-containers-last");
        mo
      | _ -> failwith "sample") (lst samples) (lst out) in
    (L model, !verdict)
  | _ -> failwith "c20.pending")

let () = Reg.register "c20.pendnocompile" (fun _ _ -> (A "compiles", "ok"))
