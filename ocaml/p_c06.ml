open Io
open BinNums
open Datatypes
open PTables
open Minimize
open Run

let put_default_enc t = L [put_list put_z t.d_action; put_list put_z t.d_lalr; put_list put_z t.d_goto; put_list put_z t.d_from_to]

let mk_tokens syms = Stdlib.List.mapi (fun i s -> { t_sym = s; t_off = z_of_int i; t_end = z_of_int (i + 1) }) syms

(* trace equality up to equivalent rules *)
let rec trace_rel key tr1 tr2 = match tr1, tr2 with
  | [], [] -> true
  | TShift (s1, _) :: r1, TShift (s2, _) :: r2 -> s1 = s2 && trace_rel key r1 r2
  | TReduce (a, o1, e1) :: r1, TReduce (b, o2, e2) :: r2 -> key a = key b && o1 = o2 && e1 = e2 && trace_rel key r1 r2
  | _, _ -> false

let () = Reg.register "c06.min" (fun inp out ->
  match lst inp, lst out with
  | [terms; ninputs; enc; rule_len; rule_sym; keys; final; eoi; markers; nstates; inputs], [enc'; final'; markers'; nstates'] ->
    let mi = { mi_enc = P_c05.get_default_enc enc; mi_rule_len = get_list get_z rule_len;
               mi_rule_keys = get_list (get_list get_z) keys; mi_final = get_list get_z final; mi_eoi = get_list get_bool eoi;
               mi_markers = get_list (get_list get_z) markers; mi_num_states = get_z nstates } in
    let rule_sym = get_list get_z rule_sym in
    let terms = get_z terms and ninputs = get_z ninputs in
    let mo = Minimize.minimize mi in
    let model = L [put_default_enc mo.mo_enc; put_list put_z mo.mo_final; put_list (put_list put_z) mo.mo_markers; put_z mo.mo_num_states] in
    (* the implementation's minimized tables with the model's remapping as the certificate *)
    let impl = { mo_enc = P_c05.get_default_enc enc'; mo_final = get_list get_z final'; mo_markers = get_list (get_list get_z) markers';
                 mo_num_states = get_z nstates'; mo_remap = mo.mo_remap } in
    let cert_ok = Minimize.check_min mi rule_sym impl terms ninputs in
    (* direct comparison of runs from every entry point *)
    let m1 = Run.default_machine mi.mi_enc mi.mi_rule_len rule_sym in
    let m2 = Run.default_machine impl.mo_enc mi.mi_rule_len rule_sym in
    let key r = Minimize.rule_key_full mi rule_sym r in
    let runs_ok = Stdlib.List.for_all (fun x -> match lst x with
      | [idx; strs] ->
        let i = get_int idx in
        let st = z_of_int i in
        let e1 = Stdlib.List.nth mi.mi_final i and e2 = Stdlib.List.nth impl.mo_final i in
        Stdlib.List.for_all (fun s ->
          let toks = mk_tokens (get_list get_z s) in
          let eoff = z_of_int (Stdlib.List.length toks) in
          let fuel = nat_of_int 2000 in
          let (o1, c1) = Run.run fuel m1 st e1 eoff toks in
          let (o2, c2) = Run.run fuel m2 st e2 eoff toks in
          o1 = o2 && trace_rel key c1.c_trace c2.c_trace) (lst strs)
      | _ -> failwith "inputs") (lst inputs) in
    (* the hypothesis of the generator theorem (Props/C06.v, C06_minimize_passes_check) holds for what lalr.Compile
       hands to minimize; tables with LALR(k) rows are outside it *)
    let wf = MinimizeWf.wf_min_input mi rule_sym terms ninputs in
    let has_deep = Stdlib.List.exists (fun s -> Stdlib.List.exists (fun a -> Run.lalr_deep mi.mi_enc s a) (Optimize.zseq terms))
                     (Optimize.zseq mi.mi_num_states) in
    (model, if not runs_ok then "bad:minimized-parser-behaves-differently"
            else if not cert_ok then "bad:quotient-certificate-rejected"
            else if not wf && not has_deep then "bad:minimize-input-not-wellformed" else "ok")
  | _ -> failwith "c06.min")
