open Io
open BinNums
open Datatypes
open Expr
open Syn_io
module SL = Stdlib.List

let words_for t =
  let maxlen = if t <= 2 then 5 else if t = 3 then 4 else 3 in
  ExtLang.words_upto (SL.init t (fun i -> z_of_int i)) (nat_of_int maxlen)

let ext_chart tz vals w =
  let n = SL.length w in
  let fuel = nat_of_int ((n + 1) * (n + 1) * (SL.length vals) + 1) in
  ExtLang.ext_chart_fix fuel tz (fun _ -> []) vals w (SL.init ((n + 1) * (n + 1)) (fun _ -> []))

(* all (nonterminal, valuation) pairs with the name Instantiate gives them *)
let pair_names (m : model) (pairs : (coq_Z * (coq_Z * coq_Z list) list) list) =
  SL.map (fun (nt, v) ->
    let sorted = Templates.inst_env { Templates.i_nt = nt; Templates.i_sig = v } in
    let (sfx, _) = Templates.suffix_of m.m_params sorted in
    (SL.nth m.m_nonterms (int_of_z nt)).nt_name @ sfx) pairs

let index_of x l = let rec go l k = match l with [] -> -1 | y :: r -> if y = x then k else go r (k + 1) in go l 0

(* targets: (description, symbol on the implementation side, pair index) *)
let compare_with_spec (m : model) (eps_if_dead : bool) (targets : (int * int) list)
    (impl_member : coq_Z list -> int -> bool) : string =
  let t = SL.length m.m_terms in
  let tz = z_of_int t in
  let (_, spec_vals) = Templates.spec_values eps_if_dead tz m.m_nonterms in
  let bad = ref "ok" in
  SL.iter (fun w ->
    if !bad = "ok" then begin
      let n = SL.length w in
      let sc = ext_chart tz spec_vals w in
      SL.iter (fun (j, k) ->
        let want = Cfg.mem (z_of_int (t + k)) (SL.nth sc n) in
        let got = impl_member w j in
        if want <> got && !bad = "ok" then
          bad := Printf.sprintf "bad:language-differs(instance=%d,word=%s,template=%b,instantiated=%b)" j
              (String.concat "." (SL.map (fun z -> string_of_int (int_of_z z)) w)) want got) targets
    end) (words_for t);
  !bad

let verdict_of (m : model) (names : coq_Z list list) (impl_member : coq_Z list -> int -> bool) : string =
  let t = SL.length m.m_terms in
  let (pairs, _) = Templates.spec_values false (z_of_int t) m.m_nonterms in
  let pnames = pair_names m pairs in
  let targets = SL.mapi (fun j n -> (j, index_of n pnames)) names in
  (* nonterminals that are not instances (extracted lists etc. in the end-to-end run) are skipped *)
  let targets = SL.filter (fun (_, k) -> k >= 0) targets in
  if targets = [] then "bad:no-instance-recognised" else
  (* reading pinned by syntax/templates_test.go: a group whose alternatives are all disabled vanishes *)
  compare_with_spec m true targets impl_member

let () = Reg.register "c14.instantiate" (fun inp out ->
  let m = get_model inp in
  let r = Templates.instantiate (nat_of_int 400) m in
  let model = if r.Templates.tr_fatal then L [A "fatal"]
    else L [A "ok"; put_nonterms (SL.map (fun ((n, v), _) -> (n, v)) r.Templates.tr_nonterms); put_inputs r.Templates.tr_inputs] in
  let verdict = match lst out with
    | [A "err"] -> "bad:unexpected-error"
    | [A "ok"; _; _] when not (Templates.inst_checks (nat_of_int 400) m) ->
      (* the side conditions of the Coq theorem C14_instantiate_correct, evaluated on this model *)
      "bad:side-conditions-of-the-correctness-theorem-do-not-hold"
    | [A "ok"; _; _] when m.m_params <> [] && not (TemplatesWf.wf_templates (nat_of_int 400) m) ->
      (* the static hypothesis of C14_instantiate_correct_wf (implies inst_checks_core for every model) *)
      "bad:static-well-formedness-wf_templates-does-not-hold"
    | [A "ok"; nts; _] ->
      let nts = get_nonterms nts in
      let t = SL.length m.m_terms in
      let tz = z_of_int t in
      let vals = SL.map Stdlib.snd nts in
      let cache = Hashtbl.create 64 in
      let member w j =
        let c = (try Hashtbl.find cache w with Not_found -> let c = ext_chart tz vals w in Hashtbl.replace cache w c; c) in
        Cfg.mem (z_of_int (t + j)) (SL.nth c (SL.length w)) in
      verdict_of m (SL.map Stdlib.fst nts) member
    | _ -> "bad:unparsable" in
  (model, verdict))

(* end to end: templated .tm text; grammar.Parser.Rules; instances identified by their names in Syms *)
let () = Reg.register "c14.tm" (fun inp out ->
  (* lookahead flags: made explicit (ordinary parameters with explicit arguments everywhere) before the oracle *)
  let m = Templates.la_explicit (get_model inp) in
  let verdict = match lst out with
    | [A "err"] | [A "err"; A "other"] -> "ok"
    | [A "err"; A "uninitialized"] -> "bad:reference-with-every-parameter-provided-rejected-as-uninitialized"
    | [A "ok"; t; syms; rules] ->
      let t = get_int t in
      let syms = get_list get_bytes syms in
      if t <> SL.length m.m_terms || SL.filteri (fun i _ -> i < t) syms <> m.m_terms then "bad:harness-terminal-numbering"
      else begin
        let rules = get_list (fun r -> match lst r with
            | [l; rhs] -> { Cfg.r_lhs = get_z l; Cfg.r_rhs = get_list get_z rhs; Cfg.r_prec = z_of_int 0 }
            | _ -> failwith "rule") rules in
        let g = { Cfg.g_terms = z_of_int t; Cfg.g_nonterms = z_of_int (SL.length syms - t); Cfg.g_rules = rules;
                  Cfg.g_inputs = []; Cfg.g_prec = [] } in
        let cache = Hashtbl.create 64 in
        let member w j =
          let c = (try Hashtbl.find cache w with Not_found -> let c = Derive.build_chart g w in Hashtbl.replace cache w c; c) in
          let nn = nat_of_int (SL.length w) in
          Derive.sym_derives g w nn c (z_of_int (t + j)) O nn in
        verdict_of m (SL.filteri (fun i _ -> i >= t) syms) member
      end
    | _ -> "bad:unparsable" in
  (A "-", verdict))

(* Instantiate followed by Expand: exact comparison of the composed models (group-delayed sortTail) *)
let () = Reg.register "c14.pipeline" (fun inp out ->
  let m = get_model inp in
  let r = Templates.instantiate (nat_of_int 400) m in
  let m2 = { m with m_params = [];
             m_nonterms = SL.map (fun ((n, v), g) -> { nt_name = n; nt_params = []; nt_value = v; nt_group = g }) r.Templates.tr_nonterms;
             m_inputs = r.Templates.tr_inputs; m_sets = r.Templates.tr_sets } in
  let e = Expand.expand m2 in
  let model = if r.Templates.tr_fatal || e.Expand.res_error || e.Expand.res_fatal then L [A "err"]
    else L [A "ok"; put_nonterms e.Expand.res_nonterms; put_inputs e.Expand.res_inputs] in
  let verdict = match lst out with
    | [A "ok"; _; _] ->
      if not (Expand.expand_checks m2) then "bad:side-conditions-of-the-correctness-theorem-do-not-hold"
      else if not (ExpandWf.wf_model m2) then "bad:static-well-formedness-wf_model-does-not-hold" else "ok"
    | _ -> "ok" in
  (model, verdict))
