(* C01: validator on real tables (proof for all inputs per grammar), run model vs generated parser,
   and the CFG oracle (chart recogniser / viable-prefix recogniser) judging the generated parser. *)
open Io
open BinNums
open Datatypes
open PTables
open Run

let get_tables x = match lst x with
  | [enc; opt; rule_len; rule_sym; finals; nstates] ->
    let enc = P_c05.get_default_enc enc in
    let opt = (match lst opt with [] -> None | [o] -> Some (P_c05.get_disp_enc o) | _ -> failwith "opt") in
    (enc, opt, get_list get_z rule_len, get_list get_z rule_sym, get_list get_z finals, get_z nstates)
  | _ -> failwith "tables"

let machine_of terms (enc, opt, rl, rs, _, _) = match opt with
  | Some o -> Run.opt_machine o terms rl rs
  | None -> Validator.lalr1_machine enc rl rs

let fuel_cert = nat_of_int 400

let () = Reg.register "c01.validate" (fun inp _ ->
  match lst inp with
  | [g; tables] ->
    let g = P_c03.get_grammar g in
    let ((_, _, _, _, finals, nstates) as t) = get_tables tables in
    let m = machine_of g.Cfg.g_terms t in
    let r = int_of_z (CertGen.validate g m nstates finals fuel_cert) in
    (* clause 15: the liveness validator (correct-prefix property, C01_error_not_early) *)
    let r = if r = 0 && not (CertGen.validate_live g nstates fuel_cert) then 15 else r in
    ((if r = 0 then A "validated" else L [A "rejected-clause"; put_int r]), "ok")
  | _ -> failwith "c01.validate")

let rec firstn k l = if k <= 0 then [] else match l with [] -> [] | x :: r -> x :: firstn (k - 1) r

let () = Reg.register "c01.parse" (fun inp out ->
  match lst inp with
  | [cfg; idx; gtm; tables; tmap; strs] ->
    let tmap = Stdlib.Array.of_list (get_list get_z tmap) in
    let cfg = P_c03.get_grammar cfg in
    let gtm = P_c03.get_grammar gtm in
    let i = get_int idx in
    let (nt, eoi) = Stdlib.List.nth cfg.Cfg.g_inputs i in
    let ((_, _, _, _, finals, _) as t) = get_tables tables in
    let m = machine_of gtm.Cfg.g_terms t in
    let outs = lst out in
    let verdict = ref "ok" in
    let model = Stdlib.List.map2 (fun s o ->
      let w = get_list get_z s in
      let n = Stdlib.List.length w in
      let wt = Stdlib.List.map (fun t -> tmap.(int_of_z t)) w in
      let (oc, c) = Validator.parse (nat_of_int (40 * n + 400)) m finals (nat_of_int i) wt in
      let mo = (match oc with
        | Accept -> L [A "accept"; put_int (int_of_z c.c_shifted - (if eoi then 1 else 0))]
        | SyntaxError (off, e, _) -> L [A "syntax"; put_z off; put_z e]
        | Crash _ -> A "panic"
        | OutOfFuel -> A "timeout") in
      (* the property, judged on the implementation's answer *)
      (if !verdict = "ok" then
        let sentence p = Derive.derives_dec cfg nt p in
        let viable p = Derive.viable_dec cfg nt p in
        match o with
        | L [A "accept"; _] ->
          let okacc = if eoi then sentence w else Stdlib.List.exists (fun k -> sentence (firstn k w)) (Stdlib.List.init (n + 1) (fun k -> k)) in
          if not okacc then verdict := "bad:accepts-a-non-sentence"
        | L [A "syntax"; off; _] ->
          let k = get_int off in
          let insent = if eoi then sentence w else Stdlib.List.exists (fun j -> sentence (firstn j w)) (Stdlib.List.init (n + 1) (fun j -> j)) in
          if insent then verdict := "bad:rejects-a-sentence"
          else if k < 0 || k > n then verdict := "bad:error-offset-outside-input"
          else if not (viable (firstn k w)) then verdict := "bad:error-reported-too-late"
          else if k < n && viable (firstn (k + 1) w) then verdict := "bad:error-reported-too-early"
        | _ -> verdict := "bad:parser-crashed-or-hung");
      mo) (lst strs) outs in
    (L model, !verdict)
  | _ -> failwith "c01.parse")

(* table level: validate lalr.Compile's tables and judge the loop model running on them *)
let () = Reg.register "c01.tables" (fun inp _ ->
  match lst inp with
  | [g; tables; batches] ->
    let g = P_c03.get_grammar g in
    let ((_, _, _, _, finals, nstates) as t) = get_tables tables in
    let m = machine_of g.Cfg.g_terms t in
    let r = int_of_z (CertGen.validate g m nstates finals fuel_cert) in
    (* clause 15: the liveness validator (correct-prefix property, C01_error_not_early) *)
    let r = if r = 0 && not (CertGen.validate_live g nstates fuel_cert) then 15 else r in
    let verdict = ref "ok" in
    Stdlib.List.iter (fun b -> match lst b with
      | [idx; strs] ->
        let i = get_int idx in
        let (nt, eoi) = Stdlib.List.nth g.Cfg.g_inputs i in
        Stdlib.List.iter (fun s ->
          if !verdict = "ok" then begin
            let w = get_list get_z s in
            let n = Stdlib.List.length w in
            let (oc, c) = Validator.parse (nat_of_int (40 * n + 400)) m finals (nat_of_int i) w in
            let sentence p = Derive.derives_dec g nt p in
            let insent = if eoi then sentence w else Stdlib.List.exists (fun j -> sentence (firstn j w)) (Stdlib.List.init (n + 1) (fun j -> j)) in
            match oc with
            | Accept -> if not insent then verdict := "bad:tables-accept-a-non-sentence"
            | SyntaxError (_, _, k) ->
              let k = int_of_z k in
              if insent then verdict := "bad:tables-reject-a-sentence"
              else if not (Derive.viable_dec g nt (firstn k w)) then verdict := "bad:tables-report-the-error-too-late"
              else if k < n && Derive.viable_dec g nt (firstn (k + 1) w) then verdict := "bad:tables-report-the-error-too-early"
            | _ -> verdict := "bad:loop-crashes-or-diverges-on-these-tables"
          end) (lst strs)
      | _ -> failwith "batch") (lst batches);
    ((if r = 0 then A "validated" else L [A "rejected-clause"; put_int r]), !verdict)
  | _ -> failwith "c01.tables")

let () = Reg.register "c01.nocompile" (fun _ _ -> (A "compiles", "ok"))
