(* sexp <-> Syn.Expr values (shared by the C13/C14/C15 glue). Unverified glue. *)
open Io
open Expr

let get_bytes x = get_list get_z x
let put_bytes b = put_list put_z b

let get_arg x = match lst x with
  | [p; v; t] -> { a_param = get_z p; a_value = get_bytes v; a_take = get_z t }
  | _ -> failwith "arg"
let put_arg a = L [put_z a.a_param; put_bytes a.a_value; put_z a.a_take]

let rec get_pred x = match lst x with
  | [A "eq"; p; v] -> PEq (get_z p, get_bytes v)
  | [A "not"; p] -> PNot (get_pred p)
  | A "or" :: ps -> POr (Stdlib.List.map get_pred ps)
  | A "and" :: ps -> PAnd (Stdlib.List.map get_pred ps)
  | _ -> failwith "pred"
let rec put_pred p = match p with
  | PEq (p, v) -> L [A "eq"; put_z p; put_bytes v]
  | PNot p -> L [A "not"; put_pred p]
  | POr ps -> L (A "or" :: Stdlib.List.map put_pred ps)
  | PAnd ps -> L (A "and" :: Stdlib.List.map put_pred ps)

let rec get_expr x = match x with
  | A "e" -> EEmpty
  | A s -> failwith ("expr atom " ^ s)
  | L [A "opt"; s] -> EOpt (get_expr s)
  | L [A "choice"; l] -> EChoice (get_list get_expr l)
  | L [A "seq"; l] -> ESeq (get_list get_expr l)
  | L [A "ref"; s; args] -> ERef (get_z s, get_list get_arg args)
  | L [A "assign"; n; s] -> EAssign (get_bytes n, get_expr s)
  | L [A "append"; n; s] -> EAppend (get_bytes n, get_expr s)
  | L [A "arrow"; n; f; s] -> EArrow (get_bytes n, get_list get_bytes f, get_expr s)
  | L [A "set"; i] -> ESet (get_z i)
  | L [A "marker"; n] -> EMarker (get_bytes n)
  | L [A "cmd"; n] -> ECmd (get_bytes n)
  | L [A "la"; l] -> ELookahead (get_list get_expr l)
  | L [A "lanot"; s] -> ELaNot (get_expr s)
  | L [A "list"; f; l] ->
    (match lst l with
     | [el] -> EList (get_z f, get_expr el, None)
     | [el; sep] -> EList (get_z f, get_expr el, Some (get_expr sep))
     | _ -> failwith "list subs")
  | L [A "cond"; p; s] -> ECond (get_pred p, get_expr s)
  | L [A "prec"; sym; s] -> EPrec (get_z sym, get_expr s)
  | _ -> failwith "expr"

let rec put_expr e = match e with
  | EEmpty -> A "e"
  | EOpt s -> L [A "opt"; put_expr s]
  | EChoice l -> L [A "choice"; put_list put_expr l]
  | ESeq l -> L [A "seq"; put_list put_expr l]
  | ERef (s, args) -> L [A "ref"; put_z s; put_list put_arg args]
  | EAssign (n, s) -> L [A "assign"; put_bytes n; put_expr s]
  | EAppend (n, s) -> L [A "append"; put_bytes n; put_expr s]
  | EArrow (n, f, s) -> L [A "arrow"; put_bytes n; put_list put_bytes f; put_expr s]
  | ESet i -> L [A "set"; put_z i]
  | EMarker n -> L [A "marker"; put_bytes n]
  | ECmd n -> L [A "cmd"; put_bytes n]
  | ELookahead l -> L [A "la"; put_list put_expr l]
  | ELaNot s -> L [A "lanot"; put_expr s]
  | EList (f, el, None) -> L [A "list"; put_z f; L [put_expr el]]
  | EList (f, el, Some sep) -> L [A "list"; put_z f; L [put_expr el; put_expr sep]]
  | ECond (p, s) -> L [A "cond"; put_pred p; put_expr s]
  | EPrec (sym, s) -> L [A "prec"; put_z sym; put_expr s]

let rec get_tset x = match lst x with
  | [A "sym"; op; s] -> TSym (get_z op, get_z s)
  | [A "named"; i] -> TNamed (get_z i)
  | [A "compl"; i; s] -> TCompl (get_z i, get_tset s)
  | [A "union"; l] -> TUnion (get_list get_tset l)
  | [A "inter"; l] -> TInter (get_list get_tset l)
  | _ -> failwith "tset"

let get_model x = match lst x with
  | [terms; params; nts; inputs; sets] ->
    { m_terms = get_list get_bytes terms;
      m_params = get_list (fun p -> match lst p with
          | [n; d; la] -> { p_name = get_bytes n; p_default = get_bytes d; p_la = get_bool la }
          | _ -> failwith "param") params;
      m_nonterms = get_list (fun nt -> match lst nt with
          | [n; ps; v] -> { nt_name = get_bytes n; nt_params = get_list get_z ps; nt_value = get_expr v; nt_group = z_of_int 0 }
          | _ -> failwith "nonterm") nts;
      m_inputs = get_list (fun i -> match lst i with
          | [nt; ne] -> { in_nt = get_z nt; in_noeoi = get_bool ne }
          | _ -> failwith "input") inputs;
      m_sets = get_list get_tset sets }
  | _ -> failwith "model"

let put_nonterms nts = put_list (fun (n, v) -> L [put_bytes n; put_expr v]) nts
let get_nonterms x = get_list (fun nt -> match lst nt with
    | [n; v] -> (get_bytes n, get_expr v)
    | _ -> failwith "out nonterm") x
let put_inputs ins = put_list (fun i -> L [put_z i.in_nt; put_bool i.in_noeoi]) ins

(* terminal-only set expressions over the universe [0, t): used by the C13 language oracle *)
let rec eval_tset_terms (t : int) (sets : tset list) (fuel : int) (s : tset) : int list =
  let all = Stdlib.List.init t (fun i -> i) in
  if fuel = 0 then [] else
  match s with
  | TSym (_, sym) -> [int_of_z sym]
  | TNamed i -> eval_tset_terms t sets (fuel - 1) (Stdlib.List.nth sets (int_of_z i))
  | TCompl (_, x) -> let v = eval_tset_terms t sets fuel x in Stdlib.List.filter (fun a -> not (Stdlib.List.mem a v)) all
  | TUnion l -> let vs = Stdlib.List.concat_map (eval_tset_terms t sets fuel) l in Stdlib.List.filter (fun a -> Stdlib.List.mem a vs) all
  | TInter l -> Stdlib.List.filter (fun a -> Stdlib.List.for_all (fun x -> Stdlib.List.mem a (eval_tset_terms t sets fuel x)) l) all
