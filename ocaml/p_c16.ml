(* C16 glue. For one sentence: walks the derivation the generator sampled (post-order, the order an LR parser
   reduces in), numbers the action invocations and
   - ORACLE: evaluates every reference from what it *denotes* (the occurrences of the original rule the
     generator attached to it): the first / last denoted occurrence that is present in this derivation,
     nil / -1 when none is -- no positions, no name tables, no stack slots; ${first()} / ${last()} are the
     first symbol present / the last symbol present before the action;
   - MODEL: feeds the same children to the extracted ActionRefs.run_node (convert -> pick -> traverse ->
     resolve -> slot arithmetic).
   Both logs are printed the way the generated parser's driver prints its log. *)
open Io
open BinNums
open Datatypes
module AR = ActionRefs
module SL = Stdlib.List

type opart = OE | OS of int * int | OL of int * int | OO of opart | OQ of opart * opart | OC of opart * opart
           | ON of opart | OA of opart | OK of int | OM

let rec opart_of x = match lst x with
  | [A "e"] -> OE
  | [A "s"; sym; _; occ] -> OS (get_int sym, get_int occ)
  | [A "l"; lid; occ] -> OL (get_int lid, get_int occ)
  | [A "o"; p] -> OO (opart_of p)
  | [A "q"; a; b] -> OQ (opart_of a, opart_of b)
  | [A "c"; a; b] -> OC (opart_of a, opart_of b)
  | [A "n"; p] -> ON (opart_of p)
  | [A "a"; _; p] -> OA (opart_of p)
  | [A "k"; c] -> OK (get_int c)
  | [A "m"; _] -> OM   (* a state marker: the oracle ignores it -- no slot, not counted by $N *)
  | _ -> failwith "part"

let rec mpart_of x = match lst x with
  | [A "e"] -> AR.PEmpty
  | [A "s"; sym; nm; _] -> AR.PSym (get_n sym, get_n nm, O)
  | [A "l"; lid; _] -> AR.PList (get_n lid, O)
  | [A "o"; p] -> AR.POpt (mpart_of p)
  | [A "q"; a; b] -> AR.PSeq (mpart_of a, mpart_of b)
  | [A "c"; a; b] -> AR.PChoice (mpart_of a, mpart_of b)
  | [A "n"; p] -> AR.PScope (mpart_of p)
  | [A "a"; nm; p] -> AR.PAlias (get_n nm, mpart_of p)
  | [A "k"; c] -> AR.PCmd (get_n c)
  | [A "m"; m] -> AR.PMark (get_n m)
  | _ -> failwith "part"

type oref = { kind : int; prop : int; denotes : int list }
type ent = { v : string; off : int; fin : int }

let run_case inp =
  let (gram, deriv) = (match lst inp with [g; d] -> (g, d) | _ -> failwith "case") in
  let (rules_x, cmds_x, termstr) = (match lst gram with [r; c; t] -> (r, c, get_list get_bool t) | _ -> failwith "gram") in
  let rules = SL.map (fun r -> match lst r with [id; p] -> (get_int id, (opart_of p, mpart_of p)) | _ -> failwith "rule") (lst rules_x) in
  let cmds = SL.map (fun c -> match lst c with
    | [id; asg; refs] ->
      (get_int id, (get_bool asg,
        SL.map (fun r -> match lst r with
          | [k; n; nm; sfx; pr; den] ->
            let kind = get_int k and prop = get_int pr in
            let mref = (match kind with
              | 0 -> AR.RNum (nat_of_int (get_int n))
              | 1 -> AR.RName (get_n nm, (let s = get_int sfx in if s < 0 then None else Some (n_of_int s)))
              | 3 -> AR.RFirst
              | 4 -> AR.RLast
              | _ -> AR.RLeft) in
            let mprop = (match prop with 0 -> AR.PValue | 1 -> AR.POffset | _ -> AR.PEndoffset) in
            ({ kind; prop; denotes = get_list get_int den }, (mref, mprop))
          | _ -> failwith "ref") (lst refs)))
    | _ -> failwith "cmd") (lst cmds_x) in
  let tab = SL.map (fun (id, (_, refs)) -> (n_of_int id, SL.map snd refs)) cmds in
  (* value table for the model: values are opaque ids *)
  let vals : (string, int) Hashtbl.t = Hashtbl.create 64 in
  let names : (int, string) Hashtbl.t = Hashtbl.create 64 in
  let vid s = (match Hashtbl.find_opt vals s with Some i -> i | None ->
    let i = Hashtbl.length vals in Hashtbl.add vals s i; Hashtbl.add names i s; i) in
  let mentry e = { AR.e_val = (if e.v = "nil" then AR.VNil else AR.V (n_of_int (vid e.v)));
                   AR.e_off = z_of_int e.off; AR.e_end = z_of_int e.fin } in
  let marg = function
    | AR.ANil -> "nil" | AR.AM1 -> "-1"
    | AR.AVal id -> (try Hashtbl.find names (int_of_n id) with Not_found -> "unknown-value")
    | AR.AInt z -> string_of_int (int_of_z z)
    | AR.AErr w -> "err" ^ string_of_int (int_of_n w) in
  let counter = ref 0 in
  let olog = ref [] and mlog = ref [] in
  let bad = ref "" in
  let base = [ { AR.e_val = AR.V (n_of_int (vid "junk0")); AR.e_off = z_of_int 777; AR.e_end = z_of_int 778 };
               { AR.e_val = AR.VNil; AR.e_off = z_of_int 888; AR.e_end = z_of_int 889 } ] in
  let rec eval_node node (lead_entry : ent option) : ent =
    let (rid, lead, sel, start, children) = (match lst node with
      | [A "n"; r; l; s; st; ch] -> (get_int r, get_bool l, get_list get_bool s, get_int st, lst ch)
      | _ -> failwith "node") in
    if lead <> (lead_entry <> None) then failwith "lead flag";
    let (obody, mbody) = SL.assoc rid rules in
    (* how many occurrences are present in this expansion *)
    let rec count p sel = (match p with
      | OE | OK _ | OM -> (0, sel)
      | OS _ | OL _ -> (1, sel)
      | OO q -> (match sel with true :: r -> count q r | _ :: r -> (0, r) | [] -> (0, []))
      | OQ (a, b) -> let (x, r) = count a sel in let (y, r) = count b r in (x + y, r)
      | OC (a, b) -> (match sel with true :: r -> count b r | _ :: r -> count a r | [] -> count a [])
      | ON q | OA q -> count q sel) in
    let total = Stdlib.fst (count obody sel) in
    let node_off = (match lead_entry with Some e -> e.off | None -> start) in
    let cur = ref (match lead_entry with Some e -> e.fin | None -> start) in
    let present = ref [] and centries = ref [] and npresent = ref 0 in
    let chs = ref children and sl = ref sel in
    let value = ref "nil" and ks = ref [] in
    let next_bit () = (match !sl with b :: r -> sl := r; b | [] -> false) in
    let take_child () = (match !chs with c :: r -> chs := r; c | [] -> failwith "children exhausted") in
    let eval_child c = (match lst c with
      | [A "t"; sym; off] ->
        let o = get_int off in
        let isstr = SL.nth termstr (get_int sym) in
        { v = (if isstr then "t" ^ string_of_int o else string_of_int (100 + o)); off = o; fin = o + 1 }
      | [A "u"; _; off; kind] ->
        (* an element of set(..): no rule of the setof_ nonterminal assigns a value; when all terminals of the set
           have one type the reference is typed and reads that type's zero value (types are not modelled) *)
        let o = get_int off in
        (* "u0"/"uempty": resolved against the implementation's answer by [resolve] (zero value or nil) *)
        { v = (match get_int kind with 1 -> "u0" | 2 -> "uempty" | _ -> "nil"); off = o; fin = o + 1 }
      | [A "l"; elems; st] ->
        let st = get_int st in
        (* a star list starts from the empty rule: its first element already has the list in front *)
        let first_lead = (match lst elems with el :: _ -> (match lst el with _ :: _ :: l :: _ -> get_bool l | _ -> false) | [] -> false) in
        let acc = ref (if first_lead then Some { v = "nil"; off = st; fin = st } else None) in
        SL.iter (fun el ->
          let e = eval_node el !acc in acc := Some e) (lst elems);
        (match !acc with Some e -> e | None -> { v = "nil"; off = st; fin = st })
      | A "n" :: _ -> eval_node c None
      | _ -> failwith "child") in
    let exec c =
      let k = !counter in incr counter;
      let (asg, refs) = SL.assoc c cmds in
      let is_final = (!npresent = total) in
      let args = SL.map (fun (r, _) ->
        if r.kind = 2 then
          (match r.prop with 0 -> "nil" | 1 -> string_of_int (if is_final then node_off else !cur) | _ -> string_of_int !cur)
        else if r.kind = 3 || r.kind = 4 then begin
          (* first() / last(): the first symbol of the rule present in this derivation / the last one present
             before the action; nil / -1 when there is none yet *)
          if lead && (r.kind = 3 || !present = []) then bad := "bad:generator-first-or-last-of-a-list-lead";
          match SL.rev !present with
          | [] -> if r.prop = 0 then "nil" else "-1"
          | l ->
            let (_, e) = if r.kind = 3 then SL.hd l else SL.nth l (SL.length l - 1) in
            (match r.prop with 0 -> e.v | 1 -> string_of_int e.off | _ -> string_of_int e.fin)
        end
        else begin
          let here = SL.filter (fun (occ, _) -> SL.mem occ r.denotes) (SL.rev !present) in
          match here, r.prop with
          | [], 0 -> "nil"
          | [], _ -> "-1"
          | [(_, e)], 0 -> e.v
          | _, 0 -> bad := "bad:generator-value-of-span"; "span"
          | (_, e) :: _, 1 -> string_of_int e.off
          | l, _ -> string_of_int (Stdlib.snd (SL.nth l (SL.length l - 1))).fin
        end) refs in
      olog := (k, c, args) :: !olog;
      ks := k :: !ks;
      if asg && is_final then value := "v" ^ string_of_int k in
    let rec walk p = (match p with
      | OE | OM -> ()
      | OS (_, occ) | OL (_, occ) ->
        let e = eval_child (take_child ()) in
        present := (occ, e) :: !present; centries := e :: !centries; incr npresent; cur := e.fin
      | OO q -> if next_bit () then walk q
      | OQ (a, b) -> walk a; walk b
      | OC (a, b) -> if next_bit () then walk b else walk a
      | ON q | OA q -> walk q
      | OK c -> exec c) in
    walk obody;
    (* the model on the same children *)
    let mchildren = SL.map mentry ((match lead_entry with Some e -> [e] | None -> []) @ SL.rev !centries) in
    let mout = AR.run_node tab mbody lead sel base mchildren (z_of_int start) in
    let ks = SL.rev !ks in
    if SL.length mout <> SL.length ks then
      mlog := (!counter + 1000, -1, ["model-ran-" ^ string_of_int (SL.length mout) ^ "-commands-oracle-" ^ string_of_int (SL.length ks)]) :: !mlog
    else
      SL.iter2 (fun k (c, args) -> mlog := (k, int_of_n c, SL.map marg args) :: !mlog) ks mout;
    { v = !value; off = node_off; fin = !cur } in
  let (root, _len) = (match lst deriv with [r; l] -> (r, get_int l) | _ -> failwith "deriv") in
  let e = eval_node root None in
  let fmt log =
    let l = SL.sort compare log in
    L [A "log"; L (SL.map (fun (k, c, args) -> L (A (string_of_int k) :: A (string_of_int c) :: SL.map (fun a -> A a) args)) l); A e.v] in
  (fmt !mlog, fmt !olog, !bad)

(* An element of set(..) has no semantic value of its own: a reference to it reads the zero value of the set's type
   when the reference is typed and nil otherwise; which of the two the generated code does depends on type
   inference that is not modelled, so both are accepted (the slot is what the property is about: every other
   symbol has a value that is neither). *)
let rec resolve (x : sexp) (impl : sexp) : sexp =
  match x, impl with
  | A "u0", A a when a = "0" || a = "nil" -> impl
  | A "uempty", A a when a = "empty" || a = "nil" -> impl
  | A "u0", _ -> A "0"
  | A "uempty", _ -> A "empty"
  | L xs, L ys when Stdlib.List.length xs = Stdlib.List.length ys -> L (Stdlib.List.map2 resolve xs ys)
  | L xs, _ -> L (Stdlib.List.map (fun y -> resolve y (A "")) xs)
  | _ -> x

let () = Reg.register "c16.run" (fun inp out ->
  let (m, o, bad) = run_case inp in
  let m = resolve m out and o = resolve o out in
  let verdict =
    if bad <> "" then bad
    else if to_string o = to_string out then "ok"
    else (match out with
      | L (A "log" :: _) -> "bad:action-reference-bound-to-wrong-symbol"
      | L (A "syntax" :: _) -> "bad:sentence-of-the-grammar-rejected"
      | _ -> "bad:generated-parser-failed") in
  (m, verdict))

(* a grammar inside the generator's (legal) fragment that textmapper fails to compile / generate / build.
   One situation is understood and has its own verdict (known finding joined-action-env): the error is
   `invalid reference "x". Cannot find symbol "x" in rule` AND the generator found an expansion in which a code
   block referring to a name is joined with a later block of a parenthesised alternative that does not see it. *)
let contains s sub =
  let n = String.length s and m = String.length sub in
  let rec go i = i + m <= n && (String.sub s i m = sub || go (i + 1)) in go 0

(* the model's verdict on "mixing mid-rule actions with state markers is not supported": some rule has an
   expansion with a state marker in front of a mid-rule action (ActionRefs.rule_mixes) *)
let gram_mixes gram =
  let rules_x = (match lst gram with [r; _; _] -> r | _ -> failwith "gram") in
  SL.exists (fun r -> match lst r with
    | [_; p] -> AR.rule_mixes (mpart_of p)
    | _ -> failwith "rule") (lst rules_x)

let () = Reg.register "c16.gen" (fun inp _ ->
  let text msg = String.concat "" (SL.map (fun c -> String.make 1 (Char.chr (get_int c))) (lst msg)) in
  match lst inp with
  | [A "mix"; gram; _; msg] ->
    (* a rejected grammar with state markers: justified exactly when the model says a marker precedes a mid-rule action *)
    let m = gram_mixes gram in
    ((if m then A "failed" else A "compiles"),
     (if m && contains (text msg) "mixing mid-rule actions with state markers" then "ok"
      else "bad:legal-action-grammar-rejected"))
  | [A "joined"; _; _; msg] ->
    let text = text msg in
    (A "compiles",
     (if contains text "invalid reference" && contains text "Cannot find symbol"
      then "bad:joined-action-loses-names-of-first-block"
      else "bad:legal-action-grammar-rejected"))
  | _ -> (A "compiles", "bad:legal-action-grammar-rejected"))

(* ---------- c16.table: the Names table / MaxPos of every action ----------
   MODEL: the extracted convert_rule on every rule body; the table it records for each command the harness
   expects to end a run of code blocks, printed like the harness prints CmdArgs.
   ORACLE (no convert, no push_name): positions are the leaf numbers in textual order; the pushes before a
   command are listed in textual order (an alias after its content, with the positions of the leaves beneath
   it); every entry  name / name#k  of the compiler's table must be the k-th push of that name (name = the
   first), MaxPos the number of leaves before the command + 1, and the table of a command outside any
   parenthesised alternative must consist of exactly { name -> only push } + { name#k -> k-th push }. *)
let table_case inp out =
  let (gram, ids) = (match lst inp with [g; i] -> (g, get_list get_int i) | _ -> failwith "case") in
  let rules_x = (match lst gram with [r; _; _] -> r | _ -> failwith "gram") in
  let key_cmp (n1, s1, _) (n2, s2, _) = compare (n1, s1) (n2, s2) in
  let put_tab (c, maxpos, ents) =
    L [put_int c; put_int maxpos;
       L (SL.map (fun (nm, sfx, ps) -> L [put_int nm; put_int sfx; L (SL.map put_int ps)]) (SL.sort key_cmp ents))] in
  (* model *)
  let mtabs = ref [] in
  SL.iter (fun r -> match lst r with
    | [_; p] ->
      let (_, cs) = AR.convert_rule (mpart_of p) in
      SL.iter (fun (c, ca) ->
        let seen = Hashtbl.create 8 in
        let ents = SL.filter_map (fun ((nm, sfx), ps) ->
          let k = (int_of_n nm, (match sfx with None -> -1 | Some i -> int_of_n i)) in
          if Hashtbl.mem seen k then None
          else (Hashtbl.add seen k (); Some (Stdlib.fst k, Stdlib.snd k, SL.map int_of_nat ps))) ca.AR.ca_names in
        mtabs := (int_of_n c, int_of_nat ca.AR.ca_maxpos, ents) :: !mtabs) cs.AR.c_cmds
    | _ -> failwith "rule") (lst rules_x);
  let wanted = SL.filter (fun (c, _, _) -> SL.mem c ids) !mtabs in
  let wanted = SL.sort (fun (a, _, _) (b, _, _) -> compare a b) wanted in
  let model = L (A "tables" :: SL.map put_tab wanted) in
  (* oracle *)
  let info = Hashtbl.create 16 in
  SL.iter (fun r -> match lst r with
    | [_; p] ->
      let pos = ref 1 and pushes = ref [] in
      let rec walk x depth = (match lst x with
        | [A "e"] -> []
        | [A "s"; _; nm; _] -> let q = !pos in incr pos; pushes := (get_int nm, [q]) :: !pushes; [q]
        | [A "l"; _; _] -> let q = !pos in incr pos; [q]
        | [A "o"; p] -> walk p depth
        | [A "q"; a; b] | [A "c"; a; b] -> let xs = walk a depth in let ys = walk b depth in xs @ ys
        | [A "n"; p] -> walk p (depth + 1)
        | [A "a"; nm; p] -> let ps = walk p depth in if ps <> [] then pushes := (get_int nm, ps) :: !pushes; ps
        | [A "k"; c] -> Hashtbl.replace info (get_int c) (SL.rev !pushes, depth > 0, !pos); []
        | [A "m"; _] -> []   (* a state marker takes no position and pushes no name *)
        | _ -> failwith "part") in
      ignore (walk p 0)
    | _ -> failwith "rule") (lst rules_x);
  let verdict = ref "ok" in
  let fail v = if !verdict = "ok" then verdict := v in
  (* the grammar compiled: the model must not say that a marker precedes a mid-rule action *)
  if gram_mixes gram then fail "bad:marker-before-mid-rule-action-accepted";
  (match out with
   | L (A "tables" :: tabs) ->
     let got = SL.map (fun t -> match lst t with
       | [c; mp; ents] ->
         (get_int c, get_int mp, SL.map (fun e -> match lst e with
           | [nm; sfx; ps] -> (get_int nm, get_int sfx, get_list get_int ps)
           | _ -> failwith "entry") (lst ents))
       | _ -> failwith "table") tabs in
     SL.iter (fun c -> if SL.length (SL.filter (fun (c', _, _) -> c' = c) got) <> 1 then
                 fail "bad:command-without-a-single-names-table") ids;
     SL.iter (fun (c, mp, ents) ->
       match Hashtbl.find_opt info c with
       | None -> fail "bad:names-table-of-unknown-command"
       | Some (pushes, nested, maxpos) ->
         if mp <> maxpos then fail "bad:names-table-maxpos";
         let occs nm = SL.map Stdlib.snd (SL.filter (fun (n, _) -> n = nm) pushes) in
         SL.iter (fun (nm, sfx, ps) ->
           let o = occs nm in
           let k = if sfx < 0 then 0 else sfx in
           if k >= SL.length o || SL.nth o k <> ps then fail "bad:names-table-entry-denotes-wrong-occurrence") ents;
         if not nested then begin
           let names = SL.sort_uniq compare (SL.map Stdlib.fst pushes) in
           let expect = SL.concat_map (fun nm ->
             match occs nm with
             | [ps] -> [(nm, -1, ps)]
             | o -> SL.mapi (fun i ps -> (nm, i, ps)) o) names in
           if SL.sort key_cmp expect <> SL.sort key_cmp ents then fail "bad:names-table-not-exact-at-top-level"
         end) got
   | _ -> fail "bad:no-names-tables");
  (model, !verdict)

let () = Reg.register "c16.table" table_case
