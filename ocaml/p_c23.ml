(* C23: language-server histories. Model side: the extracted LS/Server.run with the per-case oracles
   (compile diagnostics and identifier table per content). Oracle side: plain OCaml with its own UTF-8 /
   UTF-16 arithmetic, independent of the model. *)
open Io
open BinNums
open Datatypes

let ints_of x = Stdlib.List.map (fun a -> int_of_string (atom a)) (lst x)

(* ---- independent UTF-8 decoding (Go semantics: an invalid byte is one rune U+FFFD of width 1) ---- *)
let decode (a : int array) (i : int) : int * int =
  let n = Array.length a in
  let b0 = a.(i) in
  let cont j = j < n && a.(j) land 0xC0 = 0x80 in
  if b0 < 0x80 then (b0, 1)
  else if b0 < 0xC2 then (0xFFFD, 1)
  else if b0 < 0xE0 then
    (if cont (i + 1) then (((b0 land 0x1F) lsl 6) lor (a.(i + 1) land 0x3F), 2) else (0xFFFD, 1))
  else if b0 < 0xF0 then
    (if cont (i + 1) && cont (i + 2) && (b0 <> 0xE0 || a.(i + 1) >= 0xA0) && (b0 <> 0xED || a.(i + 1) <= 0x9F)
     then (((b0 land 0x0F) lsl 12) lor ((a.(i + 1) land 0x3F) lsl 6) lor (a.(i + 2) land 0x3F), 3) else (0xFFFD, 1))
  else if b0 < 0xF5 then
    (if cont (i + 1) && cont (i + 2) && cont (i + 3) && (b0 <> 0xF0 || a.(i + 1) >= 0x90) && (b0 <> 0xF4 || a.(i + 1) <= 0x8F)
     then (((b0 land 0x07) lsl 18) lor ((a.(i + 1) land 0x3F) lsl 12) lor ((a.(i + 2) land 0x3F) lsl 6) lor (a.(i + 3) land 0x3F), 4)
     else (0xFFFD, 1))
  else (0xFFFD, 1)

(* start offset of 0-based line l, or -1 *)
let line_start (a : int array) (l : int) : int =
  let n = Array.length a in
  let rec go i l = if l = 0 then i else if i >= n then -1 else go (i + 1) (if a.(i) = 10 then l - 1 else l) in
  go 0 l

(* byte offset of (line, utf16 char), or -1 when the position does not denote a rune boundary of that line *)
let offset_of (a : int array) (l : int) (c : int) : int =
  let n = Array.length a in
  let s = line_start a l in
  if s < 0 then -1 else begin
    let rec go i c =
      if c = 0 then i
      else if i >= n || a.(i) = 10 then -1
      else let (r, w) = decode a i in
        let u = if r > 0xFFFF then 2 else 1 in
        if c < u then -1 else go (i + w) (c - u) in
    go s c
  end

(* (line, utf16 char) of a byte offset *)
let position_of (a : int array) (off : int) : int * int =
  let line = ref 0 and start = ref 0 in
  for i = 0 to off - 1 do if a.(i) = 10 then (incr line; start := i + 1) done;
  let rec go i u = if i >= off then u else let (r, w) = decode a i in go (i + w) (u + (if r > 0xFFFF then 2 else 1)) in
  (!line, go !start 0)

let sub_arr a s e = Array.to_list (Array.sub a s (e - s))

type content = { bytes : coq_Z list; arr : int array; diags : (int * int * int * int * int * sexp) list; ids : (int * int * int * bool) list }

let parse_content x =
  match lst x with
  | [b; ds; ids] ->
    let bs = ints_of b in
    { bytes = Stdlib.List.map z_of_int bs; arr = Array.of_list bs;
      diags = Stdlib.List.map (fun d -> match lst d with
        | [fc; o; e; l; c; m] -> (get_int fc, get_int o, get_int e, get_int l, get_int c, m) | _ -> failwith "diag") (lst ds);
      ids = Stdlib.List.map (fun d -> match lst d with
        | [o; e; k; dc] -> (get_int o, get_int e, get_int k, get_bool dc) | _ -> failwith "id") (lst ids) }
  | _ -> failwith "content"

type op = Open of int * int * int | Change of int * int * int | Close of int | Def of int * int * int * int

let parse_op x = match lst x with
  | [A "open"; d; v; c] -> Open (get_int d, get_int v, get_int c)
  | [A "change"; d; v; c] -> Change (get_int d, get_int v, get_int c)
  | [A "close"; d] -> Close (get_int d)
  | [A "def"; i; d; l; c] -> Def (get_int i, get_int d, get_int l, get_int c)
  | _ -> failwith "op"

let uint32 v = ((v mod 4294967296) + 4294967296) mod 4294967296

let history_handler inp out =
  match lst inp with
  | [_; ops; contents] ->
    let contents = Array.of_list (Stdlib.List.map parse_content (lst contents)) in
    let ops = Stdlib.List.map parse_op (lst ops) in
    (* ---------- model ---------- *)
    let tbl = Hashtbl.create 16 in
    Array.iter (fun c -> Hashtbl.replace tbl c.bytes c) contents;
    let find b = (try Hashtbl.find tbl b with Not_found -> failwith "oracle: unknown content") in
    let msgs = Hashtbl.create 16 in   (* message bytes -> original sexp (printed back verbatim) *)
    let compile b = Stdlib.List.map (fun (_, o, e, l, c, m) ->
        let mz = get_list get_z m in Hashtbl.replace msgs mz m;
        ((((z_of_int o, z_of_int e), z_of_int l), z_of_int c), mz)) (find b).diags in
    let collect b = Stdlib.List.map (fun (o, e, k, d) ->
        { Server.id_off = z_of_int o; Server.id_end = z_of_int e; Server.id_kind = z_of_int k; Server.id_decl = d }) (find b).ids in
    let reqs = Stdlib.List.map (function
      | Open (d, v, c) -> Server.ROpen (z_of_int d, z_of_int v, contents.(c).bytes)
      | Change (d, v, c) -> Server.RChange (z_of_int d, z_of_int v, contents.(c).bytes)
      | Close d -> Server.RClose (z_of_int d)
      | Def (i, d, l, c) -> Server.RDef (z_of_int i, z_of_int d, z_of_int l, z_of_int c)) ops in
    let outs = Server.run compile collect [] reqs in
    let notes = Stdlib.List.filter_map (function
      | Server.Publish (d, v, ds) ->
        Some (L [A "diag"; put_z d; put_z v; L (Stdlib.List.map (fun ((((sl, sc), el), ec), m) ->
          L [put_z sl; put_z sc; put_z el; put_z ec; (try Hashtbl.find msgs m with Not_found -> put_list put_z m)]) ds)])
      | _ -> None) outs in
    let resps = Stdlib.List.filter_map (function
      | Server.Reply (i, None) -> Some (int_of_z i, L [put_z i; A "err"])
      | Server.Reply (i, Some ls) -> Some (int_of_z i, L [put_z i; L (Stdlib.List.map (fun ((((d, sl), sc), el), ec) ->
          L [put_z d; put_z sl; put_z sc; put_z el; put_z ec]) ls)])
      | _ -> None) outs in
    let resps = Stdlib.List.map snd (Stdlib.List.stable_sort (fun (a, _) (b, _) -> compare a b) resps) in
    let model = L [L notes; L resps] in
    (* ---------- oracle on the implementation's output ---------- *)
    let verdict = ref "ok" in
    let set v = if !verdict = "ok" then verdict := v in
    (match out with
     | L [A "crash"; _] -> set "bad:server-crashed-or-hung"
     | L [L inotes; L iresps] ->
       (* 1. one publishDiagnostics per open/change, in request order, same document and version *)
       let changes = Stdlib.List.filter_map (function Open (d, v, c) | Change (d, v, c) -> Some (d, v, c) | _ -> None) ops in
       if Stdlib.List.length inotes <> Stdlib.List.length changes then set "bad:diagnostics-count"
       else Stdlib.List.iter2 (fun n (d, v, c) ->
         match n with
         | L [A "diag"; nd; nv; L ds] ->
           if get_int nd <> d || get_int nv <> uint32 v then set "bad:diagnostics-out-of-order-or-wrong-version"
           else begin
             let ct = contents.(c) in
             let a = ct.arr in
             if Stdlib.List.length ds <> Stdlib.List.length ct.diags then set "bad:diagnostics-do-not-match-compile"
             else Stdlib.List.iter2 (fun dg (fc, o, e, _, _, m) ->
               match lst dg with
               | [sl; sc; el; ec; dm] ->
                 let sl = get_int sl and sc = get_int sc and el = get_int el and ec = get_int ec in
                 if dm <> m then set "bad:diagnostic-message"
                 else begin
                   (* inside the document, on rune boundaries of UTF-16 columns *)
                   let so = offset_of a sl sc and eo = offset_of a el ec in
                   if so < 0 || eo < 0 || sl <> el || sc > ec then set "bad:diagnostic-range-outside-document"
                   else if fc = 1 then begin
                     (* ... and at the error's origin (first line of its range) *)
                     let (xl, xc) = position_of a o in
                     if (xl, xc) <> (sl, sc) then set "bad:diagnostic-start-not-utf16-position-of-origin"
                     else begin
                       let rec first_line i = if i >= e || a.(i) = 10 then i else first_line (i + 1) in
                       if eo <> first_line o then set "bad:diagnostic-end-not-utf16-position-of-origin-end"
                     end
                   end
                 end
               | _ -> set "bad:unparsable") ds ct.diags
           end
         | _ -> set "bad:unexpected-notification") inotes changes;
       (* 2. definition answers: exactly one per request; locations inside the latest content, all
             spelling the same name, and that name is the identifier under the cursor *)
       let latest = Hashtbl.create 4 in
       let expected = Stdlib.List.filter_map (fun o ->
         match o with
         | Open (d, _, c) | Change (d, _, c) -> Hashtbl.replace latest d c; None
         | Close d -> Hashtbl.remove latest d; None
         | Def (i, d, l, c) -> Some (i, d, (try Some (Hashtbl.find latest d) with Not_found -> None), l, c)) ops in
       if Stdlib.List.length iresps <> Stdlib.List.length expected then set "bad:response-count"
       else Stdlib.List.iter2 (fun r (i, d, ct, l, c) ->
         match lst r with
         | [ri; body] ->
           if get_int ri <> i then set "bad:response-id"
           else (match ct, body with
             | None, A "err" -> ()
             | None, _ -> set "bad:definition-answered-for-closed-document"
             | Some ci, A "err" ->
               if offset_of contents.(ci).arr l c >= 0 then set "bad:definition-error-for-valid-position"
             | Some ci, L locs ->
               let a = contents.(ci).arr in
               let cursor = offset_of a l c in
               if cursor < 0 then set "bad:definition-answered-for-invalid-position"
               else begin
                 let under = Stdlib.List.find_opt (fun (o, e, _, _) -> o <= cursor && cursor <= e) contents.(ci).ids in
                 let texts = Stdlib.List.map (fun lc ->
                   match ints_of lc with
                   | [ld; sl; sc; el; ec] ->
                     let so = offset_of a sl sc and eo = offset_of a el ec in
                     if ld <> d then (set "bad:location-in-other-document"; [])
                     else if so < 0 || eo < so || sl <> el then (set "bad:location-outside-document"; [])
                     else sub_arr a so eo
                   | _ -> set "bad:unparsable"; []) locs in
                 (match under with
                  | Some (o, e, k, _) when k > 0 ->
                    let name = sub_arr a o e in
                    if locs = [] then set "bad:no-location-for-identifier-under-cursor"
                    else if Stdlib.List.exists (fun t -> t <> name) texts then set "bad:location-does-not-spell-the-name-under-cursor"
                  | _ -> if locs <> [] then set "bad:locations-without-identifier-under-cursor")
               end)
         | _ -> set "bad:unparsable") iresps expected
     | _ -> set "bad:unparsable");
    (model, !verdict)
  | _ -> failwith "c23.history"

let () = Reg.register "c23.history" history_handler

let () = Reg.register "c23.resolve" (fun inp out ->
  match lst inp with
  | [t; l; c] ->
    let bs = ints_of t in
    let m = (match Position.resolve_position (Stdlib.List.map z_of_int bs) (get_z l) (get_z c) with
             | Some o -> put_z o | None -> A "err") in
    let spec = offset_of (Array.of_list bs) (get_int l) (get_int c) in
    let v = (match out with
      | A "err" -> if spec < 0 then "ok" else "bad:valid-position-rejected"
      | A o -> if int_of_string o = spec then "ok" else if spec < 0 then "bad:invalid-position-accepted" else "bad:wrong-offset"
      | _ -> "bad:unparsable") in
    (m, v)
  | _ -> failwith "c23.resolve")
