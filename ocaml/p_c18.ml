(* C18: determinism. c18.mapsite: reviewed inventory of map-range sites; c18.switch: gen.asStringSwitch vs
   the extracted Gen/PermInv.string_switch (the keys are fed to the model in the harness's insertion order,
   an arbitrary permutation as far as Go's map is concerned); c18.regen: byte-identical regeneration. *)
open Io
open BinNums
open Datatypes

let () = Reg.register "c18.mapsite" (fun _ out ->
  (* an unreviewed or changed site is an uncovered obligation: model and implementation "disagree" *)
  match out with
  | L [A "reviewed"; _] -> (out, "ok")
  | L (A "reviewed" :: _) -> (out, "ok")
  | _ -> (L [A "reviewed"], "ok"))

let () = Reg.register "c18.regen" (fun _ out ->
  match out with
  | L [A "same"; _] -> (out, "ok")
  | L [A "differs"; L why] ->
    let w = Stdlib.String.concat "," (Stdlib.List.map atom why) in
    let v = if Stdlib.List.exists (fun a -> atom a = "runs-differ") why then "bad:nondeterministic-output"
            else if Stdlib.List.exists (fun a -> atom a = "generation-failed") why then "bad:generation-failed"
            else "bad:differs-from-committed-files" in
    ignore w; (L [A "same"], v)
  | _ -> failwith "c18.regen")

let () = Reg.register "c18.switch" (fun inp out ->
  let entries = Stdlib.List.map (fun e -> match lst e with [k; a] -> (get_list get_z k, get_z a) | _ -> failwith "entry") (lst inp) in
  let m k = (try Stdlib.List.assoc k entries with Not_found -> Z0) in
  let (size, buckets) = PermInv.string_switch m (Stdlib.List.map fst entries) in
  let flat = Stdlib.List.concat_map (fun (v, es) -> Stdlib.List.map (fun ((h, s), a) -> L [put_z v; put_z h; put_list put_z s; put_z a]) es) buckets in
  let model = L [put_z size; L flat] in
  (* oracle on the implementation's switch: a function of the map only *)
  let verdict =
    (match lst out with
     | [sz; L cases] ->
       let sz = get_int sz in
       let rows = Stdlib.List.map (fun c -> match lst c with
         | [v; h; s; a] -> (get_int v, get_int h, Stdlib.List.map (fun x -> int_of_string (atom x)) (lst s), get_int a) | _ -> failwith "case") cases in
       let n = Stdlib.List.length entries in
       let hash s = Stdlib.List.fold_left (fun h c -> (h * 31 + c) land 0xFFFFFFFF) 0 s in
       let keys = Stdlib.List.map (fun (k, a) -> (Stdlib.List.map int_of_z k, int_of_z a)) entries in
       if sz < 8 || sz land (sz - 1) <> 0 || sz < n || (sz > 8 && sz / 2 >= n) then "bad:switch-size"
       else if Stdlib.List.length rows <> n then "bad:switch-entry-count"
       else if Stdlib.List.exists (fun (v, h, s, a) -> h <> hash s || v <> h mod sz || (try Stdlib.List.assoc s keys <> a with Not_found -> true)) rows then "bad:switch-entry"
       else begin
         (* canonical order: buckets ascending, strings ascending inside a bucket *)
         let rec sorted = function
           | (v1, _, s1, _) :: ((v2, _, s2, _) :: _ as t) -> (v1 < v2 || (v1 = v2 && compare s1 s2 < 0)) && sorted t
           | _ -> true in
         if sorted rows then "ok" else "bad:switch-order-not-canonical"
       end
     | _ -> "bad:unparsable") in
  (model, verdict))
