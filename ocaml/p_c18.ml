(* C18: determinism. c18.mapsite: reviewed inventory of map-range sites; c18.switch: gen.asStringSwitch vs
   the extracted Gen/PermInv.string_switch (the keys are fed to the model in the harness's insertion order,
   an arbitrary permutation as far as Go's map is concerned); c18.regen: byte-identical regeneration. *)
open Io
open BinNums
open Datatypes

let () = Reg.register "c18.mapsite" (fun _ out ->
  (* an unreviewed or changed site is an uncovered obligation: model and implementation "disagree" *)
  match out with
  | L [A "reviewed"; _] -> (out, "ok")
  | L (A "reviewed" :: _) -> (out, "ok")
  | _ -> (L [A "reviewed"], "ok"))

let () = Reg.register "c18.regen" (fun _ out ->
  match out with
  | L [A "same"; _] -> (out, "ok")
  | L [A "differs"; L why] ->
    let w = Stdlib.String.concat "," (Stdlib.List.map atom why) in
    let v = if Stdlib.List.exists (fun a -> atom a = "runs-differ") why then "bad:nondeterministic-output"
            else if Stdlib.List.exists (fun a -> atom a = "generation-failed") why then "bad:generation-failed"
            else "bad:differs-from-committed-files" in
    ignore w; (L [A "same"], v)
  | _ -> failwith "c18.regen")

let () = Reg.register "c18.switch" (fun inp out ->
  let entries = Stdlib.List.map (fun e -> match lst e with [k; a] -> (get_list get_z k, get_z a) | _ -> failwith "entry") (lst inp) in
  let m k = (try Stdlib.List.assoc k entries with Not_found -> Z0) in
  let (size, buckets) = PermInv.string_switch m (Stdlib.List.map fst entries) in
  let flat = Stdlib.List.concat_map (fun (v, es) -> Stdlib.List.map (fun ((h, s), a) -> L [put_z v; put_z h; put_list put_z s; put_z a]) es) buckets in
  let model = L [put_z size; L flat] in
  (* oracle on the implementation's switch: a function of the map only *)
  let verdict =
    (match lst out with
     | [sz; L cases] ->
       let sz = get_int sz in
       let rows = Stdlib.List.map (fun c -> match lst c with
         | [v; h; s; a] -> (get_int v, get_int h, Stdlib.List.map (fun x -> int_of_string (atom x)) (lst s), get_int a) | _ -> failwith "case") cases in
       let n = Stdlib.List.length entries in
       let hash s = Stdlib.List.fold_left (fun h c -> (h * 31 + c) land 0xFFFFFFFF) 0 s in
       let keys = Stdlib.List.map (fun (k, a) -> (Stdlib.List.map int_of_z k, int_of_z a)) entries in
       if sz < 8 || sz land (sz - 1) <> 0 || sz < n || (sz > 8 && sz / 2 >= n) then "bad:switch-size"
       else if Stdlib.List.length rows <> n then "bad:switch-entry-count"
       else if Stdlib.List.exists (fun (v, h, s, a) -> h <> hash s || v <> h mod sz || (try Stdlib.List.assoc s keys <> a with Not_found -> true)) rows then "bad:switch-entry"
       else begin
         (* canonical order: buckets ascending, strings ascending inside a bucket *)
         let rec sorted = function
           | (v1, _, s1, _) :: ((v2, _, s2, _) :: _ as t) -> (v1 < v2 || (v1 = v2 && compare s1 s2 < 0)) && sorted t
           | _ -> true in
         if sorted rows then "ok" else "bad:switch-order-not-canonical"
       end
     | _ -> "bad:unparsable") in
  (model, verdict))

(* ---- second part: Gen/PermInv2 ---- *)
let bytes_of x = Stdlib.List.map (fun a -> int_of_string (atom a)) (lst x)
let zs_of x = get_list get_z x

(* c18.toposort: input (dag ids g), output ids in topoSort's order. Model: extracted topo_sort (memoised depth
   walk + bucket order). Oracle: a permutation of the identities; for a DAG: ascending (longest path to a
   sink, identity) - computed here without the walk's done-marking. *)
let () = Reg.register "c18.toposort" (fun inp out ->
  match lst inp with
  | [dag; ids; g] ->
    let dag = get_bool dag in
    let ids_z = Stdlib.List.map zs_of (lst ids) in
    let g_l = Stdlib.List.map (fun es -> Stdlib.List.map get_int (lst es)) (lst g) in
    let model = PermInv2.topo_sort ids_z (Stdlib.List.map (fun es -> Stdlib.List.map nat_of_int es) g_l) in
    let model_s = L (Stdlib.List.map (put_list put_z) model) in
    let ids_i = Array.of_list (Stdlib.List.map bytes_of (lst ids)) in
    let ga = Array.of_list g_l in
    let outs = Stdlib.List.map bytes_of (lst out) in
    let verdict =
      if Stdlib.List.sort compare outs <> Stdlib.List.sort compare (Array.to_list ids_i) then "bad:toposort-not-a-permutation"
      else if dag then begin
        let n = Array.length ga in
        let memo = Array.make n (-1) in
        let rec h i = if memo.(i) >= 0 then memo.(i) else begin
          let v = Stdlib.List.fold_left (fun acc e -> max acc (h e + 1)) 0 ga.(i) in memo.(i) <- v; v end in
        let keyed = Stdlib.List.sort compare (Stdlib.List.init n (fun i -> (h i, ids_i.(i)))) in
        if Stdlib.List.map snd keyed = outs then "ok" else "bad:toposort-not-ordered-by-height-then-identity"
      end else "ok" in
    (model_s, verdict)
  | _ -> failwith "c18.toposort")

(* c18.imports: input = paths in order of appearance (duplicates possible), output = paths of the import block.
   Model: go_imports over the first-appearance order of the distinct paths. Oracle: distinct paths, std first,
   ascending inside each group. *)
let is_std (p : int list) : bool =
  let rec first acc = function [] -> Stdlib.List.rev acc | 47 :: _ -> Stdlib.List.rev acc | c :: t -> first (c :: acc) t in
  not (Stdlib.List.exists (fun c -> c = 46 || c = 45 || c = 95 || (48 <= c && c <= 57)) (first [] p))

let () = Reg.register "c18.imports" (fun inp out ->
  let paths = Stdlib.List.map bytes_of (lst inp) in
  let rec uniq seen = function [] -> [] | p :: t -> if Stdlib.List.mem p seen then uniq seen t else p :: uniq (p :: seen) t in
  let distinct = uniq [] paths in
  let std_z (p : coq_Z list) = is_std (Stdlib.List.map int_of_z p) in
  let to_z p = Stdlib.List.map z_of_int p in
  let model = PermInv2.go_imports std_z (Stdlib.List.map (fun p -> ([], to_z p)) distinct) in
  let model_s = L (Stdlib.List.map (fun (_, p) -> put_list put_z p) model) in
  let outs = Stdlib.List.map bytes_of (lst out) in
  let stds = Stdlib.List.sort compare (Stdlib.List.filter is_std distinct)
  and others = Stdlib.List.sort compare (Stdlib.List.filter (fun p -> not (is_std p)) distinct) in
  let verdict = if outs = stds @ others then "ok" else "bad:import-block-not-canonical" in
  (model_s, verdict))

(* c18.comments: input = (token, constant) per lexer rule in rule order ("" = not a constant), output =
   (token, Comment) per token. Model: token_comments, then the writes in the order of the comments map as the
   model built it. Oracle: Comment = the common constant of the token's rules, "" when they differ. *)
let () = Reg.register "c18.comments" (fun inp out ->
  let rules = Stdlib.List.map (fun r -> match lst r with [t; v] -> (get_z t, zs_of v) | _ -> failwith "rule") (lst inp) in
  let cm = PermInv2.token_comments rules in
  let syms = PermInv2.apply_writes cm (fun _ -> [z_of_int 63]) in
  let toks = Stdlib.List.sort_uniq compare (Stdlib.List.map (fun (t, _) -> int_of_z t) rules) in
  let model_s = L (Stdlib.List.map (fun t -> L [put_int t; put_list put_z (syms (z_of_int t))]) toks) in
  let verdict =
    try
      Stdlib.List.iter (fun o -> match lst o with
        | [t; c] ->
          let t = get_int t and c = bytes_of c in
          let vals = Stdlib.List.filter_map (fun (t', v) -> if int_of_z t' = t then Some (Stdlib.List.map int_of_z v) else None) rules in
          let expect = (match vals with [] -> [] | v :: rest -> if Stdlib.List.for_all (fun x -> x = v) rest then v else []) in
          if c <> expect then raise Exit
        | _ -> failwith "comment") (lst out);
      "ok"
    with Exit -> "bad:token-comment-is-not-the-common-constant" in
  (model_s, verdict))
