(* C02: listener events of generated parsers vs the event model (Events.xrun) vs the specification
   (Events.spec_events on the generator's own derivation tree and the arrows as written in the source). *)
open Io
open BinNums
open Datatypes
open PTables
open Run
open Events

let get_triple x = match lst x with [a; b; c] -> (a, b, c) | _ -> failwith "triple"

let get_ev_table x = get_list (fun r -> match lst r with
  | [ty; reps; tn] -> { er_type = get_z ty;
                        er_reports = get_list (fun t -> let (s, e, ty) = get_triple t in ((get_nat s, get_nat e), get_z ty)) reps;
                        er_trailing_nulls = get_bool tn }
  | _ -> failwith "ev_rule") x

let get_arrows x = get_list (fun r -> get_list (fun t -> let (s, e, ty) = get_triple t in ((get_nat s, get_nat e), get_z ty)) r) x

let rec get_tree x = match lst x with
  | [A "l"; s; o; e] -> TLeaf (get_z s, get_z o, get_z e)
  | A "n" :: r :: ch -> TNode (get_z r, Stdlib.List.map get_tree ch)
  | _ -> failwith "tree"

let put_events evs = L (A "events" :: Stdlib.List.map (fun ((t, o), e) -> L [put_z t; put_z o; put_z e]) evs)

let get_impl_events x = match x with
  | L [A "accept"; _; L (A "events" :: evs)] -> Some (Stdlib.List.map (fun t -> let (a, b, c) = get_triple t in ((get_z a, get_z b), get_z c)) evs)
  | _ -> None

let () = Reg.register "c02.events" (fun inp out ->
  match lst inp with
  | [gtm; tables; evt; arrows; fixws; samples] ->
    let gtm = P_c03.get_grammar gtm in
    let ((_, _, _, _, finals, _) as t) = P_c01.get_tables tables in
    let m = P_c01.machine_of gtm.Cfg.g_terms t in
    let evt = get_ev_table evt and arrows = get_arrows arrows and fixws = get_bool fixws in
    let verdict = ref "ok" in
    let model = Stdlib.List.map2 (fun s o ->
      match lst s with
      | [idx; len; toks; tree] ->
        let i = get_int idx in
        let toks = get_list (fun t -> let (a, b, c) = get_triple t in { t_sym = get_z a; t_off = get_z b; t_end = get_z c }) toks in
        let eoi_off = get_z len in
        let n = Stdlib.List.length toks in
        let (oc, c) = Events.xrun (nat_of_int (40 * n + 400)) m evt fixws (z_of_int i) (Stdlib.List.nth finals i) eoi_off toks in
        let mo = (match oc with
          | Accept -> L [A "accept"; put_z eoi_off; put_events c.xc_events]
          | SyntaxError (off, e, _) -> L [A "syntax"; put_z off; put_z e; put_events c.xc_events]
          | Crash _ -> A "panic"
          | OutOfFuel -> A "timeout") in
        (* hypotheses of the C02 theorem on the tree the loop model built *)
        (if !verdict = "ok" && oc = Accept then
          match c.xc_stack with
          | [_; es; _] ->
            let (_, _, rlen, _, _, _) = t in
            if not (Events.wf_treeb evt (fun r -> PTables.zn rlen r) es.x_tree) then verdict := "bad:event-table-or-trailing-null-flags-not-well-formed"
          | _ -> ());
        (if !verdict = "ok" then begin
          let spec = Events.spec_events arrows (get_tree tree) eoi_off in
          match get_impl_events o with
          | None -> verdict := "bad:sentence-not-accepted"
          | Some evs ->
            if evs <> spec then begin
              let same_but_ends = Stdlib.List.length evs = Stdlib.List.length spec &&
                Stdlib.List.for_all2 (fun ((t1, o1), e1) ((t2, o2), e2) -> t1 = t2 && o1 = o2 && Z.compare e1 e2 <> Lt) evs spec in
              if (not fixws) && same_but_ends && c.xc_events = evs
              then verdict := "bad:node-range-includes-trailing-whitespace-without-fixWhitespace"
              else verdict := "bad:events-differ-from-the-post-order-of-the-derivation"
            end
        end);
        mo
      | _ -> failwith "sample") (lst samples) (lst out) in
    (L model, !verdict)
  | _ -> failwith "c02.events")

let () = Reg.register "c02.nocompile" (fun _ _ -> (A "compiles", "ok"))
