open Io
open BinNums
open Datatypes
open Expr
open Syn_io
module SL = Stdlib.List

let sorted_ids l = SL.sort_uniq compare (SL.map int_of_z l)

(* property oracle: the implementation's sets against the naive fixpoint of the declarative reading *)
let sets_verdict (m : model) (impl : [`Err of int list | `Ok of int list list]) : string =
  let t = z_of_int (SL.length m.m_terms) in
  let vals = SL.map (fun nt -> nt.nt_value) m.m_nonterms in
  match SetsSpec.spec_sets t vals m.m_sets m.m_inputs, impl with
  | SetsSpec.SpecErr ids, `Err got ->
    if sorted_ids ids = got then "ok" else "bad:offending-complements-differ"
  | SetsSpec.SpecErr _, `Ok _ -> "bad:self-dependent-complement-not-rejected"
  | SetsSpec.SpecOk _, `Err _ -> "bad:rejected-without-self-dependent-complement"
  | SetsSpec.SpecOk want, `Ok got ->
    let want = SL.map (SL.map int_of_z) want in
    if want <> got then begin
      let rec first_diff i a b = match a, b with
        | x :: a', y :: b' -> if x <> y then i else first_diff (i + 1) a' b'
        | _ -> i in
      Printf.sprintf "bad:set-%d-differs-from-fixpoint-definition" (first_diff 0 want got)
    end else begin
      (* second, proved-exact oracle where it applies: a top-level expression [op sym] over rules without set nonterminals *)
      let reach = SetsSpec.spec_reachable t vals m.m_sets m.m_inputs in
      if SetsSpec.set_rules t vals reach <> [] then "ok" else begin
        let rules = SetsSpec.spec_rules t vals reach in
        let bad = ref "ok" in
        (match SetsSpec.all_tables t rules with
         | None -> bad := "bad:oracle-table-did-not-stabilise"
         | Some tb ->
           SL.iteri (fun i s ->
             if SetsSpec.closed_tset s && !bad = "ok" then begin
               let w = SL.map int_of_z (SetsSpec.eval_set t tb s) in
               if w <> SL.nth got i then bad := Printf.sprintf "bad:set-%d-differs-from-proved-evaluation" i
             end) m.m_sets);
        !bad
      end
    end

let () = Reg.register "c15.sets" (fun inp out ->
  let m = get_model inp in
  let t = z_of_int (SL.length m.m_terms) in
  let vals = SL.map (fun nt -> nt.nt_value) m.m_nonterms in
  let model = match Sets.resolve_sets t vals m.m_sets m.m_inputs with
    | Sets.SetsOof -> A "out-of-fuel"
    | Sets.SetsErr ids -> L [A "err"; put_list put_int (sorted_ids ids)]
    | Sets.SetsOk terms ->
      L [A "ok"; put_list (put_list put_z) terms;
         put_nonterms (SL.map (fun nt -> (nt.nt_name, Sets.resolved_value terms nt.nt_value)) m.m_nonterms)] in
  let verdict = match lst out with
    | [A "err"; ids] -> sets_verdict m (`Err (get_list get_int ids))
    | [A "ok"; sets; _] -> sets_verdict m (`Ok (get_list (get_list get_int) sets))
    | A "other-error" :: _ -> "bad:unexpected-error"
    | _ -> "bad:unparsable" in
  (* side condition of the Coq theorems C15_sets_least_solution_partial / C15_self_complement_rejected: the generated
     node list is well formed and the Tarjan output satisfies its contract (proved-sound checkers) *)
  let verdict =
    if verdict = "ok" && m.m_sets <> [] && not (Sets.sets_certb t vals m.m_sets m.m_inputs)
    then "bad:closure-certificate-failed" else verdict in
  (* side condition of C15_sets_exact (all of any / first / last / precede / follow and the union / intersection /
     complement trees of closed top-level expressions): on models without reachable set nonterminals the generated
     system is the declarative one (proved-sound checker SetsGenAll.sets_gen_all_ok, which includes SetsGen.gen_keys_ok).
     C15_SCOPE_LOG=1 prints per case: in scope?, top-level sets, top-level sets in the scope of the tree check *)
  let in_scope = m.m_sets <> [] && SetsGen.sets_gen_scope t vals m.m_sets m.m_inputs in
  if Sys.getenv_opt "C15_SCOPE_LOG" <> None then
    Printf.eprintf "c15scope %d %d %d\n" (if in_scope then 1 else 0) (SL.length m.m_sets)
      (SL.length (SL.filter SetsGenAll.tree_scope m.m_sets));
  let verdict =
    if verdict = "ok" && in_scope && not (SetsGenAll.sets_gen_all_ok t vals m.m_sets m.m_inputs)
    then "bad:generated-system-check-failed" else verdict in
  (model, verdict))

(* end to end: %generate sets and afterErr through compiler.Compile (grammar.Grammar.Sets, IsRecovering) *)
let () = Reg.register "c15.tm" (fun inp out ->
  let m, with_error = (match lst inp with [m; e] -> (get_model m, get_bool e) | _ -> failwith "c15.tm input") in
  let nt = SL.length m.m_terms in
  let m = if with_error then { m with m_sets = m.m_sets @ [TSym (z_of_int 4, z_of_int (nt - 1))] } else m in
  let t = z_of_int nt in
  let vals = SL.map (fun x -> x.nt_value) m.m_nonterms in
  let spec = SetsSpec.spec_sets t vals m.m_sets m.m_inputs in
  let verdict = match lst out with
    | [A "err"] -> (match spec with SetsSpec.SpecErr _ -> "ok" | _ -> "bad:rejected-without-self-dependent-complement")
    | [A "ok"; syms; sets; recovering] ->
      if get_list get_bytes syms <> m.m_terms then "bad:harness-terminal-numbering" else
      (match spec with
       | SetsSpec.SpecErr _ -> "bad:self-dependent-complement-not-rejected"
       | SetsSpec.SpecOk want ->
         let want = SL.map (SL.map int_of_z) want in
         let got = get_list (fun s -> match lst s with [_; ts] -> get_list get_int ts | _ -> failwith "set") sets in
         if SL.length got <> SL.length want then "bad:number-of-sets"
         else if got <> want then "bad:set-differs-from-fixpoint-definition"
         else if with_error && (get_bool recovering) <> (SL.nth want (SL.length want - 1) <> []) then "bad:recovery-flag-differs-from-follow-error"
         else "ok")
    | A "other-error" :: _ -> "ok"    (* outside the property: the grammar text was rejected for another reason *)
    | _ -> "bad:unparsable" in
  (A "-", verdict))
