#!/bin/sh
# Extract the Coq models to OCaml (gen/) and build the driver. Run after `make -C ../coq`.
set -e
cd "$(dirname "$0")"
rm -rf gen && mkdir gen
(cd gen && coqc -R ../../coq TM ../../coq/Extract/Extract.v >/dev/null)
rm -rf _b && mkdir _b && cp gen/*.ml gen/*.mli *.ml _b/
cd _b
ORDER=$(ocamlfind ocamldep -sort *.mli *.ml)
ocamlfind ocamlopt -O2 -w -a -o ../driver $ORDER 2>&1 | grep -v '^$' || true
cd .. && rm -rf _b
test -x driver
