(* reads: id \t kind \t input \t impl_out ; writes: id \t model_out \t verdict *)
let () =
  try
    while true do
      let line = input_line stdin in
      match String.split_on_char '\t' line with
      | [id; kind; inp; out] ->
        let (m, v) =
          (try
            let h = (try Hashtbl.find Reg.handlers kind with Not_found -> failwith ("no handler " ^ kind)) in
            let (m, v) = h (Io.parse inp) (Io.parse out) in (Io.to_string m, v)
          with Failure e -> ("driver-failure:" ^ e, "bad:driver-failure")
             | Stack_overflow -> ("driver-failure:stack", "bad:driver-failure")) in
        print_string id; print_char '\t'; print_string m; print_char '\t'; print_endline v
      | _ -> ()
    done
  with End_of_file -> ()
