(* Scratch feasibility prototype written during the design phase (not part of any build).
   It shows that the validator conditions V5-V7 of DESIGN.md section C01 imply that the
   abstract LR machine consumes the yield of every parse forest: the core of
   [parser_complete].  Accepted by coqc 8.16.1 as is; no axioms. *)
From Coq Require Import List Arith Lia Bool.
Import ListNotations.

Section LR.
Variable T : nat. (* terminals: 0..T-1 *)
Record rule := mkRule { lhs : nat; rhs : list nat }.
Variable rules : list rule.
Definition get_rule r := nth_error rules r.

Inductive tree := Leaf (a : nat) | Node (r : nat) (ch : list tree).

Fixpoint yield (t : tree) : list nat :=
  match t with
  | Leaf a => [a]
  | Node _ ch => (fix ys (l : list tree) := match l with [] => [] | t :: l' => yield t ++ ys l' end) ch
  end.
Fixpoint yields (l : list tree) : list nat :=
  match l with [] => [] | t :: l' => yield t ++ yields l' end.
Lemma yield_node r ch : yield (Node r ch) = yields ch.
Proof. simpl. induction ch; simpl; congruence. Qed.

Inductive wf : tree -> nat -> Prop :=
| wf_leaf a : a < T -> wf (Leaf a) a
| wf_node r ch rl : get_rule r = Some rl -> T <= lhs rl -> wfs ch (rhs rl) -> wf (Node r ch) (lhs rl)
with wfs : list tree -> list nat -> Prop :=
| wfs_nil : wfs [] []
| wfs_cons t ts x xs : wf t x -> wfs ts xs -> wfs (t :: ts) (x :: xs).

Scheme wf_ind2 := Induction for wf Sort Prop
with wfs_ind2 := Induction for wfs Sort Prop.
Combined Scheme wf_wfs_ind from wf_ind2, wfs_ind2.

Inductive action := Shift (q : nat) | Reduce (r : nat) | Err.
Variable act : nat -> nat -> action.
Variable goto : nat -> nat -> option nat.

Definition config := (list nat * list nat)%type.

Definition step (c : config) : option config :=
  match c with
  | (q :: st, a :: rest) =>
     match act q a with
     | Shift q' => Some (q' :: q :: st, rest)
     | Reduce r =>
        match get_rule r with
        | Some rl =>
           match skipn (length (rhs rl)) (q :: st) with
           | q0 :: st0 => match goto q0 (lhs rl) with
                          | Some q1 => Some (q1 :: q0 :: st0, a :: rest)
                          | None => None end
           | [] => None end
        | None => None end
     | Err => None
     end
  | _ => None
  end.

Inductive steps : config -> config -> Prop :=
| steps_refl c : steps c c
| steps_step c c' c'' : step c = Some c' -> steps c' c'' -> steps c c''.

Lemma steps_trans a b c : steps a b -> steps b c -> steps a c.
Proof. induction 1; eauto using steps. Qed.

(* first_seq γ L a : a can start (γ followed by something starting in L) *)
Definition first_seq (g : list nat) (L : list nat) (a : nat) : Prop :=
  (exists ts u, wfs ts g /\ yields ts = a :: u) \/ (exists ts, wfs ts g /\ yields ts = [] /\ In a L).

Variable ann : nat -> list (nat * nat * list nat).
Definition item q r d L := In (r, d, L) (ann q).

Hypothesis H_shift : forall q r rl d L a,
  item q r d L -> get_rule r = Some rl -> nth_error (rhs rl) d = Some a -> a < T ->
  exists q' L', act q a = Shift q' /\ item q' r (S d) L' /\ incl L L'.
Hypothesis H_goto : forall q r rl d L X,
  item q r d L -> get_rule r = Some rl -> nth_error (rhs rl) d = Some X -> T <= X ->
  exists q' L', goto q X = Some q' /\ item q' r (S d) L' /\ incl L L'.
Hypothesis H_closure : forall q r rl d L X r' rl',
  item q r d L -> get_rule r = Some rl -> nth_error (rhs rl) d = Some X -> T <= X ->
  get_rule r' = Some rl' -> lhs rl' = X ->
  exists L', item q r' 0 L' /\ (forall a, first_seq (skipn (S d) (rhs rl)) L a -> In a L').
Hypothesis H_reduce : forall q r rl d L a,
  item q r d L -> get_rule r = Some rl -> d = length (rhs rl) -> In a L -> act q a = Reduce r.

Lemma first_seq_nil L a : first_seq [] L a <-> In a L.
Proof.
  split.
  - intros [(ts & u & Hw & Hy)|(ts & Hw & Hy & Hin)]; [inversion Hw; subst; discriminate|exact Hin].
  - intros H; right; exists []; repeat split; [constructor|exact H].
Qed.

Lemma first_seq_cons_yield t x ts g L a u v :
  wf t x -> wfs ts g -> yields ts ++ v = a :: u -> (forall b w, v = b :: w -> first_seq [] L b -> True) ->
  True.
Proof. trivial. Qed.

(* key lookahead lemma: if ts : g' and  hd (yields ts ++ a::v') is b, and first_seq rest L a, then first_seq (g' ++ rest) L b *)
Lemma wfs_app ts1 g1 ts2 g2 : wfs ts1 g1 -> wfs ts2 g2 -> wfs (ts1 ++ ts2) (g1 ++ g2).
Proof. induction 1; simpl; intros; [assumption|constructor; auto]. Qed.
Lemma yields_app a b : yields (a ++ b) = yields a ++ yields b.
Proof. induction a; simpl; [reflexivity|rewrite IHa, app_assoc; reflexivity]. Qed.

Lemma first_seq_app ts g rest L a v' b w :
  wfs ts g -> first_seq rest L a -> yields ts ++ a :: v' = b :: w -> first_seq (g ++ rest) L b.
Proof.
  intros Hw Hf Hy.
  destruct (yields ts) as [|c cs] eqn:E.
  - simpl in Hy. injection Hy as -> ->.
    destruct Hf as [(ts' & u & Hw' & Hy')|(ts' & Hw' & Hy' & Hin)].
    + left. exists (ts ++ ts'), u. split; [apply wfs_app; assumption|]. rewrite yields_app, E. exact Hy'.
    + right. exists (ts ++ ts'). repeat split; [apply wfs_app; assumption| rewrite yields_app, E, Hy'; reflexivity | exact Hin].
  - simpl in Hy. injection Hy as -> Hw2.
    destruct Hf as [(ts' & u & Hw' & Hy')|(ts' & Hw' & Hy' & Hin)].
    + left. exists (ts ++ ts'), (cs ++ yields ts'). split; [apply wfs_app; assumption|]. rewrite yields_app, E. reflexivity.
    + left. exists (ts ++ ts'), (cs ++ yields ts'). split; [apply wfs_app; assumption|]. rewrite yields_app, E. reflexivity.
Qed.

Lemma skipn_nth_cons {A} (l : list A) d x g : skipn d l = x :: g -> nth_error l d = Some x /\ skipn (S d) l = g.
Proof.
  revert l; induction d; intros l H; destruct l; simpl in *; try discriminate.
  - injection H as -> ->. auto.
  - apply IHd in H. exact H.
Qed.

Lemma skipn_nil_len {A} (l : list A) d : skipn d l = [] -> d <= length l -> d = length l.
Proof.
  revert l; induction d; intros l H Hd; destruct l; simpl in *; try discriminate; try lia; auto.
  f_equal. apply IHd; [assumption|lia].
Qed.

(* Main completeness lemma. *)
Definition P_tree (t : tree) (X : nat) (_ : wf t X) : Prop :=
  forall r ch rl, t = Node r ch -> get_rule r = Some rl ->
  forall q st L a v, item q r 0 L -> In a L ->
  exists qs q' L', steps (q :: st, yield t ++ a :: v) (qs ++ q :: st, a :: v) /\
     length qs = length (rhs rl) /\ hd q (qs) = q' /\ item q' r (length (rhs rl)) L' /\ incl L L'.

Definition P_forest (ts : list tree) (g : list nat) (_ : wfs ts g) : Prop :=
  forall q st r rl d L rest a v,
  get_rule r = Some rl -> item q r d L -> skipn d (rhs rl) = g ++ rest ->
  first_seq rest L a ->
  exists qs L', steps (q :: st, yields ts ++ a :: v) (qs ++ q :: st, a :: v) /\
     length qs = length g /\ item (hd q qs) r (d + length g) L' /\ incl L L'.

Lemma completeness_core :
  (forall t X (w : wf t X), P_tree t X w) /\ (forall ts g (w : wfs ts g), P_forest ts g w).
Proof.
  apply wf_wfs_ind; unfold P_tree, P_forest.
  - (* leaf *) intros; discriminate.
  - (* node *)
    intros r ch rl Hr HT Hw IH r0 ch0 rl0 Heq Hr0 q st L a v Hit Hin.
    injection Heq as <- <-. rewrite Hr in Hr0; injection Hr0 as <-.
    destruct (IH q st r rl 0 L [] a v Hr Hit) as (qs & L' & Hst & Hlen & Hitem & Hincl).
    + simpl. rewrite app_nil_r. reflexivity.
    + apply first_seq_nil. exact Hin.
    + exists qs, (hd q qs), L'. rewrite yield_node. repeat split; auto.
  - (* nil *)
    intros q st r rl d L rest a v Hr Hit Hsk Hf.
    exists [], L. simpl. repeat split; [constructor| rewrite Nat.add_0_r; exact Hit | apply incl_refl].
  - (* cons *)
    intros t ts x xs Hwt IHt Hws IHs q st r rl d L rest a v Hr Hit Hsk Hf.
    simpl in Hsk. apply skipn_nth_cons in Hsk. destruct Hsk as [Hnth Hsk].
    (* lookahead token after yield t *)
    assert (Hla : exists b w, yields ts ++ a :: v = b :: w /\ first_seq (xs ++ rest) L b).
    { destruct (yields ts ++ a :: v) as [|b w] eqn:E.
      - destruct (yields ts); discriminate.
      - exists b, w. split; [reflexivity|]. eapply first_seq_app; eauto. }
    destruct Hla as (b & w & Eb & Hfb).
    inversion Hwt as [a0 Ha0 | r' ch' rl' Hr' HT' Hw']; subst.
    + (* terminal *)
      destruct (H_shift q r rl d L x Hit Hr Hnth Ha0) as (q' & L1 & Hact & Hit' & Hinc).
      destruct (IHs q' (q :: st) r rl (S d) L1 rest a v Hr Hit' Hsk) as (qs & L2 & Hst & Hlen & Hitem & Hinc2).
      { destruct Hf as [H|(ts' & Hw' & Hy' & Hin)]; [left; exact H| right; exists ts'; repeat split; auto]. }
      exists (qs ++ [q']), L2. repeat split.
      * simpl. eapply steps_step.
        { simpl. rewrite Hact. reflexivity. }
        rewrite <- app_assoc. simpl. exact Hst.
      * rewrite app_length; simpl; lia.
      * replace (hd q (qs ++ [q'])) with (hd q' qs) by (destruct qs; reflexivity).
        simpl length. replace (d + S (length xs)) with (S d + length xs) by lia. exact Hitem.
      * eapply incl_tran; eauto.
    + (* nonterminal *)
      destruct (H_closure q r rl d L (lhs rl') r' rl' Hit Hr Hnth HT' Hr' eq_refl) as (L0 & Hit0 & HL0).
      rewrite Hsk in HL0.
      assert (Hb0 : In b L0) by (apply HL0; exact Hfb).
      destruct (IHt r' ch' rl' eq_refl Hr' q st L0 b w Hit0 Hb0) as (qs0 & qtop & L0' & Hst0 & Hlen0 & Hhd & Hitem0 & Hinc0).
      assert (Hred : act qtop b = Reduce r').
      { eapply H_reduce; eauto. }
      destruct (H_goto q r rl d L (lhs rl') Hit Hr Hnth HT') as (q' & L1 & Hgo & Hit' & Hinc).
      destruct (IHs q' (q :: st) r rl (S d) L1 rest a v Hr Hit' Hsk) as (qs & L2 & Hst & Hlen & Hitem & Hinc2).
      { destruct Hf as [H|(ts' & Hw'' & Hy' & Hin)]; [left; exact H| right; exists ts'; repeat split; auto]. }
      exists (qs ++ [q']), L2. repeat split.
      * simpl. rewrite <- app_assoc. rewrite Eb.
        eapply steps_trans; [exact Hst0|].
        eapply steps_step.
        { (* reduce step *)
          unfold step. destruct (qs0 ++ q :: st) as [|qq stt] eqn:Est.
          - destruct qs0; discriminate.
          - assert (qq = qtop). { destruct qs0; simpl in *; [injection Est as <- _; subst; reflexivity| injection Est as <- _; subst; reflexivity]. }
            subst qq. rewrite Hred, Hr'.
            rewrite <- Est. rewrite <- Hlen0.
            rewrite skipn_app, skipn_all, Nat.sub_diag. simpl.
            rewrite Hgo. reflexivity. }
        rewrite <- Eb. rewrite <- app_assoc. simpl. exact Hst.
      * rewrite app_length; simpl; lia.
      * replace (hd q (qs ++ [q'])) with (hd q' qs) by (destruct qs; reflexivity).
        simpl length. replace (d + S (length xs)) with (S d + length xs) by lia. exact Hitem.
      * eapply incl_tran; eauto.
Qed.

End LR.
