#!/usr/bin/env python3
"""Rebuilds section 10 of DESIGN.md from notes/design-sec10.tmpl: fills in the counts of known_findings.txt and the
summary of seeded/*/meta.json (the full table is seeded/RESULTS.md)."""
import os, re, json, glob, collections
root = os.path.dirname(os.path.dirname(os.path.abspath(__file__)))
kf = open(os.path.join(root, "known_findings.txt")).read().splitlines()
fixed = sum(1 for l in kf if l.startswith("fixed:"))
findings = sum(1 for l in kf if l.startswith("finding:"))
rows = []
for d in sorted(glob.glob(os.path.join(root, "seeded", "C*-*"))):
    try: m = json.load(open(os.path.join(d, "meta.json")))
    except Exception: continue
    ev = m.get("evaluation", {})
    rows.append((os.path.basename(d), m.get("property"), ev.get("confirmed"), ev.get("caught_by", []), m.get("strengthened") or ev.get("strengthened"), m.get("site", "")))
conf = [r for r in rows if r[2]]
caught = [r for r in conf if r[3]]
own = [r for r in conf if r[1] in r[3]]
strengthened = [r for r in conf if r[4]]
missed = [r for r in conf if not r[3]]
lines = []
lines.append("Summary of the committed evaluations: %d confirmed changes over %d properties; %d are caught by at least one quick check, "
             "%d of them by the check of the property they were written against; %d were missed when first evaluated and are caught "
             "after the strengthening recorded in their `meta.json`; %d are still missed." %
             (len(conf), len(set(r[1] for r in conf)), len(caught), len(own), len(strengthened), len(missed)))
lines.append("")
lines.append("| change | caught by | note |")
lines.append("|---|---|---|")
for r in conf:
    note = ""
    if r[4]: note = "after strengthening: " + str(r[4])[:160]
    if not r[3]: note = "MISSED — " + r[5][:120]
    lines.append("| %s | %s | %s |" % (r[0], ", ".join(r[3]) or "—", note))
tmpl = open(os.path.join(root, "notes", "design-sec10.tmpl")).read()
tmpl = tmpl.replace("@FIXED@", str(fixed)).replace("@FINDINGS@", str(findings)).replace("@SEEDED@", "\n".join(lines))
p = os.path.join(root, "DESIGN.md")
s = open(p).read()
i = s.index("## 10. As built")
open(p, "w").write(s[:i] + tmpl.rstrip() + "\n")
print("fixed", fixed, "findings", findings, "seeded", len(conf), "caught", len(caught), "missed", len(missed))
