(* Run from /verif/ocaml/gen:  coqc -R ../../coq TM ../../coq/Extract/Extract.v
   (Separate Extraction: one OCaml module per Coq file, written to the current directory) *)
From Coq Require Import Extraction ExtrOcamlBasic ZArith NArith List.
From TM Require Import Util.IntSet Util.Graph Util.Closure Util.ClosureSpec Util.GraphSpec Lex.Tables Lex.ShiftDfa Util.Ident Util.Diff Gram.Lookahead Gram.PTables Gram.Optimize Gram.OptimizeSpec Gram.Run Gram.Minimize Gram.Cfg Gram.LalrRef Gram.Prec Gram.LalrTables.
Extraction Language OCaml.
Separate Extraction
  Z.add Z.mul Z.sub Z.div_eucl Z.compare Z.of_nat Z.to_nat Z.of_N Z.to_N N.of_nat N.to_nat
  IntSet Graph Closure ClosureSpec GraphSpec Tables ShiftDfa Ident Diff Lookahead PTables Optimize OptimizeSpec Run Minimize Cfg LalrRef Prec LalrTables.
