(* C16 — Semantic action references bind to the right symbols.
   Model: Gram/ActionRefs.v (convertPart/pushName positions and names, expandExpr, compiler traverse with
   mid-rule extraction, ActionVars.resolve, goParserAction: left()/first()/last() and the slot arithmetic).
   Proofs: Gram/ActionRefs_proofs.v, Gram/ActionNames_proofs.v (the Names table). *)
From Coq Require Import List NArith ZArith Bool Arith.
From TM Require Import Gram.ActionRefs Gram.ActionRefs_proofs Gram.ActionNames_proofs Gram.ActionMarks_proofs.
Import ListNotations.
Local Open Scope nat_scope.

(* [agree st rm b]: the rule has pushed the entries [st]; [b] lists (position, entry) for every positioned
   symbol of the expansion seen so far; the compiler's actualPos map [rm] sends each such position to the
   index of exactly that entry, and no other position to anything. *)

(* The generated expression stack[len(stack)-(SymRefCount-index)] reads the rule's own entry number [index],
   whatever lies below the rule on the parser stack (this is also why a mid-rule action, reduced when only
   the preceding symbols are on the stack, needs no delta in the Go back-end). *)
Theorem C16_slot_reads_own_entry : forall (base st : list entry) i,
  i < length st -> slot (base ++ st) (length st - i) = nth_error st i.
Proof. exact slot_own_entries. Qed.

(* ref_binds, numeric: $N, ${N.offset}, ${N.endoffset} evaluate to the value / start / end of the symbol
   carrying position N+1 of the original rule when it is in this expansion (before the action), to nil / -1
   otherwise -- for every stack below the rule. *)
Theorem C16_ref_binds_numeric : forall ca rm st b base lhs n pr,
  agree st rm b -> S n < ca_maxpos ca ->
  eval_ref ca rm (length st) (base ++ st) lhs (RNum n) pr =
    match b_get b (S n) with
    | Some e => entry_arg e pr
    | None => absent_arg pr
    end.
Proof. exact eval_num_binds. Qed.

(* ref_binds, named: with [ps] the positions the name stands for in the original rule, ${name.offset} is the
   start of the first of them present in the expansion, ${name.endoffset} the end of the last one present,
   $name the value of the only one present; nil / -1 when none is present. (When several are present $name
   is a generation error -- AErr 3 -- the statement leaves that case as it is.) The hypothesis about the table
   is discharged for the tables convert builds by C16_names_table_sound / C16_named_ref_denotes_occurrence. *)
Theorem C16_ref_binds_named : forall ca rm st b base lhs nm ps pr,
  agree st rm b -> nm_get (ca_names ca) nm = Some ps -> ps <> [] ->
  eval_ref ca rm (length st) (base ++ st) lhs (RName nm) pr =
    match filter (present b) ps with
    | [] => absent_arg pr
    | a0 :: rest =>
        match b_get b a0, b_get b (last (a0 :: rest) a0) with
        | Some e0, Some e1 =>
            match pr with
            | POffset => AInt (e_off e0)
            | PEndoffset => AInt (e_end e1)
            | PValue => match rest with
                        | [] => val_arg (e_val e0)
                        | _ => eval_ref ca rm (length st) (base ++ st) lhs (RName nm) PValue
                        end
            end
        | _, _ => AErr 4
        end
    end.
Proof. exact eval_name_binds. Qed.

(* The hypothesis [agree] holds at every action site the model reaches, mid-rule (the action's own
   nonterminal is reduced with lhs = an empty symbol at the current offset) or final: running a rule up to a
   site leaves the stack, the remap and the bindings in agreement, and the site's commands are evaluated in
   exactly that state. *)
Theorem C16_sites_run_in_agreeing_states : forall tab cas l1 site l2 base ch start st rm b ch' cur,
  state_after l1 [] [] [] ch start = Some (st, rm, b, ch', cur) ->
  agree st rm b /\
  exists before after,
    run tab cas (l1 ++ site :: l2) base [] [] ch start = before ++
      match site with
      | LMid cs => run_cmds tab cas cs rm base st (mkE VNil cur cur)
      | LFinal cs => run_cmds tab cas cs rm base st (mkE VNil (first_off st cur) cur)
      | LRef _ | LMark _ => []
      end ++ after.
Proof. exact site_outputs. Qed.

(* "the symbol carrying that position" is unique: in every expansion of a converted rule each position
   occurs at most once, positions start at 1 and stay below the MaxPos reached at the end of the rule. *)
Theorem C16_positions_identify_symbols : forall p x,
  In x (expand (fst (convert_rule p))) ->
  NoDup (positions x) /\ Forall (fun q => 1 <= q < c_pos (snd (convert_rule p))) (positions x).
Proof. exact expansion_positions_distinct. Qed.

(* the expansion a derivation selects is one of the expansions of the rule *)
Theorem C16_pick_is_an_expansion : forall p sel, In (fst (pick p sel)) (expand p).
Proof. exact pick_in_expand. Qed.

(* ---------- the Names table (pushName / convertPart / popRule) ----------
   [pushes p'] lists the names convert pushes for the converted body p', in the order it pushes them (textual
   order; an alias right after its content, with [collect] of the content = the positions pushName receives);
   [occs nm l] are the position lists pushed under the base name nm: occurrence 0, 1, 2, ...;
   [key_index]: the key  name  and  name#0  stand for occurrence 0,  name#k  for occurrence k. *)

(* names_table: in the Names table of EVERY command of EVERY rule body (top level, parenthesised alternatives at
   any depth, after popRule merges), a key name / name#k is bound to the positions of the k-th push of that
   name -- for a symbol its own position, for an alias the positions collected beneath it; the list is not
   empty and lies inside [1, MaxPos) of that command (allocated before the command). This is the hypothesis
   of C16_ref_binds_named, now a theorem about the model of convertPart / pushName. *)
Theorem C16_names_table_sound : forall p c ca nm k ps,
  In (c, ca) (c_cmds (snd (convert_rule p))) ->
  nm_get (ca_names ca) (nm, k) = Some ps ->
  ps <> [] /\ Forall (fun q => 1 <= q < ca_maxpos ca) ps /\
  nth_error (occs nm (pushes (fst (convert_rule p)))) (key_index k) = Some ps.
Proof. exact names_table_sound. Qed.

(* "the positions beneath it": what an alias is pushed with ([collect] of the converted content) is exactly
   the set of positions that occur in some expansion of that content. *)
Theorem C16_alias_covers_exactly_its_symbols : forall p s pos, 1 <= c_pos s ->
  (In pos (collect (fst (convert p s))) <->
   exists x, In x (expand (fst (convert p s))) /\ In pos (positions x)).
Proof. exact alias_covers_exactly_its_symbols. Qed.

(* completeness at the top level: after the whole body the table of the rule is EXACTLY
   { name -> its push } for names pushed once and { name#k -> k-th push, k = 0..n-1 } for names pushed n >= 2
   times ([top_spec]); the loop "index++ until name#index is free" always stops at n. *)
Theorem C16_top_table_exact : forall p nm k,
  nm_get (c_top (snd (convert_rule p))) (nm, k) = top_spec (occs nm (pushes (fst (convert_rule p)))) k.
Proof. exact top_table_exact. Qed.

(* ... and that is the table a final action "body { code }" is given, with MaxPos = the next free position *)
Theorem C16_final_action_table_exact : forall p c,
  let r := convert_rule (PSeq p (PCmd c)) in
  exists ca, In (c, ca) (c_cmds (snd r)) /\
    ca_maxpos ca = c_pos (snd r) /\
    forall nm k, nm_get (ca_names ca) (nm, k) = top_spec (occs nm (pushes (fst r))) k.
Proof. exact final_action_table_exact. Qed.

(* C16_ref_binds_named with its hypothesis discharged: for every rule body, every command of it and every key
   its table binds, the key denotes the k-th push of the name and the reference evaluates to the start of the
   first / end of the last / value of the only present symbol among exactly those positions. *)
Theorem C16_named_ref_denotes_occurrence : forall p c ca nm k ps rm st b base lhs pr,
  In (c, ca) (c_cmds (snd (convert_rule p))) ->
  nm_get (ca_names ca) (nm, k) = Some ps ->
  agree st rm b ->
  nth_error (occs nm (pushes (fst (convert_rule p)))) (key_index k) = Some ps /\
  eval_ref ca rm (length st) (base ++ st) lhs (RName (nm, k)) pr =
    match filter (present b) ps with
    | [] => absent_arg pr
    | a0 :: rest =>
        match b_get b a0, b_get b (last (a0 :: rest) a0) with
        | Some e0, Some e1 =>
            match pr with
            | POffset => AInt (e_off e0)
            | PEndoffset => AInt (e_end e1)
            | PValue => match rest with
                        | [] => val_arg (e_val e0)
                        | _ => eval_ref ca rm (length st) (base ++ st) lhs (RName (nm, k)) PValue
                        end
            end
        | _, _ => AErr 4
        end
    end.
Proof. exact named_ref_denotes_occurrence. Qed.

(* Not stated for nested alternatives: completeness (which pushes a parenthesised alternative's table contains).
   It holds only up to renaming -- after  ( ta ( ta {c1} ) {c2} )  the outer alternative still has the stale key
   ta next to ta#0 and ta#1 (both bound to the first ta, which is what soundness says) -- so only soundness
   is a theorem there; the tables themselves are compared with the compiler's (c16.table). *)

(* ta ta[x] (ta tb)[y] { .. } : ta is pushed three times, x covers the second ta, y the group *)
Example C16_names_example :
  let body := PSeq (PSym 1 1 0) (PSeq (PAlias 1000 (PSym 1 1 0))
              (PSeq (PAlias 1001 (PScope (PSeq (PSym 1 1 0) (PSym 2 2 0)))) (PCmd 7))) in
  let r := convert_rule body in
  exists ca, In (7%N, ca) (c_cmds (snd r)) /\ ca_maxpos ca = 5 /\
    nm_get (ca_names ca) (1%N, Some 2%N) = Some [3] /\
    nm_get (ca_names ca) (1%N, None) = None /\
    nm_get (ca_names ca) (1000%N, None) = Some [2] /\
    nm_get (ca_names ca) (1001%N, None) = Some [3; 4] /\
    occs 1%N (pushes (fst r)) = [[1]; [2]; [3]] /\
    occs 1001%N (pushes (fst r)) = [[3; 4]].
Proof.
  cbv zeta. eexists. split; [vm_compute; left; reflexivity|]. vm_compute. repeat split; reflexivity.
Qed.

(* ---------- ${first()} / ${last()} (gen/funcs.go goParserAction) ----------
   At every site the model reaches (the state after the items l1 of the expansion): ${first()..} reads the FIRST
   entry the rule has pushed and ${last()..} the LAST one pushed before the action -- value / start / end of
   that entry -- when it belongs to a symbol carrying a position ([entry_tags]: true for such symbols, false for
   an extracted mid-rule nonterminal and for the recursive reference of a list rule); for an entry without a
   position the generator stops with "internal error: cannot find the position for index" (AErr 7); when
   the rule has pushed nothing both are nil / -1. So first()/last() denote the first / last symbol of the
   EXPANDED rule up to the action, not a position of the original rule. *)
Theorem C16_first_last_bind : forall ca l1 ch start st rm b ch' cur base lhs pr,
  state_after l1 [] [] [] ch start = Some (st, rm, b, ch', cur) ->
  eval_ref ca rm (length st) (base ++ st) lhs RFirst pr =
    match st with
    | [] => absent_arg pr
    | e0 :: _ => if hd false (entry_tags l1) then entry_arg e0 pr else AErr 7
    end /\
  eval_ref ca rm (length st) (base ++ st) lhs RLast pr =
    match rev st with
    | [] => absent_arg pr
    | e1 :: _ => if hd false (rev (entry_tags l1)) then entry_arg e1 pr else AErr 7
    end.
Proof. exact first_last_bind. Qed.

(* ta? tb { first().offset, last() } tc { first(), last().endoffset } without ta;
   { first().offset } ta { first().offset, last().offset } : the first entry is the mid-rule nonterminal *)
Example C16_first_last_example :
  let body := PSeq (POpt (PSym 1 1 0)) (PSeq (PSym 2 2 0) (PSeq (PCmd 5) (PSeq (PSym 3 3 0) (PCmd 7)))) in
  let tab := [(5%N, [(RFirst, POffset); (RLast, PValue)]); (7%N, [(RFirst, PValue); (RLast, PEndoffset)])] in
  let body2 := PSeq (PCmd 5) (PSeq (PSym 1 1 0) (PCmd 7)) in
  let tab2 := [(5%N, [(RFirst, POffset)]); (7%N, [(RFirst, POffset); (RLast, POffset)])] in
  run_node tab body false [false] [mkE (V 99) 0 1] [mkE (V 5) 3 4; mkE (V 6) 4 5] 3%Z
    = [(5%N, [AInt 3%Z; AVal 5]); (7%N, [AVal 5; AInt 5%Z])] /\
  run_node tab2 body2 false [] [] [mkE (V 4) 0 1] 0%Z
    = [(5%N, [AM1]); (7%N, [AErr 7; AInt 0%Z])].
Proof. cbv zeta. split; vm_compute; reflexivity. Qed.

(* ta[x]? tb { $$ = f($x, $1, ${x.offset}) } : the expansion without ta *)
Example C16_example :
  let body := PSeq (POpt (PAlias 1000 (PSym 1 1 0))) (PSeq (PSym 2 2 0) (PCmd 7)) in
  let tab := [(7%N, [(RName (1000%N, None), PValue); (RNum 1, PValue); (RName (1000%N, None), POffset);
                     (RNum 0, PValue); (RNum 1, PEndoffset)])] in
  run_node tab body false [false] [mkE (V 99) 0 1] [mkE (V 5) 3 4] 3%Z
    = [(7%N, [ANil; AVal 5; AM1; ANil; AInt 4%Z])] /\
  run_node tab body false [true] [] [mkE (V 4) 2 3; mkE (V 5) 3 4] 2%Z
    = [(7%N, [AVal 4; AVal 5; AInt 2%Z; AVal 4; AInt 4%Z])] /\
  agree [mkE (V 4) 2 3; mkE (V 5) 3 4] [(2, 1); (1, 0)] [(2, mkE (V 5) 3 4); (1, mkE (V 4) 2 3)].
Proof.
  cbv zeta. split; [vm_compute; reflexivity|]. split; [vm_compute; reflexivity|].
  intro pos. destruct pos as [|[|[|pos]]]; cbn; eauto.
Qed.


(* ---------- state markers (.name) ----------
   compiler/syntax.go convertPart gives a state marker no position and no name; compiler.go traverse appends it
   to rule.RHS (for the LALR generator) but neither counts it in numRefs nor records it in actualPos, and
   SymRefCount / RuleLen skip it: a marker occupies no stack slot and is not counted by $N.
   [erase_marks body] is the rule as written with every marker removed; [drop_marks] removes them from an
   expansion. *)

(* markers_transparent: for every rule body, every derivation (sel), every stack below the rule and all children,
   each action of the rule logs exactly the values it logs in the rule without the markers -- so all the
   theorems above about $N / $name / ${..offset} hold verbatim for rules with markers anywhere (before the
   referenced symbols, between them, at the end, after a mid-rule action). *)
Theorem C16_markers_transparent : forall tab body lead sel base ch start,
  run_node tab (erase_marks body) lead sel base ch start = run_node tab body lead sel base ch start.
Proof. exact markers_transparent. Qed.

(* ... the Names / MaxPos tables recorded for the commands are the same, and so is the next free position *)
Theorem C16_markers_keep_tables : forall body,
  c_cmds (snd (convert_rule (erase_marks body))) = c_cmds (snd (convert_rule body)) /\
  c_pos (snd (convert_rule (erase_marks body))) = c_pos (snd (convert_rule body)).
Proof. exact markers_keep_tables. Qed.

(* ... and the positions an expansion mentions (what $N counts) do not see the markers *)
Theorem C16_markers_have_no_position : forall l, positions (drop_marks l) = positions l.
Proof. exact markers_have_no_position. Qed.

(* The one thing a marker changes: compiler.go refuses to extract a mid-rule action from a rule that already
   has a marker on its right-hand side ("mixing mid-rule actions with state markers is not supported"),
   [rule_mixes]. A rule without markers is never refused for that reason. *)
Theorem C16_unmarked_rule_never_mixes : forall body, rule_mixes (erase_marks body) = false.
Proof. exact unmarked_rule_never_mixes. Qed.

(* ta .m tb[x] tc? .n { $x, $1, ${2.offset}, ${0.endoffset} } with and without tc: $1 is tb, not the marker;
   .m ta {c} tb and ta {c} .m tb are refused, ta {c} tb .m tc {d} is not *)
Example C16_marker_example :
  let body := PSeq (PSym 1 1 0) (PSeq (PMark 0) (PSeq (PAlias 1000 (PSym 2 2 0))
              (PSeq (POpt (PSym 3 3 0)) (PSeq (PMark 1) (PCmd 7))))) in
  let tab := [(7%N, [(RName (1000%N, None), PValue); (RNum 1, PValue); (RNum 2, POffset); (RNum 0, PEndoffset)])] in
  run_node tab body false [true] [mkE (V 99) 0 1] [mkE (V 4) 2 3; mkE (V 5) 3 4; mkE (V 6) 4 5] 2%Z
    = [(7%N, [AVal 5; AVal 5; AInt 4%Z; AInt 3%Z])] /\
  run_node tab body false [false] [mkE (V 99) 0 1] [mkE (V 4) 2 3; mkE (V 5) 3 4] 2%Z
    = [(7%N, [AVal 5; AVal 5; AM1; AInt 3%Z])] /\
  rule_mixes body = false /\
  rule_mixes (PSeq (PMark 0) (PSeq (PSym 1 1 0) (PSeq (PCmd 5) (PSym 2 2 0)))) = true /\
  rule_mixes (PSeq (PSym 1 1 0) (PSeq (PCmd 5) (PSeq (PMark 0) (PSym 2 2 0)))) = true /\
  rule_mixes (PSeq (PSym 1 1 0) (PSeq (PCmd 5) (PSeq (PSym 2 2 0) (PSeq (PMark 0) (PSeq (PSym 3 3 0) (PCmd 6)))))) = false.
Proof. cbv zeta. repeat split; vm_compute; reflexivity. Qed.

Print Assumptions C16_slot_reads_own_entry.
Print Assumptions C16_ref_binds_numeric.
Print Assumptions C16_ref_binds_named.
Print Assumptions C16_sites_run_in_agreeing_states.
Print Assumptions C16_positions_identify_symbols.
Print Assumptions C16_pick_is_an_expansion.
Print Assumptions C16_names_table_sound.
Print Assumptions C16_alias_covers_exactly_its_symbols.
Print Assumptions C16_top_table_exact.
Print Assumptions C16_final_action_table_exact.
Print Assumptions C16_named_ref_denotes_occurrence.
Print Assumptions C16_first_last_bind.
Print Assumptions C16_markers_transparent.
Print Assumptions C16_markers_keep_tables.
Print Assumptions C16_markers_have_no_position.
Print Assumptions C16_unmarked_rule_never_mixes.
