(* C13 — Desugaring extended notation preserves the language.
   Models: Syn/Expr.v (Expr tree, Equal, ProvisionalName), Syn/Expand.v (syntax.Expand: expandRule,
   expandExpr, extractNonterm, sortTail, Rearrange, list/optional rule synthesis), Syn/ExtLang.v (the
   meaning of the extended notation: [den]).  Lemmas: Syn/Expand_proofs.v. *)
From Coq Require Import List ZArith Bool Lia Permutation.
From TM Require Import Gram.Cfg Gram.Derive Syn.Expr Syn.Expand Syn.ExtLang Syn.Expand_proofs Syn.Expand_global Syn.Expand_derives Syn.Expand_derives2 Syn.Expand_derives3 Syn.CfgNonneg Syn.Expand_correct Syn.SortPerm Syn.Expand_perm Syn.ExpandWf Syn.Expand_wf_proofs.
Import ListNotations.
Local Open Scope Z_scope.

(* FULL STATEMENT:  forall M (well-formed), X original nonterminal, w,
       ext language of X in M  <->  derives (to_cfg (expand M)) (perm X) w.
   PROVED: C13_expand_correct_wf is this statement for the model [expand] of syntax.Expand as a whole (phase 1
   with extraction and reuse, sortTail / Rearrange, phase 2), for all expression kinds, with the language of a
   table of nonterminal values defined as the least solution (Knaster-Tarski) of its equations.  Its only
   hypothesis is the STATIC boolean [ExpandWf.wf_model] over the input model (references in range; every list
   separator reached by expandExpr expands to exactly one alternative, [n_alts sep = 1] -- the "only simple
   separators" condition whose violation is the log.Fatal of Expand).  C13_wf_model_checks derives the run-time
   side conditions [expand_checks] of C13_expand_correct (no Fatal branch, references of the input and of the
   intermediate table in range, the permutation built by sortTail is a permutation) from it, for every model:
   the loop invariant of phase 1 ([Expand_wf_proofs.pinv]: the slots of the already sorted nonterminals are a
   permutation of 0..start+base-1, sortTail hands the slots start+base+k to a duplicate-free local list that is
   a permutation of the positions not yet sorted), references only grow by extracted nonterminals, and the
   number of alternatives produced by expandExpr is the static [n_alts].  ./check still evaluates both
   booleans on every generated model (a loader/generator change that breaks wf_model is reported).
   C13_flat_table_is_cfg identifies the least solution of a table of flat choices with [Derive.derives] of the
   grammar [to_cfg] reads from it; C13_table_with_sets_is_cfg (this round) extends the bridge to the tables that still
   hold set nonterminals (ESet i: one rule per terminal of the resolved set, [setterms i], which must list exactly
   [setden i] and lie inside [0,T) -- sets are resolved by C15) and lookahead nonterminals (the empty rule): these are
   all the tables [to_cfg] accepts.  C13_expand_correct_derives combines it with C13_expand_correct_wf into the FULL
   STATEMENT above (derivations of the plain grammar read from the expanded model on the right-hand side).  Its
   hypotheses: the static wf_model; two executable conditions, [to_cfg ... = Some g] and [nonneg_rules g] (no negative
   symbol in g) -- both evaluated by the glue on the implementation's output of every case; and that [setterms] lists
   exactly the denotation of every set inside [0,T) (C15).  The shape of the output table (flat choice / set /
   lookahead per nonterminal) is DERIVED from the success of to_cfg (Expand_derives3.to_cfg_shape), not assumed.
   NOT proved: that to_cfg always succeeds on the output of Expand for a wf_model with res_error = false (per rule:
   C13_expand_shape); it is checked per case.
   The per-step theorem about one nonterminal (formerly C13_expand_preserves_partial) is now C13_expand_nonterm_preserves:
   it is a complete statement about one step, and the whole is C13_expand_correct_wf / C13_expand_correct_derives. *)

(* the whole of Expand, static hypothesis only *)
Theorem C13_expand_correct_wf :
  forall setden m,
    wf_model m = true ->
    forall X, nterms m <= X < nterms m + Z.of_nat (length (m_nonterms m)) -> forall w,
      lfp (nterms m) setden (map nt_value (m_nonterms m)) X w <->
      lfp (nterms m) setden (map snd (res_nonterms (expand m))) (perm_sym (nterms m) (x_perm (snd (phase1 m))) X) w.
Proof. exact expand_correct_wf. Qed.

(* the static predicate implies the run-time side conditions: no Fatal branch, references stay in range through
   phase 1, sortTail builds a permutation *)
Theorem C13_wf_model_checks : forall m, wf_model m = true -> expand_checks m = true.
Proof. exact wf_model_expand_checks. Qed.

(* expandExpr under the static predicate: the number of alternatives is the static n_alts, the Fatal flag is
   untouched, every produced alternative only mentions existing nonterminals *)
Theorem C13_expand_expr_static :
  forall c e st alts st',
    bounded (cT c + Z.of_nat (n_orig c)) e = true -> seps_ok e = true -> xinv c st ->
    expand_expr c st e = (alts, st') ->
    length alts = n_alts e /\ x_fatal st' = x_fatal st /\ xinv c st' /\
    Forall (fun a => bounded (cT c + Z.of_nat (n_orig c) + Z.of_nat (x_extra st')) a = true) alts.
Proof.
  intros c e st alts st' Hb Hs Hi Hx.
  destruct (expand_expr_wf c e st alts st' Hb Hs Hi Hx) as (A & (_ & _ & F & _) & C & D). auto.
Qed.

(* the whole of Expand, run-time side conditions *)
Theorem C13_expand_correct :
  forall setden m,
    expand_checks m = true ->
    forall X, nterms m <= X < nterms m + Z.of_nat (length (m_nonterms m)) -> forall w,
      lfp (nterms m) setden (map nt_value (m_nonterms m)) X w <->
      lfp (nterms m) setden (map snd (res_nonterms (expand m))) (perm_sym (nterms m) (x_perm (snd (phase1 m))) X) w.
Proof. intros setden m Hc. apply expand_correct_checked; [exact Hc | unfold nterms; lia]. Qed.

(* the whole of Expand, up to the order of the nonterminals *)
Theorem C13_expand_preserves :
  forall setden m vals1 st,
    phase1 m = (vals1, st) -> x_fatal st = false -> 0 <= nterms m ->
    (forall i, (i < length (m_nonterms m))%nat ->
        bounded (nterms m + Z.of_nat (length (m_nonterms m))) (value_at m i) = true) ->
    forall X, nterms m <= X < nterms m + Z.of_nat (length (m_nonterms m)) -> forall w,
      lfp (nterms m) setden (map nt_value (m_nonterms m)) X w <->
      lfp (nterms m) setden (phase2_table (nterms m) (vals1 ++ map snd (x_extras st))) X w.
Proof. exact expand_language_preserved. Qed.

(* a table of flat choices (what Expand produces for grammars without set / lookahead nonterminals) read as a
   plain grammar: least solution = derivations *)
Theorem C13_flat_table_is_cfg :
  forall T setden vals g, 0 <= T ->
    to_cfg T (fun _ => []) vals = Some g ->
    (forall k, (k < length vals)%nat ->
      exists alts, nth k vals (EChoice []) = EChoice alts /\
        forall a, In a alts -> exists rhs, rhs_of a = Some rhs /\ forall s, In s rhs -> 0 <= s) ->
    forall X w, T <= X -> (lfp T setden vals X w <-> derives g X w).
Proof. exact to_cfg_language. Qed.

(* the same for the tables Expand really produces: set nonterminals (with their resolved terminals) and lookahead
   nonterminals (empty rule) may remain; side conditions are executable (to_cfg succeeds, no negative symbol) *)
Theorem C13_table_with_sets_is_cfg :
  forall T (setden : Z -> Z -> Prop) setterms vals g, 0 <= T ->
    to_cfg T setterms vals = Some g -> nonneg_rules g = true ->
    (forall i a, setden i a <-> In a (setterms i)) ->
    (forall i a, In a (setterms i) -> 0 <= a < T) ->
    forall X w, T <= X -> (lfp T setden vals X w <-> derives g X w).
Proof. exact to_cfg_language_checked. Qed.

(* FULL STATEMENT: extended language of X = derivations of the plain grammar read from the expanded model *)
Theorem C13_expand_correct_derives :
  forall (setden : Z -> Z -> Prop) setterms m g,
    wf_model m = true ->
    to_cfg (nterms m) setterms (map snd (res_nonterms (expand m))) = Some g -> nonneg_rules g = true ->
    (forall i a, setden i a <-> In a (setterms i)) ->
    (forall i a, In a (setterms i) -> 0 <= a < nterms m) ->
    forall X, nterms m <= X < nterms m + Z.of_nat (length (m_nonterms m)) -> forall w,
      lfp (nterms m) setden (map nt_value (m_nonterms m)) X w <->
      derives g (perm_sym (nterms m) (x_perm (snd (phase1 m))) X) w.
Proof. exact expand_correct_derives_checked. Qed.

(* the least solution is a solution: X derives w iff the value of X denotes w under the least solution *)
Theorem C13_language_is_a_solution :
  forall T setden vals Y w, in_sys T vals Y ->
    (lfp T setden vals Y w <-> den T (lfp T setden vals) setden (value_of T vals Y) w).
Proof. exact lfp_fixpoint. Qed.

(* every list extracted by Expand either is non-empty or has no separator (the comment in Expand) *)
Theorem C13_extracted_lists_invariant :
  forall m vals st, phase1 m = (vals, st) -> Forall (fun nv => list_inv (snd nv)) (x_extras st).
Proof. exact phase1_extras_inv. Qed.

(* multiConcat is the product of the two families of alternatives *)
Theorem C13_multi_concat_is_product :
  forall T rho setden a b w,
    lang_any (map (den T rho setden) (multi_concat a b)) w <->
    exists w1 w2, w = w1 ++ w2 /\ lang_any (map (den T rho setden) a) w1 /\ lang_any (map (den T rho setden) b) w2.
Proof. exact den_multi_concat. Qed.

(* expandExpr: the union of the produced alternatives denotes the expression, for EVERY expression kind *)
Theorem C13_expand_expr_preserves :
  forall T rho setden c, T = cT c ->
  forall e st alts st', expand_expr c st e = (alts, st') ->
    (exists more, x_extras st' = x_extras st ++ more) /\
    ((forall k nv, nth_error (x_extras st') k = Some nv ->
        forall w, rho (cT c + Z.of_nat (n_orig c + k)) w <-> den T rho setden (snd nv) w) ->
     x_fatal st' = false ->
     forall w, den T rho setden e w <-> lang_any (map (den T rho setden) alts) w).
Proof.
  intros T rho setden c HT e st alts st' H.
  destruct (expand_expr_good T rho setden c HT e st alts st' H) as (Hp & _ & Hd). split; [exact Hp | exact Hd].
Qed.

(* one original nonterminal: its new value (choice of flat rules) denotes what its extended value denotes *)
Theorem C13_expand_nonterm_preserves :
  forall T rho setden c, T = cT c ->
  forall v st v' st', expand_nonterm c st v = (v', st') ->
    (forall k nv, nth_error (x_extras st') k = Some nv ->
        forall w, rho (cT c + Z.of_nat (n_orig c + k)) w <-> den T rho setden (snd nv) w) ->
    x_fatal st' = false ->
    forall w, den T rho setden v w <-> den T rho setden v' w.
Proof.
  intros T rho setden c HT v st v' st' H.
  destruct (expand_nonterm_good T rho setden c HT v st v' st' H) as (_ & _ & Hd). exact Hd.
Qed.

(* phase 2: list and optional nonterminals *)
Theorem C13_list_rules_unfold :
  forall T rho setden self v, 0 <= T ->
    (forall fl el sep, v = EList fl el sep -> Z.odd fl = false -> sep = None) ->
    (forall w, rho (T + Z.of_nat self) w <-> den T rho setden v w) ->
    forall w, den T rho setden (expand_top T self v) w <-> den T rho setden v w.
Proof. exact expand_top_good. Qed.

(* reuse of an extracted nonterminal is decided by Expr.Equal: equal expressions denote the same language *)
Theorem C13_equal_expressions_same_language :
  forall T rho setden a b, expr_eqb a b = true -> forall w, den T rho setden a w <-> den T rho setden b w.
Proof. exact expr_eqb_den. Qed.

(* expand_shape: every alternative produced for a rule is free of optional / choice / list / set /
   lookahead nodes: a sequence of references, state markers and commands (grouped by arrows) *)
Theorem C13_expand_shape :
  forall c e st alts st', plain e = true -> expand_expr c st e = (alts, st') ->
    Forall (fun a => sugar_free a = true) alts.
Proof. exact expand_expr_shape. Qed.

(* sortTail: the sort is a sort (all name functions, all lists); the local list is duplicate free; a permutation
   of 0..n-1 satisfies the run-time check of C13_expand_correct (building blocks of C13_wf_model_checks) *)
Theorem C13_sort_tail_sort :
  (forall names l, Permutation (sort_by_name names l) l) /\
  (forall start curr total size, (S curr <= total - size)%nat ->
     NoDup (seq start (S curr - start) ++ seq (total - size) size)) /\
  (forall perm n, Permutation perm (seq 0 n) -> perm_ok perm n = true).
Proof. exact (conj sort_by_name_perm (conj sort_tail_local_nodup permutation_perm_ok)). Qed.

(* non-vacuity: N0 : (a separator b)* c? | set(a|b) ;  (terminals a b c = 0 1 2, N0 = 3) *)
Definition ex_model : model :=
  mkModel [[97]; [98]; [99]] []
    [mkNt [78; 48] [] (EChoice [ESeq [EList 0 (ERef 0 []) (Some (ERef 1 [])); EOpt (ERef 2 [])]; ESet 0]) 0]
    [mkInput 0 false] [TUnion [TSym 0 0; TSym 0 1]].

Example C13_example_expand :
  map snd (res_nonterms (expand ex_model)) =
  [ (* A_list_B_separated *) EChoice [ESeq [ERef 3 []; ERef 1 []; ERef 0 []]; ERef 0 []];
    (* A_list_B_separatedopt *) EChoice [ERef 3 []; EEmpty];
    (* N0 *) EChoice [ESeq [ERef 4 []; ERef 2 []]; ERef 4 []; ERef 6 []];
    (* setof_a_or_b *) ESet 0 ]
  /\ res_fatal (expand ex_model) = false /\ res_error (expand ex_model) = false.
Proof. vm_compute. repeat split; reflexivity. Qed.

Example C13_example_shape :
  plain (ESeq [EList 0 (ERef 0 []) (Some (ERef 1 [])); EOpt (ERef 2 [])]) = true /\
  ext_derives 3 (fun _ => [0; 1]) (map nt_value (m_nonterms ex_model)) 3 [0; 1; 0; 2] = true /\
  ext_derives 3 (fun _ => [0; 1]) (map nt_value (m_nonterms ex_model)) 3 [0; 1] = false.
Proof. vm_compute. repeat split; reflexivity. Qed.

Example C13_example_checks : expand_checks ex_model = true /\ wf_model ex_model = true.
Proof. vm_compute. split; reflexivity. Qed.

(* the static condition is tight on separators: a separator with two alternatives reaches the Fatal branch *)
Example C13_example_not_wf :
  let m := mkModel [[97]; [98]] [] [mkNt [78; 48] [] (EList 1 (ERef 0 []) (Some (EOpt (ERef 1 [])))) 0] [mkInput 0 false] [] in
  wf_model m = false /\ res_fatal (expand m) = true.
Proof. vm_compute. split; reflexivity. Qed.

Example C13_example_hypotheses :
  x_fatal (snd (phase1 ex_model)) = false /\
  (forall i, (i < length (m_nonterms ex_model))%nat ->
     bounded (nterms ex_model + Z.of_nat (length (m_nonterms ex_model))) (value_at ex_model i) = true).
Proof. split; [vm_compute; reflexivity|]. intros [|i] Hi; [vm_compute; reflexivity | cbn in Hi; lia]. Qed.

Print Assumptions C13_expand_correct_wf.
Print Assumptions C13_wf_model_checks.
Print Assumptions C13_expand_expr_static.
Print Assumptions C13_expand_correct.
Print Assumptions C13_expand_preserves.
Print Assumptions C13_flat_table_is_cfg.
(* non-vacuity: the expanded example model (three flat choices and the set nonterminal set(a | b)) is accepted by to_cfg *)
Example C13_example_sets_table :
  wf_model ex_model = true /\
  exists g, to_cfg 3 (fun _ => [0; 1]) (map snd (res_nonterms (expand ex_model))) = Some g /\ nonneg_rules g = true /\
            length (g_rules g) = 9%nat.
Proof. split; [vm_compute; reflexivity|]. eexists. split; [vm_compute; reflexivity|]. split; vm_compute; reflexivity. Qed.

Print Assumptions C13_table_with_sets_is_cfg.
Print Assumptions C13_expand_correct_derives.
Print Assumptions C13_language_is_a_solution.
Print Assumptions C13_extracted_lists_invariant.
Print Assumptions C13_multi_concat_is_product.
Print Assumptions C13_expand_expr_preserves.
Print Assumptions C13_expand_nonterm_preserves.
Print Assumptions C13_list_rules_unfold.
Print Assumptions C13_equal_expressions_same_language.
Print Assumptions C13_expand_shape.
Print Assumptions C13_sort_tail_sort.
