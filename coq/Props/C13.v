(* C13 — Desugaring extended notation preserves the language.
   Models: Syn/Expr.v (Expr tree, Equal, ProvisionalName), Syn/Expand.v (syntax.Expand: expandRule,
   expandExpr, extractNonterm, sortTail, Rearrange, list/optional rule synthesis), Syn/ExtLang.v (the
   meaning of the extended notation: [den]).  Lemmas: Syn/Expand_proofs.v. *)
From Coq Require Import List ZArith Bool.
From TM Require Import Syn.Expr Syn.Expand Syn.ExtLang Syn.Expand_proofs.
Import ListNotations.
Local Open Scope Z_scope.

(* FULL STATEMENT (not proved as one theorem):
     forall M (well-formed), X original nonterminal, w,
       ext_lang T (values M) setden X w  <->  derives (to_cfg (expand M)) (perm X) w.
   PROVED below, universally (all expressions, all interpretations rho, all words, no size bound):
   every step Expand performs preserves the denotation [den T rho setden] under any interpretation rho
   of the nonterminals that gives each extracted nonterminal the meaning of the expression it was
   extracted from:
     - phase 1 (expandRule/expandExpr on every rule of a nonterminal, with optional, nested choice,
       sequence, arrow/assign/append/prec wrappers, '*' '+' lists with separators, sets, lookaheads,
       extraction and reuse by Equal): C13_expand_preserves_partial, C13_expand_expr_preserves;
     - phase 2 (the rules written for an extracted list / optional are a correct unfolding of the list,
       left/right recursive, with/without separator): C13_list_rules_unfold.
   MISSING for the full statement: the global least-fixpoint argument gluing these per-nonterminal
   equivalences together (ext_lang is the least solution of both systems) and the proof that
   Rearrange applies one permutation consistently; both are covered by the correspondence run (exact
   output comparison incl. the permutation) and by the language oracle on all short words. *)

(* multiConcat is the product of the two families of alternatives *)
Theorem C13_multi_concat_is_product :
  forall T rho setden a b w,
    lang_any (map (den T rho setden) (multi_concat a b)) w <->
    exists w1 w2, w = w1 ++ w2 /\ lang_any (map (den T rho setden) a) w1 /\ lang_any (map (den T rho setden) b) w2.
Proof. exact den_multi_concat. Qed.

(* expandExpr: the union of the produced alternatives denotes the expression, for EVERY expression kind *)
Theorem C13_expand_expr_preserves :
  forall T rho setden c, T = cT c ->
  forall e st alts st', expand_expr c st e = (alts, st') ->
    (exists more, x_extras st' = x_extras st ++ more) /\
    ((forall k nv, nth_error (x_extras st') k = Some nv ->
        forall w, rho (cT c + Z.of_nat (n_orig c + k)) w <-> den T rho setden (snd nv) w) ->
     x_fatal st' = false ->
     forall w, den T rho setden e w <-> lang_any (map (den T rho setden) alts) w).
Proof.
  intros T rho setden c HT e st alts st' H.
  destruct (expand_expr_good T rho setden c HT e st alts st' H) as (Hp & _ & Hd). split; [exact Hp | exact Hd].
Qed.

(* one original nonterminal: its new value (choice of flat rules) denotes what its extended value denotes *)
Theorem C13_expand_preserves_partial :
  forall T rho setden c, T = cT c ->
  forall v st v' st', expand_nonterm c st v = (v', st') ->
    (forall k nv, nth_error (x_extras st') k = Some nv ->
        forall w, rho (cT c + Z.of_nat (n_orig c + k)) w <-> den T rho setden (snd nv) w) ->
    x_fatal st' = false ->
    forall w, den T rho setden v w <-> den T rho setden v' w.
Proof.
  intros T rho setden c HT v st v' st' H.
  destruct (expand_nonterm_good T rho setden c HT v st v' st' H) as (_ & _ & Hd). exact Hd.
Qed.

(* phase 2: list and optional nonterminals *)
Theorem C13_list_rules_unfold :
  forall T rho setden self v, 0 <= T ->
    (forall fl el sep, v = EList fl el sep -> Z.odd fl = false -> sep = None) ->
    (forall w, rho (T + Z.of_nat self) w <-> den T rho setden v w) ->
    forall w, den T rho setden (expand_top T self v) w <-> den T rho setden v w.
Proof. exact expand_top_good. Qed.

(* reuse of an extracted nonterminal is decided by Expr.Equal: equal expressions denote the same language *)
Theorem C13_equal_expressions_same_language :
  forall T rho setden a b, expr_eqb a b = true -> forall w, den T rho setden a w <-> den T rho setden b w.
Proof. exact expr_eqb_den. Qed.

(* expand_shape: every alternative produced for a rule is free of optional / choice / list / set /
   lookahead nodes: a sequence of references, state markers and commands (grouped by arrows) *)
Theorem C13_expand_shape :
  forall c e st alts st', plain e = true -> expand_expr c st e = (alts, st') ->
    Forall (fun a => sugar_free a = true) alts.
Proof. exact expand_expr_shape. Qed.

(* non-vacuity: N0 : (a separator b)* c? | set(a|b) ;  (terminals a b c = 0 1 2, N0 = 3) *)
Definition ex_model : model :=
  mkModel [[97]; [98]; [99]] []
    [mkNt [78; 48] [] (EChoice [ESeq [EList 0 (ERef 0 []) (Some (ERef 1 [])); EOpt (ERef 2 [])]; ESet 0]) 0]
    [mkInput 0 false] [TUnion [TSym 0 0; TSym 0 1]].

Example C13_example_expand :
  map snd (res_nonterms (expand ex_model)) =
  [ (* A_list_B_separated *) EChoice [ESeq [ERef 3 []; ERef 1 []; ERef 0 []]; ERef 0 []];
    (* A_list_B_separatedopt *) EChoice [ERef 3 []; EEmpty];
    (* N0 *) EChoice [ESeq [ERef 4 []; ERef 2 []]; ERef 4 []; ERef 6 []];
    (* setof_a_or_b *) ESet 0 ]
  /\ res_fatal (expand ex_model) = false /\ res_error (expand ex_model) = false.
Proof. vm_compute. repeat split; reflexivity. Qed.

Example C13_example_shape :
  plain (ESeq [EList 0 (ERef 0 []) (Some (ERef 1 [])); EOpt (ERef 2 [])]) = true /\
  ext_derives 3 (fun _ => [0; 1]) (map nt_value (m_nonterms ex_model)) 3 [0; 1; 0; 2] = true /\
  ext_derives 3 (fun _ => [0; 1]) (map nt_value (m_nonterms ex_model)) 3 [0; 1] = false.
Proof. vm_compute. repeat split; reflexivity. Qed.

Print Assumptions C13_multi_concat_is_product.
Print Assumptions C13_expand_expr_preserves.
Print Assumptions C13_expand_preserves_partial.
Print Assumptions C13_list_rules_unfold.
Print Assumptions C13_equal_expressions_same_language.
Print Assumptions C13_expand_shape.
