(* C06 — Parser state minimization preserves behaviour from every entry point.
   Models: Gram/Run.v (the generated parser's main loop), Gram/Minimize.v (lalr/minimize.go and the finite
   quotient check).  Only statements, an example and Print Assumptions here. *)
From Coq Require Import List ZArith Bool.
From TM Require Import Gram.PTables Gram.Optimize Gram.Run Gram.Minimize Gram.Minimize_proofs Gram.MinNumber_proofs
  Gram.MinRefine_proofs Gram.MinimizeWf Gram.MinPartition_proofs Gram.MinGoto_proofs Gram.MinTables_proofs
  Gram.MinActions_proofs Gram.MinFinal_proofs.
Import ListNotations.
Local Open Scope Z_scope.

(* If the finite exhaustive check passes for (tables, minimized tables, remapping), then for every input
   index i, EVERY token sequence over the terminals and every amount of fuel, the minimized parser started
   at entry state i has the same outcome as the original, and its stack and trace are the original's with
   states remapped and reductions replaced by equivalent rules (same lhs, length, action, type, flags) —
   provided the original run is never in a state that was merged with its end state. *)
Theorem C06_minimized_parser_simulates :
  forall mi rule_sym mo terms ninputs, check_min mi rule_sym mo terms ninputs = true -> 0 < terms ->
  forall i, 0 <= i < ninputs -> i < mi_num_states mi ->
  forall end_state, 0 <= end_state < mi_num_states mi ->
  forall fuel eoff input, Forall (fun tk => 0 <= t_sym tk < terms) input ->
  let m := default_machine (mi_enc mi) (mi_rule_len mi) rule_sym in
  let m' := default_machine (mo_enc mo) (mi_rule_len mi) rule_sym in
  let remap := zn (mo_remap mo) in
  (forall s, In s (visited m fuel eoff end_state (mkConfig [mkEntry 0 0 0 i] i input 0 [])) ->
             remap s = remap end_state -> s = end_state) ->
  fst (run fuel m i end_state eoff input) = fst (run fuel m' i (remap end_state) eoff input) /\
  config_rel remap (rel_rule_of mi rule_sym)
             (snd (run fuel m i end_state eoff input)) (snd (run fuel m' i (remap end_state) eoff input)).
Proof.
  intros mi rule_sym mo terms ninputs Hck Hterms i Hi Hin end_state Hend fuel eoff input Htok m m' remap Hnc.
  exact (minimized_parser_simulates mi rule_sym mo terms ninputs Hck Hterms i Hi Hin end_state Hend fuel eoff input Htok Hnc).
Qed.

(* the abstract statement: any two machines related by a state map that commutes with actions and gotos
   run in lock step (independent of how the map was found) *)
Theorem C06_quotient_simulation :
  forall m m' remap n terms nsyms (rel_rule : Z -> Z -> Prop),
  (forall r r', rel_rule r r' -> m_rule_len m r = m_rule_len m' r' /\ m_rule_sym m r = m_rule_sym m' r' /\ terms <= m_rule_sym m r < nsyms) ->
  (forall s a more, valid n s -> 0 <= a < terms -> Forall (fun x => 0 <= x < terms) more ->
     act_sim remap n rel_rule (m_act m s a more) (m_act m' (remap s) a more)) ->
  (forall s, valid n s -> 0 <= remap s) ->
  (forall s x, valid n s -> terms <= x < nsyms ->
     (m_goto m s x = -1 /\ m_goto m' (remap s) x = -1) \/
     (valid n (m_goto m s x) /\ m_goto m' (remap s) x = remap (m_goto m s x))) ->
  forall fuel start end_state eoff input, 0 < terms -> valid n start -> valid n end_state -> toks_ok terms input ->
  (forall s, In s (visited m fuel eoff end_state (mkConfig [mkEntry 0 0 0 start] start input 0 [])) ->
             remap s = remap end_state -> s = end_state) ->
  fst (run fuel m start end_state eoff input) = fst (run fuel m' (remap start) (remap end_state) eoff input) /\
  config_rel remap rel_rule (snd (run fuel m start end_state eoff input))
             (snd (run fuel m' (remap start) (remap end_state) eoff input)).
Proof. exact run_sim. Qed.

(* S -> a | b with equal rule keys: the states after 'a' and after 'b' merge; hypotheses are satisfied *)
Definition ex_mi : min_input :=
  mkMinInput (mkDefaultEnc [-1; 0; 1; -1; -2] [] [0; 2; 4; 6; 8] [3; 4; 0; 1; 0; 2; 0; 3]) [1; 1]
             [[3; 0; -1; 0]; [3; 0; -1; 0]] [4] [true] [] 5.

Example C06_example :
  mo_num_states (minimize ex_mi) = 4 /\ mo_remap (minimize ex_mi) = [0; 1; 1; 2; 3] /\
  check_min ex_mi [3; 3] (minimize ex_mi) 3 1 = true /\
  fst (run 50 (default_machine (mi_enc ex_mi) [1; 1] [3; 3]) 0 4 1 [mkTok 2 0 1]) = Accept /\
  fst (run 50 (default_machine (mo_enc (minimize ex_mi)) [1; 1] [3; 3]) 0 3 1 [mkTok 2 0 1]) = Accept.
Proof. vm_compute. repeat split; reflexivity. Qed.

Print Assumptions C06_minimized_parser_simulates.
Print Assumptions C06_quotient_simulation.

(* ================= the model of lalr.minimize always produces a valid quotient ================= *)
(* (1) first-occurrence numbering (container.IntSliceSet.Insert in a loop): as many ids as signatures, every id below
   the count, equal ids exactly for equal signatures, every id below the count is used, the count is the number of
   distinct signatures, and the numbering of a list extends the numbering of every prefix by first occurrence. *)
Theorem C06_number_all_spec : forall sigs ids c, number_all sigs = (ids, c) ->
  length ids = length sigs /\
  (forall i, (i < length sigs)%nat -> 0 <= nth i ids 0 < c) /\
  (forall i j, (i < length sigs)%nat -> (j < length sigs)%nat -> (nth i ids 0 = nth j ids 0 <-> nth i sigs [] = nth j sigs [])) /\
  (forall k, 0 <= k < c -> exists i, (i < length sigs)%nat /\ nth i ids 0 = k) /\
  (exists seen, NoDup seen /\ (forall x, In x seen <-> In x sigs) /\ c = Z.of_nat (length seen)).
Proof. exact number_all_spec. Qed.

Theorem C06_number_all_first_occurrence : forall a x ids c, number_all a = (ids, c) ->
  exists k c', number_all (a ++ [x]) = (ids ++ [k], c') /\
    (~ In x a -> k = c /\ c' = c + 1) /\
    (In x a -> c' = c /\ exists j, (j < length a)%nat /\ nth j a [] = x /\ k = nth j ids 0).
Proof. exact number_all_snoc. Qed.

(* pairwise distinct signatures at the front of the list are numbered 0, 1, 2, ... *)
Theorem C06_number_all_distinct_prefix : forall a b ids c, NoDup a -> number_all (a ++ b) = (ids, c) ->
  forall i, (i < length a)%nat -> nth i ids 0 = Z.of_nat i.
Proof. exact number_all_nodup_prefix. Qed.

Print Assumptions C06_number_all_spec.
Print Assumptions C06_number_all_first_occurrence.
Print Assumptions C06_number_all_distinct_prefix.

(* (2) one round of refinePartitions only splits classes; hence (the old partition being a numbering onto
   0..c-1) the class count never decreases *)
Theorem C06_refine_once_only_splits : forall trans p, length trans = length p -> forall p' c', refine_once trans p = (p', c') ->
  forall s s', 0 <= s < Z.of_nat (length p) -> 0 <= s' < Z.of_nat (length p) -> zn p' s = zn p' s' -> zn p s = zn p s'.
Proof. exact refine_once_refines. Qed.

Theorem C06_refine_once_count_monotone : forall trans p, length trans = length p -> forall p' c', refine_once trans p = (p', c') ->
  forall c, (forall k, 0 <= k < c -> exists s, 0 <= s < Z.of_nat (length p) /\ zn p s = k) -> 0 <= c -> c <= c'.
Proof. exact refine_once_count_mono. Qed.

(* (3) the exit test: if the count did not grow, the OLD partition (the one refine returns) is a congruence: states
   in one class have the same symbol list and their targets are in the same classes ([trans_sig]) *)
Theorem C06_refine_once_exit_is_congruence : forall trans p, length trans = length p -> forall p' c', refine_once trans p = (p', c') ->
  forall c, (forall k, 0 <= k < c -> exists s, 0 <= s < Z.of_nat (length p) /\ zn p s = k) -> 0 <= c -> c' = c ->
  forall s s', 0 <= s < Z.of_nat (length p) -> 0 <= s' < Z.of_nat (length p) -> zn p s = zn p s' ->
  trans_sig p (row trans s) = trans_sig p (row trans s').
Proof. exact refine_once_stable. Qed.

(* (2)+(3)+(4) for the loop: with enough fuel (fuel + count > number of states; minimize passes n+1) the RETURNED pair
   is a numbering onto 0..c'-1 that refines the partition the loop started with, is stable, and still numbers the
   first k states 0..k-1 if the initial one did *)
Theorem C06_refine_loop : forall trans k pinit, k <= Z.of_nat (length trans) ->
  forall fuel p c p' c', numbering trans p c -> refines trans p pinit -> front_id k p ->
  Z.of_nat fuel + c > Z.of_nat (length trans) -> refine fuel trans p c = (p', c') ->
  numbering trans p' c' /\ refines trans p' pinit /\ front_id k p' /\ stable trans p'.
Proof. exact refine_spec. Qed.

(* the partition computed inside [minimize] (final_partition is the let-bound pair (remap, cnt) of the model, see
   minimize_unfold): the only assumptions are 0 <= NumStates and #inputs <= NumStates *)
Theorem C06_minimize_partition : forall mi, 0 <= mi_num_states mi -> zlength (mi_final mi) <= mi_num_states mi ->
  forall p0 c0, init_partition mi = (p0, c0) -> forall remap cnt, final_partition mi = (remap, cnt) ->
  let trans := state_transitions (mi_enc mi) (mi_num_states mi) in
  numbering trans remap cnt /\ refines trans remap p0 /\ front_id (zlength (mi_final mi)) remap /\ stable trans remap.
Proof. exact final_partition_spec. Qed.

(* merged states have the same action signature (same kind of action, equivalent rules, same Lalr row up to rule classes) *)
Theorem C06_merged_states_same_signature : forall mi, 0 <= mi_num_states mi -> zlength (mi_final mi) <= mi_num_states mi ->
  forall p0 c0, init_partition mi = (p0, c0) -> forall remap cnt, final_partition mi = (remap, cnt) ->
  forall s s', 0 <= s < mi_num_states mi -> 0 <= s' < mi_num_states mi -> zn remap s = zn remap s' ->
  state_signature (mi_enc mi) (rule_classes mi) (accept_on_entry mi) s =
  state_signature (mi_enc mi) (rule_classes mi) (accept_on_entry mi) s'.
Proof. exact remap_sig. Qed.

(* (4) entry state i of input i keeps its number; pinned states (start states, final states of no-eoi inputs that are
   not dead ends, final states reachable from a foreign start state) are never merged with any other state *)
Theorem C06_entry_states_keep_numbers : forall mi, 0 <= mi_num_states mi -> zlength (mi_final mi) <= mi_num_states mi ->
  forall p0 c0, init_partition mi = (p0, c0) -> forall remap cnt, final_partition mi = (remap, cnt) ->
  forall i, 0 <= i < zlength (mi_final mi) -> zn remap i = i.
Proof. exact remap_entry. Qed.

Theorem C06_pinned_states_not_merged : forall mi, 0 <= mi_num_states mi -> zlength (mi_final mi) <= mi_num_states mi ->
  forall p0 c0, init_partition mi = (p0, c0) -> forall remap cnt, final_partition mi = (remap, cnt) ->
  forall s s', 0 <= s < mi_num_states mi -> 0 <= s' < mi_num_states mi -> In s (accept_on_entry mi) ->
  zn remap s = zn remap s' -> s = s'.
Proof. exact remap_pinned_singleton. Qed.

Print Assumptions C06_refine_once_only_splits.
Print Assumptions C06_refine_once_count_monotone.
Print Assumptions C06_refine_once_exit_is_congruence.
Print Assumptions C06_refine_loop.
Print Assumptions C06_minimize_partition.
Print Assumptions C06_merged_states_same_signature.
Print Assumptions C06_entry_states_keep_numbers.
Print Assumptions C06_pinned_states_not_merged.

(* (5) gotoState (linear search below 32 entries, binary search above) is a lookup in the (from, to) pairs of the
   symbol, provided the Goto offsets are even, ordered and inside FromTo and the [from]s strictly increase *)
Theorem C06_goto_state_is_lookup : forall t x s, goto_layout_ok t x -> goto_rel (seg t x) s (goto_state t s x).
Proof. exact goto_state_spec. Qed.

(* merged states have the same outgoing symbols into merged targets (the congruence, read off FromTo) *)
Theorem C06_merged_states_congruent : forall mi, 0 <= mi_num_states mi -> zlength (mi_final mi) <= mi_num_states mi ->
  forall p0 c0, init_partition mi = (p0, c0) -> forall remap cnt, final_partition mi = (remap, cnt) ->
  forall f s x tt, 0 <= f < mi_num_states mi -> 0 <= s < mi_num_states mi -> zn remap f = zn remap s ->
  0 <= x < zlength (d_goto (mi_enc mi)) - 1 -> In (f, tt) (seg (mi_enc mi) x) ->
  exists q, In (s, q) (seg (mi_enc mi) x) /\ zn remap q = zn remap tt.
Proof. exact remap_congruence. Qed.

(* the rebuilt Goto/FromTo (remapped edges, insertion-sorted by [from], compacted, concatenated): gotoState on them
   returns the remapped old target, and -1 exactly where the old tables have no entry; any Action/Lalr arrays *)
Theorem C06_rebuilt_goto_commutes : forall mi, 0 <= mi_num_states mi -> zlength (mi_final mi) <= mi_num_states mi ->
  forall p0 c0, init_partition mi = (p0, c0) -> forall remap cnt, final_partition mi = (remap, cnt) ->
  forall act' lalr' s x, 0 <= s < mi_num_states mi -> 0 <= x < zlength (d_goto (mi_enc mi)) - 1 ->
  wf_goto_sym (mi_enc mi) (mi_num_states mi) x = true ->
  let t' := mkDefaultEnc act' lalr' (offs 0 (per_sym mi remap) ++ [tot (per_sym mi remap)]) (flat_map flat (per_sym mi remap)) in
  let q := goto_state (mi_enc mi) s x in
  (q = -1 /\ goto_state t' (zn remap s) x = -1) \/ (0 <= q < mi_num_states mi /\ goto_state t' (zn remap s) x = zn remap q).
Proof. exact goto_commutes. Qed.

(* states with the same signature resolve every terminal to equivalent actions: the same shift/error code, or
   reductions of rules with the same full key (length, lhs, action, type, flags) *)
Theorem C06_same_signature_equivalent_actions : forall mi rule_sym,
  (forall r, 0 <= r < Z.of_nat (length (mi_rule_keys mi)) -> wf_rule_key mi rule_sym r = true) ->
  (forall s, 0 <= s < mi_num_states mi -> wf_action (mi_enc mi) (zlength (mi_rule_len mi)) s = true) ->
  forall s s' term, 0 <= s < mi_num_states mi -> 0 <= s' < mi_num_states mi ->
  state_signature (mi_enc mi) (rule_classes mi) (accept_on_entry mi) s =
  state_signature (mi_enc mi) (rule_classes mi) (accept_on_entry mi) s' ->
  act_equiv mi rule_sym (act1 (mi_enc mi) (zn (d_action (mi_enc mi)) s) term)
                        (act1 (mi_enc mi) (zn (d_action (mi_enc mi)) s') term).
Proof. exact sig_act_equiv. Qed.

(* (6) THE GENERATOR THEOREM: for every well-formed input (wf_min_input, Gram/MinimizeWf.v: Goto offsets even, ordered,
   in range; per symbol the [from]s strictly increasing and all states in range; every Lalr row referenced by a state
   terminated inside the array by (negative terminal, -2) and holding only shift/error/existing rules, i.e. no LALR(k)
   rows; Action rules in range; one start state per input, numbered 0..ninputs-1, final states in range; grammar rules
   first, their keys starting with the left-hand side rule_sym gives; all rules reduce to nonterminals) the model of
   lalr.minimize returns tables and a remapping that pass the quotient check.  No per-table evaluation needed. *)
Theorem C06_minimize_passes_check : forall mi rule_sym terms ninputs,
  wf_min_input mi rule_sym terms ninputs = true -> check_min mi rule_sym (minimize mi) terms ninputs = true.
Proof. exact minimize_passes_check. Qed.

(* ... hence the simulation theorem holds for the model's output without the check_min hypothesis *)
Theorem C06_minimize_simulates : forall mi rule_sym terms ninputs, wf_min_input mi rule_sym terms ninputs = true ->
  forall i, 0 <= i < ninputs ->
  forall end_state, 0 <= end_state < mi_num_states mi ->
  forall fuel eoff input, Forall (fun tk => 0 <= t_sym tk < terms) input ->
  let mo := minimize mi in
  let m := default_machine (mi_enc mi) (mi_rule_len mi) rule_sym in
  let m' := default_machine (mo_enc mo) (mi_rule_len mi) rule_sym in
  let remap := zn (mo_remap mo) in
  (forall s, In s (visited m fuel eoff end_state (mkConfig [mkEntry 0 0 0 i] i input 0 [])) ->
             remap s = remap end_state -> s = end_state) ->
  fst (run fuel m i end_state eoff input) = fst (run fuel m' i (remap end_state) eoff input) /\
  config_rel remap (rel_rule_of mi rule_sym)
             (snd (run fuel m i end_state eoff input)) (snd (run fuel m' i (remap end_state) eoff input)).
Proof. exact minimize_simulates. Qed.

(* non-vacuity: the example tables are well-formed (and two of their states do get merged, see C06_example) *)
Example C06_wf_example : wf_min_input ex_mi [3; 3] 3 1 = true.
Proof. vm_compute. reflexivity. Qed.

Print Assumptions C06_goto_state_is_lookup.
Print Assumptions C06_merged_states_congruent.
Print Assumptions C06_rebuilt_goto_commutes.
Print Assumptions C06_same_signature_equivalent_actions.
Print Assumptions C06_minimize_passes_check.
Print Assumptions C06_minimize_simulates.
