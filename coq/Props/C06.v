From Coq Require Import List ZArith Bool.
From TM Require Import Gram.PTables Gram.Run Gram.Minimize.
Import ListNotations.
Example C06_placeholder : True. Proof. exact I. Qed.
