(* C23 — The language server stays consistent under any message history (partial).
   Models: LS/Async.v (the AsyncHandler chain as an interleaving semantics), LS/Server.v (ls/server.go as a
   sequential state machine; compile and collectIDs are Section variables = per-case oracles),
   LS/Position.v (resolvePosition and the outgoing UTF-16 positions). *)
From Coq Require Import List ZArith Bool.
From TM Require Import Lex.Tables Util.LineCol Util.LineCol_proofs LS.Position LS.Position_proofs LS.Server LS.Server_proofs LS.Async LS.Async_proofs.
Import ListNotations.

(* async_is_sequential. For ANY server (state, micro-steps of each handler body, reply value), any request
   list and ANY schedule of the goroutines of the AsyncHandler chain: once every request has been answered,
   the server state, the sequence of notifications emitted by the bodies, and the value of every response
   are those of running the bodies one after the other in arrival order. *)
Theorem C23_async_is_sequential :
  forall (St Req Out Val : Type) (body : Req -> list (micro St Out)) (resp : Req -> St -> Val)
         (reqs : list Req) (s0 : St) (c : config St Out Val),
  reachable St Req Out Val body resp reqs s0 c ->
  arrived _ _ _ c = length reqs -> (forall i, (i < length reqs)%nat -> g _ _ _ c i = Done St Out Val) ->
  st _ _ _ c = seq_state St Req Out body reqs s0 /\
  outs_of Out Val (trace _ _ _ c) = seq_outs St Req Out body reqs s0 /\
  (forall i v, In (EvResp Out Val i v) (trace _ _ _ c) -> seq_val St Req Out Val body resp reqs s0 i v).
Proof. exact async_is_sequential. Qed.

(* ... and at EVERY moment of every schedule: at most one body is executing, it started only after all
   earlier requests replied, and state + notifications are a prefix of the sequential run. *)
Theorem C23_handler_bodies_are_mutually_exclusive :
  forall (St Req Out Val : Type) body resp (reqs : list Req) (s0 : St) (c : config St Out Val) i j ri rj,
  reachable St Req Out Val body resp reqs s0 c ->
  g _ _ _ c i = Running St Out Val ri -> g _ _ _ c j = Running St Out Val rj -> i = j.
Proof. exact at_most_one_running. Qed.

Theorem C23_body_runs_after_predecessors_replied :
  forall (St Req Out Val : Type) body resp (reqs : list Req) (s0 : St) (c : config St Out Val) i ri,
  reachable St Req Out Val body resp reqs s0 c -> g _ _ _ c i = Running St Out Val ri ->
  forall j, (j < i)%nat -> finished St Out Val (g _ _ _ c j) = true.
Proof. exact running_after_predecessors. Qed.

Theorem C23_every_intermediate_state_is_a_sequential_prefix :
  forall (St Req Out Val : Type) body resp (reqs : list Req) (s0 : St) (c : config St Out Val),
  reachable St Req Out Val body resp reqs s0 c ->
  exists k executed rest,
    all_micro St Req Out body reqs = (all_micro St Req Out body (firstn k reqs) ++ executed) ++ rest /\
    st _ _ _ c = fst (exec St Out (all_micro St Req Out body (firstn k reqs) ++ executed) s0) /\
    outs_of Out Val (trace _ _ _ c) = snd (exec St Out (all_micro St Req Out body (firstn k reqs) ++ executed) s0).
Proof. exact async_prefix. Qed.
(* NOT claimed (and false of the chain): a total order between a RESPONSE and the notifications of later
   requests — AsyncHandler closes the next request's channel before it sends the response. The model has the
   intermediate state Replying for exactly that. "Exactly one response per call" is not proved (partial). *)

Local Open Scope Z_scope.

(* position_round_trip: for every text and every offset that is a rune boundary of its line (text =
   pre ++ mid ++ rest, pre empty or ending in a newline, mid newline-free and made of whole runes): the
   outgoing position (line, UTF-16 character) of the offset resolves back to the offset. *)
Theorem C23_position_round_trip :
  forall pre mid rest, (pre = [] \/ last pre 0 = NL) -> ~ In NL mid -> line_boundary (mid ++ rest) (length mid) ->
  let content := pre ++ mid ++ rest in
  let off := Z.of_nat (length pre + length mid) in
  resolve_position content (fst (position_of content off)) (snd (position_of content off)) = Some off.
Proof. exact position_round_trip. Qed.

(* outgoing_positions_utf16 for the pinned server (byte columns): refuted — F9, repaired by a fix: commit *)
Theorem C23_pinned_outgoing_positions_refuted :
  exists content off,
    position_of_pinned content off <> position_of content off /\
    resolve_position content (fst (position_of_pinned content off)) (snd (position_of_pinned content off)) <> Some off.
Proof. exact pinned_positions_refuted. Qed.

(* diagnostics_in_order_with_version: for EVERY compile oracle and history the published diagnostics are, in
   request order, exactly one per open/change with that request's document, version and content. *)
Theorem C23_diagnostics_in_order_with_version :
  forall compile collect_ids rs s,
  filter is_publish (run compile collect_ids s rs) =
  map (fun '(d, v, c) => typecheck compile d v c) (changes rs).
Proof. exact diagnostics_in_order. Qed.

(* definition_uses_latest *)
Theorem C23_definition_uses_latest :
  forall compile collect_ids pre id doc line col,
  run compile collect_ids [] (pre ++ [RDef id doc line col]) =
  run compile collect_ids [] pre ++
  [Reply id (definition collect_ids (match latest doc None pre with Some x => [(doc, x)] | None => [] end) doc line col)].
Proof. exact definition_uses_latest. Qed.

(* same_name_locations *)
Theorem C23_same_name_locations :
  forall collect_ids s doc line col content v locs x,
  lookup doc s = Some (content, v) -> definition collect_ids s doc line col = Some locs -> In x locs ->
  exists cursor cur i,
    resolve_position content line col = Some cursor /\
    In cur (collect_ids content) /\ id_off cur <= cursor <= id_end cur /\
    In i (collect_ids content) /\ id_kind i = id_kind cur /\
    id_text content i = id_text content cur /\ x = location doc content i.
Proof. intro collect_ids. exact (same_name_locations (fun _ => []) collect_ids). Qed.

(* non-vacuity: "é😀 ab": the offset after the astral rune is a line boundary; positions round-trip *)
Example C23_examples :
  let text := [97; 10; 195; 169; 240; 159; 152; 128; 32; 97; 98] (* "a\né😀 ab" *) in
  line_boundary (skipn 2 text) 6 /\
  position_of text 8 = (1, 3) /\ resolve_position text 1 3 = Some 8 /\
  resolve_position text 1 2 = None (* between the surrogates *) /\
  position_of_pinned text 8 = (1, 6) /\
  run (fun _ => [(9, 11, 2, 8, [120])]) (fun _ => [mkId 9 11 1 true]) []
      [ROpen 0 (-1) text; RDef 1 0 1 5; RClose 0; RDef 2 0 1 5]
    = [Publish 0 4294967295 [(1, 4, 1, 6, [120])]; Reply 1 (Some [(0, 1, 4, 1, 6)]); Reply 2 None].
Proof.
  cbv zeta. split.
  - apply (lb_step _ 233 2 4); [reflexivity | auto | discriminate |].
    apply (lb_step _ 128512 4 0); [reflexivity | auto | discriminate | apply lb_0].
  - vm_compute. repeat split; reflexivity.
Qed.

Print Assumptions C23_async_is_sequential.
Print Assumptions C23_handler_bodies_are_mutually_exclusive.
Print Assumptions C23_body_runs_after_predecessors_replied.
Print Assumptions C23_every_intermediate_state_is_a_sequential_prefix.
Print Assumptions C23_position_round_trip.
Print Assumptions C23_pinned_outgoing_positions_refuted.
Print Assumptions C23_diagnostics_in_order_with_version.
Print Assumptions C23_definition_uses_latest.
Print Assumptions C23_same_name_locations.
