(* C23 — The language server stays consistent under any message history (partial).
   Models: LS/Async.v (the AsyncHandler chain as an interleaving semantics), LS/Server.v (ls/server.go as a
   sequential state machine; compile and collectIDs are Section variables = per-case oracles),
   LS/Position.v (resolvePosition and the outgoing UTF-16 positions). *)
From Coq Require Import List ZArith Bool.
From TM Require Import Lex.Tables Util.LineCol Util.LineCol_proofs LS.Position LS.Position_proofs LS.Server LS.Server_proofs LS.Async LS.Async_proofs LS.Async_resp_proofs LS.Position_pair_proofs.
Import ListNotations.

(* async_is_sequential. For ANY server (state, micro-steps of each handler body, reply value), any request
   list and ANY schedule of the goroutines of the AsyncHandler chain: once every request has been answered,
   the server state, the sequence of notifications emitted by the bodies, and the value of every response
   are those of running the bodies one after the other in arrival order. *)
Theorem C23_async_is_sequential :
  forall (St Req Out Val : Type) (body : Req -> list (micro St Out)) (resp : Req -> St -> Val)
         (reqs : list Req) (s0 : St) (c : config St Out Val),
  reachable St Req Out Val body resp reqs s0 c ->
  arrived _ _ _ c = length reqs -> (forall i, (i < length reqs)%nat -> g _ _ _ c i = Done St Out Val) ->
  st _ _ _ c = seq_state St Req Out body reqs s0 /\
  outs_of Out Val (trace _ _ _ c) = seq_outs St Req Out body reqs s0 /\
  (forall i v, In (EvResp Out Val i v) (trace _ _ _ c) -> seq_val St Req Out Val body resp reqs s0 i v).
Proof. exact async_is_sequential. Qed.

(* ... and at EVERY moment of every schedule: at most one body is executing, it started only after all
   earlier requests replied, and state + notifications are a prefix of the sequential run. *)
Theorem C23_handler_bodies_are_mutually_exclusive :
  forall (St Req Out Val : Type) body resp (reqs : list Req) (s0 : St) (c : config St Out Val) i j ri rj,
  reachable St Req Out Val body resp reqs s0 c ->
  g _ _ _ c i = Running St Out Val ri -> g _ _ _ c j = Running St Out Val rj -> i = j.
Proof. exact at_most_one_running. Qed.

Theorem C23_body_runs_after_predecessors_replied :
  forall (St Req Out Val : Type) body resp (reqs : list Req) (s0 : St) (c : config St Out Val) i ri,
  reachable St Req Out Val body resp reqs s0 c -> g _ _ _ c i = Running St Out Val ri ->
  forall j, (j < i)%nat -> finished St Out Val (g _ _ _ c j) = true.
Proof. exact running_after_predecessors. Qed.

Theorem C23_every_intermediate_state_is_a_sequential_prefix :
  forall (St Req Out Val : Type) body resp (reqs : list Req) (s0 : St) (c : config St Out Val),
  reachable St Req Out Val body resp reqs s0 c ->
  exists k executed rest,
    all_micro St Req Out body reqs = (all_micro St Req Out body (firstn k reqs) ++ executed) ++ rest /\
    st _ _ _ c = fst (exec St Out (all_micro St Req Out body (firstn k reqs) ++ executed) s0) /\
    outs_of Out Val (trace _ _ _ c) = snd (exec St Out (all_micro St Req Out body (firstn k reqs) ++ executed) s0).
Proof. exact async_prefix. Qed.
(* NOT claimed (and false of the chain): a total order between a RESPONSE and the notifications of later
   requests — AsyncHandler closes the next request's channel before it sends the response. The model has the
   intermediate state Replying for exactly that. "Exactly one response per call" is not proved (partial). *)

Local Open Scope Z_scope.

(* position_round_trip: for every text and every offset that is a rune boundary of its line (text =
   pre ++ mid ++ rest, pre empty or ending in a newline, mid newline-free and made of whole runes): the
   outgoing position (line, UTF-16 character) of the offset resolves back to the offset. *)
Theorem C23_position_round_trip :
  forall pre mid rest, (pre = [] \/ last pre 0 = NL) -> ~ In NL mid -> line_boundary (mid ++ rest) (length mid) ->
  let content := pre ++ mid ++ rest in
  let off := Z.of_nat (length pre + length mid) in
  resolve_position content (fst (position_of content off)) (snd (position_of content off)) = Some off.
Proof. exact position_round_trip. Qed.

(* outgoing_positions_utf16 for the pinned server (byte columns): refuted — F9, repaired by a fix: commit *)
Theorem C23_pinned_outgoing_positions_refuted :
  exists content off,
    position_of_pinned content off <> position_of content off /\
    resolve_position content (fst (position_of_pinned content off)) (snd (position_of_pinned content off)) <> Some off.
Proof. exact pinned_positions_refuted. Qed.

(* diagnostics_in_order_with_version: for EVERY compile oracle and history the published diagnostics are, in
   request order, exactly one per open/change with that request's document, version and content. *)
Theorem C23_diagnostics_in_order_with_version :
  forall compile collect_ids rs s,
  filter is_publish (run compile collect_ids s rs) =
  map (fun '(d, v, c) => typecheck compile d v c) (changes rs).
Proof. exact diagnostics_in_order. Qed.

(* definition_uses_latest *)
Theorem C23_definition_uses_latest :
  forall compile collect_ids pre id doc line col,
  run compile collect_ids [] (pre ++ [RDef id doc line col]) =
  run compile collect_ids [] pre ++
  [Reply id (definition collect_ids (match latest doc None pre with Some x => [(doc, x)] | None => [] end) doc line col)].
Proof. exact definition_uses_latest. Qed.

(* same_name_locations *)
Theorem C23_same_name_locations :
  forall collect_ids s doc line col content v locs x,
  lookup doc s = Some (content, v) -> definition collect_ids s doc line col = Some locs -> In x locs ->
  exists cursor cur i,
    resolve_position content line col = Some cursor /\
    In cur (collect_ids content) /\ id_off cur <= cursor <= id_end cur /\
    In i (collect_ids content) /\ id_kind i = id_kind cur /\
    id_text content i = id_text content cur /\ x = location doc content i.
Proof. intro collect_ids. exact (same_name_locations (fun _ => []) collect_ids). Qed.

(* ---- round 2 ---- *)

(* exactly one response per call. For ANY server, request list and schedule of the modelled chain, at EVERY
   reachable configuration the response to request i has been written exactly once if goroutine i is Done
   and not at all otherwise (so never twice); hence once every request is answered the trace holds exactly
   one response per request and none for any other id. *)
Theorem C23_response_written_once_iff_done :
  forall (St Req Out Val : Type) (body : Req -> list (micro St Out)) (resp : Req -> St -> Val) reqs s0 c,
  reachable St Req Out Val body resp reqs s0 c ->
  forall i, count_resp Out Val i (trace _ _ _ c) = if is_done St Out Val (g _ _ _ c i) then 1%nat else 0%nat.
Proof. exact response_count. Qed.

Theorem C23_exactly_one_response_per_call :
  forall (St Req Out Val : Type) (body : Req -> list (micro St Out)) (resp : Req -> St -> Val) reqs s0 c,
  reachable St Req Out Val body resp reqs s0 c ->
  (forall i, (i < length reqs)%nat -> g _ _ _ c i = Done St Out Val) ->
  (forall i, (i < length reqs)%nat -> count_resp Out Val i (trace _ _ _ c) = 1%nat) /\
  (forall i, (length reqs <= i)%nat -> count_resp Out Val i (trace _ _ _ c) = 0%nat).
Proof. exact exactly_one_response. Qed.

(* ... and the chain cannot get stuck before that: every reachable configuration is either final (all requests
   arrived and answered) or has an enabled step. Under any fair scheduler every call therefore gets its single
   response. (Fairness of the Go scheduler and of the connection's read loop is assumed, not modelled.) *)
Theorem C23_chain_never_deadlocks :
  forall (St Req Out Val : Type) (body : Req -> list (micro St Out)) (resp : Req -> St -> Val) reqs s0 c,
  reachable St Req Out Val body resp reqs s0 c ->
  (arrived _ _ _ c = length reqs /\ forall i, (i < length reqs)%nat -> g _ _ _ c i = Done St Out Val) \/
  exists c', step St Req Out Val body resp reqs c c'.
Proof. exact progress. Qed.

(* incoming positions beyond the BMP. After n bytes of whole runes of the line comes a rune above U+FFFF (two
   UTF-16 code units): the column pointing BETWEEN its two code units is rejected, whatever precedes it ... *)
Theorem C23_position_inside_surrogate_pair_rejected :
  forall s n, line_boundary s n ->
  forall r w, decode_rune (skipn n s) = (r, w) -> (0 < w)%nat -> 65535 < r ->
  forall fuel1 fuel2 pos, (n < fuel1)%nat -> (n < fuel2)%nat ->
  skip_cols fuel2 s (utf16_len fuel1 s (Z.of_nat n) + 1) pos = None.
Proof. exact skip_cols_inside_pair. Qed.

(* ... and the column two units further is the rune boundary after it: it is accepted, resolves to the byte
   offset after the rune, and is exactly the UTF-16 length the server reports for that offset. *)
Theorem C23_position_after_surrogate_pair :
  forall s n, line_boundary s n ->
  forall r w, decode_rune (skipn n s) = (r, w) -> (0 < w)%nat -> 65535 < r ->
  forall fuel1 fuel2 pos, (n + w < fuel1)%nat -> (n + w < fuel2)%nat ->
  line_boundary s (n + w) /\
  utf16_len fuel1 s (Z.of_nat (n + w)) = utf16_len fuel1 s (Z.of_nat n) + 2 /\
  skip_cols fuel2 s (utf16_len fuel1 s (Z.of_nat n) + 2) pos = Some (pos + Z.of_nat (n + w)).
Proof. exact skip_cols_after_pair. Qed.

(* didClose, re-open and several documents are inside C23_definition_uses_latest / diagnostics_in_order (the
   history is arbitrary; `latest` forgets a document at RClose and takes the new content at the next ROpen,
   per document key). Non-vacuity: document 0 closed and re-opened with other content while document 1 stays. *)
Example C23_close_reopen_two_documents :
  let t0 := [97; 98] in let t1 := [99; 100; 32; 99; 100] in let t2 := [32; 32; 97; 98] in
  run (fun _ => []) (fun c => match c with 97 :: _ => [mkId 0 2 1 true] | 99 :: _ => [mkId 0 2 1 true; mkId 3 5 1 false] | _ => [mkId 2 4 1 true] end) []
      [ROpen 0 1 t0; ROpen 1 1 t1; RDef 1 0 0 1; RClose 0; RDef 2 0 0 1; RDef 3 1 0 4; ROpen 0 2 t2; RDef 4 0 0 3; RDef 5 0 0 1]
  = [Publish 0 1 []; Publish 1 1 []; Reply 1 (Some [(0, 0, 0, 0, 2)]); Reply 2 None;
     Reply 3 (Some [(1, 0, 0, 0, 2)]); Publish 0 2 []; Reply 4 (Some [(0, 0, 2, 0, 4)]); Reply 5 (Some [])].
Proof. vm_compute. reflexivity. Qed.

(* non-vacuity: "é😀 ab": the offset after the astral rune is a line boundary; positions round-trip *)
Example C23_examples :
  let text := [97; 10; 195; 169; 240; 159; 152; 128; 32; 97; 98] (* "a\né😀 ab" *) in
  line_boundary (skipn 2 text) 6 /\
  position_of text 8 = (1, 3) /\ resolve_position text 1 3 = Some 8 /\
  resolve_position text 1 2 = None (* between the surrogates *) /\
  position_of_pinned text 8 = (1, 6) /\
  run (fun _ => [(9, 11, 2, 8, [120])]) (fun _ => [mkId 9 11 1 true]) []
      [ROpen 0 (-1) text; RDef 1 0 1 5; RClose 0; RDef 2 0 1 5]
    = [Publish 0 4294967295 [(1, 4, 1, 6, [120])]; Reply 1 (Some [(0, 1, 4, 1, 6)]); Reply 2 None].
Proof.
  cbv zeta. split.
  - apply (lb_step _ 233 2 4); [reflexivity | auto | discriminate |].
    apply (lb_step _ 128512 4 0); [reflexivity | auto | discriminate | apply lb_0].
  - vm_compute. repeat split; reflexivity.
Qed.

Print Assumptions C23_async_is_sequential.
Print Assumptions C23_handler_bodies_are_mutually_exclusive.
Print Assumptions C23_body_runs_after_predecessors_replied.
Print Assumptions C23_every_intermediate_state_is_a_sequential_prefix.
Print Assumptions C23_position_round_trip.
Print Assumptions C23_pinned_outgoing_positions_refuted.
Print Assumptions C23_diagnostics_in_order_with_version.
Print Assumptions C23_definition_uses_latest.
Print Assumptions C23_same_name_locations.
Print Assumptions C23_response_written_once_iff_done.
Print Assumptions C23_exactly_one_response_per_call.
Print Assumptions C23_chain_never_deadlocks.
Print Assumptions C23_position_inside_surrogate_pair_rejected.
Print Assumptions C23_position_after_surrogate_pair.
