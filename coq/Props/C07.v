(* C07 — LALR(k) resolution never changes the accepted language.
   Models: Gram/Run.v default_machine (Lalr rows with deep references walked over the following tokens, as
   resolveDeepLA does), Gram/ValidatorK.v (boolean check of LALR(k) tables against an LR(0) item certificate). *)
From Coq Require Import List ZArith Bool.
From TM Require Import Gram.Cfg Gram.PTables Gram.Run Gram.Derive Gram.Validator Gram.Validator_proofs Gram.LRSound
                       Gram.ValidatorK Gram.ValidatorK_proofs.
Import ListNotations.
Local Open Scope Z_scope.

(* Soundness half, for EVERY grammar, LALR(k) table set and certificate passing check_k and EVERY token sequence:
   whatever the deep rows answer for whatever continuation, an accepted input is a sentence of the selected input
   (no-eoi: begins with one), i.e. extra lookahead can never make the parser accept more than the language. *)
Theorem C07_lalr_k_parser_sound :
  forall g t rule_len rule_sym nstates finals ann,
  check_k g t rule_len rule_sym nstates finals ann = true ->
  forall i nt eoi ws fuel,
  nth_error (g_inputs g) i = Some (nt, eoi) -> toks_ok g ws ->
  fst (parse fuel (default_machine t rule_len rule_sym) finals i ws) = Accept -> sentence g nt eoi ws.
Proof. exact parse_sound_k. Qed.

Theorem C07_lalr_k_parser_never_crashes :
  forall g t rule_len rule_sym nstates finals ann,
  check_k g t rule_len rule_sym nstates finals ann = true ->
  forall i x ws fuel why,
  nth_error (g_inputs g) i = Some x -> toks_ok g ws ->
  fst (parse fuel (default_machine t rule_len rule_sym) finals i ws) <> Crash why.
Proof. exact parse_no_crash_k. Qed.

(* the key lemma: every rule a deep row can answer, for any continuation, passed the check *)
Theorem C07_every_deep_answer_is_checked :
  forall t jst f n a more, all_ok n t jst a = true -> 0 <= deep_walk f t a more -> jst (deep_walk f t a more) = true.
Proof. exact deep_ok. Qed.

(* NOT proved (partial): the completeness half (every sentence is accepted, i.e. the rule chosen by the deep rows is
   the one under which the rest of the input parses). It needs a k-token lookahead certificate; it is judged on
   every sampled grammar by running the loop model on the real tables over sampled sentences and ALL short strings
   against the chart recogniser. *)

Print Assumptions C07_lalr_k_parser_sound.
Print Assumptions C07_lalr_k_parser_never_crashes.
Print Assumptions C07_every_deep_answer_is_checked.
