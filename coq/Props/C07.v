(* C07 — LALR(k) resolution never changes the accepted language.
   Models: Gram/Run.v default_machine (Lalr rows with deep references walked over the following tokens, as
   resolveDeepLA does), Gram/ValidatorK.v (boolean check of LALR(k) tables against an LR(0) item certificate:
   soundness), Gram/ValidatorKC.v (boolean check against an item certificate with lookahead STRINGS of up to k
   terminals: completeness).  Both checks are evaluated on lalr.Compile's real tables for every sampled grammar. *)
From Coq Require Import List ZArith Bool.
From TM Require Import Gram.Cfg Gram.PTables Gram.Run Gram.Derive Gram.Validator Gram.Validator_proofs Gram.LRSound
                       Gram.ValidatorK Gram.ValidatorK_proofs Gram.ValidatorK_proofs2
                       Gram.ValidatorKC Gram.ValidatorKC_proofs Gram.ValidatorKC_ex_proofs.
Import ListNotations.
Local Open Scope Z_scope.

(* Soundness half, for EVERY grammar, LALR(k) table set and certificate passing check_k and EVERY token sequence:
   whatever the deep rows answer for whatever continuation, an accepted input is a sentence of the selected input
   (no-eoi: begins with one), i.e. extra lookahead can never make the parser accept more than the language. *)
Theorem C07_lalr_k_parser_sound :
  forall g t rule_len rule_sym nstates finals ann,
  check_k g t rule_len rule_sym nstates finals ann = true ->
  forall i nt eoi ws fuel,
  nth_error (g_inputs g) i = Some (nt, eoi) -> toks_ok g ws ->
  fst (parse fuel (default_machine t rule_len rule_sym) finals i ws) = Accept -> sentence g nt eoi ws.
Proof. exact parse_sound_k. Qed.

Theorem C07_lalr_k_parser_never_crashes :
  forall g t rule_len rule_sym nstates finals ann,
  check_k g t rule_len rule_sym nstates finals ann = true ->
  forall i x ws fuel why,
  nth_error (g_inputs g) i = Some x -> toks_ok g ws ->
  fst (parse fuel (default_machine t rule_len rule_sym) finals i ws) <> Crash why.
Proof. exact parse_no_crash_k. Qed.

(* the key lemma: every rule a deep row can answer, for any continuation, passed the check *)
Theorem C07_every_deep_answer_is_checked :
  forall t jst f n a more, all_ok n t jst a = true -> 0 <= deep_walk f t a more -> jst (deep_walk f t a more) = true.
Proof. exact deep_ok. Qed.

(* ---- completeness side ---- *)
(* tables without LALR(k) rows (no cell in range refers to a deep row): the loop with deep-row walking IS C01's loop
   on every input, so Validator.check (C01's full check, on the LALR(1) reading of the tables) gives the exact language *)
Theorem C07_no_deep_rows_same_run :
  forall g t rule_len rule_sym nstates finals nl ft ann,
  check g (lalr1_machine t rule_len rule_sym) nstates finals nl ft ann = true ->
  no_deep t nstates (vT g) = true ->
  forall i, (i < ninputs g)%nat -> forall ws, toks_ok g ws -> forall fuel,
  parse fuel (default_machine t rule_len rule_sym) finals i ws = parse fuel (lalr1_machine t rule_len rule_sym) finals i ws.
Proof. exact parse_no_deep_same. Qed.

Theorem C07_no_deep_rows_exact_language :
  forall g t rule_len rule_sym nstates finals nl ft ann,
  check g (lalr1_machine t rule_len rule_sym) nstates finals nl ft ann = true ->
  no_deep t nstates (vT g) = true ->
  forall i, (i < ninputs g)%nat -> forall ws, toks_ok g ws -> forall nt eoi,
  nth_error (g_inputs g) i = Some (nt, eoi) ->
  (exists fuel, fst (parse fuel (default_machine t rule_len rule_sym) finals i ws) = Accept) <-> sentence g nt eoi ws.
Proof. exact parse_no_deep_exact. Qed.

(* check_k is a soundness check only.  The naive claim
     check_k ... = true -> sentence g nt eoi ws -> exists fuel, fst (parse fuel ...) = Accept
   is FALSE: a table set whose every action is "error" passes check_k and rejects the sentence [a] of S -> a. *)
Theorem C07_check_k_alone_not_complete_refuted :
  exists g t rule_len rule_sym nstates finals ann i nt eoi ws,
    check_k g t rule_len rule_sym nstates finals ann = true /\
    nth_error (g_inputs g) i = Some (nt, eoi) /\ toks_ok g ws /\ sentence g nt eoi ws /\
    forall fuel, fst (parse fuel (default_machine t rule_len rule_sym) finals i ws) <> Accept.
Proof. exact check_k_alone_not_complete. Qed.


(* ---- completeness for tables WITH deep rows ---- *)
(* For EVERY grammar, LALR(k) table set, k, FIRST_k table and k-lookahead item certificate accepted by
   ValidatorKC.check_kc and EVERY token sequence: a sentence of the selected input is accepted by the loop with deep
   rows, i.e. each deep row picks, for the actual continuation of the input, the reduction under which the rest
   parses.  (The certificate and the FIRST_k table are untrusted hints; the glue computes them by LALR(k) propagation.) *)
Theorem C07_lalr_k_parser_complete :
  forall g t rule_len rule_sym nstates finals k ftk kann,
  check_kc g t rule_len rule_sym nstates finals k ftk kann = true ->
  forall i ws nt eoi,
  toks_ok g ws -> nth_error (g_inputs g) i = Some (nt, eoi) -> sentence g nt eoi ws ->
  exists fuel, fst (parse fuel (default_machine t rule_len rule_sym) finals i ws) = Accept.
Proof. exact parse_complete_kc. Qed.

(* both checks together: LALR(k) resolution does not change the accepted language *)
Theorem C07_lalr_k_exact_language :
  forall g t rule_len rule_sym nstates finals ann k ftk kann,
  check_k g t rule_len rule_sym nstates finals ann = true ->
  check_kc g t rule_len rule_sym nstates finals k ftk kann = true ->
  forall i ws nt eoi,
  toks_ok g ws -> nth_error (g_inputs g) i = Some (nt, eoi) ->
  ((exists fuel, fst (parse fuel (default_machine t rule_len rule_sym) finals i ws) = Accept) <-> sentence g nt eoi ws).
Proof. exact exact_language_k. Qed.

(* the layer below, with the row answers as an explicit ORACLE hypothesis: if the certificate is closed (items advance
   along the gotos, closure items carry FIRST_k(beta L), rule tables and accepting states are wired) and the loop
   answers, on every remaining input that begins with a lookahead string of an item, the action of that item
   (rows_agree), then every sentence is accepted.  rows_agree on the cells with deep rows is what the sampled runs
   exercise; check_kc decides it (next theorem). *)
Theorem C07_complete_relative_to_row_oracle :
  forall g t rule_len rule_sym finals k ftk kann,
  cert_closed g t rule_len rule_sym finals k ftk kann -> rows_agree g t k ftk kann ->
  forall i ws nt eoi, toks_ok g ws -> nth_error (g_inputs g) i = Some (nt, eoi) -> sentence g nt eoi ws ->
  exists fuel, fst (parse fuel (default_machine t rule_len rule_sym) finals i ws) = Accept.
Proof. exact complete_of_oracle. Qed.

Theorem C07_check_kc_establishes_the_oracle :
  forall g t rule_len rule_sym nstates finals k ftk kann,
  check_kc g t rule_len rule_sym nstates finals k ftk kann = true ->
  cert_closed g t rule_len rule_sym finals k ftk kann /\ rows_agree g t k ftk kann.
Proof. exact check_kc_conditions. Qed.

(* non-vacuity on a real table set (S -> A c c | B c d d ; A -> a ; B -> a, k = 3, sampled from the harness): it has a
   deep row and passes both checks; with the two answers of the deep row swapped check_k still passes (soundness only),
   check_kc fails, and the loop indeed rejects the sentence a c c *)
Example C07_check_kc_nonvacuous :
  lalr_deep ex_t 1 3 = true /\
  check_k ex_g ex_t ex_rl ex_rs ex_nstates ex_finals ex_ann = true /\
  check_kc ex_g ex_t ex_rl ex_rs ex_nstates ex_finals ex_k ex_ftk ex_kann = true.
Proof. exact (conj ex_has_deep_row (conj ex_check_k ex_check_kc)). Qed.

Example C07_check_kc_discriminates :
  check_k ex_g ex_t_bad ex_rl ex_rs ex_nstates ex_finals ex_ann = true /\
  check_kc ex_g ex_t_bad ex_rl ex_rs ex_nstates ex_finals ex_k ex_ftk ex_kann = false /\
  fst (parse 100 (default_machine ex_t_bad ex_rl ex_rs) ex_finals 0 [1; 3; 3]) <> Accept.
Proof. exact (conj ex_bad_check_k (conj ex_bad_check_kc ex_bad_rejects)). Qed.

(* NOT proved: that lalr/trie.go always produces tables passing check_kc (the generator is not modelled; the check is
   evaluated on its output per sampled grammar), and minimality of the lookahead depth. *)

Print Assumptions C07_lalr_k_parser_sound.
Print Assumptions C07_lalr_k_parser_never_crashes.
Print Assumptions C07_every_deep_answer_is_checked.
Print Assumptions C07_no_deep_rows_same_run.
Print Assumptions C07_no_deep_rows_exact_language.
Print Assumptions C07_check_k_alone_not_complete_refuted.
Print Assumptions C07_lalr_k_parser_complete.
Print Assumptions C07_lalr_k_exact_language.
Print Assumptions C07_complete_relative_to_row_oracle.
Print Assumptions C07_check_kc_establishes_the_oracle.
Print Assumptions C07_check_kc_nonvacuous.
Print Assumptions C07_check_kc_discriminates.
