(* C07 — LALR(k) resolution never changes the accepted language.
   Models: Gram/Run.v default_machine (Lalr rows with deep references walked over the following tokens, as
   resolveDeepLA does), Gram/ValidatorK.v (boolean check of LALR(k) tables against an LR(0) item certificate). *)
From Coq Require Import List ZArith Bool.
From TM Require Import Gram.Cfg Gram.PTables Gram.Run Gram.Derive Gram.Validator Gram.Validator_proofs Gram.LRSound
                       Gram.ValidatorK Gram.ValidatorK_proofs Gram.ValidatorK_proofs2.
Import ListNotations.
Local Open Scope Z_scope.

(* Soundness half, for EVERY grammar, LALR(k) table set and certificate passing check_k and EVERY token sequence:
   whatever the deep rows answer for whatever continuation, an accepted input is a sentence of the selected input
   (no-eoi: begins with one), i.e. extra lookahead can never make the parser accept more than the language. *)
Theorem C07_lalr_k_parser_sound :
  forall g t rule_len rule_sym nstates finals ann,
  check_k g t rule_len rule_sym nstates finals ann = true ->
  forall i nt eoi ws fuel,
  nth_error (g_inputs g) i = Some (nt, eoi) -> toks_ok g ws ->
  fst (parse fuel (default_machine t rule_len rule_sym) finals i ws) = Accept -> sentence g nt eoi ws.
Proof. exact parse_sound_k. Qed.

Theorem C07_lalr_k_parser_never_crashes :
  forall g t rule_len rule_sym nstates finals ann,
  check_k g t rule_len rule_sym nstates finals ann = true ->
  forall i x ws fuel why,
  nth_error (g_inputs g) i = Some x -> toks_ok g ws ->
  fst (parse fuel (default_machine t rule_len rule_sym) finals i ws) <> Crash why.
Proof. exact parse_no_crash_k. Qed.

(* the key lemma: every rule a deep row can answer, for any continuation, passed the check *)
Theorem C07_every_deep_answer_is_checked :
  forall t jst f n a more, all_ok n t jst a = true -> 0 <= deep_walk f t a more -> jst (deep_walk f t a more) = true.
Proof. exact deep_ok. Qed.

(* ---- completeness side ---- *)
(* tables without LALR(k) rows (no cell in range refers to a deep row): the loop with deep-row walking IS C01's loop
   on every input, so Validator.check (C01's full check, on the LALR(1) reading of the tables) gives the exact language *)
Theorem C07_no_deep_rows_same_run :
  forall g t rule_len rule_sym nstates finals nl ft ann,
  check g (lalr1_machine t rule_len rule_sym) nstates finals nl ft ann = true ->
  no_deep t nstates (vT g) = true ->
  forall i, (i < ninputs g)%nat -> forall ws, toks_ok g ws -> forall fuel,
  parse fuel (default_machine t rule_len rule_sym) finals i ws = parse fuel (lalr1_machine t rule_len rule_sym) finals i ws.
Proof. exact parse_no_deep_same. Qed.

Theorem C07_no_deep_rows_exact_language :
  forall g t rule_len rule_sym nstates finals nl ft ann,
  check g (lalr1_machine t rule_len rule_sym) nstates finals nl ft ann = true ->
  no_deep t nstates (vT g) = true ->
  forall i, (i < ninputs g)%nat -> forall ws, toks_ok g ws -> forall nt eoi,
  nth_error (g_inputs g) i = Some (nt, eoi) ->
  (exists fuel, fst (parse fuel (default_machine t rule_len rule_sym) finals i ws) = Accept) <-> sentence g nt eoi ws.
Proof. exact parse_no_deep_exact. Qed.

(* check_k is a soundness check only.  The naive claim
     check_k ... = true -> sentence g nt eoi ws -> exists fuel, fst (parse fuel ...) = Accept
   is FALSE: a table set whose every action is "error" passes check_k and rejects the sentence [a] of S -> a. *)
Theorem C07_check_k_alone_not_complete_refuted :
  exists g t rule_len rule_sym nstates finals ann i nt eoi ws,
    check_k g t rule_len rule_sym nstates finals ann = true /\
    nth_error (g_inputs g) i = Some (nt, eoi) /\ toks_ok g ws /\ sentence g nt eoi ws /\
    forall fuel, fst (parse fuel (default_machine t rule_len rule_sym) finals i ws) <> Accept.
Proof. exact check_k_alone_not_complete. Qed.

Print Assumptions C07_lalr_k_parser_sound.
Print Assumptions C07_lalr_k_parser_never_crashes.
Print Assumptions C07_every_deep_answer_is_checked.
Print Assumptions C07_no_deep_rows_same_run.
Print Assumptions C07_no_deep_rows_exact_language.
Print Assumptions C07_check_k_alone_not_complete_refuted.
