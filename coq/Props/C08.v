(* C08 — Runtime lookahead decisions pick the alternative whose predicates hold.
   Model: Gram/Lookahead.v (newLookaheadRule, pickLookahead, generated if-chain);
   Gram/LookaheadRun.v (per-terminal grouping of the alternatives of a state, predicate outcomes on a concrete
   remaining input, the selection made at run time). *)
From Coq Require Import List ZArith Bool.
From TM Require Import Gram.Lookahead Gram.Lookahead_proofs Gram.LookaheadRun Gram.LookaheadRun_proofs.
Import ListNotations.
Local Open Scope Z_scope.

(* For every set of alternatives the model of newLookaheadRule accepts, and EVERY assignment rho of
   outcomes to the predicates: if an alternative's conjunction holds under rho, the generated decision
   procedure (if / else-if chain over the rule's cases, then the default) selects that alternative. *)
Theorem C08_decision_correct :
  forall las R, new_rule las = LaOk R ->
  forall rho la, In la las -> holds rho la = true -> eval_rule R rho = la_nonterm la.
Proof. exact decision_correct. Qed.

(* Consequently an accepted set is mutually exclusive: no assignment satisfies two alternatives that
   reduce to different nonterminals (non-exclusive sets are rejected). *)
Theorem C08_accepted_sets_are_exclusive :
  forall las R, new_rule las = LaOk R ->
  forall rho la1 la2, In la1 las -> In la2 las -> la_nonterm la1 <> la_nonterm la2 ->
  holds rho la1 = true -> holds rho la2 = true -> False.
Proof. exact accepted_is_exclusive. Qed.

(* the key fact about pickLookahead *)
Theorem C08_pick_polarity :
  forall input las k negated, pick input las = Some (k, negated) ->
  (k < length las)%nat /\
  forall j, (j < length las)%nat ->
    accepts (la_preds (nth j las dla)) input = Some (if Nat.eqb j k then negated else negb negated).
Proof. exact pick_spec. Qed.

(* NOT proved (partial): "inconsistently ordered sets are rejected" (the DFS/depth test); it is checked on
   every accepted set by the oracle. *)

Example C08_examples :
  new_rule [mkLA 7 [(1, false); (2, false)]; mkLA 8 [(2, true)]] = LaOk (mkRule [(2, false, 7)] 8) /\
  new_rule [mkLA 7 [(6, false); (1, false); (2, false); (3, false)]; mkLA 8 [(6, false); (1, false); (2, false); (3, true)];
            mkLA 9 [(6, false); (1, true); (2, false)]; mkLA 10 [(6, false); (1, true); (2, true)]]
    = LaOk (mkRule [(2, true, 10); (1, true, 9); (3, false, 7)] 8) /\
  new_rule [mkLA 7 [(1, false)]; mkLA 8 [(2, false)]] = LaErr 2 /\
  new_rule [mkLA 7 [(1, false); (2, false)]; mkLA 8 [(2, false); (1, false)]] = LaErr 1 /\
  holds (fun i => i =? 2) (mkLA 7 [(1, true); (2, false)]) = true.
Proof. vm_compute. repeat split; reflexivity. Qed.

(* ---- run time (kind c08.gen) ----
   `group alts t` is the set of alternatives of one parser state that can be reduced on terminal t (the set
   that ruleAction/addRule hand to newLookaheadRule); `select` is what the generated parser does there: syntax
   error for the empty set, a plain reduce for a singleton, otherwise the if-chain of the rule built for the
   set.  For EVERY state (list of alternatives), terminal and predicate outcomes: when the selection is
   defined, every applicable alternative whose conjunction holds is the one selected. *)
Theorem C08_runtime_selection :
  forall alts rho t nt a,
  select alts rho t = SelOne nt -> In a (group alts t) -> holds rho (a_la a) = true ->
  nt = la_nonterm (a_la a).
Proof. exact select_correct. Qed.

(* the same on a concrete remaining input t :: rest, the outcomes being those of decidable predicate
   nonterminals (prefix matching, nested guards) evaluated on that input: this is the statement whose
   instances the c08.gen correspondence observes on generated parsers *)
Theorem C08_runtime_selection_on_input :
  forall ntok defs alts t rest nt a,
  select_on ntok defs alts (t :: rest) = SelOne nt ->
  In a alts -> In t (a_first a) -> holds (rho_at ntok defs (t :: rest)) (a_la a) = true ->
  nt = la_nonterm (a_la a).
Proof. exact select_on_correct. Qed.

Theorem C08_runtime_satisfied_alternative_unique :
  forall alts rho t nt a b,
  select alts rho t = SelOne nt -> In a (group alts t) -> In b (group alts t) ->
  holds rho (a_la a) = true -> holds rho (a_la b) = true ->
  la_nonterm (a_la a) = la_nonterm (a_la b).
Proof. exact select_unique. Qed.

(* non-vacuity: (?= P & Q) -> 7, (?= P & !Q) -> 8, (?= !P) -> 9 with P = 'a'|'b' (input 1), Q = 'b'|'c'
   (input 2, behind a nested guard on P: (?= P) 'b' | (?= !P) 'c'), alternative 9 restricted to bodies starting
   with 'c' or 'd': on "b.." 7 is selected, on "a.." 8, on "c.." 9, on "d.." the singleton 9. *)
Example C08_runtime_examples :
  let defs := [mkP 1 [([], [[0]; [1]])]; mkP 2 [([(1, false)], [[1]]); ([(1, true)], [[2]])]] in
  let alts := [mkAlt (mkLA 7 [(1, false); (2, false)]) [0; 1; 2; 3]; mkAlt (mkLA 8 [(1, false); (2, true)]) [0; 1; 2; 3];
               mkAlt (mkLA 9 [(1, true)]) [2; 3]] in
  select_on 4 defs alts [1; 0; 100] = SelOne 7 /\ select_on 4 defs alts [0; 0; 100] = SelOne 8 /\
  select_on 4 defs alts [2; 0; 100] = SelOne 9 /\ select_on 4 defs alts [3; 3; 100] = SelOne 9 /\
  select_on 4 defs alts [100] = SelNone /\
  holds (rho_at 4 defs [1; 0; 100]) (mkLA 7 [(1, false); (2, false)]) = true /\
  map (fun a => la_nonterm (a_la a)) (group alts 0) = [7; 8].
Proof. vm_compute. repeat split; reflexivity. Qed.

Print Assumptions C08_decision_correct.
Print Assumptions C08_accepted_sets_are_exclusive.
Print Assumptions C08_pick_polarity.
Print Assumptions C08_runtime_selection.
Print Assumptions C08_runtime_selection_on_input.
Print Assumptions C08_runtime_satisfied_alternative_unique.
