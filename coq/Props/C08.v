(* C08 — Runtime lookahead decisions pick the alternative whose predicates hold.
   Model: Gram/Lookahead.v (newLookaheadRule, pickLookahead, generated if-chain). *)
From Coq Require Import List ZArith Bool.
From TM Require Import Gram.Lookahead Gram.Lookahead_proofs.
Import ListNotations.
Local Open Scope Z_scope.

(* For every set of alternatives the model of newLookaheadRule accepts, and EVERY assignment rho of
   outcomes to the predicates: if an alternative's conjunction holds under rho, the generated decision
   procedure (if / else-if chain over the rule's cases, then the default) selects that alternative. *)
Theorem C08_decision_correct :
  forall las R, new_rule las = LaOk R ->
  forall rho la, In la las -> holds rho la = true -> eval_rule R rho = la_nonterm la.
Proof. exact decision_correct. Qed.

(* Consequently an accepted set is mutually exclusive: no assignment satisfies two alternatives that
   reduce to different nonterminals (non-exclusive sets are rejected). *)
Theorem C08_accepted_sets_are_exclusive :
  forall las R, new_rule las = LaOk R ->
  forall rho la1 la2, In la1 las -> In la2 las -> la_nonterm la1 <> la_nonterm la2 ->
  holds rho la1 = true -> holds rho la2 = true -> False.
Proof. exact accepted_is_exclusive. Qed.

(* the key fact about pickLookahead *)
Theorem C08_pick_polarity :
  forall input las k negated, pick input las = Some (k, negated) ->
  (k < length las)%nat /\
  forall j, (j < length las)%nat ->
    accepts (la_preds (nth j las dla)) input = Some (if Nat.eqb j k then negated else negb negated).
Proof. exact pick_spec. Qed.

(* NOT proved (partial): "inconsistently ordered sets are rejected" (the DFS/depth test); it is checked on
   every accepted set by the oracle. *)

Example C08_examples :
  new_rule [mkLA 7 [(1, false); (2, false)]; mkLA 8 [(2, true)]] = LaOk (mkRule [(2, false, 7)] 8) /\
  new_rule [mkLA 7 [(6, false); (1, false); (2, false); (3, false)]; mkLA 8 [(6, false); (1, false); (2, false); (3, true)];
            mkLA 9 [(6, false); (1, true); (2, false)]; mkLA 10 [(6, false); (1, true); (2, true)]]
    = LaOk (mkRule [(2, true, 10); (1, true, 9); (3, false, 7)] 8) /\
  new_rule [mkLA 7 [(1, false)]; mkLA 8 [(2, false)]] = LaErr 2 /\
  new_rule [mkLA 7 [(1, false); (2, false)]; mkLA 8 [(2, false); (1, false)]] = LaErr 1 /\
  holds (fun i => i =? 2) (mkLA 7 [(1, true); (2, false)]) = true.
Proof. vm_compute. repeat split; reflexivity. Qed.

Print Assumptions C08_decision_correct.
Print Assumptions C08_accepted_sets_are_exclusive.
Print Assumptions C08_pick_polarity.
