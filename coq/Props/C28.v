(* C28 — Symbol names map to valid target identifiers.
   Model: Util/Ident.v (ident.Produce for all four styles, the ID bookkeeping of compiler/resolver.go). *)
From Coq Require Import List ZArith Bool.
From TM Require Import Lex.Tables Util.Ident Util.Ident_proofs Util.Ident_proofs2.
Import ListNotations.
Local Open Scope Z_scope.

(* For EVERY byte string and style: the produced identifier consists of ASCII letters, digits and '_' and
   does not begin with a digit — hence it is a valid identifier in all targets whenever it is non-empty. *)
Theorem C28_produce_valid_when_nonempty :
  forall name st, byte_list name -> produce name st <> [] -> is_valid_ascii (produce name st) = true.
Proof. exact produce_valid. Qed.

(* Non-emptiness, quoted names: any 'quoted' or "quoted" name with a non-empty body. *)
Theorem C28_quoted_names_nonempty :
  forall name st body, byte_list name -> strip_quotes name = Some body -> produce name st <> [].
Proof. exact produce_quoted_nonempty. Qed.

(* Non-emptiness, unquoted names: any name containing an ASCII letter or digit. *)
Theorem C28_names_with_alnum_nonempty :
  forall name st c, byte_list name -> In c name -> is_alnum c = true -> strip_quotes name = None ->
  produce name st <> [].
Proof. exact produce_alnum_nonempty. Qed.

(* The full statement of C28 ("every name the syntax admits gets a non-empty identifier") is FALSE of the
   faithful model, and of the code (known findings underscore-only-name, empty-quoted-id): the ID `_`
   and the quoted id `''` are admitted by the tm lexer and produce the empty string. *)
Theorem C28_nonempty_refuted :
  (exists name, name = [95] /\ produce name CamelCase = []) /\
  (exists name, name = [39; 39] /\ forall st, produce name st = []).
Proof.
  split; [exists [95]; split; reflexivity|].
  exists [39; 39]. split; [reflexivity|]. intros []; reflexivity.
Qed.

(* After any sequence of symbol declarations for which the resolver reported no clash, identifiers are
   pairwise distinct (two entries with the same ID are the same symbol). *)
Theorem C28_ids_unique_unless_error_reported :
  forall ds s, ids_injective (r_ids s) ->
  r_errors (declare_all s ds) = r_errors s -> ids_injective (r_ids (declare_all s ds)).
Proof. exact resolver_injective. Qed.

(* Produce itself is NOT injective (foo-bar and foo_bar both give FooBar); it is injective up to the collision
   check: whenever two DIFFERENT declared names (each declared with the style sty assigns to it) get the same
   identifier, the resolver reports an error ... *)
Theorem C28_colliding_names_are_reported :
  forall (sty : bytes -> style) names n1 n2, In n1 names -> In n2 names -> n1 <> n2 ->
  produce n1 (sty n1) = produce n2 (sty n2) ->
  (1 <= r_errors (declare_all (mkR [] 0) (decls sty names)))%nat.
Proof. exact collision_reported. Qed.

(* ... and when no error is reported, the identifier determines the declared name. *)
Theorem C28_produce_injective_on_declared_unless_reported :
  forall (sty : bytes -> style) names n1 n2,
  r_errors (declare_all (mkR [] 0) (decls sty names)) = 0%nat ->
  In n1 names -> In n2 names -> produce n1 (sty n1) = produce n2 (sty n2) -> n1 = n2.
Proof. exact produce_injective_on_declared. Qed.

Example C28_collision_example :   (* foo-bar / foo_bar: same identifier FooBar, reported *)
  produce [102;111;111;45;98;97;114] CamelCase = produce [102;111;111;95;98;97;114] CamelCase /\
  r_errors (declare_all (mkR [] 0) (decls (fun _ => CamelCase) [[102;111;111;45;98;97;114]; [120]; [102;111;111;95;98;97;114]])) = 1%nat.
Proof. vm_compute. split; reflexivity. Qed.

Example C28_examples :
  produce [102;111;111;45;98;97;114] CamelCase = [70;111;111;66;97;114] (* foo-bar -> FooBar *) /\
  produce [39;43;39] UpperCase = [80;76;85;83] (* '+' -> PLUS *) /\
  produce [39;97;39] UpperCase = [67;72;65;82;95;65] (* 'a' -> CHAR_A *) /\
  byte_list [102;111;111;45;98;97;114] /\ strip_quotes [39;43;39] = Some [43] /\
  r_errors (declare_all (mkR [] 0) [([102;111;111], CamelCase); ([70;111;111], CamelCase)]) = 1%nat.
Proof. vm_compute. repeat split; try reflexivity; repeat constructor; discriminate. Qed.

Print Assumptions C28_produce_valid_when_nonempty.
Print Assumptions C28_quoted_names_nonempty.
Print Assumptions C28_names_with_alnum_nonempty.
Print Assumptions C28_nonempty_refuted.
Print Assumptions C28_ids_unique_unless_error_reported.
Print Assumptions C28_colliding_names_are_reported.
Print Assumptions C28_produce_injective_on_declared_unless_reported.
