(* C10 — Regular expressions and character classes denote their documented sets.
   Models: Lex/Charset.v (lex/charset.go), Lex/RegexParse.v (lex/regexp.go), Lex/RegexSpec.v (specification
   evaluator used as the oracle; it is built from the operations proved here). *)
From Coq Require Import List ZArith Bool Lia.
From TM Require Import Lex.Tables Lex.Charset Lex.Charset_proofs Lex.Charset_proofs2 Lex.RegexParse Lex.RegexParse_proofs Lex.RegexParse_proofs2 Lex.RegexSpec Lex.ClassText Lex.ClassText_proofs.
Import ListNotations.
Local Open Scope Z_scope.

(* mem x cs: code point x belongs to the range list cs; wf_cs lb cs: cs is in normal form (non-empty ranges,
   ascending, at least one code point between neighbours, nothing below lb). *)

(* newCharset: for EVERY list of ranges the result is in normal form and denotes the union *)
Theorem C10_new_charset_spec : forall r lb, (forall p, In p r -> lb <= fst p <= snd p) ->
  wf_cs lb (new_charset r) /\ forall x, mem x (new_charset r) = mem x r.
Proof. exact new_charset_spec. Qed.

(* invert: complement within [0, max] *)
Theorem C10_invert_spec : forall cs max, wf_cs 0 cs -> Forall (fun p => snd p <= max) cs ->
  wf_cs 0 (invert cs max) /\
  forall x, mem x (invert cs max) = (0 <=? x) && (x <=? max) && negb (mem x cs).
Proof. exact invert_spec. Qed.

(* subtract: set difference *)
Theorem C10_subtract_spec : forall a b lb lbb, wf_cs lb a -> wf_cs lbb b ->
  wf_cs lb (subtract a b) /\ forall x, mem x (subtract a b) = mem x a && negb (mem x b).
Proof. exact subtract_spec. Qed.

(* intersect: set intersection *)
Theorem C10_intersect_spec : forall a b lba lbb, wf_cs lba a -> wf_cs lbb b ->
  wf_cs (Z.max lba lbb) (intersect a b) /\ forall x, mem x (intersect a b) = mem x a && mem x b.
Proof. exact intersect_spec. Qed.

(* appendRange: union with one more range (merging with the last range only changes the representation) *)
Theorem C10_append_range_spec : forall r lo hi x, lo <= hi -> (forall p, In p r -> fst p <= snd p) ->
  mem x (append_range r lo hi) = mem x r || in_range x (lo, hi).
Proof. exact append_range_spec. Qed.

(* fold, one direction without any assumption on the fold function: for every sf and every orbit bound n, folding keeps
   every member and adds only code points reachable from a member by iterating sf — and in bytes mode (ascii) only such
   below 0x80. *)
Theorem C10_fold_sound_and_extensive : forall sf n cs ascii lb, (forall p, In p cs -> lb <= fst p <= snd p) ->
  (forall x, mem x cs = true -> mem x (fold sf n cs ascii) = true) /\
  (forall x, mem x (fold sf n cs ascii) = true ->
     mem x cs = true \/ exists c k, mem c cs = true /\ x = Nat.iter k sf c /\ (ascii = false \/ x < 128)).
Proof. exact fold_sound_and_extensive. Qed.

(* fold, EXACTLY: when sf walks cycles — the orbit of every member returns to it within the orbit bound n (closes; for
   Go's unicode.SimpleFold and n = 8 this is checked on the full map on every run, c10.foldmap) — the folded set is in
   normal form and is exactly the union of the members and their fold orbits (in bytes mode: orbit members below 0x80). *)
Theorem C10_fold_exact : forall sf n cs ascii lb, (forall p, In p cs -> lb <= fst p <= snd p) ->
  (forall c, mem c cs = true -> closes sf n c) ->
  (exists lb', wf_cs lb' (fold sf n cs ascii)) /\
  forall x, mem x (fold sf n cs ascii) = true <->
    (mem x cs = true \/ exists c j, mem c cs = true /\ x = Nat.iter j sf c /\ (ascii = false \/ x < 128)).
Proof. exact fold_exact. Qed.

(* class_spec, assembly level.
   (1) Every successful parseClass returns class_den (Fold option) (the character after '[' is '^') (bytes mode) items
       subs: newCharset of the member ranges it collected, minus every subtracted set in turn, then folded, then
       inverted — for the members and subtracted sets collected by its scanning loop.
   (2) class_den has the documented semantics: for member ranges within [0, max] (lo <= hi), subtracted sets in normal
       form and (when folding) closing, in-range fold orbits, the result is in normal form and contains x iff
         not negated: x is a member outside every subtracted set, or lies on the fold orbit of such a code point;
         negated:     0 <= x <= max and not so.
   (3) class_spec from the concrete syntax, below: C10_parse_class_of_print / C10_parse_class_rejects_descending. *)
Theorem C10_parse_class_is_class_den : forall sf named fuel p0 o p' cs, parse_class sf named fuel p0 o = Ok (p', cs) ->
  exists p1 items subs, next p0 = Ok p1 /\
    cs = class_den sf (o_fold o) (p_ch p1 =? 94) (o_bytes o) items subs.
Proof. exact parse_class_den. Qed.

Theorem C10_class_den_spec : forall sf fold neg bytes items subs,
  (forall p, In p items -> 0 <= fst p <= snd p /\ snd p <= cmax bytes) -> (forall s, In s subs -> wf_cs 0 s) ->
  (fold = true -> forall c, in_base items subs c ->
     closes sf 8 c /\ forall j, 0 <= Nat.iter j sf c /\ (bytes = false -> Nat.iter j sf c <= max_rune_u)) ->
  wf_cs 0 (class_den sf fold neg bytes items subs) /\
  forall x, mem x (class_den sf fold neg bytes items subs) = true <->
    if neg then 0 <= x <= cmax bytes /\ ~ in_folded sf fold bytes items subs x else in_folded sf fold bytes items subs x.
Proof. exact class_den_spec. Qed.

(* class_spec from the concrete syntax.  Lex/ClassText.v defines a grammar of bracket expressions: items are literal
   characters (ASCII, none of - . \ ] ^), ranges lo-hi, the escapes \a \f \n \r \t \v, and subtracted nested sets
   -[...] / -[^...] of such items (one level); print_class writes them down ('[', optional '^', the items, ']');
   wf_items: bodies non-empty, ranges ascending, a subtracted set placed at the start, after a range or after another
   subtracted set (after a single character "-[" would be read as a range, as in Go).
   For EVERY well-formed item list, both negations, both modes (runes / bytes), fold option on or off, any text after the
   class and any offset k of the class in an ASCII pattern (stt src k rem = the parser positioned at k): the scanning
   loop of parseClass consumes exactly the class and returns class_den (fold) (negated) (bytes) coll subs where coll
   contains exactly the code points of the WRITTEN ranges (appendRange may merge neighbours: same set, valid ranges) and
   subs are, in order, the denotations class_den false neg' bytes coll' [] of the WRITTEN subtracted sets.  With
   C10_class_den_spec this is the documented set. *)
Theorem C10_parse_class_of_print : forall sf named fuel' o src neg items k tl,
  wf_items items = true -> (length items < fuel')%nat ->
  (forall neg body, In (CSub neg body) items -> (S (length body) < fuel')%nat) ->
  ascii (print_class neg items ++ tl) ->
  Z.of_nat (length src) = k + Z.of_nat (length (print_class neg items ++ tl)) ->
  exists coll subs,
    parse_class sf named (S fuel') (stt src k (print_class neg items ++ tl)) o =
      Ok (stt src (k + Z.of_nat (length (print_class neg items))) tl, class_den sf (o_fold o) neg (o_bytes o) coll subs) /\
    (forall x, mem x coll = mem x (ranges_of items)) /\ (forall p, In p coll -> valid p) /\
    Forall2 (sub_rel sf (o_bytes o)) subs (subs_of items).
Proof. exact parse_class_of_print. Qed.

(* a range written with hi < lo at the start of a class is rejected with errClassRange spanning the range, for EVERY
   pair of literal characters and whatever follows *)
Theorem C10_parse_class_rejects_descending : forall sf named fuel' o src lo hi k tl,
  plainb lo = true -> plainb hi = true -> hi < lo -> ascii tl ->
  Z.of_nat (length src) = k + Z.of_nat (length (91 :: lo :: 45 :: hi :: tl)) ->
  parse_class sf named (S (S fuel')) (stt src k (91 :: lo :: 45 :: hi :: tl)) o = Err E_class_range (k + 1) (k + 1 + 1 + 1 + 1).
Proof. exact parse_class_rejects_descending. Qed.

(* the parser enters an ASCII pattern in the state stt src 0 src *)
Theorem C10_init_state : forall src, src <> [] -> ascii src -> init src = Ok (stt src 0 src).
Proof. exact init_stt. Qed.

(* [^a-z0-9_\n-[aeiou]-[^b-y]] : hypotheses met, and the parser's answer on it *)
Example C10_class_text_example :
  let items := [CS (SRange 97 122); CS (SRange 48 57); CS (SChar 95); CS (SEsc 110); CS (SRange 65 70); CSub false [SChar 97; SChar 101; SChar 105; SChar 111; SChar 117]; CSub true [SRange 98 121]] in
  let src := print_class true items in
  wf_items items = true /\ src = [91; 94; 97; 45; 122; 48; 45; 57; 95; 92; 110; 65; 45; 70; 45; 91; 97; 101; 105; 111; 117; 93; 45; 91; 94; 98; 45; 121; 93; 93] /\
  parse_regexp (fun c => c) (fun _ => None) src (mkOpts false false) =
    Ok (RCC [(0, 97); (101, 101); (105, 105); (111, 111); (117, 117); (122, 1114111)] 0).
Proof. vm_compute. repeat split; reflexivity. Qed.

(* escape_spec, digit level: hexval accepts exactly 0-9 A-F a-f with their values (F4: the pinned code took G-Z) *)
Theorem C10_hexval_spec : forall c,
  (is_hex_digit c /\ hexval c = hex_value c /\ 0 <= hexval c < 16) \/ (~ is_hex_digit c /\ hexval c = -1).
Proof. exact hexval_spec. Qed.

Theorem C10_octval_spec : forall c, (48 <= c <= 55 /\ octval c = c - 48) \/ (~ 48 <= c <= 55 /\ octval c = -1).
Proof. exact octval_spec. Qed.

(* escape_spec, accumulation: for EVERY digit string the accumulator of \x{...} / \u / \U is within
   unicode.MaxRune iff the exact (unbounded) value is, and then equals it — no wrap-around (F5) *)
Theorem C10_hex_accumulator_exact : forall ds, Forall (fun d => 0 <= d < 16) ds ->
  (fold_left hex_acc ds 0 <= max_rune_u <-> fold_left (fun r d => r * 16 + d) ds 0 <= max_rune_u) /\
  (fold_left hex_acc ds 0 <= max_rune_u -> fold_left hex_acc ds 0 = fold_left (fun r d => r * 16 + d) ds 0).
Proof. exact hex_acc_in_range_iff. Qed.

(* parser.next stays inside the pattern and reports "invalid rune" inside it *)
Theorem C10_next_in_range : forall p,  pst_ok p ->
  (forall p', next p = Ok p' -> pst_ok p' /\ p_off p' = p_scan p /\ p_src p' = p_src p /\ p_scan p <= p_scan p') /\
  (forall m a e, next p = Err m a e -> 0 <= a <= e /\ e <= Z.of_nat (length (p_src p))).
Proof. intros p H. split; [intros p'; apply next_ok; exact H | intros m a e; apply next_err; exact H]. Qed.

(* NOT proved (checked by the oracle on every generated and mutated pattern): "every error of parse/parseClass/
   parseEscape/parseQuantifier lies inside the pattern" for the whole parser; class_spec from the concrete syntax beyond
   the grammar of Lex/ClassText.v (non-ASCII literals, '.', \d \w \s \p{..} \x.. \u.. and octal escapes inside a class, a
   literal ']' in first position, deeper nesting) and print_parse are replaced by the specification evaluator
   Lex/RegexSpec.v, which is assembled from the operations proved above and compared with the implementation's AST at
   language level. *)

(* ---- the pinned tree violated the statement (repaired: see known_findings.txt) ---- *)
Example C10_pinned_hexval_refuted : exists c, ~ is_hex_digit c /\ hexval_pinned c <> -1.
Proof. exists 90. split; [unfold is_hex_digit; lia | vm_compute; discriminate]. Qed.

(* \x{100000041} accumulated with 32-bit wrap-around is 'A' *)
Example C10_pinned_accumulator_refuted :
  exists ds, Forall (fun d => 0 <= d < 16) ds /\ fold_left (fun r d => r * 16 + d) ds 0 > max_rune_u /\
             fold_left hex_acc_pinned ds 0 = 65.
Proof. exists [1; 0; 0; 0; 0; 0; 0; 4; 1]. split; [repeat constructor; lia | split; vm_compute; reflexivity]. Qed.

(* ---- non-vacuity ---- *)
Example C10_examples :
  wf_cs 0 [(48, 57); (65, 90)] /\
  new_charset [(97, 99); (48, 57); (98, 122); (58, 58)] = [(48, 58); (97, 122)] /\
  invert [(48, 57); (65, 90)] 255 = [(0, 47); (58, 64); (91, 255)] /\
  subtract [(48, 57); (65, 90)] [(50, 52); (57, 70)] = [(48, 49); (53, 56); (71, 90)] /\
  intersect [(48, 57); (65, 90)] [(50, 52); (57, 70)] = [(50, 52); (57, 57); (65, 70)] /\
  fold (fun c => if c =? 107 then 8490 else if c =? 8490 then 75 else if c =? 75 then 107 else c) 8 [(107, 107)] false
    = [(75, 75); (107, 107); (8490, 8490)] /\
  fold (fun c => if c =? 107 then 8490 else if c =? 8490 then 75 else if c =? 75 then 107 else c) 8 [(107, 107)] true
    = [(75, 75); (107, 107)].
Proof. vm_compute. repeat split; try reflexivity; try (intro H; discriminate H); try discriminate. Qed.

(* hypotheses of C10_fold_exact / C10_class_den_spec are satisfiable: the Kelvin-sign orbit k -> K(U+212A) -> K -> k *)
Example C10_fold_exact_hypotheses_met :
  let sf := fun c => if c =? 107 then 8490 else if c =? 8490 then 75 else if c =? 75 then 107 else c in
  (forall c, mem c [(107, 107)] = true -> closes sf 8 c) /\
  class_den sf true true false [(107, 107); (97, 99)] [[(98, 98)]] = [(0, 74); (76, 96); (98, 98); (100, 106); (108, 8489); (8491, 1114111)].
Proof.
  cbv zeta. split; [|vm_compute; reflexivity].
  intros c Hc. assert (c = 107) by (unfold mem, in_range in Hc; cbn in Hc; lia). subst c. exists 3%nat. split; [lia|reflexivity].
Qed.

Example C10_parse_examples :
  let sf := fun c : Z => c in let named := fun _ : list Z => @None (Z * table * table) in
  parse_regexp sf named [92; 120; 52; 49; 43] (mkOpts false false) = Ok (RRep 1 (-1) (RCC [(65, 65)] 0)) /\   (* \x41+ *)
  parse_regexp sf named [92; 120; 90; 49] (mkOpts false false) = Err E_escape 0 3 /\                            (* \xZ1 *)
  parse_regexp sf named [92; 120; 123; 49; 48; 48; 48; 48; 48; 48; 52; 49; 125] (mkOpts false false)
    = Err E_exceeds_maxrune 0 13 /\                                                                            (* \x{100000041} *)
  parse_regexp sf named [91; 98; 45; 97; 93] (mkOpts false false) = Err E_class_range 1 4.                     (* [b-a] *)
Proof. vm_compute. repeat split; reflexivity. Qed.

Print Assumptions C10_new_charset_spec.
Print Assumptions C10_invert_spec.
Print Assumptions C10_subtract_spec.
Print Assumptions C10_intersect_spec.
Print Assumptions C10_append_range_spec.
Print Assumptions C10_fold_sound_and_extensive.
Print Assumptions C10_fold_exact.
Print Assumptions C10_parse_class_is_class_den.
Print Assumptions C10_class_den_spec.
Print Assumptions C10_hexval_spec.
Print Assumptions C10_octval_spec.
Print Assumptions C10_hex_accumulator_exact.
Print Assumptions C10_next_in_range.
Print Assumptions C10_parse_class_of_print.
Print Assumptions C10_parse_class_rejects_descending.
Print Assumptions C10_init_state.
