(* C27 — Line diffs are correct and minimal.
   Model: Util/Diff.v (lcs with prefix/suffix trimming, trace, Myers' middle snake with the shared buffer,
   chunk merging, LineDiff's hunks).  Only statements, examples and Print Assumptions here. *)
From Coq Require Import List ZArith Bool.
From TM Require Import Util.Diff Util.Diff_proofs Util.Diff_lcs Util.Diff_dist Util.Diff_greedy Util.Diff_min Util.Diff_myers Util.Diff_total.
Import ListNotations.
Local Open Scope Z_scope.

(* A script accepted by script_ok really turns a into b. *)
Theorem C27_valid_script_applies :
  forall chunks a b, script_ok chunks a b = true -> apply_script chunks a b = b.
Proof. exact script_ok_applies. Qed.

(* For EVERY pair of sequences, whatever edit script the model of diff.lcs returns is a valid script. *)
Theorem C27_lcs_script_turns_a_into_b :
  forall a b chunks, lcs a b = LcsOk chunks -> script_ok chunks a b = true.
Proof. exact lcs_correct. Qed.

(* This does not depend on Myers' search: any middle-snake oracle whose snakes are equal runs will do. *)
Theorem C27_lcs_correct_for_any_sound_middle :
  forall mid a b chunks, mid_sound mid -> lcs_gen mid a b = LcsOk chunks -> script_ok chunks a b = true.
Proof. exact lcs_gen_correct. Qed.

(* Minimality: no valid script costs less than |a|+|b|-2*L(a,b), and that bound is attained, so a script is
   minimal iff its cost equals the bound.  The check evaluates cost = bound on every implementation output
   (lcs_len is the quadratic table, proved equal to L). *)
Theorem C27_no_script_is_cheaper_than_the_lcs_bound :
  forall chunks a b, script_ok chunks a b = true -> zlen a + zlen b - 2 * L a b <= cost chunks.
Proof. exact script_cost_lower_bound. Qed.

Theorem C27_lcs_bound_is_attained :
  forall a b, exists chunks, script_ok chunks a b = true /\ cost chunks = zlen a + zlen b - 2 * L a b.
Proof. exact lcs_bound_attained. Qed.

Theorem C27_quadratic_table_computes_L : forall a b, lcs_len a b = L a b.
Proof. exact lcs_len_spec. Qed.

(* Minimality of the algorithm itself (Myers' theorem for this implementation): for EVERY pair of sequences,
   whenever the model of diff.lcs (prefix/suffix trimming, trace, the real middle with the shared buffer
   threaded through the recursion, chunk merging) returns a script, its cost is exactly |a|+|b|-2*LCS(a,b),
   i.e. no valid script is cheaper (C27_no_script_is_cheaper_than_the_lcs_bound). *)
Theorem C27_script_minimal :
  forall a b chunks, lcs a b = LcsOk chunks -> cost chunks = zlen a + zlen b - 2 * L a b.
Proof. exact script_minimal. Qed.

Corollary C27_lcs_script_valid_and_minimal :
  forall a b chunks, lcs a b = LcsOk chunks ->
  script_ok chunks a b = true /\ forall chunks', script_ok chunks' a b = true -> cost chunks <= cost chunks'.
Proof. exact lcs_valid_and_minimal. Qed.

(* The middle-snake search: on inputs of length >= 2 with a large enough buffer, whatever snake the model of
   middle (forward and reverse furthest-reaching passes over the windows of diagonals, overlap tests in the
   shared buffer) returns splits the problem optimally, and the buffer keeps its length. *)
Theorem C27_middle_snake_is_optimal : mid_optimal middle.
Proof. exact middle_optimal. Qed.

(* middle is total: on inputs of length >= 2 with a large enough buffer it always returns a snake, i.e. its
   log.Fatal("no snake") branch is unreachable and the model's fuel suffices. *)
Theorem C27_middle_always_finds_a_snake :
  forall a b buf, 2 <= zlen a -> 2 <= zlen b -> 2 * (zlen a + zlen b + 2) <= zlen buf ->
  exists ai bi s buf', middle a b buf = MidFound ai bi s buf'.
Proof. exact middle_total. Qed.

(* ... and minimality holds for trace/lcs with ANY optimally splitting middle-snake oracle. *)
Theorem C27_lcs_minimal_for_any_optimal_middle :
  forall mid a b chunks, mid_optimal mid -> lcs_gen mid a b = LcsOk chunks ->
  cost chunks = zlen a + zlen b - 2 * L a b.
Proof. exact lcs_gen_minimal. Qed.

(* Myers' greedy lemma for this code: the value stored for diagonal k in round d (computed from the values of
   round d-1 on diagonals k-1 / k+1 and the snake) is the furthest point on k at edit distance <= d. *)
Theorem C27_forward_furthest_reaching :
  forall a b d k vm vp, 0 <= d -> - d <= k <= d -> (d = 0 -> vp = 0) ->
  (1 <= d -> - d < k -> Vf a b (d - 1) (k - 1) vm) ->
  (1 <= d -> k < d -> Vf a b (d - 1) (k + 1) vp) ->
  Vf a b d k (newx (zlen a) (zlen b) (condf a b) (S (length a + length b)) d k vm vp).
Proof. exact Vf_update. Qed.

(* L really is the length of a longest common subsequence (so the bound is the classical one). *)
Theorem C27_L_is_longest_common_subsequence :
  forall a b, (exists s, Sub s a /\ Sub s b /\ zlen s = L a b) /\
              (forall s, Sub s a -> Sub s b -> zlen s <= L a b).
Proof. exact L_is_lcs. Qed.

(* ---------- totality: log.Fatal / slice-bounds failures of trace and middle are unreachable ---------- *)
(* diff.go states the precondition of trace in a comment: "a and b don't have a common prefix or suffix".
   NoCommon a b: if both are non-empty, their first elements differ and their last elements differ. *)

(* The split (ai, bi, snake) that middle returns on such sequences of length >= 2 (Good): it lies inside the
   grid (0 <= ai, 0 <= bi, 0 <= snake, ai+snake <= |a|, bi+snake <= |b|: the slices a[:ai], a[ai+snake:], ...
   never panic), it is neither (0,0) nor (|a|,|b|) (the "no snake" log.Fatalf of trace is unreachable), and
   both a[:ai], b[:bi] and a[ai+snake:], b[bi+snake:] again have no common first / last element, so the
   precondition is an invariant of the recursion although trace itself never strips anything. *)
Theorem C27_middle_split_in_grid_progress_invariant :
  forall a b buf ai bi s buf', 2 <= zlen a -> 2 <= zlen b -> 2 * (zlen a + zlen b + 2) <= zlen buf ->
  NoCommon a b -> middle a b buf = MidFound ai bi s buf' ->
  zlen buf' = zlen buf /\
  (0 <= ai /\ 0 <= bi /\ 0 <= s /\ ai + s <= zlen a /\ bi + s <= zlen b /\
   ~ (ai = 0 /\ bi = 0) /\ ~ (ai = zlen a /\ bi = zlen b) /\
   (1 <= ai -> 1 <= bi -> elt a (ai - 1) <> elt b (bi - 1)) /\
   (ai + s < zlen a -> bi + s < zlen b -> elt a (ai + s) <> elt b (bi + s))).
Proof. exact middle_good. Qed.

(* trace is total under its documented precondition: fuel > |a|+|b| (each recursive call strictly decreases
   |a|+|b|) and the buffer lcs allocates suffice for every nested call. *)
Theorem C27_trace_total :
  forall fuel a b buf chunks,
  zlen a + zlen b < Z.of_nat fuel -> 2 * (zlen a + zlen b + 2) <= zlen buf -> NoCommon a b ->
  exists ret buf', trace middle fuel a b buf chunks = TraceOk ret buf' /\ zlen buf' = zlen buf.
Proof. exact trace_total. Qed.

(* what lcs passes to trace after trimming the common prefix and suffix satisfies the precondition *)
Theorem C27_lcs_establishes_trace_precondition :
  forall a b,
  let p := common_prefix a b in
  let ln := (Nat.min (length a) (length b) - p)%nat in
  let s := Nat.min ln (common_prefix (rev a) (rev b)) in
  NoCommon (firstn (length a - p - s) (skipn p a)) (firstn (length b - p - s) (skipn p b)).
Proof. exact trimmed_NoCommon. Qed.

(* lcs is total: for EVERY pair of sequences the model returns a script, never LcsFatal / LcsFuel. *)
Theorem C27_lcs_total : forall a b, exists chunks, lcs a b = LcsOk chunks.
Proof. exact lcs_total. Qed.

(* ... hence, unconditionally: lcs returns a valid script of minimum cost |a|+|b|-2*LCS(a,b). *)
Theorem C27_script_minimal_total :
  forall a b, exists chunks, lcs a b = LcsOk chunks /\ script_ok chunks a b = true /\
    cost chunks = zlen a + zlen b - 2 * L a b /\
    forall chunks', script_ok chunks' a b = true -> cost chunks <= cost chunks'.
Proof. exact script_minimal_total. Qed.

(* LineDiff on different texts always renders the hunks of such a script (its fallback branch is dead). *)
Theorem C27_line_diff_renders_the_lcs_script :
  forall a b, a <> b ->
  exists chunks, lcs a b = LcsOk chunks /\ script_ok chunks a b = true /\
    line_diff a b = Some (diff_loop chunks true a b 0 0 (mkHunk 1 1 0 0 []) []).
Proof. exact line_diff_total. Qed.

(* The rendered diff is empty exactly when the texts are equal. *)
Theorem C27_render_empty_iff_equal : forall a b, line_diff a b = None <-> a = b.
Proof.
  intros a b. unfold line_diff. destruct (seq_eqb a b) eqn:E.
  - apply seq_eqb_eq in E. tauto.
  - split; [destruct (lcs a b); discriminate|]. intro H. apply seq_eqb_eq in H. congruence.
Qed.

Example C27_examples :
  lcs [1; 2; 3; 4] [1; 3; 4; 5] = LcsOk [mkChunk 0 0 1; mkChunk 1 0 2; mkChunk 0 1 0] /\
  script_ok [mkChunk 0 0 1; mkChunk 1 0 2; mkChunk 0 1 0] [1; 2; 3; 4] [1; 3; 4; 5] = true /\
  lcs_len [1; 2; 3; 4] [1; 3; 4; 5] = 3 /\
  cost [mkChunk 0 0 1; mkChunk 1 0 2; mkChunk 0 1 0] = 4 + 4 - 2 * 3 /\
  (exists hs, line_diff [1; 2; 3; 4] [1; 3; 4; 5] = Some hs /\ apply_hunks hs [1; 2; 3; 4] 0 [] = Some [1; 3; 4; 5]).
Proof. vm_compute. repeat split; try reflexivity. eexists. split; reflexivity. Qed.

Print Assumptions C27_valid_script_applies.
Print Assumptions C27_lcs_script_turns_a_into_b.
Print Assumptions C27_lcs_correct_for_any_sound_middle.
Print Assumptions C27_no_script_is_cheaper_than_the_lcs_bound.
Print Assumptions C27_lcs_bound_is_attained.
Print Assumptions C27_quadratic_table_computes_L.
Print Assumptions C27_render_empty_iff_equal.
Print Assumptions C27_script_minimal.
Print Assumptions C27_lcs_script_valid_and_minimal.
Print Assumptions C27_middle_snake_is_optimal.
Print Assumptions C27_middle_always_finds_a_snake.
Print Assumptions C27_lcs_minimal_for_any_optimal_middle.
Print Assumptions C27_forward_furthest_reaching.
Print Assumptions C27_L_is_longest_common_subsequence.
Print Assumptions C27_middle_split_in_grid_progress_invariant.
Print Assumptions C27_trace_total.
Print Assumptions C27_lcs_establishes_trace_precondition.
Print Assumptions C27_lcs_total.
Print Assumptions C27_script_minimal_total.
Print Assumptions C27_line_diff_renders_the_lcs_script.
