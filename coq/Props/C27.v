(* C27 — Line diffs are correct and minimal.
   Model: Util/Diff.v (lcs with prefix/suffix trimming, trace, Myers' middle snake with the shared buffer,
   chunk merging, LineDiff's hunks).  Only statements, examples and Print Assumptions here. *)
From Coq Require Import List ZArith Bool.
From TM Require Import Util.Diff Util.Diff_proofs Util.Diff_lcs Util.Diff_dist Util.Diff_greedy Util.Diff_min Util.Diff_myers.
Import ListNotations.
Local Open Scope Z_scope.

(* A script accepted by script_ok really turns a into b. *)
Theorem C27_valid_script_applies :
  forall chunks a b, script_ok chunks a b = true -> apply_script chunks a b = b.
Proof. exact script_ok_applies. Qed.

(* For EVERY pair of sequences, whatever edit script the model of diff.lcs returns is a valid script. *)
Theorem C27_lcs_script_turns_a_into_b :
  forall a b chunks, lcs a b = LcsOk chunks -> script_ok chunks a b = true.
Proof. exact lcs_correct. Qed.

(* This does not depend on Myers' search: any middle-snake oracle whose snakes are equal runs will do. *)
Theorem C27_lcs_correct_for_any_sound_middle :
  forall mid a b chunks, mid_sound mid -> lcs_gen mid a b = LcsOk chunks -> script_ok chunks a b = true.
Proof. exact lcs_gen_correct. Qed.

(* Minimality: no valid script costs less than |a|+|b|-2*L(a,b), and that bound is attained, so a script is
   minimal iff its cost equals the bound.  The check evaluates cost = bound on every implementation output
   (lcs_len is the quadratic table, proved equal to L). *)
Theorem C27_no_script_is_cheaper_than_the_lcs_bound :
  forall chunks a b, script_ok chunks a b = true -> zlen a + zlen b - 2 * L a b <= cost chunks.
Proof. exact script_cost_lower_bound. Qed.

Theorem C27_lcs_bound_is_attained :
  forall a b, exists chunks, script_ok chunks a b = true /\ cost chunks = zlen a + zlen b - 2 * L a b.
Proof. exact lcs_bound_attained. Qed.

Theorem C27_quadratic_table_computes_L : forall a b, lcs_len a b = L a b.
Proof. exact lcs_len_spec. Qed.

(* Minimality of the algorithm itself (Myers' theorem for this implementation): for EVERY pair of sequences,
   whenever the model of diff.lcs (prefix/suffix trimming, trace, the real middle with the shared buffer
   threaded through the recursion, chunk merging) returns a script, its cost is exactly |a|+|b|-2*LCS(a,b),
   i.e. no valid script is cheaper (C27_no_script_is_cheaper_than_the_lcs_bound). *)
Theorem C27_script_minimal :
  forall a b chunks, lcs a b = LcsOk chunks -> cost chunks = zlen a + zlen b - 2 * L a b.
Proof. exact script_minimal. Qed.

Corollary C27_lcs_script_valid_and_minimal :
  forall a b chunks, lcs a b = LcsOk chunks ->
  script_ok chunks a b = true /\ forall chunks', script_ok chunks' a b = true -> cost chunks <= cost chunks'.
Proof. exact lcs_valid_and_minimal. Qed.

(* The middle-snake search: on inputs of length >= 2 with a large enough buffer, whatever snake the model of
   middle (forward and reverse furthest-reaching passes over the windows of diagonals, overlap tests in the
   shared buffer) returns splits the problem optimally, and the buffer keeps its length. *)
Theorem C27_middle_snake_is_optimal : mid_optimal middle.
Proof. exact middle_optimal. Qed.

(* middle is total: on inputs of length >= 2 with a large enough buffer it always returns a snake, i.e. its
   log.Fatal("no snake") branch is unreachable and the model's fuel suffices. *)
Theorem C27_middle_always_finds_a_snake :
  forall a b buf, 2 <= zlen a -> 2 <= zlen b -> 2 * (zlen a + zlen b + 2) <= zlen buf ->
  exists ai bi s buf', middle a b buf = MidFound ai bi s buf'.
Proof. exact middle_total. Qed.

(* ... and minimality holds for trace/lcs with ANY optimally splitting middle-snake oracle. *)
Theorem C27_lcs_minimal_for_any_optimal_middle :
  forall mid a b chunks, mid_optimal mid -> lcs_gen mid a b = LcsOk chunks ->
  cost chunks = zlen a + zlen b - 2 * L a b.
Proof. exact lcs_gen_minimal. Qed.

(* Myers' greedy lemma for this code: the value stored for diagonal k in round d (computed from the values of
   round d-1 on diagonals k-1 / k+1 and the snake) is the furthest point on k at edit distance <= d. *)
Theorem C27_forward_furthest_reaching :
  forall a b d k vm vp, 0 <= d -> - d <= k <= d -> (d = 0 -> vp = 0) ->
  (1 <= d -> - d < k -> Vf a b (d - 1) (k - 1) vm) ->
  (1 <= d -> k < d -> Vf a b (d - 1) (k + 1) vp) ->
  Vf a b d k (newx (zlen a) (zlen b) (condf a b) (S (length a + length b)) d k vm vp).
Proof. exact Vf_update. Qed.

(* L really is the length of a longest common subsequence (so the bound is the classical one). *)
Theorem C27_L_is_longest_common_subsequence :
  forall a b, (exists s, Sub s a /\ Sub s b /\ zlen s = L a b) /\
              (forall s, Sub s a -> Sub s b -> zlen s <= L a b).
Proof. exact L_is_lcs. Qed.

(* Still NOT proved: totality of trace/lcs, i.e. that lcs never returns LcsFatal / LcsFuel.  middle always
   finds a snake (above); missing is that its coordinates always pass trace's slice-bounds and
   "no snake" (no-progress) checks, and trace's fuel arithmetic.  The check compares the model's result
   (including these outcomes) with the implementation on every generated pair. *)

(* The rendered diff is empty exactly when the texts are equal. *)
Theorem C27_render_empty_iff_equal : forall a b, line_diff a b = None <-> a = b.
Proof.
  intros a b. unfold line_diff. destruct (seq_eqb a b) eqn:E.
  - apply seq_eqb_eq in E. tauto.
  - split; [destruct (lcs a b); discriminate|]. intro H. apply seq_eqb_eq in H. congruence.
Qed.

Example C27_examples :
  lcs [1; 2; 3; 4] [1; 3; 4; 5] = LcsOk [mkChunk 0 0 1; mkChunk 1 0 2; mkChunk 0 1 0] /\
  script_ok [mkChunk 0 0 1; mkChunk 1 0 2; mkChunk 0 1 0] [1; 2; 3; 4] [1; 3; 4; 5] = true /\
  lcs_len [1; 2; 3; 4] [1; 3; 4; 5] = 3 /\
  cost [mkChunk 0 0 1; mkChunk 1 0 2; mkChunk 0 1 0] = 4 + 4 - 2 * 3 /\
  (exists hs, line_diff [1; 2; 3; 4] [1; 3; 4; 5] = Some hs /\ apply_hunks hs [1; 2; 3; 4] 0 [] = Some [1; 3; 4; 5]).
Proof. vm_compute. repeat split; try reflexivity. eexists. split; reflexivity. Qed.

Print Assumptions C27_valid_script_applies.
Print Assumptions C27_lcs_script_turns_a_into_b.
Print Assumptions C27_lcs_correct_for_any_sound_middle.
Print Assumptions C27_no_script_is_cheaper_than_the_lcs_bound.
Print Assumptions C27_lcs_bound_is_attained.
Print Assumptions C27_quadratic_table_computes_L.
Print Assumptions C27_render_empty_iff_equal.
Print Assumptions C27_script_minimal.
Print Assumptions C27_lcs_script_valid_and_minimal.
Print Assumptions C27_middle_snake_is_optimal.
Print Assumptions C27_middle_always_finds_a_snake.
Print Assumptions C27_lcs_minimal_for_any_optimal_middle.
Print Assumptions C27_forward_furthest_reaching.
Print Assumptions C27_L_is_longest_common_subsequence.
