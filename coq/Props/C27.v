(* C27 — Line diffs are correct and minimal.
   Model: Util/Diff.v (lcs with prefix/suffix trimming, trace, Myers' middle snake with the shared buffer,
   chunk merging, LineDiff's hunks).  Only statements, examples and Print Assumptions here. *)
From Coq Require Import List ZArith Bool.
From TM Require Import Util.Diff Util.Diff_proofs.
Import ListNotations.
Local Open Scope Z_scope.

(* A script accepted by script_ok really turns a into b. *)
Theorem C27_valid_script_applies :
  forall chunks a b, script_ok chunks a b = true -> apply_script chunks a b = b.
Proof. exact script_ok_applies. Qed.

(* For EVERY pair of sequences, whatever edit script the model of diff.lcs returns is a valid script. *)
Theorem C27_lcs_script_turns_a_into_b :
  forall a b chunks, lcs a b = LcsOk chunks -> script_ok chunks a b = true.
Proof. exact lcs_correct. Qed.

(* This does not depend on Myers' search: any middle-snake oracle whose snakes are equal runs will do. *)
Theorem C27_lcs_correct_for_any_sound_middle :
  forall mid a b chunks, mid_sound mid -> lcs_gen mid a b = LcsOk chunks -> script_ok chunks a b = true.
Proof. exact lcs_gen_correct. Qed.

(* Minimality: no valid script costs less than |a|+|b|-2*L(a,b), and that bound is attained, so a script is
   minimal iff its cost equals the bound.  The check evaluates cost = bound on every implementation output
   (lcs_len is the quadratic table, proved equal to L). *)
Theorem C27_no_script_is_cheaper_than_the_lcs_bound :
  forall chunks a b, script_ok chunks a b = true -> zlen a + zlen b - 2 * L a b <= cost chunks.
Proof. exact script_cost_lower_bound. Qed.

Theorem C27_lcs_bound_is_attained :
  forall a b, exists chunks, script_ok chunks a b = true /\ cost chunks = zlen a + zlen b - 2 * L a b.
Proof. exact lcs_bound_attained. Qed.

Theorem C27_quadratic_table_computes_L : forall a b, lcs_len a b = L a b.
Proof. exact lcs_len_spec. Qed.

(* NOT proved (partial): that the model of diff.lcs always attains the bound (Myers' theorem) and never
   reaches the log.Fatal branches; both are checked on every generated pair instead. *)

(* The rendered diff is empty exactly when the texts are equal. *)
Theorem C27_render_empty_iff_equal : forall a b, line_diff a b = None <-> a = b.
Proof.
  intros a b. unfold line_diff. destruct (seq_eqb a b) eqn:E.
  - apply seq_eqb_eq in E. tauto.
  - split; [destruct (lcs a b); discriminate|]. intro H. apply seq_eqb_eq in H. congruence.
Qed.

Example C27_examples :
  lcs [1; 2; 3; 4] [1; 3; 4; 5] = LcsOk [mkChunk 0 0 1; mkChunk 1 0 2; mkChunk 0 1 0] /\
  script_ok [mkChunk 0 0 1; mkChunk 1 0 2; mkChunk 0 1 0] [1; 2; 3; 4] [1; 3; 4; 5] = true /\
  lcs_len [1; 2; 3; 4] [1; 3; 4; 5] = 3 /\
  cost [mkChunk 0 0 1; mkChunk 1 0 2; mkChunk 0 1 0] = 4 + 4 - 2 * 3 /\
  (exists hs, line_diff [1; 2; 3; 4] [1; 3; 4; 5] = Some hs /\ apply_hunks hs [1; 2; 3; 4] 0 [] = Some [1; 3; 4; 5]).
Proof. vm_compute. repeat split; try reflexivity. eexists. split; reflexivity. Qed.

Print Assumptions C27_valid_script_applies.
Print Assumptions C27_lcs_script_turns_a_into_b.
Print Assumptions C27_lcs_correct_for_any_sound_middle.
Print Assumptions C27_no_script_is_cheaper_than_the_lcs_bound.
Print Assumptions C27_lcs_bound_is_attained.
Print Assumptions C27_quadratic_table_computes_L.
Print Assumptions C27_render_empty_iff_equal.
