(* C12 — Tokenization always progresses, tiles the input and tracks lines.
   Model: Lex/LexerRT.v (go_lexer.go.tmpl: Next with the restart loop, handleInvalidToken, rewind, line and
   column bookkeeping). *)
From Coq Require Import List ZArith Bool.
From TM Require Import Lex.Tables Lex.Scan Lex.LexerRT Lex.LexerRT_proofs.
Import ListNotations.
Local Open Scope Z_scope.

(* forced progress (partial): the step handleInvalidToken takes when nothing was consumed — rewind(scanOffset), i.e.
   reading one character — never moves backwards and moves strictly forward unless the input is exhausted, for every
   byte string (invalid UTF-8 included) in rune and byte mode. *)
Theorem C12_forced_step_progress_partial : forall bytes scan rest,
  let '(ch, scan', rest') := read_char bytes scan rest in
  (rest = [] -> ch = -1 /\ scan' = scan) /\
  (rest <> [] -> scan < scan' /\ scan' + Z.of_nat (length rest') = scan + Z.of_nat (length rest)).
Proof. exact read_char_progress. Qed.

(* line bookkeeping (partial): counting newlines while advancing and recounting a slice on rewind agree because the
   count is additive; the line offset computed by rewind (1 + LastIndexByte) lies after the last newline. *)
Theorem C12_newline_count_additive : forall a b, count_nl (a ++ b) = count_nl a + count_nl b.
Proof. exact count_nl_app. Qed.

Theorem C12_line_offset_after_last_newline : forall s i acc, 0 <= acc <= i ->
  let r := after_last_nl s i acc in
  acc <= r <= i + Z.of_nat (length s) /\ (count_nl s = 0 -> r = acc) /\ (count_nl s > 0 -> i < r).
Proof. exact after_last_nl_spec. Qed.

(* NOT proved (partial): next_terminates, tokens_finite_and_end_in_eoi, eoi_repeats, non_eoi_tokens_nonempty,
   tokens_ordered_disjoint, gaps_are_space_matches, line_column_of_first_byte for the whole Next loop.  These are
   checked by the monitor on every run: generated lexers of random grammars (vs the LexerRT model and vs the
   statement itself) and the five shipped lexers on hostile byte strings.  The model makes non-termination
   observable: it runs out of fuel exactly where the generated lexer hangs (F7). *)

(* the model on the tables of /[ \t\n]+/ (space) with invalid_token = 1: "+\n+" gives invalid tokens at
   (line 1, column 1) and (line 2, column 1), then end-of-input three times *)
Example C12_model_example :
  let lx := mkLexer (mkTables false [(0, 1); (9, 2); (11, 1); (32, 2); (33, 1)] 3 [0] [-2; -2; 1; -3; -3; 1] [])
                    [] [2] 1 [] [] true true in
  run_lexer lx 0 [43; 10; 43] true =
    [[1; 0; 1; 1; 1]; [1; 2; 3; 2; 1]; [0; 3; 3; 2; 2]; [0; 3; 3; 2; 2]; [0; 3; 3; 2; 2]].
Proof. vm_compute. reflexivity. Qed.

Print Assumptions C12_forced_step_progress_partial.
Print Assumptions C12_newline_count_additive.
Print Assumptions C12_line_offset_after_last_newline.
