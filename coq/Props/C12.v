(* C12 — Tokenization always progresses, tiles the input and tracks lines.
   Model: Lex/LexerRT.v (go_lexer.go.tmpl: Next with the restart loop, the DFA loop with end-of-input moves and
   checkpoints, handleInvalidToken, rewind, line and column bookkeeping); Lex/LexerWf.v (wf_lexer_tables, lex_all).
   All theorems: for EVERY lexer description accepted by the boolean wf_lexer_tables — evaluated on the real tables of
   every generated lexer and (structural part) every shipped lexer on each run — every valid start condition and
   EVERY byte string (bytes_ok: values 0..255, invalid UTF-8 included). *)
From Coq Require Import List ZArith Bool Lia.
From TM Require Import Lex.Tables Lex.Scan Lex.LexerRT Lex.LexerRT_proofs Lex.LexerWf Lex.LexerWf_proofs.
From TM Require Import Lex.Deriv Lex.DerivSem Lex.Bisim Lex.LexerSpec Lex.LexerSpec_proofs.
Import ListNotations.
Local Open Scope Z_scope.

(* linv lx l: the lexer state l is consistent with its source: 0 <= offset <= len, (ch, scanOffset) is the character
   read at offset, line = 1 + newlines before offset, lineOffset = offset after the last newline before offset.
   Init establishes it: *)
Theorem C12_init_invariant : forall lx src, bytes_ok src ->
  linv lx (init lx src) /\ l_src (init lx src) = src /\ l_off (init lx src) = 0.
Proof. exact init_ok. Qed.

(* (a) next_terminates + (b) progress + (d) line/column of the first byte.  One call of Next with fuel
   1 + remaining bytes (next_fuel) returns — running out of fuel is impossible — and the state l' after it satisfies:
   invariant kept, same source, previous offset <= tokenOffset' <= offset' (tokens ordered, not overlapping),
   the token is non-empty unless it is end-of-input (token 0) at the end of the input,
   Line() = 1 + number of '\n' before tokenOffset', Column() = tokenOffset' - (offset after the last '\n' before it) + 1. *)
Theorem C12_next_terminates_and_progresses : forall lx sc l,
  wf_lexer_tables lx = true -> In (nthZ (state_map (lx_tables lx)) sc) (state_map (lx_tables lx)) -> linv lx l ->
  exists tok l', next_tok (next_fuel l) lx sc l = Some (tok, l') /\
    linv lx l' /\ l_src l' = l_src l /\ l_off l <= l_tokoff l' /\ l_tokoff l' <= l_off l' /\
    (l_tokoff l' < l_off l' \/ (tok = 0 /\ l_off l' = slen l' /\ l_tokoff l' = l_off l')) /\
    (lx_token_line lx = true -> l_tokline l' = 1 + count_nl (firstn (Z.to_nat (l_tokoff l')) (l_src l'))) /\
    (lx_token_line lx && lx_token_column lx = true ->
       l_tokcol l' = l_tokoff l' - after_last_nl (firstn (Z.to_nat (l_tokoff l')) (l_src l')) 0 0 + 1).
Proof. intros lx sc l Hwf Hsc Hl. exact (next_terminates lx Hwf sc Hsc l Hl). Qed.

(* eoi_repeats: once the offset is at the end, Next answers end-of-input at [len, len) and stays in such a state *)
Theorem C12_eoi_repeats : forall lx sc l,
  wf_lexer_tables lx = true -> In (nthZ (state_map (lx_tables lx)) sc) (state_map (lx_tables lx)) ->
  linv lx l -> l_off l = slen l ->
  exists l', next_tok (next_fuel l) lx sc l = Some (0, l') /\ linv lx l' /\ l_src l' = l_src l /\
             l_off l' = slen l' /\ l_tokoff l' = slen l'.
Proof. intros lx sc l Hwf Hsc. exact (eoi_repeats lx Hwf sc Hsc l). Qed.

(* (c) tokens_finite_and_end_in_eoi + tiling.  Iterating Next from any consistent state ends with an end-of-input
   token after at most 1 + remaining bytes calls; the observed records [token; start; end; line; column] satisfy
   stream_ok: every token but the last is non-zero and non-empty (start < end), starts at or after the end of its
   predecessor, the last one is token 0, and every record carries the line / column of its first byte. *)
Theorem C12_tokens_finite_and_end_in_eoi : forall lx sc src,
  wf_lexer_tables lx = true -> In (nthZ (state_map (lx_tables lx)) sc) (state_map (lx_tables lx)) -> bytes_ok src ->
  exists toks, lex_all (S (length src)) lx sc (init lx src) = Some toks /\ stream_ok lx src 0 toks.
Proof.
  intros lx sc src Hwf Hsc Hsrc. destruct (init_ok lx src Hsrc) as (Hi & Hs & Ho).
  destruct (tokens_finite_and_end_in_eoi lx Hwf sc Hsc (S (length src)) (init lx src)) as (toks & E & Hok).
  - unfold remaining, slen. rewrite Hs, Ho. apply Nat.lt_succ_r. rewrite Z.sub_0_r, Nat2Z.id. apply Nat.le_refl.
  - exact Hi.
  - exists toks. rewrite Hs, Ho in Hok. split; assumption.
Qed.

(* the function that is extracted and compared with the generated lexers never reports "out of fuel" (-3) *)
Theorem C12_model_never_out_of_fuel : forall lx sc src bom,
  wf_lexer_tables lx = true -> In (nthZ (state_map (lx_tables lx)) sc) (state_map (lx_tables lx)) -> bytes_ok src ->
  ~ In [-3] (run_lexer lx sc src bom).
Proof. intros lx sc src bom Hwf Hsc. exact (run_lexer_never_out_of_fuel lx Hwf sc Hsc src bom). Qed.

(* building blocks kept from round 1 *)
Theorem C12_forced_step_progress : forall bytes scan rest,
  let '(ch, scan', rest') := read_char bytes scan rest in
  (rest = [] -> ch = -1 /\ scan' = scan) /\
  (rest <> [] -> scan < scan' /\ scan' + Z.of_nat (length rest') = scan + Z.of_nat (length rest)).
Proof. exact read_char_progress. Qed.

Theorem C12_newline_count_additive : forall a b, count_nl (a ++ b) = count_nl a + count_nl b.
Proof. exact count_nl_app. Qed.

(* gaps_are_space_matches.  space_gap a b (Lex/LexerSpec.v): [a, b) is cut into pieces; each piece is the first i
   symbols of the rest of the source at its start (decoded in context, as the lexer reads them; at the end of the source
   followed by k <= 4 end markers) and is MATCHED (DerivSem.matches, the declarative semantics of C09) by an active rule
   whose action — specialised by the keyword switch when it is a class action — is a space action.
   For EVERY lexer in rule-token mode accepted by wf_lexer_tables, check_tables and kw_targets_ok whose tables are
   certified against the rules of the start condition (C09: check_bisim = 0, see C11_check_bisim_certifies), and EVERY
   consistent state: the bytes between the offset before a call of Next (= the end of the previous token) and the start
   of the returned token are such a gap; and so is every gap of the whole stream from Init. *)
Theorem C12_gap_before_token_is_space_matches : forall lx sc rules l,
  wf_lexer_tables lx = true -> check_tables (lx_tables lx) = true -> kw_targets_ok lx = true -> lx_rule_token lx <> [] ->
  In (nthZ (state_map (lx_tables lx)) sc) (state_map (lx_tables lx)) ->
  certified (lx_tables lx) sc rules -> linv lx l ->
  exists tok l', next_tok (next_fuel l) lx sc l = Some (tok, l') /\
    space_gap lx (kwf_switch lx) (fun a => a) rules (l_src l) (l_off l) (l_tokoff l').
Proof. exact gap_before_token. Qed.

Theorem C12_gaps_are_space_matches : forall lx sc rules src,
  wf_lexer_tables lx = true -> check_tables (lx_tables lx) = true -> kw_targets_ok lx = true -> lx_rule_token lx <> [] ->
  In (nthZ (state_map (lx_tables lx)) sc) (state_map (lx_tables lx)) -> certified (lx_tables lx) sc rules -> bytes_ok src ->
  exists toks, lex_all (S (length src)) lx sc (LexerRT.init lx src) = Some toks /\
    stream_gaps lx (kwf_switch lx) (fun a => a) rules src 0 toks.
Proof. exact gaps_are_space_matches. Qed.

(* a gap is inhabited: " " before "a" in the example lexer of C11 (rule 2 = / +/ is space) *)
Example C12_gap_example :
  let t := mkTables false [(0, 1); (32, 2); (33, 1); (97, 3); (98, 1)] 4 [0] [-1; -1; 1; 2; -3; -3; 1; -3; -4; -4; -4; -4] [] in
  let lx := mkLexer t [1; 0; 2; 3] [2] 1 [] [] true true in
  let rules := [(Rep 1 (-1) (Sym [(32, 32)]), 2, 0); (Sym [(97, 97)], 3, 0)] in
  space_gap lx (kwf_switch lx) (fun a => a) rules [32; 97] 0 1.
Proof.
  cbv zeta. eapply (SG_cons _ _ _ _ _ 0 1 _ 2 0 1%nat 0%nat).
  - left. reflexivity.
  - vm_compute. repeat split; try lia.
  - apply Deriv_proofs.derivs_nullable. reflexivity.
  - reflexivity.
  - apply SG_nil.
Qed.

(* NOT proved (partial): the same for lexers with inlined rule actions (see C11), "end-of-input is returned only at the
   end" (a rule may map to token 0), and the action contract for hand-written actions of the tm/js/test lexers (their
   streams are monitored; test.tm's inMultiLine condition relies on its action to leave the state at end-of-input,
   so only the structural part wf_tables is demanded from lexers with actions). *)

(* non-vacuity: the tables of /[ \t\n]+/ (space) with invalid_token = 1 are well-formed; "+\n+" *)
Definition ex_lx : lexer :=
  mkLexer (mkTables false [(0, 1); (9, 2); (11, 1); (32, 2); (33, 1)] 3 [0] [-2; -2; 1; -3; -3; 1] [])
          [] [2] 1 [] [] true true.

Example C12_hypotheses_met :
  wf_lexer_tables ex_lx = true /\ In (nthZ (state_map (lx_tables ex_lx)) 0) (state_map (lx_tables ex_lx)) /\
  lex_all 4 ex_lx 0 (init ex_lx [43; 10; 43]) = Some [[1; 0; 1; 1; 1]; [1; 2; 3; 2; 1]; [0; 3; 3; 2; 2]] /\
  run_lexer ex_lx 0 [43; 10; 43] true =
    [[1; 0; 1; 1; 1]; [1; 2; 3; 2; 1]; [0; 3; 3; 2; 2]; [0; 3; 3; 2; 2]; [0; 3; 3; 2; 2]].
Proof. vm_compute. repeat split; try reflexivity. left. reflexivity. Qed.

(* an end-of-input self-loop (state 1 moves to itself on the end marker: /x{eoi}+/, F7) is rejected by the predicate *)
Example C12_eoi_cycle_rejected :
  wf_lexer_tables (mkLexer (mkTables false [(0, 1); (120, 2); (121, 1)] 3 [0] [-1; -1; 1; 1; -2; -2] []) [] [] 1 [] [] true true) = false.
Proof. vm_compute. reflexivity. Qed.

Print Assumptions C12_init_invariant.
Print Assumptions C12_next_terminates_and_progresses.
Print Assumptions C12_eoi_repeats.
Print Assumptions C12_tokens_finite_and_end_in_eoi.
Print Assumptions C12_model_never_out_of_fuel.
Print Assumptions C12_forced_step_progress.
Print Assumptions C12_newline_count_additive.
Print Assumptions C12_gap_before_token_is_space_matches.
Print Assumptions C12_gaps_are_space_matches.
