(* C15 — Token sets equal their fixpoint definitions.
   Models: Syn/Sets.v (syntax/nullable.go, syntax/set.go: rules, instantiate/translate/queue, on top of
   Util/Closure.v), Syn/SetsSpec.v (declarative definitions + naive executable specification).
   Lemmas: Syn/Sets_proofs.v, Syn/SetsSpec_proofs.v. *)
From Coq Require Import List ZArith Bool.
From TM Require Import Gram.Cfg Syn.Expr Syn.ExtLang Syn.Sets Syn.SetsSpec Syn.Sets_proofs Syn.SetsSpec_proofs Syn.SetsSpec_proofs2 Syn.SetsSpec_proofs3.
From TM Require Util.IntSet Util.IntSet_proofs.
From TM Require Import Util.Graph Util.GraphSpec Util.GraphSpec_proofs Util.Closure Util.ClosureCert
  Util.ClosureSem Util.Closure_proofs Util.Closure_proofs3 Util.Closure_proofs4 Syn.Sets_closure.
Notation intset := IntSet.intset.
Notation mkIntSet := IntSet.mkIntSet.
Notation set_den_of := IntSet_proofs.den.
Notation set_wf := IntSet_proofs.wf.
Import ListNotations.
Local Open Scope Z_scope.

(* STATUS.
   PROVED (universal, this round):
     - the closure solver (Util/Closure.v: Tarjan order, union / slow intersection branch, complements of solved
       components) returns THE least solution: C15_closure_least_solution (stable = least solution of its own
       reduct), C15_closure_solution_is_least_and_unique (equations hold, least, unique);
     - self_complement_rejected for the solver: the reported nodes are exactly the complements that depend on
       themselves (C15_closure_self_complement_rejected);
     - lifted through the model of ResolveSets: a SetsOk result is the unique least solution of the equation
       system the model generated, a SetsErr result lists exactly the generated complements on cycles
       (C15_sets_least_solution_partial, C15_self_complement_rejected).
     Side condition of these theorems: the proved-sound executable certificate ClosureCert.closure_certb (node list
     as Closure.Add/Intersect/Complement build it; GraphSpec.check_scc / check_onstack accept the output of the
     Tarjan model), evaluated on every generated case by the glue (Tarjan itself is not proved in Coq).
     - after_err: the set the compiler adds is follow(error); on plain grammars its proved evaluation is exactly
       follow_in error and IsRecovering <-> it is non-empty (C15_after_err_partial).
   STILL OPEN (full statement):
     sets_exact:  resolve_sets T vals sets inputs = SetsOk ts ->
                  forall i a, In a (nth i ts []) <-> 0 <= a < T /\ set_den_full (reachable rules) sets (nth i sets) a
     where set_den_full extends set_den to named (mutually recursive) sets and set nonterminals.  Missing link: the
     demand-driven generation (instantiate / translate / process_key / queue_loop) produces a system whose least
     solution at the node of (op, sym) is op_in op sym -- checked per run against the eagerly generated system
     (spec_sets) and, for closed expressions over plain rules, against the proved evaluation eval_set.
   CHECKED PER RUN: model = syntax.ResolveSets (sets, rewritten set nonterminals, offending complements);
   implementation's sets = naive stratified fixpoint of the eagerly generated declarative system; for plain queries
   also = the proved tables; the certificate sets_certb holds; the same through compiler.Compile. *)

(* ---- (a) least solution of the closure solver ---- *)
Theorem C15_closure_least_solution :
  forall nodes,
    nodes_wf nodes -> tarjan_cert (closure_graph nodes) (tarjan (closure_graph nodes)) ->
    (forall v, ~ compl_on_cycle nodes v) ->
    c_oof (compute nodes) = false ->
    c_err (compute nodes) = [] /\ (forall v, set_wf (val_at (compute nodes) v)) /\
    stable_solution nodes (sol_of (compute nodes)).
Proof. exact compute_least_solution. Qed.

(* what "stable solution" means: every equation holds; it is below every valuation closed under the equations
   (complement operands fixed); it is the only one *)
Theorem C15_closure_solution_is_least_and_unique :
  forall nodes sol, nodes_wf nodes -> stable_solution nodes sol ->
    (forall v x, (v < length nodes)%nat -> eqn_holds nodes sol v x) /\
    (forall sol', pre_solution nodes sol sol' -> forall v x, (v < length nodes)%nat -> sol v x -> sol' v x) /\
    (forall out sol2, tarjan_cert (closure_graph nodes) out -> (forall v, ~ compl_on_cycle nodes v) ->
        stable_solution nodes sol2 -> forall v x, (v < length nodes)%nat -> (sol v x <-> sol2 v x)).
Proof.
  intros nodes sol Hwf Hs. split; [exact (stable_is_solution nodes sol Hwf Hs)|]. split.
  - intros sol' Hp. exact (stable_is_least nodes sol sol' Hs Hp).
  - intros out sol2 Hc Hn H2. exact (stable_unique nodes out sol sol2 Hwf Hc Hn Hs H2).
Qed.

(* the executable certificate establishes the two side conditions *)
Theorem C15_closure_certificate_sound :
  forall nodes, closure_certb nodes = true ->
    nodes_wf nodes /\ tarjan_cert (closure_graph nodes) (tarjan (closure_graph nodes)).
Proof. exact closure_certb_sound. Qed.

(* ---- (b) self_complement_rejected: the solver reports exactly the complements that depend on themselves ---- *)
Theorem C15_closure_self_complement_rejected :
  forall nodes,
    nodes_wf nodes -> tarjan_cert (closure_graph nodes) (tarjan (closure_graph nodes)) ->
    (forall u, In u (c_err (compute nodes)) <-> compl_on_cycle nodes u) /\
    (c_err (compute nodes) <> [] <-> exists v, compl_on_cycle nodes v).
Proof. intros nodes Hwf Hc. exact (conj (compute_errors_exact nodes Hwf Hc) (compute_error_iff_cycle nodes Hwf Hc)). Qed.

(* ---- (c) through the model of ResolveSets ---- *)
Theorem C15_sets_least_solution_partial :
  forall T vals sets inputs ts, sets <> [] ->
    sets_certb T vals sets inputs = true ->
    resolve_sets T vals sets inputs = SetsOk ts ->
    let nodes := e_nodes (snd (resolve_est T vals sets inputs)) in
    let result := fst (resolve_est T vals sets inputs) in
    exists vals_of : nat -> intset,
      stable_solution nodes (fun v x => set_den_of (vals_of v) x) /\
      (forall sol, stable_solution nodes sol -> forall v x, (v < length nodes)%nat -> (sol v x <-> set_den_of (vals_of v) x)) /\
      (forall v, ~ compl_on_cycle nodes v) /\
      ts = map (fun v => set_terminals T (vals_of v)) result /\
      forall i a, (i < length result)%nat -> (In a (nth i ts []) <-> in_terms T (vals_of (nth i result O)) a).
Proof. exact resolve_sets_ok_least. Qed.

Theorem C15_self_complement_rejected :
  forall T vals sets inputs, sets <> [] ->
    sets_certb T vals sets inputs = true ->
    let nodes := e_nodes (snd (resolve_est T vals sets inputs)) in
    let compl := e_compl (snd (resolve_est T vals sets inputs)) in
    (forall ids, resolve_sets T vals sets inputs = SetsErr ids ->
       exists errs, errs <> [] /\ ids = map (fun v => compl_id v compl) errs /\
                    forall u, In u errs <-> compl_on_cycle nodes u) /\
    ((exists ids, resolve_sets T vals sets inputs = SetsErr ids) \/ resolve_sets T vals sets inputs = SetsOof
       <-> (exists u, compl_on_cycle nodes u) \/ resolve_sets T vals sets inputs = SetsOof).
Proof. exact resolve_sets_err_cycle. Qed.

(* ---- (d) afterErr ---- *)
Theorem C15_after_err_partial :
  forall T rules tb err,
    (forall r, In r rules -> T <= fst r) -> all_tables T rules = Some tb ->
    (forall a, set_den T rules (after_err_set err) a <-> follow_in T rules err a) /\
    (forall a, In a (eval_set T tb (after_err_set err)) <-> (0 <= a < T /\ follow_in T rules err a)) /\
    (is_recovering (eval_set T tb (after_err_set err)) = true <-> exists a, 0 <= a < T /\ follow_in T rules err a).
Proof. exact after_err_exact. Qed.

(* nullable.go: isNullable is exact w.r.t. the denotation of the notation (C13's [den]) *)
Theorem C15_is_nullable_decides_empty :
  forall T rho setden nl,
    (forall s, mem s nl = true <-> (T <= s /\ rho s [])) ->
    forall e, nullable_scope e = true ->
      (is_nullable nl e = true <-> den T rho setden e []).
Proof. exact is_nullable_exact. Qed.

(* the oracle's tables are the inductive definitions, for all five operators *)
Theorem C15_sets_exact_partial :
  forall T rules nl,
    spec_nullable rules = Some nl ->
    (forall r, In r rules -> T <= fst r) ->
    (forall X, mem X nl = true <-> nullable_in rules X) /\
    (forall t, spec_first T nl rules = Some t -> forall s a, mem a (sym_val T t s) = true <-> first_in T rules s a) /\
    (forall t, spec_last T nl rules = Some t -> forall s a, mem a (sym_val T t s) = true <-> last_in T rules s a) /\
    (forall t, spec_any T rules = Some t -> forall s a, mem a (sym_val T t s) = true <-> any_in T rules s a) /\
    (forall ft t, spec_first T nl rules = Some ft -> spec_follow T nl ft rules = Some t ->
                  forall s a, mem a (tget t s) = true <-> follow_in T rules s a) /\
    (forall lt t, spec_last T nl rules = Some lt -> spec_precede T nl lt rules = Some t ->
                  forall s a, mem a (tget t s) = true <-> precede_in T rules s a).
Proof.
  intros T rules nl Hn Hl. pose proof (spec_nullable_exact rules nl Hn) as H. split; [exact H|]. split; [|split; [|split; [|split]]].
  - intros t Ht. exact (spec_first_exact T rules nl H Hl t Ht).
  - intros t Ht. exact (spec_last_exact T rules nl H Hl t Ht).
  - intros t Ht. exact (spec_any_exact T rules Hl t Ht).
  - intros ft t Hf Ht. exact (spec_follow_exact T rules nl H ft (spec_first_exact T rules nl H Hl ft Hf) t Ht).
  - intros lt t Hlt Ht. exact (spec_precede_exact T rules nl lt t H Hl (spec_last_exact T rules nl H Hl lt Hlt) Ht).
Qed.

(* set expressions without named sets over a plain grammar: the evaluation from the proved tables (used as the
   second oracle) is the declarative meaning: union / intersection / complement of any/first/last/precede/follow *)
Theorem C15_closed_sets_exact :
  forall T rules tb,
    (forall r, In r rules -> T <= fst r) ->
    all_tables T rules = Some tb ->
    forall t, closed_tset t = true -> forall a, In a (eval_set T tb t) <-> (0 <= a < T /\ set_den T rules t a).
Proof. exact eval_set_exact. Qed.

(* non-vacuity.  terminals a b c = 0 1 2;  N0 (3): N1 a | b ;  N1 (4): %empty | c N1 ;  input N0 *)
Definition ex_vals : list expr :=
  [EChoice [ESeq [ERef 4 []; ERef 0 []]; ERef 1 []]; EChoice [EEmpty; ESeq [ERef 2 []; ERef 4 []]]].
Definition ex_rules : list prule := [(3, [4; 0]); (3, [1]); (4, []); (4, [2; 4])].

Example C15_example_tables :
  spec_nullable ex_rules = Some [4] /\
  spec_first 3 [4] ex_rules = Some [(3, [0; 1; 2]); (4, [2])] /\
  spec_last 3 [4] ex_rules = Some [(3, [0; 1]); (4, [2])] /\
  (forall r, In r ex_rules -> 3 <= fst r).
Proof.
  split; [vm_compute; reflexivity|]. split; [vm_compute; reflexivity|]. split; [vm_compute; reflexivity|].
  intros r [<-|[<-|[<-|[<-|[]]]]]; vm_compute; discriminate.
Qed.

(* sets: first N0 ; follow N1 & ~c ; precede a ; a self-dependent complement s = ~s | a *)
Example C15_example_model :
  resolve_sets 3 ex_vals [TSym 1 3; TInter [TSym 4 4; TCompl 1 (TSym 0 2)]; TSym 3 0] [mkInput 0 false]
    = SetsOk [[0; 1; 2]; [0]; [2]] /\
  spec_sets 3 ex_vals [TSym 1 3; TInter [TSym 4 4; TCompl 1 (TSym 0 2)]; TSym 3 0] [mkInput 0 false]
    = SpecOk [[0; 1; 2]; [0]; [2]] /\
  resolve_sets 3 ex_vals [TUnion [TCompl 7 (TNamed 0); TSym 0 0]] [mkInput 0 false] = SetsErr [7] /\
  spec_sets 3 ex_vals [TUnion [TCompl 7 (TNamed 0); TSym 0 0]] [mkInput 0 false] = SpecErr [7].
Proof. vm_compute. repeat split; reflexivity. Qed.

(* non-vacuity of the closure theorems.  nodes: 0 = {1,5} | n1 ; 1 = {2} | n0 (a union cycle) ; 2 = n0 & n3 ;
   3 = {2,7} ; 4 = ~n2 (complement of a solved component) ; 5 = n6 & n5' with 5,6 an intersection cycle *)
Definition ex_nodes : list cnode :=
  [mkNode OpUnion [1%nat] (mkIntSet false [1; 5]); mkNode OpUnion [0%nat] (mkIntSet false [2]);
   mkNode OpIntersection [0%nat; 3%nat] (mkIntSet false []); mkNode OpUnion [] (mkIntSet false [2; 7]);
   mkNode OpComplement [2%nat] (mkIntSet false []);
   mkNode OpIntersection [6%nat; 0%nat] (mkIntSet false []); mkNode OpUnion [5%nat; 3%nat] (mkIntSet false [1])].
Definition ex_nodes_cyc : list cnode :=
  [mkNode OpUnion [1%nat] (mkIntSet false [1]); mkNode OpComplement [0%nat] (mkIntSet false [])].

Example C15_example_closure :
  closure_certb ex_nodes = true /\ c_oof (compute ex_nodes) = false /\ c_err (compute ex_nodes) = [] /\
  map n_val (c_nodes (compute ex_nodes)) =
    [mkIntSet false [1; 2; 5]; mkIntSet false [1; 2; 5]; mkIntSet false [2]; mkIntSet false [2; 7];
     mkIntSet true [2]; mkIntSet false [1; 2]; mkIntSet false [1; 2; 7]] /\
  closure_certb ex_nodes_cyc = true /\ c_err (compute ex_nodes_cyc) = [1%nat].
Proof. vm_compute. repeat split; reflexivity. Qed.

Example C15_example_sets_cert :
  sets_certb 3 ex_vals [TSym 1 3; TInter [TSym 4 4; TCompl 1 (TSym 0 2)]; TSym 3 0] [mkInput 0 false] = true /\
  sets_certb 3 ex_vals [TUnion [TCompl 7 (TNamed 0); TSym 0 0]] [mkInput 0 false] = true.
Proof. vm_compute. split; reflexivity. Qed.

Print Assumptions C15_closure_least_solution.
Print Assumptions C15_closure_solution_is_least_and_unique.
Print Assumptions C15_closure_certificate_sound.
Print Assumptions C15_closure_self_complement_rejected.
Print Assumptions C15_sets_least_solution_partial.
Print Assumptions C15_self_complement_rejected.
Print Assumptions C15_after_err_partial.
Print Assumptions C15_is_nullable_decides_empty.
Print Assumptions C15_sets_exact_partial.
Print Assumptions C15_closed_sets_exact.
