(* C15 — Token sets equal their fixpoint definitions.
   Models: Syn/Sets.v (syntax/nullable.go, syntax/set.go: rules, instantiate/translate/queue, on top of
   Util/Closure.v), Syn/SetsSpec.v (declarative definitions + naive executable specification).
   Lemmas: Syn/Sets_proofs.v, Syn/SetsSpec_proofs.v. *)
From Coq Require Import List ZArith Bool.
From TM Require Import Gram.Cfg Syn.Expr Syn.ExtLang Syn.Sets Syn.SetsSpec Syn.Sets_proofs Syn.SetsSpec_proofs Syn.SetsSpec_proofs2 Syn.SetsSpec_proofs3.
Import ListNotations.
Local Open Scope Z_scope.

(* FULL STATEMENTS (not proved):
     sets_exact:  resolve_sets T vals sets inputs = SetsOk ts ->
                  forall i a, In a (nth i ts []) <-> set_den (reachable rules) (nth i sets) a
     self_complement_rejected:  resolve_sets ... = SetsErr ids  <->  some complement lies on a dependency cycle
     after_err:   the recovery set is follow_in error.
   They need the least-solution theorem of the Tarjan-based closure (Util/Closure.v), which C25 does not
   provide yet.  PROVED below:
     - the model of isNullable decides "derives the empty string" for every rule body (universal);
     - closed set expressions (no named sets) over a plain grammar: their evaluation from the tables is the
       declarative meaning [set_den] (C15_closed_sets_exact);
     - the executable specification tables used as the oracle are EXACTLY the inductive definitions
       nullable_in / first_in / last_in / any_in / follow_in / precede_in whenever their run-time stability check passes (P3: a proved
       oracle, universal in the grammar).
   CHECKED PER RUN: model = syntax.ResolveSets (sets, rewritten set nonterminals, offending complements);
   implementation's sets = naive stratified fixpoint of the eagerly generated declarative system
   (all operators, set nonterminals, mutually recursive named sets, complements); for plain queries also
   = the proved tables; the same through compiler.Compile (Grammar.Sets, afterErr, IsRecovering). *)

(* nullable.go: isNullable is exact w.r.t. the denotation of the notation (C13's [den]) *)
Theorem C15_is_nullable_decides_empty :
  forall T rho setden nl,
    (forall s, mem s nl = true <-> (T <= s /\ rho s [])) ->
    forall e, nullable_scope e = true ->
      (is_nullable nl e = true <-> den T rho setden e []).
Proof. exact is_nullable_exact. Qed.

(* the oracle's tables are the inductive definitions, for all five operators *)
Theorem C15_sets_exact_partial :
  forall T rules nl,
    spec_nullable rules = Some nl ->
    (forall r, In r rules -> T <= fst r) ->
    (forall X, mem X nl = true <-> nullable_in rules X) /\
    (forall t, spec_first T nl rules = Some t -> forall s a, mem a (sym_val T t s) = true <-> first_in T rules s a) /\
    (forall t, spec_last T nl rules = Some t -> forall s a, mem a (sym_val T t s) = true <-> last_in T rules s a) /\
    (forall t, spec_any T rules = Some t -> forall s a, mem a (sym_val T t s) = true <-> any_in T rules s a) /\
    (forall ft t, spec_first T nl rules = Some ft -> spec_follow T nl ft rules = Some t ->
                  forall s a, mem a (tget t s) = true <-> follow_in T rules s a) /\
    (forall lt t, spec_last T nl rules = Some lt -> spec_precede T nl lt rules = Some t ->
                  forall s a, mem a (tget t s) = true <-> precede_in T rules s a).
Proof.
  intros T rules nl Hn Hl. pose proof (spec_nullable_exact rules nl Hn) as H. split; [exact H|]. split; [|split; [|split; [|split]]].
  - intros t Ht. exact (spec_first_exact T rules nl H Hl t Ht).
  - intros t Ht. exact (spec_last_exact T rules nl H Hl t Ht).
  - intros t Ht. exact (spec_any_exact T rules Hl t Ht).
  - intros ft t Hf Ht. exact (spec_follow_exact T rules nl H ft (spec_first_exact T rules nl H Hl ft Hf) t Ht).
  - intros lt t Hlt Ht. exact (spec_precede_exact T rules nl lt t H Hl (spec_last_exact T rules nl H Hl lt Hlt) Ht).
Qed.

(* set expressions without named sets over a plain grammar: the evaluation from the proved tables (used as the
   second oracle) is the declarative meaning: union / intersection / complement of any/first/last/precede/follow *)
Theorem C15_closed_sets_exact :
  forall T rules tb,
    (forall r, In r rules -> T <= fst r) ->
    all_tables T rules = Some tb ->
    forall t, closed_tset t = true -> forall a, In a (eval_set T tb t) <-> (0 <= a < T /\ set_den T rules t a).
Proof. exact eval_set_exact. Qed.

(* non-vacuity.  terminals a b c = 0 1 2;  N0 (3): N1 a | b ;  N1 (4): %empty | c N1 ;  input N0 *)
Definition ex_vals : list expr :=
  [EChoice [ESeq [ERef 4 []; ERef 0 []]; ERef 1 []]; EChoice [EEmpty; ESeq [ERef 2 []; ERef 4 []]]].
Definition ex_rules : list prule := [(3, [4; 0]); (3, [1]); (4, []); (4, [2; 4])].

Example C15_example_tables :
  spec_nullable ex_rules = Some [4] /\
  spec_first 3 [4] ex_rules = Some [(3, [0; 1; 2]); (4, [2])] /\
  spec_last 3 [4] ex_rules = Some [(3, [0; 1]); (4, [2])] /\
  (forall r, In r ex_rules -> 3 <= fst r).
Proof.
  split; [vm_compute; reflexivity|]. split; [vm_compute; reflexivity|]. split; [vm_compute; reflexivity|].
  intros r [<-|[<-|[<-|[<-|[]]]]]; vm_compute; discriminate.
Qed.

(* sets: first N0 ; follow N1 & ~c ; precede a ; a self-dependent complement s = ~s | a *)
Example C15_example_model :
  resolve_sets 3 ex_vals [TSym 1 3; TInter [TSym 4 4; TCompl 1 (TSym 0 2)]; TSym 3 0] [mkInput 0 false]
    = SetsOk [[0; 1; 2]; [0]; [2]] /\
  spec_sets 3 ex_vals [TSym 1 3; TInter [TSym 4 4; TCompl 1 (TSym 0 2)]; TSym 3 0] [mkInput 0 false]
    = SpecOk [[0; 1; 2]; [0]; [2]] /\
  resolve_sets 3 ex_vals [TUnion [TCompl 7 (TNamed 0); TSym 0 0]] [mkInput 0 false] = SetsErr [7] /\
  spec_sets 3 ex_vals [TUnion [TCompl 7 (TNamed 0); TSym 0 0]] [mkInput 0 false] = SpecErr [7].
Proof. vm_compute. repeat split; reflexivity. Qed.

Print Assumptions C15_is_nullable_decides_empty.
Print Assumptions C15_sets_exact_partial.
Print Assumptions C15_closed_sets_exact.
