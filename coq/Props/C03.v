(* C03 — Lookahead sets and conflict reports are exactly LALR(1).
   The reference construction (Gram/LalrRef.v, Gram/LalrTables.v) is an executable definition: LR(0) collection
   over kernels, lookaheads = least solution of the closure/goto propagation constraints, cells and conflict
   counts by the precedence fold.  What is PROVED here concerns the cell/conflict layer; the equality of the
   least fixpoint with the inductive LR(1)-validity definition is not proved (partial) — the reference is
   compared with textmapper on every run instead. *)
From Coq Require Import List ZArith Bool.
From TM Require Import Gram.Cfg Gram.LalrRef Gram.Prec Gram.Prec_proofs Gram.PTables Gram.LalrTables.
Import ListNotations.
Local Open Scope Z_scope.

(* A cell with a shift and no reduction, or one reduction and no shift, is not a conflict and keeps its
   only action. *)
Theorem C03_single_action_cells :
  forall g t r, merge_cell g true t [] = (-1, None) /\ merge_cell g false t [r] = (r, None) /\
                merge_cell g false t [] = (-2, None).
Proof. intros. repeat split; reflexivity. Qed.

(* A cell with a shift and a reduction is a conflict exactly when precedence does not decide it. *)
Theorem C03_shift_reduce_cell_counts_iff_undecided :
  forall g t r, cell_conflict g (mkView [] 0 [r] [(t, 1)] false [[t]] [[t]]) t =
                if resolve_prec g r t =? res_conflict then (1, 0) else (0, 0).
Proof.
  intros g t r. unfold cell_conflict. cbn [v_shifts v_reduce v_la_all existsb combine flat_map fst snd app].
  rewrite Z.eqb_refl. cbn [orb mem existsb]. rewrite Z.eqb_refl. cbn [orb app].
  rewrite cell_shift_reduce. cbn [snd am_res am_can_shift]. reflexivity.
Qed.

(* Two reductions on the same lookahead without a shift: always one reduce/reduce conflict. *)
Theorem C03_reduce_reduce_cell_counts :
  forall g t r1 r2, 0 <= r1 ->
  cell_conflict g (mkView [] 0 [r1; r2] [] false [[t]; [t]] [[t]; [t]]) t = (0, 1).
Proof.
  intros g t r1 r2 H. unfold cell_conflict. cbn [v_shifts v_reduce v_la_all existsb combine flat_map app].
  cbn [mem existsb]. rewrite Z.eqb_refl. cbn [orb app].
  rewrite (cell_reduce_reduce g t r1 r2 H). reflexivity.
Qed.

(* The classic LALR(1)-but-not-SLR(1) grammar: S -> L = R | R; L -> * R | id; R -> L
   (terminals: 1 '=', 2 '*', 3 id; nonterminals 4 S, 5 L, 6 R).  The reference finds no conflict, and in the
   state {S -> L . = R, R -> L .} the reduction R -> L has lookahead {eoi} only (SLR would add '='). *)
Definition ex_g : grammar :=
  mkGrammar 4 3 [mkRule 4 [5; 1; 6] 0; mkRule 4 [6] 0; mkRule 5 [2; 6] 0; mkRule 5 [3] 0; mkRule 6 [5] 0]
            [(4, true)] [].

Example C03_reference_on_the_classic_grammar :
  let ro := reference ex_g 200 in
  ro_sr ro = 0 /\ ro_rr ro = 0 /\
  exists v, In v (ro_views ro) /\ v_kernel v = [(0, 1); (4, 1)] /\ v_reduce v = [4] /\ v_la v = [[0]].
Proof. vm_compute. repeat split; try reflexivity. eexists. split; [right; right; right; left; reflexivity|repeat split]. Qed.

Print Assumptions C03_shift_reduce_cell_counts_iff_undecided.
Print Assumptions C03_reduce_reduce_cell_counts.
