(* C03 — Lookahead sets and conflict reports are exactly LALR(1).
   The reference construction (Gram/LalrRef.v, Gram/LalrTables.v) is an executable definition: LR(0) collection
   over kernels, lookaheads = least solution of the closure/goto propagation constraints, cells and conflict
   counts by the precedence fold.  It is compared with textmapper on every run.
   PROVED here: (1) the lookahead table lalr_la IS the declarative LALR(1) lookahead function of Gram/LalrSpec.v
   (LR(1)-validity by start / closure / goto rules, union over all symbol strings reaching the state):
   soundness for every automaton whose states consist of LR(0)-valid items, completeness for every stable
   table; the side conditions are a boolean certificate (Gram/LalrCert.v: aut_cert / la_cert) that is evaluated
   on the reference construction for every generated grammar; (2) the cell/conflict layer.
   (3) build_loop creates only states justified by a symbol string (C03_build_loop_sound).
   (4) The automaton clauses of the certificate are THEOREMS about the reference construction: for every grammar
   whose rule heads are nonterminals and whose right-hand sides consist of symbols (wf_grammar) and every fuel with
   which build_loop emptied its work list (ref_done - a boolean mirror of the loop), closure reaches its fixpoint
   (C03_closure_closed), build_loop yields the complete LR(0) collection and add_finals (private copy of the
   accepting state, synthesized final / after-EOI states) preserves what the LALR(1) theorems need
   (C03_reference_automaton_ok).  la_fix returns a stable table unless its fuel ran out (C03_la_fix_stable_or_fuel).
   first_sets and nullable_set always reach their fixpoints (C03_first_sets_closed, C03_nullable_set_closed).
   Hence the reference's lookahead table is exactly LALR(1) under the LIGHT certificate ref_cert_light =
   wf_grammar && ref_done && la_stable (C03_reference_is_LALR1); only these three are still evaluated per grammar.
   NOT proved: that the fuel always suffices (ref_done / la_stable for the fuel 400 the glue uses: the number of
   LR(0) states is exponential in the grammar in general). *)
From Coq Require Import List ZArith Bool.
From TM Require Import Gram.Derive.
From TM Require Import Gram.Cfg Gram.LalrRef Gram.Prec Gram.Prec_proofs Gram.PTables Gram.LalrTables.
From TM Require Import Gram.LalrSpec Gram.LalrSpec_proofs Gram.LalrSpec_proofs2 Gram.LalrSpec_proofs3 Gram.LalrCert Gram.LalrCert_proofs Gram.LalrBuild_proofs Gram.LalrTables_proofs Gram.LalrRefute_proofs Gram.CfgFix_proofs.
From TM Require Import Gram.LalrDone Gram.FirstFix_proofs Gram.LalrClosure_proofs Gram.LalrFix_proofs Gram.LalrLoop_proofs Gram.LalrFinals_proofs Gram.LalrRef_proofs.
Import ListNotations.
Local Open Scope Z_scope.

(* A cell with a shift and no reduction, or one reduction and no shift, is not a conflict and keeps its
   only action. *)
Theorem C03_single_action_cells :
  forall g t r, merge_cell g true t [] = (-1, None) /\ merge_cell g false t [r] = (r, None) /\
                merge_cell g false t [] = (-2, None).
Proof. intros. repeat split; reflexivity. Qed.

(* A cell with a shift and a reduction is a conflict exactly when precedence does not decide it. *)
Theorem C03_shift_reduce_cell_counts_iff_undecided :
  forall g t r, cell_conflict g (mkView [] 0 [r] [(t, 1)] false [[t]] [[t]]) t =
                if resolve_prec g r t =? res_conflict then (1, 0) else (0, 0).
Proof.
  intros g t r. unfold cell_conflict. cbn [v_shifts v_reduce v_la_all existsb combine flat_map fst snd app].
  rewrite Z.eqb_refl. cbn [orb mem existsb]. rewrite Z.eqb_refl. cbn [orb app].
  rewrite cell_shift_reduce. cbn [snd am_res am_can_shift]. reflexivity.
Qed.

(* Two reductions on the same lookahead without a shift: always one reduce/reduce conflict. *)
Theorem C03_reduce_reduce_cell_counts :
  forall g t r1 r2, 0 <= r1 ->
  cell_conflict g (mkView [] 0 [r1; r2] [] false [[t]; [t]] [[t]; [t]]) t = (0, 1).
Proof.
  intros g t r1 r2 H. unfold cell_conflict. cbn [v_shifts v_reduce v_la_all existsb combine flat_map app].
  cbn [mem existsb]. rewrite Z.eqb_refl. cbn [orb app].
  rewrite (cell_reduce_reduce g t r1 r2 H). reflexivity.
Qed.

(* ---------- the lookahead sets are LALR(1) ---------- *)
(* Soundness: every lookahead the iteration puts on an item of a state is LALR(1)-valid: the item with this
   lookahead belongs to the LR(1) item set of some symbol string that leads to the state. *)
Theorem C03_lalr_la_sound :
  forall g a, seeds_ok g a -> aut_sound g a ->
  forall fuel q it x, In x (la_get (lalr_la g a fuel) q it) -> lalr1 g a q it x.
Proof. exact lalr_la_sound. Qed.

(* Completeness: when the iteration has become stable (the test la_fix itself uses) and nullable/FIRST are
   closed under the rules, every LALR(1)-valid lookahead is in the table. *)
Theorem C03_lalr_la_complete :
  forall g a fuel,
  wf_lhs g = true ->
  nullable_closed g (nullable_set g) = true ->
  first_closed g (nullable_set g) (first_sets g) = true ->
  la_stable g a (nullable_set g) (first_sets g) (lalr_la g a fuel) = true ->
  starts_present g a -> aut_complete g a ->
  forall q it x, lalr1 g a q it x -> In x (la_get (lalr_la g a fuel) q it).
Proof. exact lalr_la_complete. Qed.

(* nullable_set always reaches its fixpoint when the rule heads are nonterminals in range (bounded inflationary
   iteration), so the nullable hypothesis of the completeness theorem can be dropped for such grammars.  (The
   same for first_sets and for the fuel of closure: C03_first_sets_closed, C03_closure_closed below.) *)
Theorem C03_nullable_set_closed :
  forall g, (forall r, In r (g_rules g) -> g_terms g <= r_lhs r < g_terms g + g_nonterms g) ->
  nullable_closed g (nullable_set g) = true.
Proof. exact nullable_set_closed. Qed.

Theorem C03_lalr_la_complete_range :
  forall g a fuel,
  (forall r, In r (g_rules g) -> g_terms g <= r_lhs r < g_terms g + g_nonterms g) ->
  first_closed g (nullable_set g) (first_sets g) = true ->
  la_stable g a (nullable_set g) (first_sets g) (lalr_la g a fuel) = true ->
  starts_present g a -> aut_complete g a ->
  forall q it x, lalr1 g a q it x -> In x (la_get (lalr_la g a fuel) q it).
Proof. exact lalr_la_complete_range. Qed.

(* Both directions from the boolean certificate (all side conditions above are decided by la_cert). *)
Theorem C03_lalr_la_exact :
  forall g a fuel, la_cert g a fuel = true ->
  forall q it x, In x (la_get (lalr_la g a fuel) q it) <-> lalr1 g a q it x.
Proof. exact lalr_la_exact. Qed.

(* The LR(0) collection (soundness direction, every grammar and fuel): each state build_loop creates is reached
   from a start state over some symbol string gamma, its kernel consists of kernel items of goto*(start_i, gamma)
   and all its items are LR(0)-valid for gamma.  (The converse - every non-empty goto*(start_i, gamma) is a state,
   and kernels are complete - is covered per grammar by cert_complete_state inside aut_cert, not proved in
   general: it needs the fuel of closure/build_loop to suffice.) *)
Theorem C03_build_loop_sound :
  forall g fuel,
  let a := build_loop fuel g (mkAut (map (fun inp => mkState [] (Some (fst inp)) 0) (g_inputs g)) []) 0 in
  forall q st, 0 <= q -> nth_error (a_states a) (Z.to_nat q) = Some st ->
  exists i gamma, reach a i gamma q /\
                  (forall it, In it (s_kernel st) -> lr0_kernel g i gamma it) /\
                  (forall it, In it (closure g (s_kernel st) (s_seed st)) -> lr0_valid g i gamma it).
Proof. exact build_loop_sound. Qed.

(* ---------- the certificate clauses as theorems about the reference construction ---------- *)
(* first_sets always reaches its fixpoint within its S(N*T) rounds: FIRST is closed under the rules. *)
Theorem C03_first_sets_closed :
  forall g, (forall r, In r (g_rules g) -> g_terms g <= r_lhs r < g_terms g + g_nonterms g) ->
  first_closed g (nullable_set g) (first_sets g) = true.
Proof. exact first_sets_closed. Qed.

(* closure always reaches its fixpoint within the S(N) rounds the model gives it (rule heads in range): the result
   contains, with every item [A -> alpha . B beta], all items [B -> . delta]. *)
Theorem C03_closure_closed :
  forall g, (forall r, In r (g_rules g) -> g_terms g <= r_lhs r < g_terms g + g_nonterms g) ->
  forall kernel seed it s r, In it (closure g kernel seed) -> sym_after g it = Some s -> is_term g s = false ->
  In r (rules_of g s) -> In (r, 0) (closure g kernel seed).
Proof. exact closure_closed. Qed.

(* The LR(0) collection is complete whenever build_loop stopped because its work list was empty (ref_done, which
   mirrors the recursion of build_loop and only reports whether the fuel ran out): the automaton before the final
   states are added satisfies every hypothesis of the lookahead theorems and has a transition for every symbol
   after a dot. *)
Theorem C03_build_loop_complete :
  forall g fuel, wf_grammar g = true -> ref_done g fuel = true ->
  let a := build_loop fuel g (mkAut (map (fun inp => mkState [] (Some (fst inp)) 0) (g_inputs g)) []) 0 in
  seeds_ok g a /\ aut_sound g a /\ starts_present g a /\ aut_complete g a /\ aut_total g a.
Proof. exact build_loop_complete. Qed.

(* ... and so does the automaton of build_automaton, i.e. after add_finals redirected the start state's transition
   to a private copy of the accepting state and appended the synthesized final and after-EOI states.  These are
   all consequences of aut_cert that the lookahead theorems use: no automaton clause is left to evaluate. *)
Theorem C03_reference_automaton_ok :
  forall g fuel, wf_grammar g = true -> ref_done g fuel = true ->
  let a := fst (build_automaton g fuel) in
  seeds_ok g a /\ aut_sound g a /\ starts_present g a /\ aut_complete g a /\ aut_total g a.
Proof. exact build_automaton_ok. Qed.

(* la_fix stops on a stable table or has used up its fuel, and then the table has at least `fuel` entries plus
   lookaheads: la_stable of the certificate can fail only by lack of fuel. *)
Theorem C03_la_fix_stable_or_fuel :
  forall g a fuel,
  la_stable g a (nullable_set g) (first_sets g) (lalr_la g a fuel) = true \/
  (fuel <= length (lalr_la g a fuel) + la_size (lalr_la g a fuel))%nat.
Proof. exact lalr_la_stable_or_fuel. Qed.

(* Soundness of the reference's lookahead table needs no evaluated table clause at all. *)
Theorem C03_reference_la_sound :
  forall g fuel, wf_grammar g = true -> ref_done g fuel = true ->
  let a := fst (build_automaton g fuel) in
  forall fuel' q it x, In x (la_get (lalr_la g a fuel') q it) -> lalr1 g a q it x.
Proof. exact ref_la_sound. Qed.

(* Exactness under the light certificate (what the glue evaluates per grammar): grammar well-formed, work list
   empty, table stable. *)
Theorem C03_reference_is_LALR1 :
  forall g fuel, ref_cert_light g fuel = true ->
  let a := fst (build_automaton g fuel) in
  forall q it x, In x (la_get (lalr_la g a fuel) q it) <-> lalr1 g a q it x.
Proof. exact ref_la_exact. Qed.

Theorem C03_reference_covers :
  forall g fuel, ref_cert_light g fuel = true ->
  let a := fst (build_automaton g fuel) in
  forall i gamma it x, lr1_valid g i gamma it x ->
  exists q, reach a i gamma q /\ In x (la_get (lalr_la g a fuel) q it).
Proof. exact ref_la_covers. Qed.

Theorem C03_reference_views_are_LALR1_light :
  forall g fuel, ref_cert_light g fuel = true ->
  let a := fst (build_automaton g fuel) in
  forall q v, nth_error (ro_views (reference g fuel)) q = Some v ->
  forall j r L, nth_error (v_reduce v) j = Some r -> nth_error (v_la_all v) j = Some L ->
  forall x, In x L <-> lalr1 g a (Z.of_nat q) (r, rule_len g r) x.
Proof. exact reference_views_la_light. Qed.

(* The definition of LR(1)-validity used above always contains the textbook one (a single closure rule with
   b in FIRST(beta a)), and coincides with it when the grammar has a terminal and every symbol used in a rule
   is nullable or has a non-empty FIRST (in particular for reduced grammars). *)
Theorem C03_lr1_valid_contains_textbook :
  forall g i gamma it x, lr1_valid_tb g i gamma it x -> lr1_valid g i gamma it x.
Proof. exact tb_included. Qed.

Theorem C03_lr1_valid_is_textbook :
  forall g, 0 < g_terms g ->
  (forall r X, In r (g_rules g) -> In X (r_rhs r) -> (exists b, first_sym g X b) \/ nullable_sym g X) ->
  forall i gamma it x, lr1_valid g i gamma it x <-> lr1_valid_tb g i gamma it x.
Proof. exact lr1_valid_textbook. Qed.

(* What is compared with textmapper: the lookahead set the reference shows for reduction r in state q (v_la_all,
   also the input of the cell oracle canonical_cell) is exactly the LALR(1) lookahead set of the completed item
   of r in q, whenever the certificate holds for the grammar (it is evaluated for every generated grammar). *)
Theorem C03_reference_views_are_LALR1 :
  forall g fuel, ref_cert g fuel = true ->
  let a := fst (build_automaton g fuel) in
  forall q v, nth_error (ro_views (reference g fuel)) q = Some v ->
  forall j r L, nth_error (v_reduce v) j = Some r -> nth_error (v_la_all v) j = Some L ->
  forall x, In x L <-> lalr1 g a (Z.of_nat q) (r, rule_len g r) x.
Proof. exact reference_views_la. Qed.

(* With the certificate the automaton is also the complete collection: every viable prefix gamma (LR(1)-valid
   item with lookahead x) leads to a state, and x is in that state's table entry. *)
Theorem C03_lalr_la_covers :
  forall g a fuel, la_cert g a fuel = true ->
  forall i gamma it x, lr1_valid g i gamma it x ->
  exists q, reach a i gamma q /\ In x (la_get (lalr_la g a fuel) q it).
Proof. exact lalr_la_covers. Qed.

(* With the literal textbook closure rule the statement is FALSE for the reference (and for textmapper, whose
   lookahead sets agree with it) on grammars with a non-productive nonterminal: in  S -> A B; A -> C x; B -> B;
   C -> c  the item [C -> . c] of the start state gets lookahead x although [A -> . C x] has no textbook
   lookahead at all (FIRST(B eoi) is empty).  This is why lr1_valid splits the closure rule. *)
Theorem C03_lalr_la_textbook_refuted :
  exists g fuel q it x, let a := fst (build_automaton g fuel) in
    la_cert g a fuel = true /\ In x (la_get (lalr_la g a fuel) q it) /\
    ~ (exists i gamma, reach a i gamma q /\ lr1_valid_tb g i gamma it x).
Proof. exact lalr_la_textbook_refuted_ex. Qed.

(* The inductive nullable / FIRST of the definition against the derivations of Gram/Derive.v: nullable is
   "derives the empty string", and FIRST(X) contains the first terminal of every terminal string X derives
   (FIRST itself is defined on sentential forms, so it does not depend on productivity). *)
Theorem C03_nullable_is_derives_empty :
  forall g X, nullable_sym g X <-> derives g X [].
Proof. exact nullable_sym_iff_derives. Qed.

Theorem C03_first_contains_derivable_firsts :
  forall g X a w, derives g X (a :: w) -> first_sym g X a.
Proof. exact first_sym_of_derivation. Qed.

(* FIRST and nullable compute only derivable facts. *)
Theorem C03_first_sound :
  forall g, (forall x, In x (nullable_set g) -> nullable_sym g x) /\
            (forall X b, In b (ft_get (first_sets g) X) -> first_sym g X b).
Proof. intros g. split; [exact (nullable_set_ok g)|exact (first_sets_ok g)]. Qed.

(* The classic LALR(1)-but-not-SLR(1) grammar: S -> L = R | R; L -> * R | id; R -> L
   (terminals: 1 '=', 2 '*', 3 id; nonterminals 4 S, 5 L, 6 R).  The reference finds no conflict, and in the
   state {S -> L . = R, R -> L .} the reduction R -> L has lookahead {eoi} only (SLR would add '='). *)
Definition ex_g : grammar :=
  mkGrammar 4 3 [mkRule 4 [5; 1; 6] 0; mkRule 4 [6] 0; mkRule 5 [2; 6] 0; mkRule 5 [3] 0; mkRule 6 [5] 0]
            [(4, true)] [].

Example C03_reference_on_the_classic_grammar :
  let ro := reference ex_g 200 in
  ro_sr ro = 0 /\ ro_rr ro = 0 /\
  exists v, In v (ro_views ro) /\ v_kernel v = [(0, 1); (4, 1)] /\ v_reduce v = [4] /\ v_la v = [[0]].
Proof. vm_compute. repeat split; try reflexivity. eexists. split; [right; right; right; left; reflexivity|repeat split]. Qed.

(* The certificate holds for the reference construction of the classic grammar: the hypotheses of the
   theorems above are satisfiable, and its lookahead table is exactly LALR(1). *)
Example C03_certificate_on_the_classic_grammar : ref_cert ex_g 200 = true.
Proof. vm_compute. reflexivity. Qed.

(* the certificate rejects a collection cut short by too little fuel *)
Example C03_certificate_rejects_truncated_collection : ref_cert ex_g 2 = false /\ ref_cert ex_g 20 = true.
Proof. vm_compute. split; reflexivity. Qed.

Example C03_classic_grammar_la_is_LALR1 :
  let a := fst (build_automaton ex_g 200) in
  forall q it x, In x (la_get (lalr_la ex_g a 200) q it) <-> lalr1 ex_g a q it x.
Proof. apply lalr_la_exact. vm_compute. reflexivity. Qed.

(* the light certificate holds for the classic grammar, fails when the collection is cut short, and a grammar
   whose start symbol is recursive (S -> S a | a: the accepting state gets a private copy) passes it too *)
Example C03_light_certificate_on_the_classic_grammar :
  ref_cert_light ex_g 200 = true /\ ref_cert_light ex_g 2 = false /\
  ref_cert_light (mkGrammar 2 1 [mkRule 2 [2; 1] 0; mkRule 2 [1] 0] [(2, true)] []) 200 = true.
Proof. vm_compute. repeat split; reflexivity. Qed.

Print Assumptions C03_first_sets_closed.
Print Assumptions C03_closure_closed.
Print Assumptions C03_build_loop_complete.
Print Assumptions C03_reference_automaton_ok.
Print Assumptions C03_la_fix_stable_or_fuel.
Print Assumptions C03_reference_la_sound.
Print Assumptions C03_reference_is_LALR1.
Print Assumptions C03_reference_covers.
Print Assumptions C03_reference_views_are_LALR1_light.
Print Assumptions C03_shift_reduce_cell_counts_iff_undecided.
Print Assumptions C03_reduce_reduce_cell_counts.
Print Assumptions C03_lalr_la_sound.
Print Assumptions C03_lalr_la_complete.
Print Assumptions C03_lalr_la_exact.
Print Assumptions C03_first_sound.
Print Assumptions C03_lr1_valid_contains_textbook.
Print Assumptions C03_lr1_valid_is_textbook.
Print Assumptions C03_build_loop_sound.
Print Assumptions C03_lalr_la_covers.
Print Assumptions C03_nullable_is_derives_empty.
Print Assumptions C03_first_contains_derivable_firsts.
Print Assumptions C03_reference_views_are_LALR1.
Print Assumptions C03_lalr_la_textbook_refuted.
Print Assumptions C03_nullable_set_closed.
Print Assumptions C03_lalr_la_complete_range.
