(* C11 — Generated Go lexers tokenize exactly as the lexer rules specify.
   Model: Lex/LexerRT.v (go_lexer.go.tmpl: Next, rewind, keyword switch, handleInvalidToken); the regex-level
   specification is Lex/Deriv.v (C09). *)
From Coq Require Import List ZArith Bool.
From TM Require Import Lex.Tables Lex.Scan Lex.LexerRT Lex.LexerRT_proofs.
Import ListNotations.
Local Open Scope Z_scope.

(* keyword_switch.  For every lexer description, class action, scanned hash and matched text:
   (sound) the generated hash switch replaces the class action only by an action listed for exactly that text;
   (complete) if the text is a key whose recorded hash equals the hash accumulated while scanning and whose bucket
   is hash & mask — what asStringSwitch emits — that key's action is selected; (other) any other text keeps the
   class action.  Whether the scanned hash equals the recorded one is NOT part of the theorem: in scanBytes mode
   the recorded hash is over runes and the scanned one over bytes (known finding bytes-mode-non-ascii-keyword). *)
Theorem C11_keyword_switch_sound : forall lx act hash text subcases mask a',
  assocZ act (lx_kw lx) = Some subcases -> assocZ act (lx_mask lx) = Some mask ->
  kw_switch lx act hash text = a' -> a' <> act ->
  exists b h, In (b, h, text, a') subcases /\ h = hash.
Proof. exact kw_switch_sound. Qed.

Theorem C11_keyword_switch_complete : forall lx act hash text subcases mask b a',
  assocZ act (lx_kw lx) = Some subcases -> assocZ act (lx_mask lx) = Some mask ->
  In (b, hash, text, a') subcases -> b = Z.land hash mask ->
  (forall b1 h1 a1, In (b1, h1, text, a1) subcases -> a1 = a') ->
  kw_switch lx act hash text = a'.
Proof. exact kw_switch_complete. Qed.

Theorem C11_keyword_switch_other : forall lx act hash text subcases mask,
  assocZ act (lx_kw lx) = Some subcases -> assocZ act (lx_mask lx) = Some mask ->
  (forall b h a, ~ In (b, h, text, a) subcases) ->
  kw_switch lx act hash text = act.
Proof. exact kw_switch_other. Qed.

(* NOT proved (partial): rune_class_lookup (tmRuneClass array / mapRune over CompressedMap = plain symbol-map lookup;
   the model uses the plain lookup and every generated lexer is compared with it, including lexers whose map is
   compressed), and next_spec (LexerRT.next_tok = token of the regex-level specification).  Both are checked on every
   run: the generated lexer's token stream is compared with the LexerRT model on the real tables and, independently,
   with the stream the rules define (Deriv.spec_scan repeated, space rules skipped, forced one-character progress). *)

Example C11_switch_example :
  let lx := mkLexer (mkTables false [(0, 1)] 2 [0] [-1; -1] []) [] [] 1
                    [(3, [(5, 3357, [105; 102], 6); (1, 105, [105], 7)])] [(3, 7)] true true in
  kw_switch lx 3 3357 [105; 102] = 6 /\ kw_switch lx 3 3357 [105; 103] = 3 /\ kw_switch lx 3 105 [105] = 7 /\
  kw_switch lx 4 3357 [105; 102] = 4.
Proof. vm_compute. repeat split; reflexivity. Qed.

Print Assumptions C11_keyword_switch_sound.
Print Assumptions C11_keyword_switch_complete.
Print Assumptions C11_keyword_switch_other.
