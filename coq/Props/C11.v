(* C11 — Generated Go lexers tokenize exactly as the lexer rules specify.
   Model: Lex/LexerRT.v (go_lexer.go.tmpl: Next, rewind, keyword switch, handleInvalidToken); the regex-level
   specification is Lex/Deriv.v (C09). *)
From Coq Require Import List ZArith Bool.
From TM Require Import Lex.Tables Lex.Scan Lex.LexerRT Lex.LexerRT_proofs Lex.LexerMaps Lex.LexerMaps_proofs Lex.LexerMaps_proofs2.
From TM Require Import Lex.LexerWf Lex.LexerWf_proofs Lex.Deriv Lex.DerivSem Lex.Bisim Lex.LexerSpec Lex.LexerSpec_proofs.
Import ListNotations.
Local Open Scope Z_scope.

(* keyword_switch.  For every lexer description, class action, scanned hash and matched text:
   (sound) the generated hash switch replaces the class action only by an action listed for exactly that text;
   (complete) if the text is a key whose recorded hash equals the hash accumulated while scanning and whose bucket
   is hash & mask — what asStringSwitch emits — that key's action is selected; (other) any other text keeps the
   class action.  Whether the scanned hash equals the recorded one is NOT part of the theorem: in scanBytes mode
   the recorded hash is over runes and the scanned one over bytes (known finding bytes-mode-non-ascii-keyword). *)
Theorem C11_keyword_switch_sound : forall lx act hash text subcases mask a',
  assocZ act (lx_kw lx) = Some subcases -> assocZ act (lx_mask lx) = Some mask ->
  kw_switch lx act hash text = a' -> a' <> act ->
  exists b h, In (b, h, text, a') subcases /\ h = hash.
Proof. exact kw_switch_sound. Qed.

Theorem C11_keyword_switch_complete : forall lx act hash text subcases mask b a',
  assocZ act (lx_kw lx) = Some subcases -> assocZ act (lx_mask lx) = Some mask ->
  In (b, hash, text, a') subcases -> b = Z.land hash mask ->
  (forall b1 h1 a1, In (b1, h1, text, a1) subcases -> a1 = a') ->
  kw_switch lx act hash text = a'.
Proof. exact kw_switch_complete. Qed.

Theorem C11_keyword_switch_other : forall lx act hash text subcases mask,
  assocZ act (lx_kw lx) = Some subcases -> assocZ act (lx_mask lx) = Some mask ->
  (forall b h a, ~ In (b, h, text, a) subcases) ->
  kw_switch lx act hash text = act.
Proof. exact kw_switch_other. Qed.

(* rune_class_lookup, array part.  Model Lex/LexerMaps.v: Tables.SymbolArr (tmRuneClass), Tables.CompressedMap
   (tmRuneRanges), mapRune (binary search) and the class lookup at the top of the DFA loop.  For EVERY symbol map as
   lex.Compile builds it (first Start 0, strictly increasing Starts) and every character ch >= 0: if the map ends at
   or below 2048 (the lexer carries tmRuneClass only) — or, for larger maps, if ch < 256 — the generated lookup
   (array, else the last target) is the plain symbol-map lookup used by Scan and by the LexerRT model. *)
Theorem C11_rune_class_lookup_array : forall m ch, sorted_map m -> 0 <= ch ->
  (last_start m <= 2048 \/ ch < 256) ->
  rune_class (rune_tables_of m) ch = lookup_sym m ch.
Proof. exact rune_class_lookup_array. Qed.

(* rune_class_lookup, mapRune part.  For EVERY list of ranges that passes the boolean ranges_sortedb (ascending,
   disjoint; evaluated on the generated tmRuneRanges of every lexer and synthetic map on each run), every default and
   every c: the binary search returns the value of the range containing c (Vals[c - Lo], else DefaultVal), and the
   default when no range contains c. *)
Theorem C11_map_rune_finds_the_range : forall ranges lb d c, ranges_sortedb lb ranges = true ->
  (forall k, 0 <= k < Z.of_nat (length ranges) -> holds ranges k c -> map_rune ranges d c = ce_val (rng ranges k) c) /\
  ((forall k, 0 <= k < Z.of_nat (length ranges) -> ~ holds ranges k c) -> map_rune ranges d c = d).
Proof. intros ranges lb d c H. apply map_rune_spec. exact (sortedb_sorted ranges lb H). Qed.

(* rune_class_lookup, CompressedMap part.  For EVERY symbol map as lex.Compile builds it, every start >= 0 and every
   ch >= start: looking ch up with mapRune in the ranges built by CompressedMap(start) (segments of non-default class
   collected into ranges, a default-class gap kept inside a range only while strike + count <= 8, a range closed after a
   segment longer than 8, DefaultVal = the last value, trailing defaults trimmed), with the last target as the default,
   is the plain symbol-map lookup. *)
Theorem C11_compressed_map_lookup : forall m start ch, sorted_map m -> 0 <= start <= ch ->
  map_rune (compressed_map m start) (last_target m) ch = lookup_sym m ch.
Proof. exact compressed_map_lookup. Qed.

(* rune_class_lookup, complete.  For EVERY symbol map as lex.Compile builds it and EVERY character ch >= 0, the class
   lookup of the generated lexer (tmRuneClass below its length, else mapRune over tmRuneRanges when the map ends
   beyond 2048, else the last target) is the plain symbol-map lookup used by Tables.Scan and by the LexerRT model. *)
Theorem C11_rune_class_lookup : forall m ch, sorted_map m -> 0 <= ch ->
  rune_class (rune_tables_of m) ch = lookup_sym m ch.
Proof. exact rune_class_lookup. Qed.

(* ---- next_spec ----
   Specification (Lex/LexerSpec.v, nothing in it looks at the tables): spec_attempt at offset pos runs Deriv.spec_scan
   (C09: the longest candidate matched by an active rule, the rule of highest precedence / the earliest among equals;
   else action 0 with the extent of the longest viable prefix) on the REST of the source and answers (token, space?, end):
   no match -> invalid_token over the viable prefix, over one character if that is empty, end-of-input (token 0, empty)
   at the end of the source; match -> the rule's action, specialised by the keyword table when it is a class action,
   mapped to its token, and whether it is a space action.  spec_next repeats attempts while they are space;
   spec_all is the stream up to the first end-of-input token.
   Layer (a), the bridge: for EVERY lexer accepted by wf_lexer_tables whose tables pass the validator check_tables of
   C09, every valid start condition and EVERY consistent lexer state l: one run of the generated DFA loop from the start
   state (l.ch, checkpoint cells with backup of rule/offset/hash, end-of-input moves) is the reference run
   Scan.longest_accept of C09 on the rest of the source — `outcome` reads the final stop cell and the backup the way
   handleInvalidToken does — and the hash register is the hash of the symbols consumed (thash), also in the backup. *)
Theorem C11_dfa_loop_is_longest_accept : forall lx sc l st l2 h2 b2,
  wf_lexer_tables lx = true -> check_tables (lx_tables lx) = true ->
  In (nthZ (state_map (lx_tables lx)) sc) (state_map (lx_tables lx)) -> linv lx l ->
  dfa_loop (inner lx l) lx (nthZ (state_map (lx_tables lx)) sc) (tok_start l) 0 None = Some (st, l2, h2, b2) ->
  longest_accept (lx_tables lx) sc (skipn (Z.to_nat (l_off l)) (l_src l)) = outcome lx (l_off l) st (l_off l2) b2 /\
  st < 0 /\ l_off l <= l_off l2 /\
  h2 = thash (scan_bytes (lx_tables lx)) (l_src l) (l_off l) (l_off l2 - l_off l) /\
  match b2 with
  | Some (a, o, hh) => l_off l <= o <= l_off l2 /\ hh = thash (scan_bytes (lx_tables lx)) (l_src l) (l_off l) (o - l_off l) /\ a <> 0
  | None => True
  end.
Proof. exact attempt_is_longest_accept. Qed.

(* Layers (b)-(c), Next.  For EVERY lexer that carries tmToken (rule-token mode: lexer actions are rule numbers),
   is accepted by wf_lexer_tables, check_tables and kw_targets_ok (no keyword specialises to the "no match" action)
   — all three boolean, evaluated on real tables —, whose tables are CERTIFIED against the rule set for the start condition
   (reference run = Deriv.spec_scan on every text of bytes; what C09's check_bisim = 0 establishes), and EVERY
   consistent lexer state: Next returns (fuel never runs out) and the token, its start and its end are exactly
   spec_next's; and the bytes skipped before the token are a concatenation of matches of space rules (see C12).
   The keyword specialisation is stated through the generated switch itself applied to the hash of the matched
   symbols (kwf_switch); C11_keyword_switch_* above say what the switch selects. *)
Theorem C11_next_is_specified_token : forall lx sc rules l,
  wf_lexer_tables lx = true -> check_tables (lx_tables lx) = true -> kw_targets_ok lx = true -> lx_rule_token lx <> [] ->
  In (nthZ (state_map (lx_tables lx)) sc) (state_map (lx_tables lx)) ->
  certified (lx_tables lx) sc rules -> linv lx l ->
  exists tok l', next_tok (next_fuel l) lx sc l = Some (tok, l') /\
    spec_next (next_fuel l) lx (kwf_switch lx) (fun a => a) rules (l_src l) (l_off l) = Some (tok, l_tokoff l', l_off l') /\
    space_gap lx (kwf_switch lx) (fun a => a) rules (l_src l) (l_off l) (l_tokoff l').
Proof. exact next_is_specified_token. Qed.

(* the hypothesis `certified` is what the certificate checker of C09 establishes *)
Theorem C11_check_bisim_certifies : forall cap t rules sc, check_bisim cap t rules sc = 0 -> certified t sc rules.
Proof. exact check_bisim_certified. Qed.

(* Layer (d), the stream: from Init, the records (token, start, end) of Next's tokens up to the first end-of-input
   token are exactly spec_all's, for every source of bytes (invalid UTF-8 included). *)
Theorem C11_stream_is_specified : forall lx sc rules src,
  wf_lexer_tables lx = true -> check_tables (lx_tables lx) = true -> kw_targets_ok lx = true -> lx_rule_token lx <> [] ->
  In (nthZ (state_map (lx_tables lx)) sc) (state_map (lx_tables lx)) ->
  certified (lx_tables lx) sc rules -> bytes_ok src ->
  exists toks, lex_all (S (length src)) lx sc (LexerRT.init lx src) = Some toks /\
    spec_all (S (length src)) lx (kwf_switch lx) (fun a => a) rules src 0 = Some (map obs3 toks).
Proof. exact stream_is_specified. Qed.

(* non-vacuity: tables of / +/ => rule 2 (space), /a/ => rule 3 as lex.Compile emits them, tmToken = [invalid; eoi; 2; 3] *)
Definition ex_t : tables := mkTables false [(0, 1); (32, 2); (33, 1); (97, 3); (98, 1)] 4 [0] [-1; -1; 1; 2; -3; -3; 1; -3; -4; -4; -4; -4] [].
Definition ex_rules : list srule := [(Rep 1 (-1) (Sym [(32, 32)]), 2, 0); (Sym [(97, 97)], 3, 0)].
Definition ex_lexer : lexer := mkLexer ex_t [1; 0; 2; 3] [2] 1 [] [] true true.

Example C11_next_hypotheses_met :
  wf_lexer_tables ex_lexer = true /\ check_tables ex_t = true /\ kw_targets_ok ex_lexer = true /\ check_bisim 100 ex_t ex_rules 0 = 0 /\
  lex_all 6 ex_lexer 0 (LexerRT.init ex_lexer [32; 97; 32; 32; 98; 97]) =
    Some [[3; 1; 2; 1; 2]; [1; 4; 5; 1; 5]; [3; 5; 6; 1; 6]; [0; 6; 6; 1; 7]] /\
  spec_all 7 ex_lexer (kwf_switch ex_lexer) (fun a => a) ex_rules [32; 97; 32; 32; 98; 97] 0 = Some [(3, 1, 2); (1, 4, 5); (3, 5, 6); (0, 6, 6)].
Proof. vm_compute. repeat split; reflexivity. Qed.

(* NOT proved: the same for lexers with INLINED rule actions (lx_rule_token = []: compiler/lexer.go renames the stop cells
   and checkpoint actions of lex.Compile's tables to token numbers, so check_tables / check_bisim speak about the tables
   before the renaming), and the keyword specialisation stated as "the action listed for exactly the matched text"
   (kwf_spec: needs the recorded hash of a key = the hash of its symbols, false in scanBytes mode for non-ASCII keys,
   known finding bytes-mode-non-ascii-keyword).  Both streams are compared on every run.  The models symbol_arr /
   compressed_map are compared with lex.Tables.SymbolArr / CompressedMap for the tables of every generated lexer and for
   thousands of synthetic maps per run. *)

Example C11_maps_example :
  let m := [(0, 1); (65, 2); (91, 1); (3000, 3); (3001, 1); (70000, 4); (70010, 1)] in
  sorted_map m /\ ranges_sortedb 256 (compressed_map m 256) = true /\
  forallb (fun ch => rune_class (rune_tables_of m) ch =? lookup_sym m ch) [0; 64; 65; 90; 91; 255; 256; 2999; 3000; 3001; 69999; 70000; 70009; 70010; 1114111] = true.
Proof. vm_compute. repeat split; try reflexivity; try (intro H; discriminate H). Qed.

Example C11_switch_example :
  let lx := mkLexer (mkTables false [(0, 1)] 2 [0] [-1; -1] []) [] [] 1
                    [(3, [(5, 3357, [105; 102], 6); (1, 105, [105], 7)])] [(3, 7)] true true in
  kw_switch lx 3 3357 [105; 102] = 6 /\ kw_switch lx 3 3357 [105; 103] = 3 /\ kw_switch lx 3 105 [105] = 7 /\
  kw_switch lx 4 3357 [105; 102] = 4.
Proof. vm_compute. repeat split; reflexivity. Qed.

Print Assumptions C11_keyword_switch_sound.
Print Assumptions C11_keyword_switch_complete.
Print Assumptions C11_keyword_switch_other.
Print Assumptions C11_rune_class_lookup_array.
Print Assumptions C11_map_rune_finds_the_range.
Print Assumptions C11_compressed_map_lookup.
Print Assumptions C11_rune_class_lookup.
Print Assumptions C11_dfa_loop_is_longest_accept.
Print Assumptions C11_next_is_specified_token.
Print Assumptions C11_check_bisim_certifies.
Print Assumptions C11_stream_is_specified.
