(* C11 — Generated Go lexers tokenize exactly as the lexer rules specify.
   Model: Lex/LexerRT.v (go_lexer.go.tmpl: Next, rewind, keyword switch, handleInvalidToken); the regex-level
   specification is Lex/Deriv.v (C09). *)
From Coq Require Import List ZArith Bool.
From TM Require Import Lex.Tables Lex.Scan Lex.LexerRT Lex.LexerRT_proofs Lex.LexerMaps Lex.LexerMaps_proofs Lex.LexerMaps_proofs2.
Import ListNotations.
Local Open Scope Z_scope.

(* keyword_switch.  For every lexer description, class action, scanned hash and matched text:
   (sound) the generated hash switch replaces the class action only by an action listed for exactly that text;
   (complete) if the text is a key whose recorded hash equals the hash accumulated while scanning and whose bucket
   is hash & mask — what asStringSwitch emits — that key's action is selected; (other) any other text keeps the
   class action.  Whether the scanned hash equals the recorded one is NOT part of the theorem: in scanBytes mode
   the recorded hash is over runes and the scanned one over bytes (known finding bytes-mode-non-ascii-keyword). *)
Theorem C11_keyword_switch_sound : forall lx act hash text subcases mask a',
  assocZ act (lx_kw lx) = Some subcases -> assocZ act (lx_mask lx) = Some mask ->
  kw_switch lx act hash text = a' -> a' <> act ->
  exists b h, In (b, h, text, a') subcases /\ h = hash.
Proof. exact kw_switch_sound. Qed.

Theorem C11_keyword_switch_complete : forall lx act hash text subcases mask b a',
  assocZ act (lx_kw lx) = Some subcases -> assocZ act (lx_mask lx) = Some mask ->
  In (b, hash, text, a') subcases -> b = Z.land hash mask ->
  (forall b1 h1 a1, In (b1, h1, text, a1) subcases -> a1 = a') ->
  kw_switch lx act hash text = a'.
Proof. exact kw_switch_complete. Qed.

Theorem C11_keyword_switch_other : forall lx act hash text subcases mask,
  assocZ act (lx_kw lx) = Some subcases -> assocZ act (lx_mask lx) = Some mask ->
  (forall b h a, ~ In (b, h, text, a) subcases) ->
  kw_switch lx act hash text = act.
Proof. exact kw_switch_other. Qed.

(* rune_class_lookup, array part.  Model Lex/LexerMaps.v: Tables.SymbolArr (tmRuneClass), Tables.CompressedMap
   (tmRuneRanges), mapRune (binary search) and the class lookup at the top of the DFA loop.  For EVERY symbol map as
   lex.Compile builds it (first Start 0, strictly increasing Starts) and every character ch >= 0: if the map ends at
   or below 2048 (the lexer carries tmRuneClass only) — or, for larger maps, if ch < 256 — the generated lookup
   (array, else the last target) is the plain symbol-map lookup used by Scan and by the LexerRT model. *)
Theorem C11_rune_class_lookup_array : forall m ch, sorted_map m -> 0 <= ch ->
  (last_start m <= 2048 \/ ch < 256) ->
  rune_class (rune_tables_of m) ch = lookup_sym m ch.
Proof. exact rune_class_lookup_array. Qed.

(* rune_class_lookup, mapRune part.  For EVERY list of ranges that passes the boolean ranges_sortedb (ascending,
   disjoint; evaluated on the generated tmRuneRanges of every lexer and synthetic map on each run), every default and
   every c: the binary search returns the value of the range containing c (Vals[c - Lo], else DefaultVal), and the
   default when no range contains c. *)
Theorem C11_map_rune_finds_the_range : forall ranges lb d c, ranges_sortedb lb ranges = true ->
  (forall k, 0 <= k < Z.of_nat (length ranges) -> holds ranges k c -> map_rune ranges d c = ce_val (rng ranges k) c) /\
  ((forall k, 0 <= k < Z.of_nat (length ranges) -> ~ holds ranges k c) -> map_rune ranges d c = d).
Proof. intros ranges lb d c H. apply map_rune_spec. exact (sortedb_sorted ranges lb H). Qed.

(* rune_class_lookup, CompressedMap part.  For EVERY symbol map as lex.Compile builds it, every start >= 0 and every
   ch >= start: looking ch up with mapRune in the ranges built by CompressedMap(start) (segments of non-default class
   collected into ranges, a default-class gap kept inside a range only while strike + count <= 8, a range closed after a
   segment longer than 8, DefaultVal = the last value, trailing defaults trimmed), with the last target as the default,
   is the plain symbol-map lookup. *)
Theorem C11_compressed_map_lookup : forall m start ch, sorted_map m -> 0 <= start <= ch ->
  map_rune (compressed_map m start) (last_target m) ch = lookup_sym m ch.
Proof. exact compressed_map_lookup. Qed.

(* rune_class_lookup, complete.  For EVERY symbol map as lex.Compile builds it and EVERY character ch >= 0, the class
   lookup of the generated lexer (tmRuneClass below its length, else mapRune over tmRuneRanges when the map ends
   beyond 2048, else the last target) is the plain symbol-map lookup used by Tables.Scan and by the LexerRT model. *)
Theorem C11_rune_class_lookup : forall m ch, sorted_map m -> 0 <= ch ->
  rune_class (rune_tables_of m) ch = lookup_sym m ch.
Proof. exact rune_class_lookup. Qed.

(* NOT proved: next_spec (LexerRT.next_tok = token of the regex-level specification); both streams are compared on
   every run.  The models symbol_arr / compressed_map are compared with lex.Tables.SymbolArr / CompressedMap for the
   tables of every generated lexer and for thousands of synthetic maps per run. *)

Example C11_maps_example :
  let m := [(0, 1); (65, 2); (91, 1); (3000, 3); (3001, 1); (70000, 4); (70010, 1)] in
  sorted_map m /\ ranges_sortedb 256 (compressed_map m 256) = true /\
  forallb (fun ch => rune_class (rune_tables_of m) ch =? lookup_sym m ch) [0; 64; 65; 90; 91; 255; 256; 2999; 3000; 3001; 69999; 70000; 70009; 70010; 1114111] = true.
Proof. vm_compute. repeat split; try reflexivity; try (intro H; discriminate H). Qed.

Example C11_switch_example :
  let lx := mkLexer (mkTables false [(0, 1)] 2 [0] [-1; -1] []) [] [] 1
                    [(3, [(5, 3357, [105; 102], 6); (1, 105, [105], 7)])] [(3, 7)] true true in
  kw_switch lx 3 3357 [105; 102] = 6 /\ kw_switch lx 3 3357 [105; 103] = 3 /\ kw_switch lx 3 105 [105] = 7 /\
  kw_switch lx 4 3357 [105; 102] = 4.
Proof. vm_compute. repeat split; reflexivity. Qed.

Print Assumptions C11_keyword_switch_sound.
Print Assumptions C11_keyword_switch_complete.
Print Assumptions C11_keyword_switch_other.
Print Assumptions C11_rune_class_lookup_array.
Print Assumptions C11_map_rune_finds_the_range.
Print Assumptions C11_compressed_map_lookup.
Print Assumptions C11_rune_class_lookup.
