(* C25 — Integer set algebra and set-equation closure are exact.
   This file holds only the property theorems (closed by [exact lemma]), non-vacuity examples
   and Print Assumptions.  Models: Util/IntSet.v, Util/Closure.v; lemmas: *_proofs.v. *)
From Coq Require Import List ZArith Bool.
From TM Require Import Util.IntSet Util.IntSet_proofs.
Import ListNotations.
Open Scope Z_scope.

(* den s x : x belongs to the (possibly co-finite) subset of Z denoted by s. *)
Theorem C25_merge_is_union :
  forall a b x, wf a -> wf b -> (den (set_merge a b) x <-> den a x \/ den b x).
Proof. exact merge_spec. Qed.

Theorem C25_intersect_is_intersection :
  forall a b x, wf a -> wf b -> (den (set_intersect a b) x <-> den a x /\ den b x).
Proof. exact intersect_spec. Qed.

Theorem C25_complement_is_complement :
  forall s x, den (complement s) x <-> ~ den s x.
Proof. exact complement_spec. Qed.

Theorem C25_results_stay_sorted :
  forall a b, wf a -> wf b -> wf (set_merge a b) /\ wf (set_intersect a b) /\ wf (complement a).
Proof. intros a b Ha Hb. exact (conj (merge_wf a b Ha Hb) (conj (intersect_wf a b Ha Hb) (complement_wf a Ha))). Qed.

Theorem C25_mem_decides_den : forall s x, mem x s = true <-> den s x.
Proof. exact mem_den. Qed.

Theorem C25_equals_is_equality : forall a b, set_equals a b = true <-> a = b.
Proof. exact equals_spec. Qed.

(* non-vacuity: co-finite and finite operands, hypotheses satisfied, non-trivial result *)
Example C25_example :
  let a := mkIntSet true [5; 7] in let b := mkIntSet true [3; 4] in
  wf a /\ wf b /\ set_intersect a b = mkIntSet true [3; 4; 5; 7]
  /\ set_merge a (mkIntSet false [5; 9]) = mkIntSet true [7].
Proof. vm_compute. repeat split; reflexivity. Qed.

Print Assumptions C25_merge_is_union.
Print Assumptions C25_intersect_is_intersection.
Print Assumptions C25_complement_is_complement.
Print Assumptions C25_results_stay_sorted.
Print Assumptions C25_mem_decides_den.
Print Assumptions C25_equals_is_equality.
