(* C05 — Compressed parser tables decode to the same actions. *)
From Coq Require Import List ZArith Bool.
From TM Require Import Gram.PTables Gram.Optimize Gram.OptimizeSpec Gram.OptimizeSpec_proofs
  Gram.OptimizeWf Gram.OptimizePack_proofs Gram.OptimizeGen_proofs Gram.OptimizeSem_proofs.
Import ListNotations.
Local Open Scope Z_scope.

(* If the (finite, exhaustive) check passes for a table set, then EVERY state/terminal cell of the compressed
   encoding decodes — as the generated parser decodes it — to the same shift target, reduction or error as
   the uncompressed tables, and every existing goto to the same target. *)
Theorem C05_validated_tables_decode_identically :
  forall t o terms, check_enc t o terms = true ->
  (forall s a, 0 <= s < zlength (d_action t) -> 0 <= a < terms -> action_opt o s a = action_default t s a) /\
  (forall s x q, 0 <= s < zlength (d_action t) -> terms <= x < zlength (d_goto t) - 1 ->
     goto_state t s x = q -> 0 <= q -> goto_opt o terms s x = q).
Proof. exact check_enc_sound. Qed.

(* defaultReduce: shifts and reductions are unchanged; an error never becomes a shift; an explicit
   (nonassoc) error entry stays an error; an implicit error can only become a most frequent reduction. *)
Theorem C05_default_reduce_only_rewrites_plain_errors :
  forall t o terms, check_enc_dr t o terms = true ->
  forall s a, 0 <= s < zlength (d_action t) -> 0 <= a < terms ->
  match action_default t s a with
  | Shift q => action_opt o s a = Shift q
  | Reduce r => action_opt o s a = Reduce r
  | Deep r => action_opt o s a = Deep r
  | Err =>
      (forall q, action_opt o s a <> Shift q) /\
      (zn (d_action t) s < -2 ->
       (exists v, lalr_find (S (length (d_lalr t))) (d_lalr t) (- zn (d_action t) s - 3) a = Some v) ->
       action_opt o s a = Err) /\
      (forall r, action_opt o s a = Reduce r -> is_most_frequent r (row_reductions t s) = true)
  end.
Proof. exact check_enc_dr_sound. Qed.

(* tables of  S -> a b c  (4 terminals incl. eoi): the model of Optimize passes the check *)

(* tables of  S -> a  (terminals eoi, a) as lalr.Compile produces them.  Before the fix of allocator.place
   the second line re-used base 0 and state 0 decoded 'a' as an error; the model of the repaired Optimize
   passes the check, and the defective arrays are rejected by it. *)
Definition ex_enc : default_enc := mkDefaultEnc [-1; 0; -1; -2] [] [0; 2; 4; 6] [2; 3; 0; 1; 0; 2].

Example C05_example :
  check_enc ex_enc (optimize ex_enc 2 1 false) 2 = true /\
  check_enc_dr ex_enc (optimize ex_enc 2 1 true) 2 = true /\
  check_enc ex_enc (mkDispEnc [-1] [2] [-3; 0; -5; -1] [0; -2; 0; -2] (-2) [-1; -1; 2] [0; 1; 0]) 2 = false.
Proof. vm_compute. repeat split; reflexivity. Qed.

(* ================= the generator, once and for all =================
   wf_enc (Gram/OptimizeWf.v) is the boolean well-formedness of a DefaultEnc as lalr.Compile produces it:
   Lalr rows terminated by (-1,-2) inside the array with distinct in-range terminals and actions that are
   error / shift-with-transition / rule index; FromTo segments of nonterminals on pair boundaries inside
   the array with strictly increasing in-range source states; every nonterminal has a state without a
   transition on it or two states with different targets (see C05_fallback_condition_needed). *)

(* The allocator (pack / allocator.place: hash-keyed dedupe verified against the stored line, first-fit
   scan over taken/usedBase, end-of-table fallback that respects usedBase): every input line is stored at
   its index and can be read back exactly through (table, check) — a pair of the line is found in its
   cell, and a position that is NOT in the line is never answered from the table. *)
Theorem C05_pack_reads_every_line_back :
  forall lines indices table check,
  Forall wf_line lines -> pack lines = (indices, table, check) ->
  length indices = length lines /\ zlength check = zlength table /\
  forall i L, nth_error lines i = Some L ->
    0 <= nth i indices 0 + first_pos L /\
    forall p, 0 <= p ->
      (forall v, In (p, v) L ->
         0 <= nth i indices 0 + p < zlength table /\
         zn check (nth i indices 0 + p) = p /\ zn table (nth i indices 0 + p) = v) /\
      ((forall v, ~ In (p, v) L) -> 0 <= nth i indices 0 + p < zlength table ->
         zn check (nth i indices 0 + p) <> p).
Proof. exact pack_correct. Qed.

(* The model of lalr.Optimize passes the exhaustive validator for EVERY well-formed table set ... *)
Theorem C05_optimize_passes_validator :
  forall t terms rules, wf_enc t terms rules = true ->
  check_enc t (optimize t terms rules false) terms = true.
Proof. exact optimize_passes_check_enc. Qed.

(* ... hence every state/terminal cell and every existing goto of the compressed tables decodes as in the
   uncompressed tables, for all well-formed tables (no per-table check involved). *)
Theorem C05_optimize_decodes_identically :
  forall t terms rules, wf_enc t terms rules = true ->
  (forall s a, 0 <= s < zlength (d_action t) -> 0 <= a < terms ->
     action_opt (optimize t terms rules false) s a = action_default t s a) /\
  (forall s x q, 0 <= s < zlength (d_action t) -> terms <= x < zlength (d_goto t) - 1 ->
     goto_state t s x = q -> 0 <= q -> goto_opt (optimize t terms rules false) terms s x = q).
Proof. exact optimize_decodes_identically. Qed.

(* gotos agree with and without defaultReduce *)
Theorem C05_optimize_gotos_agree :
  forall t terms rules dr, wf_enc t terms rules = true ->
  forall s x q, 0 <= s < zlength (d_action t) -> terms <= x < zlength (d_goto t) - 1 ->
  goto_state t s x = q -> 0 <= q -> goto_opt (optimize t terms rules dr) terms s x = q.
Proof. exact optimize_gotos_agree. Qed.

(* defaultReduce: the model of lalr.Optimize passes the defaultReduce validator for EVERY well-formed table
   set ... *)
Theorem C05_optimize_passes_validator_default_reduce :
  forall t terms rules, wf_enc t terms rules = true ->
  check_enc_dr t (optimize t terms rules true) terms = true.
Proof. exact optimize_passes_check_enc_dr. Qed.

(* ... hence, for all well-formed tables: shifts and reductions are unchanged, an error never becomes a shift,
   an explicit (nonassoc) error entry stays an error, an implicit error can only become a most frequent
   reduction of its state. *)
Theorem C05_optimize_default_reduce_only_rewrites_plain_errors :
  forall t terms rules, wf_enc t terms rules = true ->
  forall s a, 0 <= s < zlength (d_action t) -> 0 <= a < terms ->
  match action_default t s a with
  | Shift q => action_opt (optimize t terms rules true) s a = Shift q
  | Reduce r => action_opt (optimize t terms rules true) s a = Reduce r
  | Deep r => action_opt (optimize t terms rules true) s a = Deep r
  | Err =>
      (forall q, action_opt (optimize t terms rules true) s a <> Shift q) /\
      (zn (d_action t) s < -2 ->
       (exists v, lalr_find (S (length (d_lalr t))) (d_lalr t) (- zn (d_action t) s - 3) a = Some v) ->
       action_opt (optimize t terms rules true) s a = Err) /\
      (forall r, action_opt (optimize t terms rules true) s a = Reduce r ->
                 is_most_frequent r (row_reductions t s) = true)
  end.
Proof. exact optimize_default_reduce_ok. Qed.

(* non-vacuity: tables with a Lalr row (state 1: reduce on eoi, shift on 'a') are well-formed *)
Definition ex_enc_row : default_enc :=
  mkDefaultEnc [-1; -3; 0; -2] [0; 0; 1; -1; -1; -2] [0; 0; 4; 6] [0; 1; 1; 2; 0; 3].

(* the same with a third terminal 'b' that state 1 does not mention: a plain error, which defaultReduce
   turns into the reduction of rule 0 *)
Definition ex_enc_row3 : default_enc :=
  mkDefaultEnc [-1; -3; 0; -2] [0; 0; 1; -1; -1; -2] [0; 0; 4; 4; 6] [0; 1; 1; 2; 0; 3].

Example C05_wf_examples :
  wf_enc ex_enc 2 1 = true /\ wf_enc ex_enc_row 2 1 = true /\ wf_enc ex_enc_row3 3 1 = true /\
  action_default ex_enc_row3 1 2 = Err /\
  action_opt (optimize ex_enc_row3 3 1 false) 1 2 = Err /\
  action_opt (optimize ex_enc_row3 3 1 true) 1 2 = Reduce 0.
Proof. vm_compute. repeat split; reflexivity. Qed.

(* The last clause of wf_enc (seg_fallback_ok) cannot be dropped: "Goto[nt] = -syms is guaranteed to fall
   back to the default" (optimize.go) is false when there are more states than symbols.  Tables that are well-formed in every
   other respect (5 states, 3 symbols; nonterminal 2 has the same target from every state, so it gets no
   line; the line of nonterminal 1 starts at state 3 and is placed at base -3 = -syms) make the optimized
   gotoState(3, nonterminal 2) read a cell of nonterminal 1.  lalr.Optimize is exported and accepts such
   tables; no table set produced by lalr.Compile in the harness runs has a nonterminal with the same
   target from every state (wf_enc is evaluated on every sampled table set). *)
Definition ex_enc_nogap : default_enc :=
  mkDefaultEnc [-2; -2; -2; -2; -2] [] [0; 0; 4; 14] [3; 1; 4; 2; 0; 0; 1; 0; 2; 0; 3; 0; 4; 0].

Example C05_fallback_condition_needed :
  wf_enc_nogap ex_enc_nogap 1 1 = true /\
  goto_state ex_enc_nogap 3 2 = 0 /\ goto_opt (optimize ex_enc_nogap 1 1 false) 1 3 2 = 1 /\
  check_enc ex_enc_nogap (optimize ex_enc_nogap 1 1 false) 1 = false.
Proof. vm_compute. repeat split; reflexivity. Qed.

Print Assumptions C05_validated_tables_decode_identically.
Print Assumptions C05_default_reduce_only_rewrites_plain_errors.
Print Assumptions C05_pack_reads_every_line_back.
Print Assumptions C05_optimize_passes_validator.
Print Assumptions C05_optimize_decodes_identically.
Print Assumptions C05_optimize_gotos_agree.
Print Assumptions C05_optimize_passes_validator_default_reduce.
Print Assumptions C05_optimize_default_reduce_only_rewrites_plain_errors.
