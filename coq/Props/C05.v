(* C05 — Compressed parser tables decode to the same actions. *)
From Coq Require Import List ZArith Bool.
From TM Require Import Gram.PTables Gram.Optimize Gram.OptimizeSpec Gram.OptimizeSpec_proofs.
Import ListNotations.
Local Open Scope Z_scope.

(* If the (finite, exhaustive) check passes for a table set, then EVERY state/terminal cell of the compressed
   encoding decodes — as the generated parser decodes it — to the same shift target, reduction or error as
   the uncompressed tables, and every existing goto to the same target. *)
Theorem C05_validated_tables_decode_identically :
  forall t o terms, check_enc t o terms = true ->
  (forall s a, 0 <= s < zlength (d_action t) -> 0 <= a < terms -> action_opt o s a = action_default t s a) /\
  (forall s x q, 0 <= s < zlength (d_action t) -> terms <= x < zlength (d_goto t) - 1 ->
     goto_state t s x = q -> 0 <= q -> goto_opt o terms s x = q).
Proof. exact check_enc_sound. Qed.

(* defaultReduce: shifts and reductions are unchanged; an error never becomes a shift; an explicit
   (nonassoc) error entry stays an error; an implicit error can only become a most frequent reduction. *)
Theorem C05_default_reduce_only_rewrites_plain_errors :
  forall t o terms, check_enc_dr t o terms = true ->
  forall s a, 0 <= s < zlength (d_action t) -> 0 <= a < terms ->
  match action_default t s a with
  | Shift q => action_opt o s a = Shift q
  | Reduce r => action_opt o s a = Reduce r
  | Deep r => action_opt o s a = Deep r
  | Err =>
      (forall q, action_opt o s a <> Shift q) /\
      (zn (d_action t) s < -2 ->
       (exists v, lalr_find (S (length (d_lalr t))) (d_lalr t) (- zn (d_action t) s - 3) a = Some v) ->
       action_opt o s a = Err) /\
      (forall r, action_opt o s a = Reduce r -> is_most_frequent r (row_reductions t s) = true)
  end.
Proof. exact check_enc_dr_sound. Qed.

(* tables of  S -> a b c  (4 terminals incl. eoi): the model of Optimize passes the check *)

(* tables of  S -> a  (terminals eoi, a) as lalr.Compile produces them.  Before the fix of allocator.place
   the second line re-used base 0 and state 0 decoded 'a' as an error; the model of the repaired Optimize
   passes the check, and the defective arrays are rejected by it. *)
Definition ex_enc : default_enc := mkDefaultEnc [-1; 0; -1; -2] [] [0; 2; 4; 6] [2; 3; 0; 1; 0; 2].

Example C05_example :
  check_enc ex_enc (optimize ex_enc 2 1 false) 2 = true /\
  check_enc_dr ex_enc (optimize ex_enc 2 1 true) 2 = true /\
  check_enc ex_enc (mkDispEnc [-1] [2] [-3; 0; -5; -1] [0; -2; 0; -2] (-2) [-1; -1; 2] [0; 1; 0]) 2 = false.
Proof. vm_compute. repeat split; reflexivity. Qed.

Print Assumptions C05_validated_tables_decode_identically.
Print Assumptions C05_default_reduce_only_rewrites_plain_errors.
