(* C18 — Generation is deterministic (partial: the part that is logic — independence of Go's randomized map
   iteration order at the modelled order-sensitive sites).
   Model: Gen/PermInv.v. A map's iteration order is an arbitrary permutation parameter pi. *)
From Coq Require Import List ZArith Bool Sorting.Permutation Sorting.Sorted.
From TM Require Import Gen.PermInv Gen.PermInv_proofs Gen.PermInv2 Gen.PermInv2_proofs.
Import ListNotations.
Local Open Scope Z_scope.

(* The generic lemma: for any total, transitive comparison that is antisymmetric on the elements at hand,
   sorting two permutations of the same elements yields the same list ("sort erases the permutation"). *)
Theorem C18_sort_erases_iteration_order :
  forall (A : Type) (leb : A -> A -> bool),
  (forall a b, leb a b = true \/ leb b a = true) ->
  (forall a b c, leb a b = true -> leb b c = true -> leb a c = true) ->
  forall l1 l2,
  (forall a b, In a l1 -> In b l1 -> leb a b = true -> leb b a = true -> a = b) ->
  Permutation l1 l2 -> isort A leb l1 = isort A leb l2.
Proof. exact isort_perm_invariant. Qed.

(* the sort used in the model really sorts (so any correct sort gives the same list) *)
Theorem C18_isort_sorts :
  forall (A : Type) (leb : A -> A -> bool),
  (forall a b, leb a b = true \/ leb b a = true) ->
  (forall a b c, leb a b = true -> leb b c = true -> leb a c = true) ->
  forall l, StronglySorted (fun a b => leb a b = true) (isort A leb l) /\ Permutation (isort A leb l) l.
Proof. intros A leb Ht Htr l. split; [now apply isort_sorted | apply isort_perm]. Qed.

(* gen/funcs.go asStringSwitch: for EVERY map (lookup function m, key set given in two iteration orders)
   the generated switch — size, buckets, order inside buckets, order of buckets — is the same. *)
Theorem C18_string_switch_permutation_invariant :
  forall m pi1 pi2, Permutation pi1 pi2 -> string_switch m pi1 = string_switch m pi2.
Proof. exact string_switch_invariant. Qed.

(* lalr/trie.go: collecting the entries of a map[int]V (distinct keys) in any iteration order and sorting
   them by key (both the per-rule terminal list and the rule list) gives the same slice. *)
Theorem C18_trie_collection_permutation_invariant :
  forall (V : Type) (pi1 pi2 : list (Z * V)),
  NoDup (map fst pi1) -> Permutation pi1 pi2 -> collect_sorted pi1 = collect_sorted pi2.
Proof. exact @collect_sorted_invariant. Qed.

(* syntax/types.go sortAndDedup (duplicates allowed in the input) *)
Theorem C18_sort_and_dedup_permutation_invariant :
  forall l1 l2, Permutation l1 l2 -> sort_and_dedup l1 = sort_and_dedup l2.
Proof. exact sort_and_dedup_invariant. Qed.

(* ---- round 2: the remaining classes of the inventory, each backed by a theorem (model Gen/PermInv2.v) ---- *)

(* "writes-per-key", "writes-into-map", "in-place-per-key", "commutative-accumulation": a loop that stores
   target[k] = v for every entry (k, v) of the map it ranges over. Whatever the target held before, for any
   two iteration orders the target is the same afterwards, provided entries with the same key carry the same
   value (always true for the entries of a Go map; BitSet.Set(k) and m[k] = true may repeat a key). *)
Theorem C18_keyed_writes_commute :
  forall (V : Type) (pi1 pi2 : list (Z * V)),
  (forall k v v', In (k, v) pi1 -> In (k, v') pi1 -> v = v') ->
  Permutation pi1 pi2 -> forall target x, apply_writes pi1 target x = apply_writes pi2 target x.
Proof. exact @writes_commute. Qed.

(* compiler/lexer.go resolveTokenComments: for every rule list, the comments map built by the first loop has
   distinct keys, so the second loop (range over that map) gives every symbol the same Comment under any two
   iteration orders. *)
Theorem C18_token_comments_permutation_invariant :
  forall rules pi1 pi2,
  Permutation (token_comments rules) pi1 -> Permutation (token_comments rules) pi2 ->
  forall syms x, apply_writes pi1 syms x = apply_writes pi2 syms x.
Proof. exact resolve_token_comments_invariant. Qed.

(* "sorted-after" with sort.Strings (gen/post_ts.go ExtractTsImports twice, grammar.go ActionVars.String twice):
   duplicates allowed. *)
Theorem C18_sort_strings_permutation_invariant :
  forall l1 l2, Permutation l1 l2 -> sort_strings l1 = sort_strings l2.
Proof. exact sort_strings_invariant. Qed.

(* gen/post_go.go ExtractGoImports: the values of a map keyed by import path, sorted with "standard packages
   first, then by path", for ANY classification isStdPackage. *)
Theorem C18_go_imports_permutation_invariant :
  forall (std : list Z -> bool) pi1 pi2,
  NoDup (map snd pi1) -> Permutation pi1 pi2 -> go_imports std pi1 = go_imports std pi2.
Proof. exact go_imports_invariant. Qed.

(* gen/funcs.go reverseLookup ("unique-match"): the first key whose value is i does not depend on the
   iteration order when the map is injective (Remap: rule position -> RHS index). *)
Theorem C18_reverse_lookup_permutation_invariant :
  forall pi1 pi2 i, NoDup (map snd pi1) -> Permutation pi1 pi2 -> reverse_lookup pi1 i = reverse_lookup pi2 i.
Proof. exact reverse_lookup_invariant. Qed.

(* syntax/types.go topoSort (no map is iterated; the rows arrive in the order in which mergePhrases met the
   fields): the bucket sort by height followed by the sort by identity inside each bucket depends only on the
   SET of rows (height, identity, fields) with distinct identities - any other encounter order gives the same
   field order. (The heights are computed by the memoised walk `heights`, modelled and compared with the code;
   that they are the longest-path heights for acyclic graphs is checked by the oracle, not proved.) *)
Theorem C18_topo_order_permutation_invariant :
  forall (P : Type) (rows1 rows2 : list (row P)),
  NoDup (map row_id rows1) -> Permutation rows1 rows2 -> topo_order rows1 = topo_order rows2.
Proof. exact @topo_order_invariant. Qed.

(* NOT modelled (partial): the two out-of-scope sites and the diagnostics-order-only site of the inventory, the
   injectivity of Remap (assumption of reverse_lookup), the depth walk of topoSort on cyclic graphs (its result
   depends on the encounter order, which is a deterministic slice order); scheduler- and runtime-level
   nondeterminism is outside any Gallina model and only touched by the regeneration search (same process,
   subprocesses with different GOMAXPROCS, committed files). *)

Example C18_examples :
  let m := fun s : list Z => Z.of_nat (length s) in
  string_switch m [[105;102]; [101;108;115;101]; [97]] = string_switch m [[97]; [105;102]; [101;108;115;101]] /\
  string_switch m [[105;102]; [97]] = (8, [(1, [(97, [97], 1)]); (5, [(3357, [105;102], 2)])]) /\
  Permutation [[105;102]; [101;108;115;101]; [97]] [[97]; [105;102]; [101;108;115;101]] /\
  collect_sorted [(3, [1]); (1, [2]); (2, [])] = [(1, [2]); (2, []); (3, [1])] /\
  sort_and_dedup [[98]; [97]; [98]] = [[97]; [98]].
Proof.
  cbv zeta. repeat split; try (vm_compute; reflexivity).
  apply Permutation_sym. apply (Permutation_cons_app [[105;102]; [101;108;115;101]] [] [97]). reflexivity.
Qed.

Print Assumptions C18_sort_erases_iteration_order.
Print Assumptions C18_isort_sorts.
Print Assumptions C18_string_switch_permutation_invariant.
Print Assumptions C18_trie_collection_permutation_invariant.
Print Assumptions C18_sort_and_dedup_permutation_invariant.

Example C18_round2_examples :
  (* two iteration orders of the comments map of T1: "if", T2: "a" / "b" (differ -> ""), T3: "x" *)
  let rules := [(1, [105;102]); (2, [97]); (3, [120]); (2, [98])] in
  token_comments rules = [(1, [105;102]); (2, []); (3, [120])] /\
  (* topoSort rows: heights 1,0,0 with identities "b","c","a" -> a, c, b *)
  map row_id (topo_order [(1%nat, [98], tt); (0%nat, [99], tt); (0%nat, [97], tt)]) = [[97]; [99]; [98]] /\
  topo_sort [[98]; [99]; [97]] [[1%nat; 2%nat]; []; []] = [[97]; [99]; [98]] /\
  reverse_lookup [(1, 0); (3, 1); (4, 2)] 1 = 3 /\ reverse_lookup [(4, 2); (3, 1); (1, 0)] 1 = 3 /\
  go_imports (fun p => match p with 102 :: _ => true | _ => false end) [([], [103]); ([], [102;109;116]); ([], [97;46;98])]
    = [([], [102;109;116]); ([], [97;46;98]); ([], [103])].
Proof. vm_compute. repeat split; reflexivity. Qed.

Print Assumptions C18_keyed_writes_commute.
Print Assumptions C18_token_comments_permutation_invariant.
Print Assumptions C18_sort_strings_permutation_invariant.
Print Assumptions C18_go_imports_permutation_invariant.
Print Assumptions C18_reverse_lookup_permutation_invariant.
Print Assumptions C18_topo_order_permutation_invariant.
