(* C18 — Generation is deterministic (partial: the part that is logic — independence of Go's randomized map
   iteration order at the modelled order-sensitive sites).
   Model: Gen/PermInv.v. A map's iteration order is an arbitrary permutation parameter pi. *)
From Coq Require Import List ZArith Bool Sorting.Permutation Sorting.Sorted.
From TM Require Import Gen.PermInv Gen.PermInv_proofs.
Import ListNotations.
Local Open Scope Z_scope.

(* The generic lemma: for any total, transitive comparison that is antisymmetric on the elements at hand,
   sorting two permutations of the same elements yields the same list ("sort erases the permutation"). *)
Theorem C18_sort_erases_iteration_order :
  forall (A : Type) (leb : A -> A -> bool),
  (forall a b, leb a b = true \/ leb b a = true) ->
  (forall a b c, leb a b = true -> leb b c = true -> leb a c = true) ->
  forall l1 l2,
  (forall a b, In a l1 -> In b l1 -> leb a b = true -> leb b a = true -> a = b) ->
  Permutation l1 l2 -> isort A leb l1 = isort A leb l2.
Proof. exact isort_perm_invariant. Qed.

(* the sort used in the model really sorts (so any correct sort gives the same list) *)
Theorem C18_isort_sorts :
  forall (A : Type) (leb : A -> A -> bool),
  (forall a b, leb a b = true \/ leb b a = true) ->
  (forall a b c, leb a b = true -> leb b c = true -> leb a c = true) ->
  forall l, StronglySorted (fun a b => leb a b = true) (isort A leb l) /\ Permutation (isort A leb l) l.
Proof. intros A leb Ht Htr l. split; [now apply isort_sorted | apply isort_perm]. Qed.

(* gen/funcs.go asStringSwitch: for EVERY map (lookup function m, key set given in two iteration orders)
   the generated switch — size, buckets, order inside buckets, order of buckets — is the same. *)
Theorem C18_string_switch_permutation_invariant :
  forall m pi1 pi2, Permutation pi1 pi2 -> string_switch m pi1 = string_switch m pi2.
Proof. exact string_switch_invariant. Qed.

(* lalr/trie.go: collecting the entries of a map[int]V (distinct keys) in any iteration order and sorting
   them by key (both the per-rule terminal list and the rule list) gives the same slice. *)
Theorem C18_trie_collection_permutation_invariant :
  forall (V : Type) (pi1 pi2 : list (Z * V)),
  NoDup (map fst pi1) -> Permutation pi1 pi2 -> collect_sorted pi1 = collect_sorted pi2.
Proof. exact @collect_sorted_invariant. Qed.

(* syntax/types.go sortAndDedup (duplicates allowed in the input) *)
Theorem C18_sort_and_dedup_permutation_invariant :
  forall l1 l2, Permutation l1 l2 -> sort_and_dedup l1 = sort_and_dedup l2.
Proof. exact sort_and_dedup_invariant. Qed.

(* NOT modelled (partial): topoSort and resolveTokenComments (Tier 2); every other map-range site of the
   repository is covered by the reviewed inventory harness/mapsites.json (classification by reading, not by
   proof); scheduler- and runtime-level nondeterminism is outside any Gallina model and only touched by the
   regeneration search (same process, subprocesses with different GOMAXPROCS, committed files). *)

Example C18_examples :
  let m := fun s : list Z => Z.of_nat (length s) in
  string_switch m [[105;102]; [101;108;115;101]; [97]] = string_switch m [[97]; [105;102]; [101;108;115;101]] /\
  string_switch m [[105;102]; [97]] = (8, [(1, [(97, [97], 1)]); (5, [(3357, [105;102], 2)])]) /\
  Permutation [[105;102]; [101;108;115;101]; [97]] [[97]; [105;102]; [101;108;115;101]] /\
  collect_sorted [(3, [1]); (1, [2]); (2, [])] = [(1, [2]); (2, []); (3, [1])] /\
  sort_and_dedup [[98]; [97]; [98]] = [[97]; [98]].
Proof.
  cbv zeta. repeat split; try (vm_compute; reflexivity).
  apply Permutation_sym. apply (Permutation_cons_app [[105;102]; [101;108;115;101]] [] [97]). reflexivity.
Qed.

Print Assumptions C18_sort_erases_iteration_order.
Print Assumptions C18_isort_sorts.
Print Assumptions C18_string_switch_permutation_invariant.
Print Assumptions C18_trie_collection_permutation_invariant.
Print Assumptions C18_sort_and_dedup_permutation_invariant.
