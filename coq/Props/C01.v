(* C01 — Generated parsers accept exactly the grammar's language.
   Models: Gram/Run.v (the parse loop of go_parser.go.tmpl), Gram/PTables.v (table decoders),
   Gram/Validator.v (boolean check of grammar x tables x LR-item certificate), Gram/Derive.v (derivations).
   Every theorem is universal in the grammar, the tables (any machine whose action looks at one terminal:
   both table encodings), the certificate, the input index, the fuel and the TOKEN SEQUENCE.
   Per sampled grammar the check is evaluated (extracted) on textmapper's real tables: a passing run means
   the statements below hold for that grammar's parser on all inputs. *)
From Coq Require Import List ZArith Bool.
From TM Require Import Gram.Cfg Gram.PTables Gram.Run Gram.Derive Gram.Validator Gram.CertGen Gram.Validator_proofs.
From TM Require Import Gram.ValidatorLive Gram.ValidatorLive_proofs.
Import ListNotations.
Local Open Scope Z_scope.

(* accept => the tokens are a sentence of the input nonterminal (no-eoi inputs: begin with one) *)
Theorem C01_parser_sound :
  forall g m nstates finals nl ft ann,
  (forall s a more, m_act m s a more = m_act m s a []) ->
  check g m nstates finals nl ft ann = true ->
  forall i nt eoi ws fuel,
  nth_error (g_inputs g) i = Some (nt, eoi) -> toks_ok g ws ->
  fst (parse fuel m finals i ws) = Accept -> sentence g nt eoi ws.
Proof.
  intros g m nstates finals nl ft ann Hm Hc i nt eoi ws fuel Hi Hw Ha.
  exact (parse_sound g m nstates finals nl ft ann Hm Hc i (input_index_lt _ _ _ Hi) ws Hw fuel nt eoi Hi Ha).
Qed.

(* every sentence is accepted (with enough fuel: the loop terminates on it) *)
Theorem C01_parser_complete :
  forall g m nstates finals nl ft ann,
  (forall s a more, m_act m s a more = m_act m s a []) ->
  check g m nstates finals nl ft ann = true ->
  forall i nt eoi ws,
  nth_error (g_inputs g) i = Some (nt, eoi) -> toks_ok g ws ->
  sentence g nt eoi ws -> exists fuel, fst (parse fuel m finals i ws) = Accept.
Proof.
  intros g m nstates finals nl ft ann Hm Hc i nt eoi ws Hi Hw Hs.
  exact (parse_complete g m nstates finals nl ft ann Hm Hc i (input_index_lt _ _ _ Hi) ws Hw nt eoi Hi Hs).
Qed.

(* the loop never pops below the stack bottom (the Go code would panic there) *)
Theorem C01_parser_never_crashes :
  forall g m nstates finals nl ft ann,
  (forall s a more, m_act m s a more = m_act m s a []) ->
  check g m nstates finals nl ft ann = true ->
  forall i x ws fuel why,
  nth_error (g_inputs g) i = Some x -> toks_ok g ws ->
  fst (parse fuel m finals i ws) <> Crash why.
Proof.
  intros g m nstates finals nl ft ann Hm Hc i x ws fuel why Hi Hw.
  exact (parse_never_crashes g m nstates finals nl ft ann Hm Hc i (input_index_lt _ _ _ Hi) ws fuel why Hw).
Qed.

(* a syntax error reported after k shifted tokens: the input is not a sentence and, if token k exists,
   no sentence starts with tokens 0..k — the error is not reported later than the first offending token *)
Theorem C01_error_not_late :
  forall g m nstates finals nl ft ann,
  (forall s a more, m_act m s a more = m_act m s a []) ->
  check g m nstates finals nl ft ann = true ->
  forall i nt eoi ws fuel off eoff k,
  nth_error (g_inputs g) i = Some (nt, eoi) -> toks_ok g ws ->
  fst (parse fuel m finals i ws) = SyntaxError off eoff k ->
  ~ sentence g nt eoi ws /\
  ((Z.to_nat k < length ws)%nat -> forall z, toks_ok g z -> ~ sentence g nt eoi (firstn (S (Z.to_nat k)) ws ++ z)).
Proof.
  intros g m nstates finals nl ft ann Hm Hc i nt eoi ws fuel off eoff k Hi Hw He.
  exact (parse_error_position g m nstates finals nl ft ann Hm Hc i (input_index_lt _ _ _ Hi) ws fuel nt eoi off eoff k Hw Hi He).
Qed.

(* the error is not reported EARLIER than the first offending token (correct-prefix property): the k tokens
   shifted before the error are a prefix of some sentence.  Needs the second validator check_live (every state
   has an item, the symbols after every dot are productive, every item [A -> . alpha] is justified by an item
   of the same state through well-founded chains); rk is an untrusted rank hint. *)
Theorem C01_error_not_early :
  forall g m nstates finals nl ft ann rk,
  (forall s a more, m_act m s a more = m_act m s a []) ->
  check g m nstates finals nl ft ann = true ->
  check_live g nstates ann rk = true ->
  forall i nt eoi ws fuel off eoff k,
  nth_error (g_inputs g) i = Some (nt, eoi) -> toks_ok g ws ->
  fst (parse fuel m finals i ws) = SyntaxError off eoff k ->
  exists z, toks_ok g z /\ sentence g nt eoi (firstn (Z.to_nat k) ws ++ z).
Proof.
  intros g m nstates finals nl ft ann rk Hm Hc Hl i nt eoi ws fuel off eoff k Hi Hw He.
  exact (parse_error_viable g m nstates finals nl ft ann rk Hc Hl i (input_index_lt _ _ _ Hi) nt eoi Hi Hm ws fuel off eoff k Hw He).
Qed.

(* both table encodings fall under the theorems *)
Theorem C01_machines_look_one_token_ahead :
  (forall t rl rs s a more, m_act (lalr1_machine t rl rs) s a more = m_act (lalr1_machine t rl rs) s a []) /\
  (forall o terms rl rs s a more, m_act (opt_machine o terms rl rs) s a more = m_act (opt_machine o terms rl rs) s a []).
Proof. split; [exact lalr1_machine_nomore|exact opt_machine_nomore]. Qed.

(* non-vacuity: textmapper's real tables for  N0 : 'a' 'b' 'b' N0 | %empty ;  (tm numbering: 4 terminals) pass
   the check with the generated certificate, and the loop accepts "abbabb" and rejects "abba" at token 4 *)
Definition g0 : grammar := mkGrammar 4 1 [mkRule 4 [2; 3; 3; 4] 0; mkRule 4 [] 0] [(4, true)] [].
Definition t0 : default_enc :=
  mkDefaultEnc [-3; -1; -1; -9; 0; -1; -2] [2; -1; 0; 1; -1; -2; 2; -1; 0; 1; -1; -2] [0; 2; 2; 6; 10; 14]
               [5; 6; 0; 1; 3; 1; 1; 2; 2; 3; 0; 5; 3; 4].
Definition m0 : machine := lalr1_machine t0 [4; 0] [4; 4].

Example C01_check_holds_on_real_tables :
  check g0 m0 7 [6] (nullable_set g0) (first_sets g0) (fst (gen_cert g0 400)) = true /\
  toks_ok g0 [2; 3; 3; 2; 3; 3] /\
  fst (parse 100 m0 [6] 0 [2; 3; 3; 2; 3; 3]) = Accept /\
  fst (parse 100 m0 [6] 0 [2; 3; 3; 2]) = SyntaxError 4 4 4.
Proof.
  split; [vm_compute; reflexivity|]. split; [repeat constructor; vm_compute; congruence|].
  split; vm_compute; reflexivity.
Qed.

Example C01_check_live_holds_on_real_tables :
  let c := fst (gen_cert g0 400) in check_live g0 7 c (live_ranks g0 c) = true.
Proof. vm_compute. reflexivity. Qed.

Print Assumptions C01_parser_sound.
Print Assumptions C01_parser_complete.
Print Assumptions C01_parser_never_crashes.
Print Assumptions C01_error_not_late.
Print Assumptions C01_error_not_early.
Print Assumptions C01_machines_look_one_token_ahead.
