(* C21 — Typed AST accessors match the trees the parser builds.
   Model: Syn/Types.v (generated accessors of go_ast.go.tmpl over the inferred RangeFields, the NilNode of
   go_ast_factory.go.tmpl, Child/Children/Next/NextAll of go_ast_tree.go.tmpl; validator check_type). *)
From Coq Require Import List NArith ZArith Bool Arith.
From TM Require Import Syn.Types Syn.Types_proofs Syn.TypesSym Syn.TypesSym_proofs Syn.Infer Syn.InferFit Syn.InferFit_proofs.
Import ListNotations.
Local Open Scope nat_scope.

(* accessor_types: for every field list, every node (child types [kids]) and every accessor, each node it
   returns is a child of that node whose type the field's declared selector accepts. *)
Theorem C21_accessor_types : forall cats fs i kids f j,
  nth_error fs i = Some f -> In j (returned (accessor cats fs i kids)) ->
  exists t, nth_error kids j = Some t /\ sel_has (f_sel f) t = true.
Proof. exact accessor_types. Qed.

(* An accessor can only panic in its generated type assertion ToNode(child).(Category): on a returned child
   whose type the category does not list, or -- absent child -- on NilNode when NilNode does not implement the
   category (the template leaves that method out for the synthetic TokenSet category). Accessors that wrap the
   child in a struct or assert the base interface never panic. *)
Theorem C21_accessor_panics_only_in_assertion : forall cats fs i kids f,
  nth_error fs i = Some f -> accessor cats fs i kids = RPanic ->
  (exists t, assert_ok cats (f_assert f) t = false) /\ (0 < f_assert f)%Z.
Proof. exact accessor_panics_only_in_assertion. Qed.

(* "never panics" needs the NilNode clause: in the accessor model an optional field asserting a category that
   NilNode does not implement panics on a node without that child. This was reachable in the pinned
   implementation (the template left the NilNode method out for every category CALLED TokenSet, also a
   user-declared one: fixed, known_findings "fixed: property=C21 fcc27f1"); since the fix only the synthetic
   TokenSet category lacks the method, and no field can name it. *)
Theorem C21_never_panics_needs_nilnode :
  exists cats fs kids, accessor cats fs 0 kids = RPanic.
Proof.
  exists [mkCat [2%N] false], [mkF [2%N] (-1) false false 1], []. vm_compute. reflexivity.
Qed.

(* never-panics: a field whose asserted category exists, lists every node type of the field's expanded
   selector and is implemented by NilNode (assert_covers: what go_ast.go.tmpl guarantees for every declared
   category after the fix) has an accessor that never panics, on ANY child sequence. *)
Theorem C21_accessor_never_panics : forall cats fs i kids f,
  nth_error fs i = Some f -> assert_covers cats f -> accessor cats fs i kids <> RPanic.
Proof. exact accessor_never_panics. Qed.

Example C21_assert_covers_satisfiable :
  assert_covers [mkCat [1%N; 2%N] true] (mkF [1%N; 2%N] (-1) false false 1).
Proof.
  intros _. exists (mkCat [1%N; 2%N] true). repeat split. intros t H. exact H.
Qed.

(* required_present + children_covered + never-panics + accessor_types, w.r.t. the child sequences an arrow
   body can produce ([produces e kids]), through the proved-sound validator: once check_type accepts the
   inferred fields of a type, node_ok holds for EVERY child sequence of every list-free body.
   PARTIAL: the full statement also covers bodies with lists ([list_free e] dropped); for those the validator
   is only evaluated on the sequences with at most [rep] repetitions per list. The step-by-step model of
   syntax/types.go (exprPhrase, concat/mergePhrases, the cycle rule, fixConflictingFields) that would make
   check_type's hypothesis a theorem about ExtractTypes is not built. *)
Theorem C21_validated_fields_fit_all_trees_partial : forall cats fs inj rep bodies,
  check_type cats fs inj rep bodies = true ->
  forall e, In e bodies -> list_free e = true ->
  forall kids, produces e kids -> node_ok cats fs inj kids = true.
Proof. exact check_type_sound. Qed.

(* The same guarantee for bodies with lists of ANY length. check_sym is the symbolic validator for types whose
   accessors all fetch from the parent (FetchAfter = -1: what fixConflictingFields leaves when no two fields
   share a node type): it bounds, per field, the number of children matching the selector over the whole body
   (0, 1, "2 or more"); the proof is by induction on the derivation of the child sequence, the list case being
   the induction on the number of repetitions. *)
Theorem C21_symbolic_validator_any_list_length : forall cats fs inj e,
  check_sym cats fs inj e = true -> forall kids, produces e kids -> node_ok cats fs inj kids = true.
Proof. exact check_sym_sound. Qed.

(* The validator evaluated on the implementation's inferred fields (check_type_any: symbolic, or enumeration
   for list-free bodies): once it accepts, node_ok holds for EVERY child sequence of EVERY body of the type,
   no bound on the repetitions. Bodies with lists whose type also has FetchAfter chains are outside it (they
   are still validated with at most 2 repetitions per list, theorem ..._partial above). *)
Theorem C21_validated_fields_fit_all_trees : forall cats fs inj rep bodies,
  check_type_any cats fs inj rep bodies = true ->
  forall e, In e bodies -> forall kids, produces e kids -> node_ok cats fs inj kids = true.
Proof. exact check_type_any_sound. Qed.

(* Root: (Aleaf | Bleaf)+ x=Two? with a list of three repetitions *)
Example C21_symbolic_example :
  let fs := [mkF [1%N; 2%N] (-1) true true (-1); mkF [5%N] (-1) false false 0] in
  let e := CSeq (CList (CChoice (CNode 1) (CNode 2)) true) (COpt (CNode 5)) in
  check_sym [] fs 6%N e = true /\ check_type_any [] fs 6%N 2 [e] = true /\
  produces e [1%N; 2%N; 2%N; 5%N] /\ list_free e = false.
Proof.
  cbv zeta. repeat split; try (vm_compute; reflexivity).
  apply (P_seq _ _ [1%N; 2%N; 2%N] [5%N]); [|apply P_some; apply P_node].
  apply (P_more _ _ [1%N] [2%N; 2%N]); [apply P_left; apply P_node|].
  apply (P_more _ _ [2%N] [2%N]); [apply P_right; apply P_node|]. apply P_one. apply P_right. apply P_node.
Qed.

(* infer_fits: the connection between the step-by-step model of syntax/types.go (Syn/Infer.v, compared with
   ExtractTypes on random grammars: kind c21.infer) and the validator. FULL STATEMENT (not proved): for every
   grammar and every arrow of a type, the fields extract_types computes are accepted by check_type_any against
   the body. PROVED for the fragment [simple]: bodies made of sequences, optionals, + and * lists (with a
   separator that produces no node), %prec, nested arrows and reported tokens, i.e. exprPhrase for Arrow,
   Reference-to-terminal, Sequence (concatPhrases, merging repeated fields into lists), Optional, List, Prec and
   the field-less kinds: the phrase the model infers (whatever the Tarjan state and the nonterminal handler)
   passes the symbolic validator, so required fields are always present, optional/list flags are right and the
   selectors cover the children. Missing: references to nonterminals (the cycle rule), Choice (mergePhrases,
   LongestPath/topoSort), named fields (Assign/Append), categories, and fixConflictingFields (to_fields puts
   FetchAfter = -1, which is what fixConflictingFields leaves here since the fields of the fragment have
   pairwise different single types; the example below checks it on extract_types for one grammar). *)
Theorem C21_infer_fits_partial : forall tid m np e st inj,
  (forall a b, tid a = tid b -> a = b) -> simple m e = true ->
  check_sym [] (to_fields tid (fst (expr_phrase_with np m e st))) inj (cexpr_of tid m e) = true.
Proof. exact infer_fits. Qed.

(* ... hence, by the soundness of the validator, node_ok for EVERY child sequence of the body (any list length) *)
Theorem C21_inferred_fields_fit_all_trees_partial : forall tid m np e st inj,
  (forall a b, tid a = tid b -> a = b) -> simple m e = true ->
  forall kids, produces (cexpr_of tid m e) kids ->
  node_ok [] (to_fields tid (fst (expr_phrase_with np m e st))) inj kids = true.
Proof. exact infer_fits_all_trees. Qed.

(* the numbering of node types can be injective *)
Theorem C21_tid_injective_exists : forall a b, tid_enc a = tid_enc b -> a = b.
Proof. exact tid_enc_inj. Qed.

(* N0 -> R: (ta -> A) tk? ((tb -> A) separator tc)+ ;  with tk reported as K: R has the fields A+ and K? *)
Example C21_infer_example :
  let body := XSeq [XArrow [65%N] (XRef 0); XOpt (XRef 1); XList (XArrow [65%N] (XRef 2)) (XRef 3) true] in
  let m := mkModel 4 [XArrow [82%N] body] [(0, false)] [] [(1, [75%N])] in
  simple m body = true /\
  map (fun f => (pf_types f, pf_list f, pf_null f)) (ph_fields (fst (expr_phrase m body (init_tarjan 1)))) =
    [([[65%N]], true, false); ([[75%N]], false, true)] /\
  t_names (extract_types m) = [[65%N]; [82%N]; [75%N]] /\
  map (map (fun f => (rf_sel f, rf_after f, rf_req f, rf_list f))) (t_fields (extract_types m)) =
    [[]; [([[65%N]], (-1)%Z, true, true); ([[75%N]], (-1)%Z, false, false)]; []] /\
  produces (cexpr_of tid_enc m body) [tid_enc [65%N]; tid_enc [65%N]; tid_enc [65%N]].
Proof.
  cbv zeta. repeat split; try (vm_compute; reflexivity).
  cbn [cexpr_of tok_name assoc_nat m_tokens Nat.eqb].
  apply (P_seq _ _ [tid_enc [65%N]] [tid_enc [65%N]; tid_enc [65%N]]).
  - apply (P_seq _ _ [tid_enc [65%N]] []); [|apply P_none]. apply (P_seq _ _ [] [tid_enc [65%N]]); [apply P_empty | apply P_node].
  - apply (P_more _ _ [tid_enc [65%N]] [tid_enc [65%N]]); [apply P_node | apply P_one; apply P_node].
Qed.

(* node_ok in words: no accessor panics and every child that is not an injected token is returned by at least
   one accessor (the clauses "required accessors return a node" and "returned nodes are in the selector" are
   the second and third conjunct of node_ok's definition). *)
Theorem C21_node_ok_meaning : forall cats fs inj kids,
  node_ok cats fs inj kids = true ->
  (forall i, i < length fs -> accessor cats fs i kids <> RPanic) /\
  (forall j t, nth_error kids j = Some t -> t <> inj ->
     exists i, i < length fs /\ In j (returned (accessor cats fs i kids))).
Proof. exact node_ok_meaning. Qed.

(* Root: Cat1 x=Two? (Cleaf)* Inj?  with Cat1 = {1,2}; children Aleaf(1) Two(5) Cleaf(3) Cleaf(3) Inj(6) *)
Example C21_example :
  let cats := [mkCat [1%N; 2%N] true] in
  let fs := [mkF [1%N; 2%N] (-1) true false 1; mkF [5%N] (-1) false false 0; mkF [3%N] (-1) false true 0;
             mkF [6%N] (-1) false false 0] in
  accessors cats fs [1%N; 5%N; 3%N; 3%N; 6%N] = [ROne true 0; ROne true 1; RMany [2; 3]; ROne true 4] /\
  node_ok cats fs 6%N [1%N; 5%N; 3%N; 3%N; 6%N] = true /\
  node_ok cats fs 6%N [5%N] = false /\
  check_type cats fs 6%N 2 [CSeq (CChoice (CNode 1) (CNode 2)) (CSeq (COpt (CNode 5)) (COpt (CNode 6)))] = true /\
  produces (CSeq (CChoice (CNode 1) (CNode 2)) (CSeq (COpt (CNode 5)) (COpt (CNode 6)))) [2%N; 6%N].
Proof.
  cbv zeta. repeat split; try (vm_compute; reflexivity).
  apply (P_seq _ _ [2%N] [6%N]); [apply P_right; apply P_node|].
  apply (P_seq _ _ [] [6%N]); [apply P_none | apply P_some; apply P_node].
Qed.

Print Assumptions C21_accessor_types.
Print Assumptions C21_accessor_panics_only_in_assertion.
Print Assumptions C21_never_panics_needs_nilnode.
Print Assumptions C21_accessor_never_panics.
Print Assumptions C21_validated_fields_fit_all_trees_partial.
Print Assumptions C21_symbolic_validator_any_list_length.
Print Assumptions C21_validated_fields_fit_all_trees.
Print Assumptions C21_infer_fits_partial.
Print Assumptions C21_inferred_fields_fit_all_trees_partial.
Print Assumptions C21_tid_injective_exists.
Print Assumptions C21_node_ok_meaning.
