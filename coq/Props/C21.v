(* C21 — Typed AST accessors match the trees the parser builds.
   Model: Syn/Types.v (generated accessors of go_ast.go.tmpl over the inferred RangeFields, the NilNode of
   go_ast_factory.go.tmpl, Child/Children/Next/NextAll of go_ast_tree.go.tmpl; validator check_type). *)
From Coq Require Import List NArith ZArith Bool Arith.
From TM Require Import Syn.Types Syn.Types_proofs.
Import ListNotations.
Local Open Scope nat_scope.

(* accessor_types: for every field list, every node (child types [kids]) and every accessor, each node it
   returns is a child of that node whose type the field's declared selector accepts. *)
Theorem C21_accessor_types : forall cats fs i kids f j,
  nth_error fs i = Some f -> In j (returned (accessor cats fs i kids)) ->
  exists t, nth_error kids j = Some t /\ sel_has (f_sel f) t = true.
Proof. exact accessor_types. Qed.

(* An accessor can only panic in its generated type assertion ToNode(child).(Category): on a returned child
   whose type the category does not list, or -- absent child -- on NilNode when NilNode does not implement the
   category (the template leaves that method out for the synthetic TokenSet category). Accessors that wrap the
   child in a struct or assert the base interface never panic. *)
Theorem C21_accessor_panics_only_in_assertion : forall cats fs i kids f,
  nth_error fs i = Some f -> accessor cats fs i kids = RPanic ->
  (exists t, assert_ok cats (f_assert f) t = false) /\ (0 < f_assert f)%Z.
Proof. exact accessor_panics_only_in_assertion. Qed.

(* "never panics" needs the NilNode clause: in the accessor model an optional field asserting a category that
   NilNode does not implement panics on a node without that child. This was reachable in the pinned
   implementation (the template left the NilNode method out for every category CALLED TokenSet, also a
   user-declared one: fixed, known_findings "fixed: property=C21 fcc27f1"); since the fix only the synthetic
   TokenSet category lacks the method, and no field can name it. *)
Theorem C21_never_panics_needs_nilnode :
  exists cats fs kids, accessor cats fs 0 kids = RPanic.
Proof.
  exists [mkCat [2%N] false], [mkF [2%N] (-1) false false 1], []. vm_compute. reflexivity.
Qed.

(* never-panics: a field whose asserted category exists, lists every node type of the field's expanded
   selector and is implemented by NilNode (assert_covers: what go_ast.go.tmpl guarantees for every declared
   category after the fix) has an accessor that never panics, on ANY child sequence. *)
Theorem C21_accessor_never_panics : forall cats fs i kids f,
  nth_error fs i = Some f -> assert_covers cats f -> accessor cats fs i kids <> RPanic.
Proof. exact accessor_never_panics. Qed.

Example C21_assert_covers_satisfiable :
  assert_covers [mkCat [1%N; 2%N] true] (mkF [1%N; 2%N] (-1) false false 1).
Proof.
  intros _. exists (mkCat [1%N; 2%N] true). repeat split. intros t H. exact H.
Qed.

(* required_present + children_covered + never-panics + accessor_types, w.r.t. the child sequences an arrow
   body can produce ([produces e kids]), through the proved-sound validator: once check_type accepts the
   inferred fields of a type, node_ok holds for EVERY child sequence of every list-free body.
   PARTIAL: the full statement also covers bodies with lists ([list_free e] dropped); for those the validator
   is only evaluated on the sequences with at most [rep] repetitions per list. The step-by-step model of
   syntax/types.go (exprPhrase, concat/mergePhrases, the cycle rule, fixConflictingFields) that would make
   check_type's hypothesis a theorem about ExtractTypes is not built. *)
Theorem C21_validated_fields_fit_all_trees_partial : forall cats fs inj rep bodies,
  check_type cats fs inj rep bodies = true ->
  forall e, In e bodies -> list_free e = true ->
  forall kids, produces e kids -> node_ok cats fs inj kids = true.
Proof. exact check_type_sound. Qed.

(* node_ok in words: no accessor panics and every child that is not an injected token is returned by at least
   one accessor (the clauses "required accessors return a node" and "returned nodes are in the selector" are
   the second and third conjunct of node_ok's definition). *)
Theorem C21_node_ok_meaning : forall cats fs inj kids,
  node_ok cats fs inj kids = true ->
  (forall i, i < length fs -> accessor cats fs i kids <> RPanic) /\
  (forall j t, nth_error kids j = Some t -> t <> inj ->
     exists i, i < length fs /\ In j (returned (accessor cats fs i kids))).
Proof. exact node_ok_meaning. Qed.

(* Root: Cat1 x=Two? (Cleaf)* Inj?  with Cat1 = {1,2}; children Aleaf(1) Two(5) Cleaf(3) Cleaf(3) Inj(6) *)
Example C21_example :
  let cats := [mkCat [1%N; 2%N] true] in
  let fs := [mkF [1%N; 2%N] (-1) true false 1; mkF [5%N] (-1) false false 0; mkF [3%N] (-1) false true 0;
             mkF [6%N] (-1) false false 0] in
  accessors cats fs [1%N; 5%N; 3%N; 3%N; 6%N] = [ROne true 0; ROne true 1; RMany [2; 3]; ROne true 4] /\
  node_ok cats fs 6%N [1%N; 5%N; 3%N; 3%N; 6%N] = true /\
  node_ok cats fs 6%N [5%N] = false /\
  check_type cats fs 6%N 2 [CSeq (CChoice (CNode 1) (CNode 2)) (CSeq (COpt (CNode 5)) (COpt (CNode 6)))] = true /\
  produces (CSeq (CChoice (CNode 1) (CNode 2)) (CSeq (COpt (CNode 5)) (COpt (CNode 6)))) [2%N; 6%N].
Proof.
  cbv zeta. repeat split; try (vm_compute; reflexivity).
  apply (P_seq _ _ [2%N] [6%N]); [apply P_right; apply P_node|].
  apply (P_seq _ _ [] [6%N]); [apply P_none | apply P_some; apply P_node].
Qed.

Print Assumptions C21_accessor_types.
Print Assumptions C21_accessor_panics_only_in_assertion.
Print Assumptions C21_never_panics_needs_nilnode.
Print Assumptions C21_accessor_never_panics.
Print Assumptions C21_validated_fields_fit_all_trees_partial.
Print Assumptions C21_node_ok_meaning.
