(* C26 — Graph algorithms return correct components, closures and paths.
   Models: Util/Graph.v (transpose, matrix_closure, tarjan, longest_path mirror the Go code);
   certifying checkers: Util/GraphSpec.v.  Only theorem statements, examples, Print Assumptions. *)
From Coq Require Import List Bool Arith.
From TM Require Import Util.Graph Util.Graph_proofs Util.GraphSpec Util.GraphSpec_proofs Util.Tarjan_proofs Util.LongestPath_proofs.
Import ListNotations.

(* Transposition reverses every edge, with multiplicity, and invents none. *)
Theorem C26_transpose_reverses_every_edge :
  forall g from to, from < length g -> to < length g ->
  count_occ Nat.eq_dec (nth to (transpose g) []) from = count_occ Nat.eq_dec (nth from g []) to.
Proof. exact transpose_spec. Qed.

Theorem C26_transpose_invents_no_vertex :
  forall g to x, In x (nth to (transpose g) []) -> x < length g.
Proof. exact transpose_sources_in_range. Qed.

(* Matrix.Closure (the in-place Warshall loop) adds exactly the pairs joined by a path of >= 1 edges. *)
Theorem C26_closure_is_reachability :
  forall n m, mwf n m ->
  mwf n (matrix_closure m) /\ forall a b, has_edge (matrix_closure m) a b = true <-> reach m a b.
Proof. exact matrix_closure_spec. Qed.

(* Tarjan, certifying form (P2): whatever component list passes [check_scc] — evaluated on the real
   output of graph.Tarjan for every generated graph — reports every vertex exactly once, groups
   exactly the mutually reachable vertices, and lists a component before any component reaching it. *)
Theorem C26_scc_certificate_sound :
  forall g comps, check_scc g comps = true -> scc_output_ok g comps.
Proof. exact check_scc_sound. Qed.

Theorem C26_scc_are_the_strongly_connected_components :
  forall g comps, scc_output_ok g comps ->
  forall u v, u < length g -> v < length g ->
  ((exists c, In c comps /\ In u c /\ In v c) <-> (u = v \/ (greach g u v /\ greach g v u))).
Proof. exact scc_output_exact. Qed.

(* LongestPath, certifying form: nil exactly for cyclic graphs, otherwise a real path of maximum length
   among ALL paths of the graph (no length bound: acyclicity bounds paths by pigeonhole). *)
Theorem C26_longest_path_certificate_sound :
  forall g res, check_longest g res = true -> longest_ok g res.
Proof. exact check_longest_sound. Qed.

Theorem C26_onstack_contract :
  forall g out, check_onstack g out = true ->
  forall comp on v w, In (comp, on) out -> In v comp -> In w (nth v g []) ->
  (nth w on false = true <-> In w comp).
Proof. exact check_onstack_spec. Qed.

(* Tarjan, the algorithm itself (direct invariant proof over index / lowlink / stack / onStack with the
   active call chain as ghost state, Util/Tarjan_proofs.v): for EVERY graph with >= 2 vertices whose edges
   name existing vertices, the step-by-step model of tarjan.go (strongConnect with its fuel n+1)
   never runs out of fuel, ends with an empty stack, and its callbacks report every vertex in exactly one
   component, every component strongly connected, no earlier component reaching a later one (reverse
   topological order; with the partition this makes the components exactly the SCCs, see
   C26_scc_are_the_strongly_connected_components), and the onStack argument marks, among the successors
   of the component's vertices, exactly the members of the component. *)
Theorem C26_tarjan_spec :
  forall g, graph_wf g = true -> 2 <= length g ->
  t_oof (tarjan_run g) = false /\
  t_stack (tarjan_run g) = [] /\
  scc_output_ok g (map fst (tarjan g)) /\
  (forall comp on v w, In (comp, on) (tarjan g) -> In v comp -> In w (nth v g []) ->
     (nth w on false = true <-> In w comp)).
Proof. exact tarjan_spec. Qed.

(* the pre/post specification of one strongConnect call from which the above follows *)
Theorem C26_strong_connect_spec :
  forall g, graph_wf g = true -> forall f gr v s,
  Pre g f gr v s -> Post g gr v s (strong_connect f g v s).
Proof. exact strong_connect_spec. Qed.

(* consequently the model's output always passes the certificates (which are complete for the spec) *)
Theorem C26_tarjan_passes_certificates :
  forall g, graph_wf g = true -> 2 <= length g ->
  check_scc g (map fst (tarjan g)) = true /\ check_onstack g (tarjan g) = true.
Proof. exact tarjan_passes_certificates. Qed.

Theorem C26_scc_certificate_complete :
  forall g comps, scc_output_ok g comps -> check_scc g comps = true.
Proof. exact check_scc_complete. Qed.

(* the early return of the Go code: fewer than two vertices, nothing reported *)
Theorem C26_tarjan_small : forall g, length g < 2 -> tarjan g = [].
Proof. exact tarjan_small. Qed.

(* LongestPath, the algorithm itself (Util/LongestPath_proofs.v, invariant over height/link/cycle with the
   active call chain as ghost state): for EVERY graph with >= 1 vertex whose edges name existing vertices,
   the step-by-step model of path.go (dfs with its fuel n+2, the driver loop choosing `first`, the link walk)
   returns None exactly when the graph has a cycle, and otherwise a real path that no path of the graph
   exceeds in number of vertices. *)
Theorem C26_longest_path_spec :
  forall g, graph_wf g = true -> 1 <= length g -> longest_ok g (longest_path g).
Proof. exact longest_path_spec. Qed.

Theorem C26_longest_path_dfs_spec :
  forall g, graph_wf g = true -> forall f gr i s,
  PPre g f gr i s -> PPost g gr i s (lp_dfs f g i s).
Proof. exact lp_dfs_spec. Qed.

Theorem C26_longest_path_passes_certificate :
  forall g, graph_wf g = true -> 1 <= length g -> check_longest g (longest_path g) = true.
Proof. exact longest_path_passes_certificate. Qed.

(* the zero-vertex graph: the Go code returns the empty (nil) slice, which is also its "cycle" answer *)
Theorem C26_longest_path_empty : longest_path [] = Some [].
Proof. exact longest_path_empty. Qed.

(* non-vacuity: the model of Tarjan/LongestPath run on a concrete graph passes the certificates *)
Example C26_example :
  let g := [[1]; [2; 3]; [0]; [4]; []] in
  check_scc g (map fst (tarjan g)) = true /\ map fst (tarjan g) = [[4]; [3]; [0; 1; 2]] /\
  check_onstack g (tarjan g) = true /\
  check_longest g (longest_path g) = true /\ longest_path g = None /\
  longest_path [[1; 2]; [2]; [3]; []] = Some [0; 1; 2; 3] /\
  check_longest [[1; 2]; [2]; [3]; []] (Some [0; 1; 2; 3]) = true.
Proof. vm_compute. repeat split; reflexivity. Qed.

(* non-vacuity of the hypotheses of C26_tarjan_spec *)
Example C26_tarjan_spec_hyps : let g := [[1]; [2; 3]; [0]; [4]; []] in graph_wf g = true /\ 2 <= length g.
Proof. vm_compute. split; [reflexivity|repeat constructor]. Qed.

Print Assumptions C26_transpose_reverses_every_edge.
Print Assumptions C26_transpose_invents_no_vertex.
Print Assumptions C26_closure_is_reachability.
Print Assumptions C26_scc_certificate_sound.
Print Assumptions C26_scc_are_the_strongly_connected_components.
Print Assumptions C26_longest_path_certificate_sound.
Print Assumptions C26_onstack_contract.
Print Assumptions C26_tarjan_spec.
Print Assumptions C26_strong_connect_spec.
Print Assumptions C26_tarjan_passes_certificates.
Print Assumptions C26_scc_certificate_complete.
Print Assumptions C26_tarjan_small.
Print Assumptions C26_longest_path_spec.
Print Assumptions C26_longest_path_dfs_spec.
Print Assumptions C26_longest_path_passes_certificate.
Print Assumptions C26_longest_path_empty.
