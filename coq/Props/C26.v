(* C26 — Graph algorithms return correct components, closures and paths.
   Models: Util/Graph.v (transpose, matrix_closure, tarjan, longest_path mirror the Go code);
   certifying checkers: Util/GraphSpec.v.  Only theorem statements, examples, Print Assumptions. *)
From Coq Require Import List Bool Arith.
From TM Require Import Util.Graph Util.Graph_proofs Util.GraphSpec Util.GraphSpec_proofs.
Import ListNotations.

(* Transposition reverses every edge, with multiplicity, and invents none. *)
Theorem C26_transpose_reverses_every_edge :
  forall g from to, from < length g -> to < length g ->
  count_occ Nat.eq_dec (nth to (transpose g) []) from = count_occ Nat.eq_dec (nth from g []) to.
Proof. exact transpose_spec. Qed.

Theorem C26_transpose_invents_no_vertex :
  forall g to x, In x (nth to (transpose g) []) -> x < length g.
Proof. exact transpose_sources_in_range. Qed.

(* Matrix.Closure (the in-place Warshall loop) adds exactly the pairs joined by a path of >= 1 edges. *)
Theorem C26_closure_is_reachability :
  forall n m, mwf n m ->
  mwf n (matrix_closure m) /\ forall a b, has_edge (matrix_closure m) a b = true <-> reach m a b.
Proof. exact matrix_closure_spec. Qed.

(* Tarjan, certifying form (P2): whatever component list passes [check_scc] — evaluated on the real
   output of graph.Tarjan for every generated graph — reports every vertex exactly once, groups
   exactly the mutually reachable vertices, and lists a component before any component reaching it. *)
Theorem C26_scc_certificate_sound :
  forall g comps, check_scc g comps = true -> scc_output_ok g comps.
Proof. exact check_scc_sound. Qed.

Theorem C26_scc_are_the_strongly_connected_components :
  forall g comps, scc_output_ok g comps ->
  forall u v, u < length g -> v < length g ->
  ((exists c, In c comps /\ In u c /\ In v c) <-> (u = v \/ (greach g u v /\ greach g v u))).
Proof. exact scc_output_exact. Qed.

(* LongestPath, certifying form: nil exactly for cyclic graphs, otherwise a real path of maximum length
   among ALL paths of the graph (no length bound: acyclicity bounds paths by pigeonhole). *)
Theorem C26_longest_path_certificate_sound :
  forall g res, check_longest g res = true -> longest_ok g res.
Proof. exact check_longest_sound. Qed.

Theorem C26_onstack_contract :
  forall g out, check_onstack g out = true ->
  forall comp on v w, In (comp, on) out -> In v comp -> In w (nth v g []) ->
  (nth w on false = true <-> In w comp).
Proof. exact check_onstack_spec. Qed.

(* non-vacuity: the model of Tarjan/LongestPath run on a concrete graph passes the certificates *)
Example C26_example :
  let g := [[1]; [2; 3]; [0]; [4]; []] in
  check_scc g (map fst (tarjan g)) = true /\ map fst (tarjan g) = [[4]; [3]; [0; 1; 2]] /\
  check_onstack g (tarjan g) = true /\
  check_longest g (longest_path g) = true /\ longest_path g = None /\
  longest_path [[1; 2]; [2]; [3]; []] = Some [0; 1; 2; 3] /\
  check_longest [[1; 2]; [2]; [3]; []] (Some [0; 1; 2; 3]) = true.
Proof. vm_compute. repeat split; reflexivity. Qed.

Print Assumptions C26_transpose_reverses_every_edge.
Print Assumptions C26_transpose_invents_no_vertex.
Print Assumptions C26_closure_is_reachability.
Print Assumptions C26_scc_certificate_sound.
Print Assumptions C26_scc_are_the_strongly_connected_components.
Print Assumptions C26_longest_path_certificate_sound.
Print Assumptions C26_onstack_contract.
