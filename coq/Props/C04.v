(* C04 — Precedence and associativity resolve conflicts as documented.
   Model: Gram/Prec.v (resolvePrec, ruleAction, per-cell fold of populateTables). *)
From Coq Require Import List ZArith Bool.
From TM Require Import Gram.Cfg Gram.Prec Gram.Prec_proofs.
Import ListNotations.
Local Open Scope Z_scope.

(* The rule's precedence terminal: %prec if given, otherwise the last terminal of its right-hand side. *)
Theorem C04_rule_precedence_explicit :
  forall g r, r_prec (rule_at g r) <> 0 -> rule_prec g r = r_prec (rule_at g r).
Proof. exact rule_prec_explicit. Qed.

Theorem C04_rule_precedence_is_last_terminal :
  forall g r pre t post, r_prec (rule_at g r) = 0 -> r_rhs (rule_at g r) = pre ++ t :: post ->
  0 < t < g_terms g -> (forall s, In s post -> ~ (0 < s < g_terms g)) -> rule_prec g r = t.
Proof. exact rule_prec_last_terminal. Qed.

(* Both sides declared: higher group wins; equal groups follow the associativity of the group. *)
Theorem C04_declared_precedence_decides :
  forall g r t gr ar gs assoc, rule_prec g r <> 0 -> t <> 0 ->
  prec_group g (rule_prec g r) = Some (gr, ar) -> prec_group g t = Some (gs, assoc) ->
  resolve_prec g r t =
    if gr >? gs then do_reduce else if gr <? gs then do_shift
    else if assoc =? 0 then do_reduce else if assoc =? 1 then do_shift
    else if assoc =? 2 then do_error else res_conflict.
Proof. exact resolve_prec_declared. Qed.

(* Any undeclared side (or end of input as lookahead): precedence cannot decide. *)
Theorem C04_undeclared_is_a_conflict :
  forall g r t, rule_prec g r = 0 \/ t = 0 \/ prec_group g (rule_prec g r) = None \/ prec_group g t = None ->
  resolve_prec g r t = res_conflict.
Proof. exact resolve_prec_undeclared. Qed.

(* What the table cell becomes for a shift against one reduction; undecided => reported conflict, shift kept;
   nonassoc => error cell. *)
Theorem C04_shift_reduce_cell :
  forall g t r, merge_cell g true t [r] =
    let res := resolve_prec g r t in
    ((if res =? do_reduce then r else if res =? do_error then -3 else -1), Some (mkAmb true [r] res)).
Proof. exact cell_shift_reduce. Qed.

Theorem C04_undecided_defaults_to_shift :
  forall g t r, resolve_prec g r t = res_conflict -> merge_cell g true t [r] = (-1, Some (mkAmb true [r] res_conflict)).
Proof. exact undecided_defaults_to_shift. Qed.

Theorem C04_nonassoc_is_a_syntax_error :
  forall g t r, resolve_prec g r t = do_error -> final_action (fst (merge_cell g true t [r])) = -2.
Proof. exact nonassoc_is_error. Qed.

(* Unresolved reduce/reduce: reported, the earlier rule stays in the cell. *)
Theorem C04_reduce_reduce_keeps_the_earlier_rule :
  forall g t r1 r2, 0 <= r1 -> merge_cell g false t [r1; r2] = (r1, Some (mkAmb false [r2; r1] res_conflict)).
Proof. exact cell_reduce_reduce. Qed.

Theorem C04_unresolved_cell_is_frozen :
  forall g term rules action amb, has_conflict amb = true -> action <> -2 ->
  fst (fold_left (fun '(action, amb) rule =>
         if action =? -2 then (rule, amb) else rule_action g action term rule amb) rules (action, amb)) = action.
Proof. exact conflict_freezes_cell. Qed.

(* E -> E plus E | E times E | id with %left plus; %left times (terminals: 1 id, 2 plus, 3 times):
   after E times E on plus reduce; after E plus E on times shift; after E plus E on plus reduce (left). *)
Definition ex_g : grammar :=
  mkGrammar 4 1 [mkRule 4 [4; 2; 4] 0; mkRule 4 [4; 3; 4] 0; mkRule 4 [1] 0] [(4, true)] [(0, [2]); (0, [3])].

Example C04_example :
  resolve_prec ex_g 1 2 = do_reduce /\ resolve_prec ex_g 0 3 = do_shift /\ resolve_prec ex_g 0 2 = do_reduce /\
  rule_prec ex_g 0 = 2 /\ prec_group ex_g 3 = Some (1, 0).
Proof. vm_compute. repeat split; reflexivity. Qed.

Print Assumptions C04_declared_precedence_decides.
Print Assumptions C04_undeclared_is_a_conflict.
Print Assumptions C04_shift_reduce_cell.
Print Assumptions C04_reduce_reduce_keeps_the_earlier_rule.
Print Assumptions C04_unresolved_cell_is_frozen.
Print Assumptions C04_rule_precedence_is_last_terminal.
