(* C14 — Template instantiation preserves meaning.
   Model: Syn/Templates.v (syntax/templates.go: Instantiate, resolveInstance, instance.resolve, allocate,
   check, doExpr, doSet, suffix, final sort + Rearrange) and the template semantics [tden] / [eval_pred].
   Lemmas: Syn/Templates_proofs.v. *)
From Coq Require Import List ZArith Bool.
From TM Require Import Syn.Expr Syn.Expand Syn.ExtLang Syn.Templates Syn.Templates_proofs.
Import ListNotations.
Local Open Scope Z_scope.

(* FULL STATEMENT (not proved as one theorem):
     instantiate_preserves: derives (instantiate M) (inst X args) w <-> tlang M X (bind args) w, inputs at defaults.
   PROVED below, universally:
     - predicate evaluation (!, &&, ||, ==, != as Not/And/Or/Equals) of the instantiator is the declarative one;
     - for EVERY expression of a template (explicit and propagated arguments, conditionals in choices,
       nested and lone conditionals, lists, optionals, lookaheads) and every environment: the expression
       written by doExpr denotes exactly the template denotation [tden] under that environment, for every
       interpretation in which instance k means (its nonterminal, its bound arguments) — the key step of
       instantiate_preserves;
     - no_fatal for predicates and argument resolution under a decidable boundness condition.
   MISSING: the least-fixpoint gluing over all instances, the final sort/Rearrange (covered by the exact
   correspondence), PropagateLookaheads (lookahead flags: Tier 2, exercised only end to end).
   READING of disabled alternatives (pinned by syntax/templates_test.go, `F<T>: a ([T] b) a` => `F: a a`):
   a disabled alternative of a choice is removed; a group left without alternatives and a conditional that
   is not an alternative of a choice match the empty string.  Under the stricter reading "no alternative =
   no string" the implementation differs on such groups (see notes/design-C14.md). *)

Theorem C14_predicate_evaluation :
  forall e p b, check_pred (Some e) p = (b, false) -> b = eval_pred e p.
Proof. exact check_pred_eval. Qed.

Theorem C14_instantiate_preserves_partial :
  forall T trho setden rho e x st x' st', do_expr T (Some e) st x = (x', st') ->
    (exists more, is_list st' = is_list st ++ more) /\
    ((forall k i, nth_error (is_list st') k = Some i ->
        forall w, rho (T + Z.of_nat k) w <-> trho (T + i_nt i) (i_sig i) w) ->
     is_fatal st' = false ->
     forall w, den T rho setden x' w <-> tden T trho setden e x w).
Proof.
  intros T trho setden rho e x st x' st' H.
  destruct (do_expr_good T trho setden rho e x st x' st' H) as (Hp & _ & Hd). split; [exact Hp | exact Hd].
Qed.

Theorem C14_no_fatal_partial :
  (forall e p, pred_bound e p = true -> snd (check_pred (Some e) p) = false) /\
  (forall st e nt args, args_bound e args = true -> is_fatal (snd (resolve_instance st (Some e) nt args)) = is_fatal st).
Proof. split; [exact check_pred_no_fatal | exact resolve_instance_no_fatal]. Qed.

(* non-vacuity.  %flag A(0), B(1); terminals a b = 0 1;  N0 (2): N1<+A, B: false> ;
   N1<A,B> (3): [A && !B] a N1<A: B, B> | [B] b | a *)
Definition ex_tm : model :=
  mkModel [[97]; [98]] [mkParam [65] [] false; mkParam [66] [] false]
    [mkNt [78; 48] [] (ERef 3 [mkArg 0 s_true 0; mkArg 1 s_false 0]) 0;
     mkNt [78; 49] [0; 1]
       (EChoice [ECond (PAnd [PEq 0 s_true; PNot (PEq 1 s_true)]) (ESeq [ERef 0 []; ERef 3 [mkArg 0 [] 1; mkArg 1 [] 1]]);
                 ECond (PEq 1 s_true) (ERef 1 []);
                 ERef 0 []]) 0]
    [mkInput 0 false] [].

Example C14_example :
  map (fun '(n, v, _) => (n, v)) (tr_nonterms (instantiate 100 ex_tm)) =
    [ ([78; 48], ERef 4 []);                                   (* N0: N1_A *)
      ([78; 49], ERef 0 []);                                   (* N1: a *)
      ([78; 49; 95; 65], EChoice [ESeq [ERef 0 []; ERef 3 []]; ERef 0 []]) ]   (* N1_A: a N1 | a *)
  /\ tr_fatal (instantiate 100 ex_tm) = false
  /\ eval_pred [(0, s_true); (1, s_false)] (PAnd [PEq 0 s_true; PNot (PEq 1 s_true)]) = true
  /\ pred_bound [(0, s_true); (1, s_false)] (PAnd [PEq 0 s_true; PNot (PEq 1 s_true)]) = true.
Proof. vm_compute. repeat split; reflexivity. Qed.

Print Assumptions C14_predicate_evaluation.
Print Assumptions C14_instantiate_preserves_partial.
Print Assumptions C14_no_fatal_partial.
