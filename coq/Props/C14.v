(* C14 — Template instantiation preserves meaning.
   Model: Syn/Templates.v (syntax/templates.go: Instantiate, resolveInstance, instance.resolve, allocate,
   check, doExpr, doSet, suffix, final sort + Rearrange) and the template semantics [tden] / [eval_pred].
   Lemmas: Syn/Templates_proofs.v. *)
From Coq Require Import List ZArith Bool Lia.
From TM Require Import Syn.Expr Syn.Expand Syn.ExtLang Syn.Expand_global Syn.Templates Syn.Templates_proofs Syn.Templates_global Syn.Templates_perm Syn.TemplatesWf Syn.Templates_wf_proofs.
Import ListNotations.
Local Open Scope Z_scope.

(* FULL STATEMENT: derives (instantiate M) (inst X args) w <-> tlang M X (bind args) w, inputs at defaults.
   PROVED: C14_instantiate_correct is this statement for the model [instantiate] of syntax.Instantiate as a
   whole (entry points, instance work list, doExpr, names, sort by (nonterminal, suffix), Rearrange): every
   instance k = (nonterminal, bound arguments) has, in the instantiated table, exactly the language its template
   has under these arguments; both languages are least solutions (Knaster-Tarski): [tlfp] over pairs
   (nonterminal, arguments) with the template denotation [tden], [lfp] over the instantiated table with [den].
   An input is the instance (input nonterminal, no arguments).  The side conditions are one boolean,
   [inst_checks] (no Fatal branch, instances pairwise different, the sort permutation is a permutation,
   references in range), evaluated by ./check on every generated model.
   Also proved: the instantiator's predicate evaluation is the declarative one; no_fatal for bound
   predicates/arguments; the per-expression theorem for doExpr (suffix _partial).
   PROVED: the final sort by (nonterminal, suffix) builds a permutation for EVERY model
   (C14_sort_is_a_permutation), so the side condition shrinks to [inst_checks_core] (no Fatal branch, instances
   pairwise different, references in range): C14_instantiate_correct_core.
   PROVED (this round): [inst_checks_core] follows from the STATIC boolean [TemplatesWf.wf_templates] over the input
   model (C14_wf_templates_checks), hence C14_instantiate_correct_wf has no hypothesis about the run of the pass.
   wf_templates: in the body of a nonterminal with parameters P every tested parameter is in P, every reference to a
   nonterminal is in range and passes exactly the parameters of its target, in the target's order, each one the
   literal true / false or taken from a parameter in P; inputs and nonterminals named in set expressions have no
   parameters; fuel exceeds the number of (nonterminal, boolean valuation) pairs.  Proof: every allocated instance is
   one of these pairs (so its environment binds P with booleans: no TakeFrom Fatal, no Fatal in check), instances
   are found before they are allocated (pairwise different), hence the work list is no longer than the number of
   pairs (fuel suffices), and doExpr only writes references to existing instances.
   NOT PROVED / NOT MODELLED: PropagateLookaheads
   (lookahead flags); the bridge from [lfp] to [Derive.derives] is in Props/C13.v for flat tables (the output of
   Instantiate still contains the extended notation, it is the input of Expand).
   READING of disabled alternatives (pinned by syntax/templates_test.go, `F<T>: a ([T] b) a` => `F: a a`):
   a disabled alternative of a choice is removed; a group left without alternatives and a conditional that
   is not an alternative of a choice match the empty string (see notes/design-C14.md). *)

(* Instantiate as a whole *)
Theorem C14_instantiate_correct :
  forall setden fuel m,
    m_params m <> [] -> inst_checks fuel m = true ->
    let st := snd (inst_loop fuel (nterms m) (m_nonterms m) O (inst_start m) []) in
    forall k cur, nth_error (is_list st) k = Some cur -> forall w,
      tlfp (nterms m) setden (m_nonterms m) (nterms m + i_nt cur) (i_sig cur) w <->
      lfp (nterms m) setden (map val3 (tr_nonterms (instantiate fuel m)))
          (nterms m + Z.of_nat (nth k (inst_perm m (is_list st)) O)) w.
Proof. intros setden fuel m Hp Hc. apply instantiate_correct; [exact Hp | exact Hc | unfold nterms; lia]. Qed.

(* the permutation built by the final sort is a permutation, for all inputs (it is a sort) *)
Theorem C14_sort_is_a_permutation :
  forall m insts, perm_ok (inst_perm m insts) (length insts) = true.
Proof. exact inst_perm_ok. Qed.

(* Instantiate as a whole, without the side condition on the sort *)
Theorem C14_instantiate_correct_core :
  forall setden fuel m,
    m_params m <> [] -> inst_checks_core fuel m = true ->
    let st := snd (inst_loop fuel (nterms m) (m_nonterms m) O (inst_start m) []) in
    forall k cur, nth_error (is_list st) k = Some cur -> forall w,
      tlfp (nterms m) setden (m_nonterms m) (nterms m + i_nt cur) (i_sig cur) w <->
      lfp (nterms m) setden (map val3 (tr_nonterms (instantiate fuel m)))
          (nterms m + Z.of_nat (nth k (inst_perm m (is_list st)) O)) w.
Proof. intros setden fuel m Hp Hc. apply instantiate_correct_core; [exact Hp | exact Hc | unfold nterms; lia]. Qed.

(* the static predicate implies the run-time side conditions: no Fatal branch, instances pairwise different,
   references of the instantiated table in range *)
Theorem C14_wf_templates_checks : forall fuel m, wf_templates fuel m = true -> inst_checks_core fuel m = true.
Proof. exact wf_templates_checks. Qed.

(* Instantiate as a whole, static hypothesis only *)
Theorem C14_instantiate_correct_wf :
  forall setden fuel m,
    m_params m <> [] -> wf_templates fuel m = true ->
    let st := snd (inst_loop fuel (nterms m) (m_nonterms m) O (inst_start m) []) in
    forall k cur, nth_error (is_list st) k = Some cur -> forall w,
      tlfp (nterms m) setden (m_nonterms m) (nterms m + i_nt cur) (i_sig cur) w <->
      lfp (nterms m) setden (map val3 (tr_nonterms (instantiate fuel m)))
          (nterms m + Z.of_nat (nth k (inst_perm m (is_list st)) O)) w.
Proof. exact instantiate_correct_wf. Qed.

(* doExpr in a well-formed body under the environment of an allocated instance: the Fatal flag is untouched, the
   instances stay pairwise different (boolean valuations of their nonterminals), the result only mentions
   existing instances *)
Theorem C14_do_expr_static :
  forall T nts P e x st x' st',
    env_ok P e -> wf_texpr T nts P x = true -> tinv nts st -> do_expr T (Some e) st x = (x', st') ->
    tinv nts st' /\ is_fatal st' = is_fatal st /\ bounded (T + Z.of_nat (length (is_list st'))) x' = true.
Proof.
  intros T nts P e x st x' st' He Hw Hi Hx.
  destruct (do_expr_wf T nts P e He x st x' st' Hw Hi Hx) as ((A & B & _) & C). auto.
Qed.

(* the template language is a solution of the template equations *)
Theorem C14_template_language_is_a_solution :
  forall T setden nts Y sg w,
    tlfp T setden nts Y sg w <-> tden T (tlfp T setden nts) setden (inst_env (mkInst (Y - T) sg)) (tvalue T nts Y) w.
Proof. exact tlfp_fixpoint. Qed.

Theorem C14_predicate_evaluation :
  forall e p b, check_pred (Some e) p = (b, false) -> b = eval_pred e p.
Proof. exact check_pred_eval. Qed.

Theorem C14_instantiate_preserves_partial :
  forall T trho setden rho e x st x' st', do_expr T (Some e) st x = (x', st') ->
    (exists more, is_list st' = is_list st ++ more) /\
    ((forall k i, nth_error (is_list st') k = Some i ->
        forall w, rho (T + Z.of_nat k) w <-> trho (T + i_nt i) (i_sig i) w) ->
     is_fatal st' = false ->
     forall w, den T rho setden x' w <-> tden T trho setden e x w).
Proof.
  intros T trho setden rho e x st x' st' H.
  destruct (do_expr_good T trho setden rho e x st x' st' H) as (Hp & _ & Hd). split; [exact Hp | exact Hd].
Qed.

Theorem C14_no_fatal_partial :
  (forall e p, pred_bound e p = true -> snd (check_pred (Some e) p) = false) /\
  (forall st e nt args, args_bound e args = true -> is_fatal (snd (resolve_instance st (Some e) nt args)) = is_fatal st).
Proof. split; [exact check_pred_no_fatal | exact resolve_instance_no_fatal]. Qed.

(* non-vacuity.  %flag A(0), B(1); terminals a b = 0 1;  N0 (2): N1<+A, B: false> ;
   N1<A,B> (3): [A && !B] a N1<A: B, B> | [B] b | a *)
Definition ex_tm : model :=
  mkModel [[97]; [98]] [mkParam [65] [] false; mkParam [66] [] false]
    [mkNt [78; 48] [] (ERef 3 [mkArg 0 s_true 0; mkArg 1 s_false 0]) 0;
     mkNt [78; 49] [0; 1]
       (EChoice [ECond (PAnd [PEq 0 s_true; PNot (PEq 1 s_true)]) (ESeq [ERef 0 []; ERef 3 [mkArg 0 [] 1; mkArg 1 [] 1]]);
                 ECond (PEq 1 s_true) (ERef 1 []);
                 ERef 0 []]) 0]
    [mkInput 0 false] [].

Example C14_example :
  map (fun '(n, v, _) => (n, v)) (tr_nonterms (instantiate 100 ex_tm)) =
    [ ([78; 48], ERef 4 []);                                   (* N0: N1_A *)
      ([78; 49], ERef 0 []);                                   (* N1: a *)
      ([78; 49; 95; 65], EChoice [ESeq [ERef 0 []; ERef 3 []]; ERef 0 []]) ]   (* N1_A: a N1 | a *)
  /\ tr_fatal (instantiate 100 ex_tm) = false
  /\ eval_pred [(0, s_true); (1, s_false)] (PAnd [PEq 0 s_true; PNot (PEq 1 s_true)]) = true
  /\ pred_bound [(0, s_true); (1, s_false)] (PAnd [PEq 0 s_true; PNot (PEq 1 s_true)]) = true.
Proof. vm_compute. repeat split; reflexivity. Qed.

Example C14_example_wf : wf_templates 100 ex_tm = true /\ wf_templates 5 ex_tm = false.
Proof. vm_compute. split; reflexivity. Qed.

(* the static condition matters: an argument taken from a parameter the enclosing nonterminal does not have
   reaches the TakeFrom Fatal *)
Example C14_example_not_wf :
  let m := mkModel [[97]] [mkParam [65] [] false]
             [mkNt [78; 48] [] (ERef 2 [mkArg 0 [] 0]) 0; mkNt [78; 49] [0] (ERef 0 []) 0] [mkInput 0 false] [] in
  wf_templates 100 m = false /\ tr_fatal (instantiate 100 m) = true.
Proof. vm_compute. split; reflexivity. Qed.

Example C14_example_checks : inst_checks 100 ex_tm = true /\ inst_checks_core 100 ex_tm = true /\ m_params ex_tm <> [] /\
  is_list (snd (inst_loop 100 (nterms ex_tm) (m_nonterms ex_tm) O (inst_start ex_tm) [])) =
    [mkInst 0 []; mkInst 1 [(0, s_true); (1, s_false)]; mkInst 1 [(0, s_false); (1, s_false)]].
Proof. split; [vm_compute; reflexivity|]. split; [vm_compute; reflexivity|]. split; [discriminate | vm_compute; reflexivity]. Qed.

Print Assumptions C14_instantiate_correct.
Print Assumptions C14_sort_is_a_permutation.
Print Assumptions C14_instantiate_correct_core.
Print Assumptions C14_wf_templates_checks.
Print Assumptions C14_instantiate_correct_wf.
Print Assumptions C14_do_expr_static.
Print Assumptions C14_template_language_is_a_solution.
Print Assumptions C14_predicate_evaluation.
Print Assumptions C14_instantiate_preserves_partial.
Print Assumptions C14_no_fatal_partial.
