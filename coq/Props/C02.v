(* C02 — Parser listener events reproduce the derivation.
   Models: Gram/Events.v — xrun (the parse loop of go_parser.go.tmpl with applyRule, fixTrailingWS and reportRange,
   carrying the derivation forest on its stack) and spec_events (post-order list of the arrows of a derivation
   tree, each from the first to the last token of its part, an empty part at the token that follows it). *)
From Coq Require Import List ZArith Bool.
From TM Require Import Gram.PTables Gram.Run Gram.Validator Gram.Events Gram.Events_proofs Gram.Events_strict Gram.Events_run Gram.Events_loose.
Import ListNotations.
Local Open Scope Z_scope.

(* For EVERY machine, event table, token sequence and fuel: if the fixWhitespace loop accepts with the stack
   [EOI; S; bottom], then the tree it built for S has exactly the input tokens as leaves and the listener
   events are exactly the specification's events of that tree (types, order and byte ranges).
   Hypotheses: tokens are non-empty and in order; the tree of S is well-formed w.r.t. the event table (report
   ranges inside the rule, no empty range at the end of a rule, rules flagged "cannot end with an empty symbol"
   end with a non-empty subtree) and contains no end-of-input leaf. *)
Theorem C02_events_are_the_postorder_of_the_derivation :
  forall m evt rl eoi_off fuel start end_state input c' etop eS b,
  Forall (fun t => t_sym t <> 0) input ->
  ordered (map tok_range input) eoi_off ->
  xrun fuel m evt true start end_state eoi_off input = (Accept, c') ->
  xc_stack c' = [etop; eS; b] ->
  x_tree etop = TLeaf 0 eoi_off eoi_off ->
  ~ In (eoi_off, eoi_off) (leaves (x_tree eS)) ->
  wf_tree evt rl (x_tree eS) ->
  leaves (x_tree eS) = map tok_range input /\
  xc_events c' = spec_events (arrows_of_ev rl evt) (x_tree eS) eoi_off.
Proof. exact xrun_events_spec. Qed.

(* the range the fixWhitespace loop gives to any subtree is its first-to-last-token span (an empty subtree sits
   at the following token), and its events are the specification's — for every well-formed tree *)
Theorem C02_ranges_and_events_of_a_subtree :
  forall evt rl t, wf_tree evt rl t -> forall after, ordered (leaves t) after ->
  tree_run true evt t after = (span_of (leaves t) after, spec_events (arrows_of_ev rl evt) t after).
Proof. exact tree_run_strict. Qed.

(* at EVERY point of EVERY run (either fixWhitespace setting, accepted or not) the events emitted so far are the
   events of the forest on the stack, in stack order, and its leaves are the consumed tokens *)
Theorem C02_events_follow_the_stack :
  forall m evt fixws eoi_off input0 end_state fuel start o c',
  Forall (fun t => t_sym t <> 0) input0 ->
  xrun fuel m evt fixws start end_state eoi_off input0 = (o, c') ->
  exists lvs k, sok evt fixws (xc_stack c') (next_off eoi_off c') (xc_events c') lvs /\
    lvs ++ map tok_range (xc_input c') = map tok_range input0 ++ repeat (eoi_off, eoi_off) k.
Proof.
  intros m evt fixws eoi_off input0 end_state fuel start o c' Hnz Hrun. unfold xrun in Hrun.
  assert (Hinv : xinv evt fixws eoi_off input0 c').
  { eapply xrun_inv; [apply xinv_init; exact Hnz|exact Hrun]. }
  destruct Hinv as (_ & lvs & k & Hs & Hst & _). exists lvs, k. split; assumption.
Qed.

(* the well-formedness hypothesis has a boolean form, evaluated on every sampled run *)
Theorem C02_wellformedness_is_checkable :
  forall evt rl t, wf_treeb evt rl t = true -> wf_tree evt rl t.
Proof. exact wf_treeb_sound. Qed.

(* ---- without fixWhitespace ---- *)
(* Token streams without gaps (each token starts where the previous one ends, end-of-input at the end of the last
   token): the loop WITHOUT fixWhitespace emits exactly the specification's events too. *)
Theorem C02_events_without_fixWhitespace_no_gaps :
  forall m evt rl eoi_off fuel start end_state input c' etop eS b,
  Forall (fun t => t_sym t <> 0) input ->
  ordered (map tok_range input) eoi_off ->
  contiguous (map tok_range input) eoi_off ->
  xrun fuel m evt false start end_state eoi_off input = (Accept, c') ->
  xc_stack c' = [etop; eS; b] ->
  x_tree etop = TLeaf 0 eoi_off eoi_off ->
  ~ In (eoi_off, eoi_off) (leaves (x_tree eS)) ->
  wf_reports evt rl (x_tree eS) ->
  leaves (x_tree eS) = map tok_range input /\
  xc_events c' = spec_events (arrows_of_ev rl evt) (x_tree eS) eoi_off.
Proof. exact xrun_events_spec_nogap. Qed.

(* there the "loose" ranges coincide with the strict ones, for every subtree *)
Theorem C02_no_gaps_ranges_and_events_of_a_subtree :
  forall evt rl t, wf_reports evt rl t -> forall after, contiguous (leaves t) after ->
  tree_run false evt t after = (span_of (leaves t) after, spec_events (arrows_of_ev rl evt) t after).
Proof. exact tree_run_nogap. Qed.

(* In general (every token stream, no orderedness needed) the loop without fixWhitespace gives every subtree the
   range (first token, loose end) and emits the loose events: each arrow from the first token of its part (an
   empty part: the following token) to the loose end of the last symbol of the part. *)
Theorem C02_loose_ranges_and_events_of_a_subtree :
  forall evt rl t, wf_reports evt rl t -> forall after,
  tree_run false evt t after = (loose_range t after, loose_events (arrows_of_ev rl evt) t after).
Proof. exact tree_run_loose. Qed.

(* The loose end: a node ends at the START OF THE FOLLOWING TOKEN exactly when its last symbol is (recursively)
   empty -- it then extends over the whitespace in between --, and at the end of its last token otherwise.
   (the known finding "node ranges include trailing whitespace without fixWhitespace", made exact) *)
Theorem C02_loose_end_characterisation :
  forall t a,
  (ends_empty t = true -> lend t a = a) /\
  (ends_empty t = false -> leaves t <> [] /\ lend t a = snd (span_of (leaves t) a)).
Proof. exact lend_cases. Qed.

(* and the run-level statement: accepted runs without fixWhitespace emit exactly the loose events of the derivation *)
Theorem C02_events_without_fixWhitespace :
  forall m evt rl eoi_off fuel start end_state input c' etop eS b,
  Forall (fun t => t_sym t <> 0) input ->
  ordered (map tok_range input) eoi_off ->
  xrun fuel m evt false start end_state eoi_off input = (Accept, c') ->
  xc_stack c' = [etop; eS; b] ->
  x_tree etop = TLeaf 0 eoi_off eoi_off ->
  ~ In (eoi_off, eoi_off) (leaves (x_tree eS)) ->
  wf_reports evt rl (x_tree eS) ->
  leaves (x_tree eS) = map tok_range input /\
  xc_events c' = loose_events (arrows_of_ev rl evt) (x_tree eS) eoi_off.
Proof. exact xrun_events_loose. Qed.

(* non-vacuity: textmapper's tables for  N0 : 'a' ('b' 'b' -> T2) N0 -> T1 | %empty -> T3 ;  on "a bb abb " *)
Definition t0 : default_enc :=
  mkDefaultEnc [-3; -1; -1; -9; 0; -1; -2] [2; -1; 0; 1; -1; -2; 2; -1; 0; 1; -1; -2] [0; 2; 2; 6; 10; 14]
               [5; 6; 0; 1; 3; 1; 1; 2; 2; 3; 0; 5; 3; 4].
Definition m0 : machine := lalr1_machine t0 [4; 0] [4; 4].
Definition evt0 : ev_table := [mkEvRule 1 [(1%nat, 3%nat, 2)] true; mkEvRule 3 [] false].
Definition input0 : list tok := [mkTok 2 0 1; mkTok 3 2 3; mkTok 3 3 4; mkTok 2 5 6; mkTok 3 6 7; mkTok 3 7 8].

Example C02_example :
  let '(o, c) := xrun 100 m0 evt0 true 0 6 9 input0 in
  o = Accept /\
  xc_events c = [(3, 9, 9); (2, 6, 8); (1, 5, 8); (2, 2, 4); (1, 0, 8)] /\
  match xc_stack c with
  | [etop; eS; b] => xc_events c = spec_events (arrows_of_ev (zn [4; 0]) evt0) (x_tree eS) 9
  | _ => False
  end.
Proof. vm_compute. repeat split; reflexivity. Qed.

(* non-vacuity without fixWhitespace: "abbabb" (no gaps) gives the specification's events; "a bb abb " gives the
   loose ones: both T1 nodes end with the empty N0 and extend to the end of input (9 instead of 8) *)
Definition input1 : list tok := [mkTok 2 0 1; mkTok 3 1 2; mkTok 3 2 3; mkTok 2 3 4; mkTok 3 4 5; mkTok 3 5 6].
Example C02_example_without_fixWhitespace :
  (let '(o, c) := xrun 100 m0 evt0 false 0 6 6 input1 in
   o = Accept /\
   xc_events c = [(3, 6, 6); (2, 4, 6); (1, 3, 6); (2, 1, 3); (1, 0, 6)] /\
   match xc_stack c with
   | [etop; eS; b] => xc_events c = spec_events (arrows_of_ev (zn [4; 0]) evt0) (x_tree eS) 6
   | _ => False
   end) /\
  (let '(o, c) := xrun 100 m0 evt0 false 0 6 9 input0 in
   o = Accept /\
   xc_events c = [(3, 9, 9); (2, 6, 8); (1, 5, 9); (2, 2, 4); (1, 0, 9)] /\
   match xc_stack c with
   | [etop; eS; b] => xc_events c = loose_events (arrows_of_ev (zn [4; 0]) evt0) (x_tree eS) 9 /\ ends_empty (x_tree eS) = true
   | _ => False
   end).
Proof. vm_compute. repeat split; reflexivity. Qed.

Print Assumptions C02_events_are_the_postorder_of_the_derivation.
Print Assumptions C02_events_without_fixWhitespace_no_gaps.
Print Assumptions C02_no_gaps_ranges_and_events_of_a_subtree.
Print Assumptions C02_loose_ranges_and_events_of_a_subtree.
Print Assumptions C02_loose_end_characterisation.
Print Assumptions C02_events_without_fixWhitespace.
Print Assumptions C02_ranges_and_events_of_a_subtree.
Print Assumptions C02_events_follow_the_stack.
Print Assumptions C02_wellformedness_is_checkable.
