(* C20 — Parse events form a well-nested tree; the tree builder is specified on such streams.
   Models: Gram/TreeBuilder.v (builder.addNode of go_ast_parse.go.tmpl on a stack of trees; the conditions
   ok_events / in_input on event streams; wf_forest on the result). *)
From Coq Require Import List ZArith Bool Permutation.
From TM Require Import Gram.TreeBuilder Gram.TreeBuilder_proofs.
Import ListNotations.
Local Open Scope Z_scope.

(* For EVERY event stream in which any two nodes are disjoint or nested and a container is reported after its
   contents (ok_events), the builder ends with a forest that (1) has exactly the reported nodes (as a multiset
   of (type, offset, endoffset)), and (2) is nested by ranges: every child lies inside its parent, siblings
   (and roots) are in source order and pairwise disjoint, recursively. *)
Theorem C20_builder_correct :
  forall evs, ok_events evs = true ->
  wf_forest (rev (build evs)) = true /\ Permutation (forest_nodes (rev (build evs))) evs.
Proof. exact builder_correct. Qed.

(* the step invariant: whatever was built so far, one more compatible event keeps the forest specified *)
Theorem C20_add_node_keeps_the_forest :
  forall seen st e, binv seen st -> ev_off e <= ev_end e -> (forall a, In a seen -> compatible a e = true) ->
  binv (e :: seen) (add_node st e).
Proof. exact add_node_inv. Qed.

(* NOT proved here (partial): that the parse loop with error recovery only emits ok_events streams. Without
   recovery this follows from C02 (events are the spans of the forest on the stack); with recovery, injected
   tokens and the hand-written js loop it is monitored on every run: ok_events and in_input are evaluated on the
   listener callbacks of the shipped tm, js, json and test parsers on valid and broken inputs. *)

(* non-vacuity: a stream with nested, empty and out-of-order nodes *)
Example C20_example :
  let evs := [(1, 2, 3); (2, 0, 0); (3, 5, 7); (4, 4, 4); (5, 2, 8); (6, 0, 9)] in
  ok_events evs = true /\
  rev (build evs) = [BNode 6 0 9 [BNode 2 0 0 []; BNode 5 2 8 [BNode 1 2 3 []; BNode 4 4 4 []; BNode 3 5 7 []]]].
Proof. vm_compute. split; reflexivity. Qed.

Print Assumptions C20_builder_correct.
Print Assumptions C20_add_node_keeps_the_forest.
