(* C20 — Parse events form a well-nested tree; the tree builder is specified on such streams.
   Models: Gram/TreeBuilder.v (builder.addNode of go_ast_parse.go.tmpl on a stack of trees; the conditions
   ok_events / in_input on event streams; wf_forest on the result). *)
From Coq Require Import List ZArith Bool Permutation.
From TM Require Import Gram.PTables Gram.Run Gram.Validator Gram.Events Gram.Events_proofs Gram.Events_strict Gram.Events_run
  Gram.TreeBuilder Gram.TreeBuilder_proofs Gram.Events_nest Gram.Pending Gram.Pending_sim Gram.Pending_nest.
Import ListNotations.
Local Open Scope Z_scope.

(* For EVERY event stream in which any two nodes are disjoint or nested and a container is reported after its
   contents (ok_events), the builder ends with a forest that (1) has exactly the reported nodes (as a multiset
   of (type, offset, endoffset)), and (2) is nested by ranges: every child lies inside its parent, siblings
   (and roots) are in source order and pairwise disjoint, recursively. *)
Theorem C20_builder_correct :
  forall evs, ok_events evs = true ->
  wf_forest (rev (build evs)) = true /\ Permutation (forest_nodes (rev (build evs))) evs.
Proof. exact builder_correct. Qed.

(* the step invariant: whatever was built so far, one more compatible event keeps the forest specified *)
Theorem C20_add_node_keeps_the_forest :
  forall seen st e, binv seen st -> ev_off e <= ev_end e -> (forall a, In a seen -> compatible a e = true) ->
  binv (e :: seen) (add_node st e).
Proof. exact add_node_inv. Qed.

(* Producer half, for the parse loop with fixWhitespace and without error recovery (Gram/Events.v xrun).
   For EVERY machine, event table whose reports are laminar with inner arrows first (nested_table; what
   generateTables' post-order traversal emits), input of ordered non-empty tokens inside [0, eoi_off], fuel and
   outcome (accepted, syntax error, out of fuel -- wherever the loop stops): if the trees on the final stack are
   well formed (wf_tree, the hypothesis of C02) and an end-of-input leaf only occurs as a stack entry of its own,
   the listener events emitted so far are well nested (ok_events: pairwise disjoint or nested, a container
   after its contents) and lie inside the input (in_input).
   Proof: by C02 the events are those of the forest on the stack and each is the span of a sub-forest (or the
   empty range at the following token); spans of nested/disjoint child segments are nested/disjoint, events of
   different stack entries are disjoint and ordered. *)
Theorem C20_parser_events_are_well_nested :
  forall m evt rl eoi_off fuel start end_state input o c',
  nested_table evt ->
  Forall (fun t => t_sym t <> 0) input ->
  ordered (map tok_range input) eoi_off ->
  Forall (fun t => 0 <= t_off t) input -> 0 <= eoi_off ->
  xrun fuel m evt true start end_state eoi_off input = (o, c') ->
  Forall (fun e => wf_tree evt rl (x_tree e)) (xc_stack c') ->
  Forall (fun e => is_leaf (x_tree e) \/ ~ In (eoi_off, eoi_off) (leaves (x_tree e))) (xc_stack c') ->
  ok_events (xc_events c') = true /\ in_input eoi_off (xc_events c') = true.
Proof. exact xrun_events_nested. Qed.

(* the same with a condition on the machine instead of the final stack: end-of-input is only shifted into the end
   state (then the loop stops, so an end-of-input leaf is never reduced into a tree) *)
Theorem C20_parser_events_are_well_nested_eoi :
  forall m evt rl eoi_off fuel start end_state input o c',
  nested_table evt -> eoi_stops m end_state ->
  Forall (fun t => t_sym t <> 0) input ->
  ordered (map tok_range input) eoi_off ->
  Forall (fun t => 0 <= t_off t) input -> 0 <= eoi_off ->
  xrun fuel m evt true start end_state eoi_off input = (o, c') ->
  Forall (fun e => wf_tree evt rl (x_tree e)) (xc_stack c') ->
  ok_events (xc_events c') = true /\ in_input eoi_off (xc_events c') = true.
Proof. exact xrun_events_nested_eoi. Qed.

(* Consequently the AST builder fed by such a parser builds a well-formed forest with exactly the reported nodes *)
Theorem C20_parser_and_builder :
  forall m evt rl eoi_off fuel start end_state input o c',
  nested_table evt ->
  Forall (fun t => t_sym t <> 0) input ->
  ordered (map tok_range input) eoi_off ->
  Forall (fun t => 0 <= t_off t) input -> 0 <= eoi_off ->
  xrun fuel m evt true start end_state eoi_off input = (o, c') ->
  Forall (fun e => wf_tree evt rl (x_tree e)) (xc_stack c') ->
  Forall (fun e => is_leaf (x_tree e) \/ ~ In (eoi_off, eoi_off) (leaves (x_tree e))) (xc_stack c') ->
  wf_forest (rev (build (xc_events c'))) = true /\
  Permutation (forest_nodes (rev (build (xc_events c')))) (xc_events c').
Proof. exact xrun_builder_correct. Qed.

(* the events of one derivation tree: pairwise compatible, inside the tree's span or empty at the following token *)
Theorem C20_events_of_a_tree_are_nested :
  forall evt rl, nested_table evt -> forall t, wf_tree evt rl t -> forall aft, ordered (leaves t) aft ->
  okp (spec_events (arrows_of_ev rl evt) t aft) /\
  evs_in (span_of (leaves t) aft) aft (spec_events (arrows_of_ev rl evt) t aft).
Proof. exact tree_nest. Qed.

(* the laminarity hypothesis has a boolean form *)
Theorem C20_nested_table_is_checkable : forall evt, nested_tableb evt = true -> nested_table evt.
Proof. exact nested_tableb_sound. Qed.

(* Reported skipped tokens (injected comments, invalid_token): Gram/Pending.v extends the loop by the lexer output
   with skipped tokens, fetchNext's pending list and flush (called when a token is shifted, as in the template).
   For EVERY machine, table, fixWhitespace setting, lexer output, fuel and outcome: erasing the skipped tokens from
   the lexer output and the skipped-token callbacks from the listener stream gives EXACTLY the run of Events.xrun on
   the real tokens (same outcome, stack, node events in the same order), and the skipped-token callbacks, followed
   by what is still pending and what the lexer has not produced, are the skipped tokens in lexer order (none lost,
   none reported twice): the stream is a merge of the old node stream with the skipped tokens in source order. *)
Theorem C20_flushed_stream_is_merge :
  forall m evt fixws fuel start end_state eoi_off lex o c',
  pxrun fuel m evt fixws start end_state eoi_off lex = (o, c') ->
  xrun fuel m evt fixws start end_state eoi_off (reals lex) = (o, erase c') /\
  skips_of (pc_events c') ++ pc_pending c' ++ skipped (pc_lex c') = skipped lex.
Proof. exact pxrun_sim. Qed.

(* Producer half WITH reported skipped tokens. For EVERY machine, laminar event table, lexer output (real tokens and
   reported skipped tokens, all non-empty, in source order, not overlapping: every skipped token lies in a gap
   between two consecutive real tokens, before the first or after the last), fuel and outcome: under the hypotheses
   of C20_parser_events_are_well_nested on the final stack, the WHOLE listener stream of the fixWhitespace loop --
   node events and skipped tokens, in callback order -- is well nested and inside the input. No further condition:
   flush runs only in a shift, so a skipped token of the gap before token b is reported after every node that was
   reduced before b is shifted; with fixWhitespace such a node ends at the end of a token shifted earlier (or is the
   empty range at b's offset), hence lies before the skipped token; every node reported later has both ends at token
   boundaries, so it contains the skipped token or is disjoint from it. *)
Theorem C20_parser_events_with_skipped_tokens_are_well_nested :
  forall m evt rl eoi_off fuel start end_state lex o c',
  nested_table evt ->
  Forall (fun t => t_sym t <> 0) (reals lex) ->
  ordered (map l_range lex) eoi_off ->
  Forall (fun r => 0 <= fst r) (map l_range lex) -> 0 <= eoi_off ->
  pxrun fuel m evt true start end_state eoi_off lex = (o, c') ->
  Forall (fun e => wf_tree evt rl (x_tree e)) (pc_stack c') ->
  Forall (fun e => is_leaf (x_tree e) \/ ~ In (eoi_off, eoi_off) (leaves (x_tree e))) (pc_stack c') ->
  ok_events (stream_of c') = true /\ in_input eoi_off (stream_of c') = true.
Proof. exact pxrun_events_nested. Qed.

(* the same with the condition on the machine (end-of-input is only shifted into the end state) *)
Theorem C20_parser_events_with_skipped_tokens_are_well_nested_eoi :
  forall m evt rl eoi_off fuel start end_state lex o c',
  nested_table evt -> eoi_stops m end_state ->
  Forall (fun t => t_sym t <> 0) (reals lex) ->
  ordered (map l_range lex) eoi_off ->
  Forall (fun r => 0 <= fst r) (map l_range lex) -> 0 <= eoi_off ->
  pxrun fuel m evt true start end_state eoi_off lex = (o, c') ->
  Forall (fun e => wf_tree evt rl (x_tree e)) (pc_stack c') ->
  ok_events (stream_of c') = true /\ in_input eoi_off (stream_of c') = true.
Proof. exact pxrun_events_nested_eoi. Qed.

(* and the AST builder fed with that stream builds a well-formed forest with exactly the reported nodes and tokens *)
Theorem C20_parser_with_skipped_tokens_and_builder :
  forall m evt rl eoi_off fuel start end_state lex o c',
  nested_table evt ->
  Forall (fun t => t_sym t <> 0) (reals lex) ->
  ordered (map l_range lex) eoi_off ->
  Forall (fun r => 0 <= fst r) (map l_range lex) -> 0 <= eoi_off ->
  pxrun fuel m evt true start end_state eoi_off lex = (o, c') ->
  Forall (fun e => wf_tree evt rl (x_tree e)) (pc_stack c') ->
  Forall (fun e => is_leaf (x_tree e) \/ ~ In (eoi_off, eoi_off) (leaves (x_tree e))) (pc_stack c') ->
  wf_forest (rev (build (stream_of c'))) = true /\
  Permutation (forest_nodes (rev (build (stream_of c')))) (stream_of c').
Proof. exact pxrun_builder_correct. Qed.

(* once nothing is pending and the lexer has no skipped token left (e.g. after end-of-input was shifted), every
   skipped token has been reported, in source order *)
Theorem C20_all_skipped_tokens_reported :
  forall m evt fixws eoi_off fuel start end_state lex o c',
  pxrun fuel m evt fixws start end_state eoi_off lex = (o, c') ->
  pc_pending c' = [] -> skipped (pc_lex c') = [] -> skips_of (pc_events c') = skipped lex.
Proof. exact pxrun_all_reported. Qed.

(* NOT proved here (partial): the same for the loop with error recovery (Gram/Recover.v: the error entry pushed by
   recoverFromError spans dropped stack entries and skipped tokens; flush is also called with the error symbol there
   and may keep tokens pending), for reported REAL tokens (reportConsumedNext of mapped tokens) and for the
   hand-written js loop; and for parsers without fixWhitespace (there a node ending with an empty symbol extends
   over the following whitespace, see C02, and C20_skipped_tokens_without_fixWhitespace_refuted above). These are
   monitored on every run: ok_events and in_input are evaluated on the listener callbacks of the shipped tm, js,
   json and test parsers on valid and broken inputs, and of generated parsers (c20.gen). *)

(* non-vacuity: a stream with nested, empty and out-of-order nodes *)
Example C20_example :
  let evs := [(1, 2, 3); (2, 0, 0); (3, 5, 7); (4, 4, 4); (5, 2, 8); (6, 0, 9)] in
  ok_events evs = true /\
  rev (build evs) = [BNode 6 0 9 [BNode 2 0 0 []; BNode 5 2 8 [BNode 1 2 3 []; BNode 4 4 4 []; BNode 3 5 7 []]]].
Proof. vm_compute. split; reflexivity. Qed.

(* non-vacuity of the producer theorem: the tables of C02's example  N0 : 'a' ('b' 'b' -> T2) N0 -> T1 | %empty -> T3 *)
Definition t0 : default_enc :=
  mkDefaultEnc [-3; -1; -1; -9; 0; -1; -2] [2; -1; 0; 1; -1; -2; 2; -1; 0; 1; -1; -2] [0; 2; 2; 6; 10; 14]
               [5; 6; 0; 1; 3; 1; 1; 2; 2; 3; 0; 5; 3; 4].
Definition m0 : machine := lalr1_machine t0 [4; 0] [4; 4].
Definition evt0 : ev_table := [mkEvRule 1 [(1%nat, 3%nat, 2)] true; mkEvRule 3 [] false].
Definition input0 : list tok := [mkTok 2 0 1; mkTok 3 2 3; mkTok 3 3 4; mkTok 2 5 6; mkTok 3 6 7; mkTok 3 7 8].

Example C20_producer_example :
  nested_tableb evt0 = true /\
  let '(o, c) := xrun 100 m0 evt0 true 0 6 9 input0 in
  o = Accept /\
  forallb (fun e => wf_treeb evt0 (zn [4; 0]) (x_tree e)) (xc_stack c) = true /\
  map (fun e => match x_tree e with TLeaf _ _ _ => true | t => negb (existsb (fun r => (fst r =? 9) && (snd r =? 9)) (leaves t)) end)
      (xc_stack c) = [true; true; true] /\
  xc_events c = [(3, 9, 9); (2, 6, 8); (1, 5, 8); (2, 2, 4); (1, 0, 8)] /\
  ok_events (xc_events c) = true /\ in_input 9 (xc_events c) = true.
Proof. vm_compute. repeat split; reflexivity. Qed.

(* non-vacuity with skipped tokens: the same tables, comments (type 9, 8) before the first token, inside nodes, between two
   nodes and after the last token; right-recursive grammar, so all reductions happen at the end of input, after the
   comments of all gaps were flushed, and the trailing comment is reported by the shift of end-of-input *)
Definition lex0 : list ltok :=
  [LSkip (9, 0, 1); LReal (mkTok 2 1 2); LSkip (9, 2, 3); LReal (mkTok 3 3 4); LReal (mkTok 3 4 5); LSkip (9, 5, 6);
   LSkip (8, 6, 7); LReal (mkTok 2 7 8); LReal (mkTok 3 8 9); LReal (mkTok 3 10 11); LSkip (9, 11, 13)].

Example C20_skipped_example :
  let '(o, c) := pxrun 100 m0 evt0 true 0 6 14 lex0 in
  o = Accept /\
  forallb (fun e => wf_treeb evt0 (zn [4; 0]) (x_tree e)) (pc_stack c) = true /\
  pc_events c = [PSkip (9, 0, 1); PSkip (9, 2, 3); PSkip (9, 5, 6); PSkip (8, 6, 7); PNode (3, 14, 14); PNode (2, 8, 11);
                 PNode (1, 7, 11); PNode (2, 3, 5); PNode (1, 1, 11); PSkip (9, 11, 13)] /\
  pc_pending c = [] /\ ok_events (stream_of c) = true /\ in_input 14 (stream_of c) = true /\
  rev (build (stream_of c)) =
    [BNode 9 0 1 [];
     BNode 1 1 11 [BNode 9 2 3 []; BNode 2 3 5 []; BNode 9 5 6 []; BNode 8 6 7 []; BNode 1 7 11 [BNode 2 8 11 []]];
     BNode 9 11 13 []; BNode 3 14 14 []].
Proof. vm_compute. repeat split; reflexivity. Qed.

(* fixWhitespace is necessary once skipped tokens are reported (the property's scope: "trims trailing whitespace from
   node ranges or reports no skipped tokens"): the same machine, table and lexer output WITHOUT fixWhitespace -- the
   nodes ending with the empty N0 extend to the offset of end-of-input, T1[7,14) and T1[1,14) contain the trailing
   comment [11,13) but are reported before it (it is flushed by the shift of end-of-input) *)
Theorem C20_skipped_tokens_without_fixWhitespace_refuted :
  exists m evt eoi_off fuel start end_state lex c',
  nested_table evt /\ Forall (fun t => t_sym t <> 0) (reals lex) /\ ordered (map l_range lex) eoi_off /\
  pxrun fuel m evt false start end_state eoi_off lex = (Accept, c') /\
  nodes_of (pc_events c') = [(3, 14, 14); (2, 8, 11); (1, 7, 14); (2, 3, 5); (1, 1, 14)] /\
  skips_of (pc_events c') = skipped lex /\
  ok_events (nodes_of (pc_events c')) = true /\ ok_events (stream_of c') = false.
Proof.
  exists m0, evt0, 14, 100%nat, 0, 6, lex0, (snd (pxrun 100 m0 evt0 false 0 6 14 lex0)).
  split; [apply nested_tableb_sound; vm_compute; reflexivity|].
  split; [repeat constructor; discriminate|].
  split; [vm_compute; repeat split; discriminate|].
  vm_compute. repeat split; reflexivity.
Qed.

Print Assumptions C20_builder_correct.
Print Assumptions C20_parser_events_are_well_nested.
Print Assumptions C20_parser_events_are_well_nested_eoi.
Print Assumptions C20_parser_and_builder.
Print Assumptions C20_events_of_a_tree_are_nested.
Print Assumptions C20_nested_table_is_checkable.
Print Assumptions C20_add_node_keeps_the_forest.
Print Assumptions C20_flushed_stream_is_merge.
Print Assumptions C20_parser_events_with_skipped_tokens_are_well_nested.
Print Assumptions C20_parser_with_skipped_tokens_and_builder.
Print Assumptions C20_all_skipped_tokens_reported.
Print Assumptions C20_parser_events_with_skipped_tokens_are_well_nested_eoi.
Print Assumptions C20_skipped_tokens_without_fixWhitespace_refuted.
