(* C30 — Bison export describes the grammar Textmapper parses.
   Model: Syn/Bison.v (grammar/gen.go: Parser.RulesByNonterm, Grammar.ExprString, Grammar.TokensWithoutPrec;
   the line skeleton of gen/templates/bison.go.tmpl), Syn/BisonRead.v (a reader of the .y file, the boolean
   well-formedness of names and rules).  Lemmas: Syn/Bison_proofs.v, Syn/BisonRead_proofs.v. *)
From Coq Require Import List ZArith Bool.
From TM Require Import Util.Ident Syn.Expr Syn.Sets Syn.Bison Syn.Bison_proofs Syn.BisonRead Syn.BisonRead_proofs.
Import ListNotations.
Local Open Scope Z_scope.

(* PARTIAL by design: the text/template engine and the rewriting of action code (bison_parser_action) are
   outside the model.  That the MODEL's file lists exactly the rules of the grammar is C30_read_back_exact
   below; that the generated file is the model's file is compared byte for byte per run. *)

(* rules_by_nonterm_partition: every rule appears exactly under its left-hand side, in the original order;
   the groups come in order of first appearance, each once *)
Theorem C30_rules_by_nonterm_partition :
  forall (A : Type) (rules : list (Z * A)),
    (forall x, glookup x (rules_by_nonterm rules) = map snd (filter (fun r => fst r =? x) rules)) /\
    map fst (rules_by_nonterm rules) = first_occurrences (map fst rules) /\
    NoDup (map fst (rules_by_nonterm rules)).
Proof.
  intros A rules. split; [intro x; apply rules_by_nonterm_lookup|]. split; [apply rules_by_nonterm_keys|].
  rewrite rules_by_nonterm_keys. apply first_occurrences_nodup.
Qed.

(* expr_string_symbols, structure: the symbol words of a rule are its right-hand side (oneRule.accept) *)
Theorem C30_expr_string_symbols : forall e, word_syms (expr_words e) = accept e.
Proof. exact expr_words_symbols. Qed.

(* expr_string_symbols, characters: for names without spaces the printed text is the space-joined word
   list, and splitting the text on spaces gives the words back *)
Theorem C30_expr_string_read_back :
  forall sym_name sym_id,
    (forall s, spaceless (sym_name s)) -> (forall s, spaceless (sym_id s)) ->
    forall e, exportable sym_name sym_id e ->
      exists text, expr_string sym_name sym_id e = Some text /\ read_back text = text_words sym_name sym_id e.
Proof.
  intros sym_name sym_id Hn Hi e He. destruct (expr_string_text sym_name sym_id Hn Hi e He) as [Es Hs].
  eexists. split; [exact Es | now apply read_back_join].
Qed.

(* non-vacuity: E: E '+' E %prec '+' | /*.m*/ id ;  symbols: 1 = '+' (PLUS), 2 = id (ID), 5 = E *)
Definition ex_name (s : Z) : bytes := if s =? 1 then [80;76;85;83] else if s =? 2 then [73;68] else [69].
Example C30_example :
  expr_string ex_name ex_name (EPrec 1 (ESeq [ERef 5 []; ERef 1 []; ECmd [123;125]; ERef 5 []]))
    = Some [69; 32; 80;76;85;83; 32; 69; 32; 37;112;114;101;99; 32; 80;76;85;83]      (* "E PLUS E %prec PLUS" *)
  /\ word_syms (expr_words (ESeq [EMarker [109]; ERef 2 []])) = [2]
  /\ rules_by_nonterm [(5, 10); (6, 20); (5, 30)] = [(5, [10; 30]); (6, [20])]
  /\ read_back [69; 32; 80;76;85;83; 32; 69] = [[69]; [80;76;85;83]; [69]].
Proof. vm_compute. repeat split; reflexivity. Qed.

Print Assumptions C30_rules_by_nonterm_partition.
Print Assumptions C30_expr_string_symbols.
Print Assumptions C30_expr_string_read_back.

(* read_back_exact: for a well-formed grammar (bison_wf: symbol texts non-empty, without blank, tab, newline,
   '%', '/', ':', ';', '|' and pairwise distinct; every rule a flat body under at most one %prec; symbols in
   range) the rule section of the model's .y file exists, sits in the fixed frame of the file, and the reader
   (lines -> groups -> words -> symbols) returns exactly the grouped rules: left-hand side, right-hand side
   symbols (oneRule.accept) and %prec terminal of every rule, in order. *)
Theorem C30_read_back_exact :
  forall g, bison_wf g = true ->
    exists section,
      rule_section g = Some section /\
      bison_text g = Some (file_of_section g section) /\
      read_rules g section = Some (expected_groups g).
Proof. exact read_back_exact_frame. Qed.

(* what is read is the rule list itself: under each left-hand side its rules in the original order, the
   left-hand sides in order of first appearance *)
Theorem C30_read_back_rules :
  forall g,
    (forall x, glookup x (expected_groups g) = map rule_spec (filter (fun r => br_lhs r =? x) (bg_rules g))) /\
    map fst (expected_groups g) = first_occurrences (map br_lhs (bg_rules g)).
Proof. exact expected_groups_rules. Qed.

(* read_back_file: with decls_wf in addition (start symbols are nonterminals, associativities 0..2, precedence
   terminals are tokens) the reader applied to the WHOLE model file (split at the %% lines) returns the start
   symbols with their no-eoi flags, the precedence list (associativity, terminals) in order, the %token
   terminals (TokensWithoutPrec from the second on) and the grouped rules *)
Theorem C30_read_back_file :
  forall g, bison_wf g = true -> decls_wf g = true ->
    exists text, bison_text g = Some text /\ read_file g text = Some (expected_file g).
Proof. exact read_file_exact. Qed.

(* non-vacuity: 4 terminals (eoi, '+' PLUS, id ID, u U), nonterminals E (4), L (5);
   E : E PLUS {} E %prec U | /*.m*/ ID -> X ;   L : %empty | L x=E ; *)
Definition ex_g : bgrammar :=
  mkBG [mkBSym [101;111;105] [69;79;73]; mkBSym [39;43;39] [80;76;85;83]; mkBSym [105;100] [73;68]; mkBSym [117] [85];
        mkBSym [69] [69]; mkBSym [76] [76]]
       4 [(0, false); (1, true)] [(0, [1]); (2, [3])]
       [mkBRule 4 (EPrec 3 (ESeq [ERef 4 []; ERef 1 []; ECmd [123;125]; ERef 4 []])) true;
        mkBRule 5 (ESeq []) false;
        mkBRule 4 (EArrow [88] [] (ESeq [EMarker [109]; ERef 2 []])) false;
        mkBRule 5 (ESeq [ERef 5 []; EAssign [120] (ERef 4 [])]) false]
       [].
Example C30_read_back_example :
  bison_wf ex_g = true /\ decls_wf ex_g = true /\
  match rule_section ex_g with Some t => read_rules ex_g t | None => None end
    = Some [(4, [([4; 1; 4], Some 3); ([2], None)]); (5, [([], None); ([5; 4], None)])] /\
  match bison_text ex_g with Some t => read_file ex_g t | None => None end
    = Some (mkY [(4, false); (5, true)] [(0, [1]); (2, [3])] [2]
                [(4, [([4; 1; 4], Some 3); ([2], None)]); (5, [([], None); ([5; 4], None)])]).
Proof. vm_compute. repeat split; reflexivity. Qed.

Print Assumptions C30_read_back_exact.
Print Assumptions C30_read_back_rules.
Print Assumptions C30_read_back_file.
