(* C30 — Bison export describes the grammar Textmapper parses.
   Model: Syn/Bison.v (grammar/gen.go: Parser.RulesByNonterm, Grammar.ExprString, Grammar.TokensWithoutPrec;
   the line skeleton of gen/templates/bison.go.tmpl).  Lemmas: Syn/Bison_proofs.v. *)
From Coq Require Import List ZArith Bool.
From TM Require Import Syn.Expr Syn.Sets Syn.Bison Syn.Bison_proofs.
Import ListNotations.
Local Open Scope Z_scope.

(* PARTIAL by design: the text/template engine and the rewriting of action code (bison_parser_action) are
   outside the model; that the file as a whole lists the rules and precedences of the tables is checked per
   run by reading the produced .y file back (oracle) and by comparing it byte for byte with the model's
   skeleton. *)

(* rules_by_nonterm_partition: every rule appears exactly under its left-hand side, in the original order;
   the groups come in order of first appearance, each once *)
Theorem C30_rules_by_nonterm_partition :
  forall (A : Type) (rules : list (Z * A)),
    (forall x, glookup x (rules_by_nonterm rules) = map snd (filter (fun r => fst r =? x) rules)) /\
    map fst (rules_by_nonterm rules) = first_occurrences (map fst rules) /\
    NoDup (map fst (rules_by_nonterm rules)).
Proof.
  intros A rules. split; [intro x; apply rules_by_nonterm_lookup|]. split; [apply rules_by_nonterm_keys|].
  rewrite rules_by_nonterm_keys. apply first_occurrences_nodup.
Qed.

(* expr_string_symbols, structure: the symbol words of a rule are its right-hand side (oneRule.accept) *)
Theorem C30_expr_string_symbols : forall e, word_syms (expr_words e) = accept e.
Proof. exact expr_words_symbols. Qed.

(* expr_string_symbols, characters: for names without spaces the printed text is the space-joined word
   list, and splitting the text on spaces gives the words back *)
Theorem C30_expr_string_read_back :
  forall sym_name sym_id,
    (forall s, spaceless (sym_name s)) -> (forall s, spaceless (sym_id s)) ->
    forall e, exportable sym_name sym_id e ->
      exists text, expr_string sym_name sym_id e = Some text /\ read_back text = text_words sym_name sym_id e.
Proof.
  intros sym_name sym_id Hn Hi e He. destruct (expr_string_text sym_name sym_id Hn Hi e He) as [Es Hs].
  eexists. split; [exact Es | now apply read_back_join].
Qed.

(* non-vacuity: E: E '+' E %prec '+' | /*.m*/ id ;  symbols: 1 = '+' (PLUS), 2 = id (ID), 5 = E *)
Definition ex_name (s : Z) : bytes := if s =? 1 then [80;76;85;83] else if s =? 2 then [73;68] else [69].
Example C30_example :
  expr_string ex_name ex_name (EPrec 1 (ESeq [ERef 5 []; ERef 1 []; ECmd [123;125]; ERef 5 []]))
    = Some [69; 32; 80;76;85;83; 32; 69; 32; 37;112;114;101;99; 32; 80;76;85;83]      (* "E PLUS E %prec PLUS" *)
  /\ word_syms (expr_words (ESeq [EMarker [109]; ERef 2 []])) = [2]
  /\ rules_by_nonterm [(5, 10); (6, 20); (5, 30)] = [(5, [10; 30]); (6, [20])]
  /\ read_back [69; 32; 80;76;85;83; 32; 69] = [[69]; [80;76;85;83]; [69]].
Proof. vm_compute. repeat split; reflexivity. Qed.

Print Assumptions C30_rules_by_nonterm_partition.
Print Assumptions C30_expr_string_symbols.
Print Assumptions C30_expr_string_read_back.
