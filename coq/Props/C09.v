(* C09 — Lexer tables implement longest match with rule priority.
   Models: Lex/Scan.v (lex.Tables.Scan with the end-of-input loop, the automaton encoded by the tables, the
   checkpoint validator), Lex/Deriv.v (derivative-based specification used as the oracle). *)
From Coq Require Import List ZArith Bool Lia.
From TM Require Import Lex.Tables Lex.Scan Lex.Scan_proofs Lex.Charset Lex.RegexParse Lex.Deriv Lex.DerivSem Lex.Deriv_proofs Lex.Deriv_scan_proofs Lex.Bisim Lex.Bisim_proofs.
Import ListNotations.
Local Open Scope Z_scope.

(* scan_is_longest, validator form.  For EVERY table set accepted by the boolean validator check_tables (evaluated
   on the real output of lex.Compile on every run), every start condition and EVERY non-empty text: Scan — with its
   checkpoint cells, the (size, action) registers and the `size > 0` test — returns exactly what the reference run
   returns: follow the automaton read off the tables (move), remember the last position at which the current state
   carried an accepting label, and when no move is possible answer that position and label, else (position reached,
   action 0).  End-of-input moves are followed as long as there are any (F6: the pinned Scan took one). *)
Theorem C09_scan_is_longest : forall t, check_tables t = true ->
  forall sc text, In (nthZ (state_map t) sc) (state_map t) -> text <> [] ->
  scanF t sc text = longest_accept t sc text.
Proof. exact scan_is_longest. Qed.

(* what the validator establishes for every cell (used by the proof; stated for readers) *)
Theorem C09_validated_cells : forall t, check_tables t = true ->
  0 < num_symbols t /\ 0 < nstates t /\
  (forall s y, 0 <= s < nstates t -> 0 <= y < num_symbols t -> cell_ok t s y = true) /\
  (forall s, In s (state_map t) -> 0 <= s < nstates t /\ label t s = 0) /\
  (forall r, 0 <= lookup_sym (symbol_map t) r < num_symbols t).
Proof. exact chk_parts. Qed.

(* ---- the specification matcher (the ORACLE of the correspondence) is correct ----
   `matches r w` (DerivSem.v) is the declarative semantics of a symbol-level expression over words of input symbols
   (code points or bytes; {eoi} is the symbol -1): literals and classes match one symbol of the set, Cat splits the word,
   Alt chooses, Rep{mn,mx} is a concatenation of k copies with mn <= k and (mx < 0 or k <= mx) (for the ill-formed
   bounds 0 <= mx < mn: exactly mx copies, which is what the matcher does).  `lang` is the same as a recursive function. *)
Theorem C09_matches_is_lang : forall r w, matches r w <-> lang r w.
Proof. exact matches_iff_lang. Qed.

Theorem C09_nullable_correct : forall r, nullable r = true <-> matches r [].
Proof. exact nullable_correct. Qed.

Theorem C09_deriv_correct : forall r c w, matches (deriv c r) w <-> matches r (c :: w).
Proof. exact deriv_correct. Qed.

Theorem C09_nonvoid_correct : forall r, nonvoid r = true <-> exists w, matches r w.
Proof. exact nonvoid_correct. Qed.

(* the matcher as a whole: a word is matched iff the iterated derivative is nullable *)
Theorem C09_derivs_nullable : forall r w, nullable (derivs w r) = true <-> matches r w.
Proof. exact derivs_nullable. Qed.

(* the translation rx_of of the parsed AST (RegexParse.re, as dumped from the implementation's own parser) denotes the
   language of the AST: a literal is its code point (or byte) sequence, a class one member, RCat/RAlt/RRep as above,
   {eoi} the end marker, any other unresolved reference nothing *)
Theorem C09_rx_of_correct : forall r w, matches (rx_of r) w <-> re_lang r w.
Proof. exact rx_of_matches. Qed.

(* spec_scan_correct.  Let l = symbols bytes text be the (symbol, width) sequence the text decodes into, word l i k the
   first i symbols followed by k end markers, a CANDIDATE any (i, k) with i <= |l|, k <= 4 and k = 0 unless i = |l|
   (the end marker is offered only at the end of the text, at most four times), offs i l the byte offset after i symbols.
   For EVERY rule set (expression, action, precedence) and text, the oracle's answer is
   either (offs i l, a) where (i, k) is the LONGEST candidate matched by some rule and a is the action of the rule with
     the highest precedence among the rules matching that candidate (the earliest such rule among equals),
   or, when no candidate is matched by any rule, (offs m l, 0) where m is the largest number of symbols such that m = 0 or
     some rule matches an extension of the first m symbols (the invalid token spans the longest viable prefix). *)
Theorem C09_spec_scan_correct : forall bytes rules text,
  scan_spec 4 rules (symbols bytes text) 0 None (spec_scan bytes rules text).
Proof. exact spec_scan_correct. Qed.

(* the same, read from the side of a given longest matched candidate / of no matched candidate *)
Theorem C09_spec_scan_longest : forall bytes rules text i k, let l := symbols bytes text in
  cand 4 l i k -> rule_matches rules (word l i k) ->
  (forall i' k', cand 4 l i' k' -> rule_matches rules (word l i' k') -> (i' + k' <= i + k)%nat) ->
  fst (spec_scan bytes rules text) = offs i l /\ winner rules (word l i k) (snd (spec_scan bytes rules text)).
Proof. exact spec_scan_longest. Qed.

Theorem C09_spec_scan_invalid : forall bytes rules text m, let l := symbols bytes text in
  (forall i k, cand 4 l i k -> ~ rule_matches rules (word l i k)) ->
  (m <= length l)%nat -> (m = 0%nat \/ extendable rules (word l m 0)) ->
  (forall m', (m' <= length l)%nat -> extendable rules (word l m' 0) -> (m' <= m)%nat) ->
  spec_scan bytes rules text = (offs m l, 0).
Proof. exact spec_scan_invalid. Qed.

(* the offsets are byte offsets of the text: the widths of all symbols add up to its length *)
Theorem C09_symbols_total : forall bytes text,
  offs (length (symbols bytes text)) (symbols bytes text) = Z.of_nat (length text).
Proof. exact symbols_total. Qed.

(* check_bisim (Tier 2).  Bisim.check_bisim explores the pairs (DFA state, normalised derivative vector of the active
   rules) reachable from the start state over one representative per interval of the symbol map and then runs the
   certificate checker closed_check on the set found: equal accepting label / winning action at every pair, every
   interval of the symbol map (clipped to the symbols a text can contain) uniform for every class of the vector, a move in
   the tables iff the derivative vector stays viable, the successor pair in the set, and the joint end-of-input run ends
   within min(4, #states) markers.  For EVERY table set, rule set and start condition: if the check answers 0, the
   reference run of the automaton of the tables equals the specification on EVERY text of bytes — and, with the
   checkpoint validator, so does Scan itself.  The check is evaluated on the real tables of every sampled rule set
   (case kind c09.bisim); it may also answer "unknown" (exploration cap, {eoi} chains longer than the depth). *)
Theorem C09_check_bisim_sound : forall cap t rules sc, check_bisim cap t rules sc = 0 ->
  forall text, bytes_ok text -> longest_accept t sc text = spec_scan (scan_bytes t) rules text.
Proof. exact check_bisim_sound. Qed.

Theorem C09_check_bisim_scan : forall cap t rules sc, check_tables t = true -> In (nthZ (state_map t) sc) (state_map t) ->
  check_bisim cap t rules sc = 0 ->
  forall text, text <> [] -> bytes_ok text -> scanF t sc text = spec_scan (scan_bytes t) rules text.
Proof. exact check_bisim_scan. Qed.

(* the certificate form: any set of pairs accepted by closed_check and containing the start pair will do *)
Theorem C09_bisim_cert_sound : forall t rules sc seen, bisim_cert t rules sc seen = true ->
  forall text, bytes_ok text -> longest_accept t sc text = spec_scan (scan_bytes t) rules text.
Proof. exact bisim_cert_sound. Qed.

(* The empty text is compared on every run but excluded from C09_scan_is_longest (a checkpoint taken at offset 0 on an
   end-of-input move would be ignored by Scan's `size > 0` test). *)

(* tables of /a{eoi}/ => 2, of /ab*c/ => 2 + /a/ => 3 (one checkpoint), and /a/ => 2 + /a{eoi}/ => 3, as lex.Compile emits them *)
Definition t_a_eoi : tables := mkTables false [(0, 1); (97, 2); (98, 1)] 3 [0] [-1; -1; 1; 2; -1; -1; -3; -3; -3] [].
Definition t_bt : tables := mkTables false [(0, 1); (97, 2); (98, 3); (99, 4); (100, 1)] 5 [0]
  [-2; -2; 1; -2; -2; -5; -5; -5; -1; 2; -4; -4; -4; -4; -4; -2; -2; -2; 3; 2] [(3, 3)].
Definition t_a_aeoi : tables := mkTables false [(0, 1); (97, 2); (98, 1)] 3 [0] [-1; -1; 1; 2; -3; -3; -4; -4; -4] [].

Example C09_hypotheses_met :
  check_tables t_a_eoi = true /\ check_tables t_bt = true /\ check_tables t_a_aeoi = true /\
  scanF t_a_eoi 0 [97] = (1, 2) /\ scanF t_a_eoi 0 [97; 97] = (1, 0) /\
  scanF t_bt 0 [97; 98; 98; 99; 97] = (4, 2) /\ scanF t_bt 0 [97; 98; 98; 97] = (1, 3) /\ scanF t_bt 0 [98] = (0, 0) /\
  scanF t_a_aeoi 0 [97] = (1, 3) /\ scanF t_a_aeoi 0 [97; 98] = (1, 2).
Proof. vm_compute. repeat split; reflexivity. Qed.

(* the pinned Scan (one end-of-input step, modelled in Lex/Tables.v for C24) violates the statement: F6 *)
Example C09_pinned_scan_refuted :
  exists t text, check_tables t = true /\ text <> [] /\ Tables.scan t 0 text <> longest_accept t 0 text.
Proof. exists t_a_eoi, [97]. split; [reflexivity|]. split; [discriminate|]. vm_compute. discriminate. Qed.

(* the specification agrees on the same examples: rules as symbol-level expressions *)
Example C09_spec_examples :
  let a := Sym [(97, 97)] in let b := Sym [(98, 98)] in let c := Sym [(99, 99)] in let e := Sym [(-1, -1)] in
  spec_scan false [(Cat a e, 2, 0)] [97] = (1, 2) /\ spec_scan false [(Cat a e, 2, 0)] [97; 97] = (1, 0) /\
  spec_scan false [(Cat a (Cat (Rep 0 (-1) b) c), 2, 0); (a, 3, 0)] [97; 98; 98; 99; 97] = (4, 2) /\
  spec_scan false [(Cat a (Cat (Rep 0 (-1) b) c), 2, 0); (a, 3, 0)] [97; 98; 98; 97] = (1, 3) /\
  spec_scan false [(a, 2, 0); (Cat a e, 3, 0)] [97] = (1, 3).
Proof. vm_compute. repeat split; reflexivity. Qed.

(* the check accepts the example tables against their rule sets, and rejects a wrong rule set *)
Example C09_check_bisim_examples :
  let a := Sym [(97, 97)] in let b := Sym [(98, 98)] in let c := Sym [(99, 99)] in let e := Sym [(-1, -1)] in
  check_bisim 100 t_a_eoi [(Cat a e, 2, 0)] 0 = 0 /\
  check_bisim 100 t_bt [(Cat a (Cat (Rep 0 (-1) b) c), 2, 0); (a, 3, 0)] 0 = 0 /\
  check_bisim 100 t_a_aeoi [(a, 2, 0); (Cat a e, 3, 0)] 0 = 0 /\
  check_bisim 100 t_bt [(Cat a (Cat (Rep 0 (-1) b) c), 2, 0)] 0 = 3 /\
  check_bisim 100 t_a_eoi [(Cat a (Cat b e), 2, 0)] 0 = 4.
Proof. vm_compute. repeat split; reflexivity. Qed.

(* the declarative semantics is inhabited: /ab*c/ matches "abbc", /a{eoi}/ matches "a" followed by the end marker *)
Example C09_matches_examples :
  let a := Sym [(97, 97)] in let b := Sym [(98, 98)] in let c := Sym [(99, 99)] in let e := Sym [(-1, -1)] in
  matches (Cat a (Cat (Rep 0 (-1) b) c)) [97; 98; 98; 99] /\ matches (Cat a e) [97; -1] /\ ~ matches (Cat a e) [97] /\
  matches (Rep 2 3 a) [97; 97] /\ ~ matches (Rep 2 3 a) [97].
Proof.
  cbv zeta. repeat split; try (apply derivs_nullable; reflexivity); intros H; apply derivs_nullable in H; discriminate.
Qed.

Print Assumptions C09_scan_is_longest.
Print Assumptions C09_validated_cells.
Print Assumptions C09_matches_is_lang.
Print Assumptions C09_nullable_correct.
Print Assumptions C09_deriv_correct.
Print Assumptions C09_nonvoid_correct.
Print Assumptions C09_derivs_nullable.
Print Assumptions C09_rx_of_correct.
Print Assumptions C09_spec_scan_correct.
Print Assumptions C09_spec_scan_longest.
Print Assumptions C09_spec_scan_invalid.
Print Assumptions C09_symbols_total.
Print Assumptions C09_check_bisim_sound.
Print Assumptions C09_check_bisim_scan.
Print Assumptions C09_bisim_cert_sound.
