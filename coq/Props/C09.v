(* C09 — Lexer tables implement longest match with rule priority.
   Models: Lex/Scan.v (lex.Tables.Scan with the end-of-input loop, the automaton encoded by the tables, the
   checkpoint validator), Lex/Deriv.v (derivative-based specification used as the oracle). *)
From Coq Require Import List ZArith Bool Lia.
From TM Require Import Lex.Tables Lex.Scan Lex.Scan_proofs Lex.Charset Lex.Deriv.
Import ListNotations.
Local Open Scope Z_scope.

(* scan_is_longest, validator form.  For EVERY table set accepted by the boolean validator check_tables (evaluated
   on the real output of lex.Compile on every run), every start condition and EVERY non-empty text: Scan — with its
   checkpoint cells, the (size, action) registers and the `size > 0` test — returns exactly what the reference run
   returns: follow the automaton read off the tables (move), remember the last position at which the current state
   carried an accepting label, and when no move is possible answer that position and label, else (position reached,
   action 0).  End-of-input moves are followed as long as there are any (F6: the pinned Scan took one). *)
Theorem C09_scan_is_longest : forall t, check_tables t = true ->
  forall sc text, In (nthZ (state_map t) sc) (state_map t) -> text <> [] ->
  scanF t sc text = longest_accept t sc text.
Proof. exact scan_is_longest. Qed.

(* what the validator establishes for every cell (used by the proof; stated for readers) *)
Theorem C09_validated_cells : forall t, check_tables t = true ->
  0 < num_symbols t /\ 0 < nstates t /\
  (forall s y, 0 <= s < nstates t -> 0 <= y < num_symbols t -> cell_ok t s y = true) /\
  (forall s, In s (state_map t) -> 0 <= s < nstates t /\ label t s = 0) /\
  (forall r, 0 <= lookup_sym (symbol_map t) r < num_symbols t).
Proof. exact chk_parts. Qed.

(* NOT proved: spec_scan_correct (Deriv.spec_scan = the declarative statement over an inductive `matches`), and the
   Tier-2 bisimulation validator between tables and rule derivatives.  spec_scan is the independent oracle of the
   correspondence: real lex.Compile + Tables.Scan are compared with it on every sampled (rule set, text).
   The empty text is compared on every run but excluded from the theorem (a checkpoint taken at offset 0 on an
   end-of-input move would be ignored by Scan's `size > 0` test). *)

(* tables of /a{eoi}/ => 2, of /ab*c/ => 2 + /a/ => 3 (one checkpoint), and /a/ => 2 + /a{eoi}/ => 3, as lex.Compile emits them *)
Definition t_a_eoi : tables := mkTables false [(0, 1); (97, 2); (98, 1)] 3 [0] [-1; -1; 1; 2; -1; -1; -3; -3; -3] [].
Definition t_bt : tables := mkTables false [(0, 1); (97, 2); (98, 3); (99, 4); (100, 1)] 5 [0]
  [-2; -2; 1; -2; -2; -5; -5; -5; -1; 2; -4; -4; -4; -4; -4; -2; -2; -2; 3; 2] [(3, 3)].
Definition t_a_aeoi : tables := mkTables false [(0, 1); (97, 2); (98, 1)] 3 [0] [-1; -1; 1; 2; -3; -3; -4; -4; -4] [].

Example C09_hypotheses_met :
  check_tables t_a_eoi = true /\ check_tables t_bt = true /\ check_tables t_a_aeoi = true /\
  scanF t_a_eoi 0 [97] = (1, 2) /\ scanF t_a_eoi 0 [97; 97] = (1, 0) /\
  scanF t_bt 0 [97; 98; 98; 99; 97] = (4, 2) /\ scanF t_bt 0 [97; 98; 98; 97] = (1, 3) /\ scanF t_bt 0 [98] = (0, 0) /\
  scanF t_a_aeoi 0 [97] = (1, 3) /\ scanF t_a_aeoi 0 [97; 98] = (1, 2).
Proof. vm_compute. repeat split; reflexivity. Qed.

(* the pinned Scan (one end-of-input step, modelled in Lex/Tables.v for C24) violates the statement: F6 *)
Example C09_pinned_scan_refuted :
  exists t text, check_tables t = true /\ text <> [] /\ Tables.scan t 0 text <> longest_accept t 0 text.
Proof. exists t_a_eoi, [97]. split; [reflexivity|]. split; [discriminate|]. vm_compute. discriminate. Qed.

(* the specification agrees on the same examples: rules as symbol-level expressions *)
Example C09_spec_examples :
  let a := Sym [(97, 97)] in let b := Sym [(98, 98)] in let c := Sym [(99, 99)] in let e := Sym [(-1, -1)] in
  spec_scan false [(Cat a e, 2, 0)] [97] = (1, 2) /\ spec_scan false [(Cat a e, 2, 0)] [97; 97] = (1, 0) /\
  spec_scan false [(Cat a (Cat (Rep 0 (-1) b) c), 2, 0); (a, 3, 0)] [97; 98; 98; 99; 97] = (4, 2) /\
  spec_scan false [(Cat a (Cat (Rep 0 (-1) b) c), 2, 0); (a, 3, 0)] [97; 98; 98; 97] = (1, 3) /\
  spec_scan false [(a, 2, 0); (Cat a e, 3, 0)] [97] = (1, 3).
Proof. vm_compute. repeat split; reflexivity. Qed.

Print Assumptions C09_scan_is_longest.
Print Assumptions C09_validated_cells.
