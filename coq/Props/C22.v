(* C22 — The grammar compiler never crashes and reports in-range diagnostics (partial: the part that is
   logic — position arithmetic and error construction).
   Model: Util/LineCol.v (lineOffsets, sort.Search, Node.LineColumn, Node.SourceRange, status.AddError /
   FromError / Err, the error hand-over of compiler.Compile); Util/PatternErr.v (compiler/lexer.go parsePattern:
   mapping of regexp error offsets into the grammar text). *)
From Coq Require Import List ZArith Bool.
From TM Require Import Util.LineCol Util.LineCol_proofs Util.PatternErr Util.PatternErr_proofs.
Import ListNotations.
Local Open Scope Z_scope.

(* For EVERY text and every offset inside it (end included): Node.LineColumn — a binary search over the
   table built by lineOffsets — never indexes out of range and returns exactly the position obtained by
   scanning the text: line = 1 + newlines before the offset, column = 1 + bytes since the line start. *)
Theorem C22_line_column_consistent :
  forall content off, 0 <= off <= Z.of_nat (length content) ->
  line_column (line_offsets content) off = Some (line_col content off).
Proof. exact line_column_spec. Qed.

(* The scanning specification read declaratively: if the offset splits the text as a ++ b ++ rest where a is
   empty or ends with a newline and b contains no newline, the position is (1 + #newlines of a, |b| + 1). *)
Theorem C22_line_col_meaning :
  forall a b rest, (a = [] \/ last a 0 = NL) -> ~ In NL b ->
  line_col (a ++ b ++ rest) (Z.of_nat (length a + length b)) = (1 + count_nl a, Z.of_nat (length b) + 1).
Proof. exact line_col_decl. Qed.

(* Inverse: the byte offset is recovered from (line, column) through the line table; hence two offsets of
   the same text never share a (line, column). *)
Theorem C22_line_column_inverse :
  forall lines off lc, line_column lines off = Some lc -> offset_of lines lc = off.
Proof. exact line_column_inverse. Qed.

Theorem C22_line_col_injective :
  forall content o1 o2, 0 <= o1 <= Z.of_nat (length content) -> 0 <= o2 <= Z.of_nat (length content) ->
  line_col content o1 = line_col content o2 -> o1 = o2.
Proof. exact line_col_injective. Qed.

(* sort.Search as used above: on a monotone predicate it returns the partition point. *)
Theorem C22_search_partition_point :
  forall f fuel i j, 0 <= i <= j -> (Z.to_nat (j - i) <= fuel)%nat ->
  (forall a b, i <= a <= b -> b < j -> f a = true -> f b = true) ->
  i <= search fuel f i j <= j /\
  (forall k, i <= k < search fuel f i j -> f k = false) /\
  (forall k, search fuel f i j <= k < j -> f k = true).
Proof. exact search_spec. Qed.

(* status_wellformed: whatever the front end reports — a syntax error whose offsets lie in the text and
   whose line is the lexer's line of that offset, or any list of diagnostics attached to nodes inside the
   text — the error value returned by (the repaired) Compile unpacks with status.FromError into errors
   that all carry the compiled file's name, 0 <= Offset <= EndOffset <= len, 1 <= Line, 1 <= Column and
   (Line, Column) = line_col content Offset. No LineColumn panic is possible (the result is Some). *)
Theorem C22_status_wellformed :
  forall path content r, front_end_ok content r ->
  exists e, compile path content r = Some e /\
            Forall (fun x => wellformed path content (e_origin x)) (from_error e).
Proof. exact status_wellformed. Qed.

(* ... and exactly one error per diagnostic. *)
Theorem C22_one_error_per_diagnostic :
  forall path content ds, Forall (diag_ok content) ds ->
  exists e, compile path content (ParseOk ds) = Some e /\ length (from_error e) = length ds.
Proof. exact compile_error_count. Qed.

(* The pinned tree (defect F12, repaired by a fix: commit): Compile returned the raw tm.SyntaxError, which
   status.FromError can only turn into an origin-less error — ill-formed for EVERY text and syntax error. *)
Theorem C22_pinned_glue_refuted :
  forall path content se,
  exists e, compile_pinned path content (ParseFail se) = Some e /\
            from_error e = [mkErr empty_range syntax_error_msg] /\
            ~ wellformed path content (e_origin (mkErr empty_range syntax_error_msg)).
Proof. exact pinned_syntax_error_originless. Qed.

(* The boolean check evaluated by the oracle glue on every error the implementation returns. *)
Theorem C22_wellformed_check_sound :
  forall path content r, wellformedb path content r = true <-> wellformed path content r.
Proof. exact wellformedb_iff. Qed.

(* pattern_error_in_range. For EVERY grammar text pre ++ pat ++ rest in which pat (the pattern node, slashes
   included, at least "//") contains no line break, and EVERY lex.ParseError whose Offset is not negative
   (EndOffset arbitrary, even nonsense): the origin that parsePattern builds exists (no LineColumn panic, no
   slicing panic), carries the file name, lies inside the pattern's own range [|pre|, |pre|+|pat|] - hence in the
   text -, is on the pattern's line, and its (Line, Column) is line_col of its Offset, i.e. the column
   arithmetic "Column += Offset + 1" agrees with the byte offset arithmetic. *)
Theorem C22_pattern_error_in_range :
  forall path pre pat rest pe,
  (2 <= length pat)%nat -> ~ In NL pat -> 0 <= pe_off pe ->
  let content := pre ++ pat ++ rest in
  let nd := mkNode (Z.of_nat (length pre)) (Z.of_nat (length pre + length pat)) in
  exists r, pattern_error_range path (line_offsets content) nd pe = Some r /\
            wellformed path content r /\
            n_off nd <= sr_off r /\ sr_end r <= n_end nd /\
            sr_line r = fst (line_col content (n_off nd)).
Proof. exact pattern_error_wellformed. Qed.

(* ... and it points at the offender: when the error's offsets are what ParseRegexp promises
   (0 <= Offset <= EndOffset <= len(text), Offset < len(text)), the reported range starts exactly at byte
   Offset of the text between the slashes, never covers a slash, ends at EndOffset for a non-empty error
   range and at the closing slash for an empty one, and the column moved as far as the offset. *)
Theorem C22_pattern_error_points_at_offender :
  forall rng pe,
  0 <= pe_off pe <= pe_end pe -> pe_end pe <= pattern_text_len rng -> pe_off pe < pattern_text_len rng ->
  let r := map_pattern_error rng pe in
  sr_off r = sr_off rng + 1 + pe_off pe /\
  sr_end r = (if pe_off pe <? pe_end pe then sr_off rng + 1 + pe_end pe else sr_end rng - 1) /\
  sr_off rng + 1 <= sr_off r /\ sr_off r < sr_end rng - 1 /\ sr_off r <= sr_end r <= sr_end rng - 1 /\
  sr_col r - sr_col rng = sr_off r - sr_off rng.
Proof. exact map_pattern_error_exact. Qed.

(* An error the guard rejects (e.g. "missing closing parenthesis" at the very end of the text) is reported for
   the whole pattern. *)
Theorem C22_pattern_error_fallback :
  forall rng pe, pattern_guard rng pe = false -> map_pattern_error rng pe = rng.
Proof. exact map_pattern_error_fallback. Qed.

(* The hypothesis 0 <= Offset of pattern_error_in_range cannot be dropped: parsePattern's guard does not test
   it, a negative Offset would be mapped in front of the pattern. (lex.ParseRegexp never produces one: checked
   on every c22.pattern case by the oracle, not proved.) *)
Theorem C22_pattern_guard_relies_on_nonnegative_offsets :
  exists rng pe, sr_off rng + 2 <= sr_end rng /\ pattern_guard rng pe = true /\
                 sr_off (map_pattern_error rng pe) < sr_off rng.
Proof. exact pattern_guard_needs_nonneg. Qed.

(* NOT modelled (partial): the generated tm lexer/parser that produces the nodes and the syntax error
   (hypothesis front_end_ok; its line counter is C12's subject), option parsing, the passes that decide
   WHICH diagnostics exist, and their log.Fatal invariants: panic/exit/hang-freedom of those is only
   exercised by the mutation search in a subprocess. lex.ParseRegexp itself is C10's model; that its error
   offsets lie in the pattern text is checked per case, not proved. *)

Example C22_examples :
  let text := [97;10;98;99;10;10;100] (* "a\nbc\n\nd" *) in
  line_offsets text = [0; 2; 5; 6] /\
  line_column (line_offsets text) 3 = Some (2, 2) /\
  line_column (line_offsets text) 5 = Some (3, 1) /\
  line_column (line_offsets text) 7 = Some (4, 2) /\
  line_col text 4 = (2, 3) /\
  front_end_ok text (ParseFail (mkSE 2 3 4)) /\
  compile [103] text (ParseFail (mkSE 2 3 4)) = Some (EOne (mkErr (mkSR [103] 3 4 2 2) syntax_error_msg)) /\
  front_end_ok text (ParseOk [(Some (mkNode 6 7), [120])]) /\
  compile [103] text (ParseOk [(Some (mkNode 6 7), [120])]) = Some (EStatus [mkErr (mkSR [103] 6 7 4 1) [120]]) /\
  compile_pinned [103] text (ParseFail (mkSE 2 3 4)) = Some (EOther syntax_error_msg).
Proof.
  vm_compute. repeat split; try reflexivity; try discriminate.
  constructor; [|constructor]. eexists; split; [reflexivity|]. vm_compute. repeat split; discriminate.
Qed.

Example C22_pattern_examples :
  (* "a: /x[z-a]y/\n": pattern node [3, 12), error "invalid character class range" at text offsets [2, 5) *)
  let text := [97;58;32;47;120;91;122;45;97;93;121;47;10] in
  pattern_error_range [103] (line_offsets text) (mkNode 3 12) (mkPE 2 5) = Some (mkSR [103] 6 9 1 7) /\
  (* an empty error range is extended to the closing slash *)
  pattern_error_range [103] (line_offsets text) (mkNode 3 12) (mkPE 2 2) = Some (mkSR [103] 6 11 1 7) /\
  (* an error at the end of the text falls back to the whole pattern *)
  pattern_error_range [103] (line_offsets text) (mkNode 3 12) (mkPE 7 7) = Some (mkSR [103] 3 12 1 4).
Proof. vm_compute. repeat split; reflexivity. Qed.

Print Assumptions C22_line_column_consistent.
Print Assumptions C22_pattern_error_in_range.
Print Assumptions C22_pattern_error_points_at_offender.
Print Assumptions C22_pattern_error_fallback.
Print Assumptions C22_pattern_guard_relies_on_nonnegative_offsets.
Print Assumptions C22_line_col_meaning.
Print Assumptions C22_line_column_inverse.
Print Assumptions C22_line_col_injective.
Print Assumptions C22_search_partition_point.
Print Assumptions C22_status_wellformed.
Print Assumptions C22_one_error_per_diagnostic.
Print Assumptions C22_pinned_glue_refuted.
Print Assumptions C22_wellformed_check_sound.
