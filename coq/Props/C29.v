(* C29 — Cancellation never yields a wrong parse.
   Model: Gram/Cancel.v — the shiftCounter / ctx.Done() polling of the cancellable parse loop layered over the
   event-emitting loop of Gram/Events.v; rho is an ARBITRARY oracle telling whether the context is done at each poll. *)
From Coq Require Import List ZArith Bool.
From TM Require Import Gram.PTables Gram.Run Gram.Validator Gram.Events Gram.Cancel Gram.Cancel_proofs.
Import ListNotations.
Local Open Scope Z_scope.

(* For EVERY machine, event table, input, fuel and EVERY oracle rho (every moment at which the context may be
   cancelled): the cancellable loop either returns the context error at a configuration the uncancelled loop passes
   through, or returns exactly the outcome, stack and events of the uncancelled loop. *)
Theorem C29_cancel_or_same :
  forall m evt fixws eoi_off end_state attempts f rho c o c',
  crun_loop f m evt fixws eoi_off end_state attempts rho c = (o, c') ->
  (o = CtxErr /\ exists k, (k <= f)%nat /\
     xrun_loop f m evt fixws eoi_off end_state (cc_x c) = xrun_loop (f - k) m evt fixws eoi_off end_state (cc_x c')) \/
  (exists o', o = Plain o' /\ xrun_loop f m evt fixws eoi_off end_state (cc_x c) = (o', cc_x c')).
Proof. exact cancel_or_same. Qed.

(* the events reported before the context error are a prefix of the events of the uncancelled parse *)
Theorem C29_events_before_cancellation_are_a_prefix :
  forall m evt fixws eoi_off end_state attempts f rho c c' o_plain x_plain,
  crun_loop f m evt fixws eoi_off end_state attempts rho c = (CtxErr, c') ->
  xrun_loop f m evt fixws eoi_off end_state (cc_x c) = (o_plain, x_plain) ->
  exists evs, xc_events x_plain = xc_events (cc_x c') ++ evs.
Proof. exact cancel_events_prefix. Qed.

(* once the context is done from counter value s on, the loop stops before its counter passes the next polled value
   (a multiple of 512 below s + 512), having consumed at most that many further tokens *)
Theorem C29_cancel_bounded :
  forall m evt fixws eoi_off end_state attempts,
  (forall s a more q, m_act m s a more = Shift q -> attempts s a = true) ->
  forall f rho s c o c', 1 <= s -> (forall n, s <= n -> rho n = true) ->
  cc_counter c < next_poll s ->
  crun_loop f m evt fixws eoi_off end_state attempts rho c = (o, c') ->
  cc_counter c' < next_poll s /\
  Z.of_nat (length (xc_input (cc_x c))) - Z.of_nat (length (xc_input (cc_x c'))) <= cc_counter c' - cc_counter c.
Proof. exact cancel_bounded. Qed.

Theorem C29_next_poll_is_near :
  forall s, 1 <= s -> s <= next_poll s < s + 512 /\ polls (next_poll s) = true /\ 512 <= next_poll s.
Proof. exact next_poll_spec. Qed.

(* both table encodings satisfy the hypothesis of C29_cancel_bounded *)
Theorem C29_shifts_are_counted :
  (forall t rl rs s a more q, m_act (lalr1_machine t rl rs) s a more = Shift q -> attempts_default t s a = true) /\
  (forall o terms rl rs s a more q, m_act (opt_machine o terms rl rs) s a more = Shift q -> attempts_opt o s a = true).
Proof. split; [exact lalr1_attempts|exact opt_attempts]. Qed.

(* NOT modelled (partial): cancellation inside lookahead sub-parses (grammars with (?= ...) lookaheads) and the
   hand-written loop of parsers/js; goroutine timing of the cancelling side (rho abstracts it). *)

Print Assumptions C29_cancel_or_same.
Print Assumptions C29_events_before_cancellation_are_a_prefix.
Print Assumptions C29_cancel_bounded.
Print Assumptions C29_next_poll_is_near.
Print Assumptions C29_shifts_are_counted.
