(* C29 — Cancellation never yields a wrong parse.
   Model: Gram/Cancel.v — the shiftCounter / ctx.Done() polling of the cancellable parse loop layered over the
   event-emitting loop of Gram/Events.v; rho is an ARBITRARY oracle telling whether the context is done at each poll. *)
From Coq Require Import List ZArith Bool.
From TM Require Import Gram.PTables Gram.Run Gram.Validator Gram.Events Gram.Cancel Gram.Cancel_proofs.
From TM Require Import Gram.CancelLA Gram.CancelLA_proofs.
Import ListNotations.
Local Open Scope Z_scope.

(* For EVERY machine, event table, input, fuel and EVERY oracle rho (every moment at which the context may be
   cancelled): the cancellable loop either returns the context error at a configuration the uncancelled loop passes
   through, or returns exactly the outcome, stack and events of the uncancelled loop. *)
Theorem C29_cancel_or_same :
  forall m evt fixws eoi_off end_state attempts f rho c o c',
  crun_loop f m evt fixws eoi_off end_state attempts rho c = (o, c') ->
  (o = CtxErr /\ exists k, (k <= f)%nat /\
     xrun_loop f m evt fixws eoi_off end_state (cc_x c) = xrun_loop (f - k) m evt fixws eoi_off end_state (cc_x c')) \/
  (exists o', o = Plain o' /\ xrun_loop f m evt fixws eoi_off end_state (cc_x c) = (o', cc_x c')).
Proof. exact cancel_or_same. Qed.

(* the events reported before the context error are a prefix of the events of the uncancelled parse *)
Theorem C29_events_before_cancellation_are_a_prefix :
  forall m evt fixws eoi_off end_state attempts f rho c c' o_plain x_plain,
  crun_loop f m evt fixws eoi_off end_state attempts rho c = (CtxErr, c') ->
  xrun_loop f m evt fixws eoi_off end_state (cc_x c) = (o_plain, x_plain) ->
  exists evs, xc_events x_plain = xc_events (cc_x c') ++ evs.
Proof. exact cancel_events_prefix. Qed.

(* once the context is done from counter value s on, the loop stops before its counter passes the next polled value
   (a multiple of 512 below s + 512), having consumed at most that many further tokens *)
Theorem C29_cancel_bounded :
  forall m evt fixws eoi_off end_state attempts,
  (forall s a more q, m_act m s a more = Shift q -> attempts s a = true) ->
  forall f rho s c o c', 1 <= s -> (forall n, s <= n -> rho n = true) ->
  cc_counter c < next_poll s ->
  crun_loop f m evt fixws eoi_off end_state attempts rho c = (o, c') ->
  cc_counter c' < next_poll s /\
  Z.of_nat (length (xc_input (cc_x c))) - Z.of_nat (length (xc_input (cc_x c'))) <= cc_counter c' - cc_counter c.
Proof. exact cancel_bounded. Qed.

Theorem C29_next_poll_is_near :
  forall s, 1 <= s -> s <= next_poll s < s + 512 /\ polls (next_poll s) = true /\ 512 <= next_poll s.
Proof. exact next_poll_spec. Qed.

(* both table encodings satisfy the hypothesis of C29_cancel_bounded *)
Theorem C29_shifts_are_counted :
  (forall t rl rs s a more q, m_act (lalr1_machine t rl rs) s a more = Shift q -> attempts_default t s a = true) /\
  (forall o terms rl rs s a more q, m_act (opt_machine o terms rl rs) s a more = Shift q -> attempts_opt o s a = true).
Proof. split; [exact lalr1_attempts|exact opt_attempts]. Qed.

(* ---------------- parsers with runtime lookaheads (?= ...): Gram/CancelLA.v ----------------
   lookahead sub-parses (also nested ones, with memoization, under recursiveLookaheads) run the same loop on the rest
   of the input, share the session's shift counter with the main loop and poll the context with the same test; a poll
   inside a lookahead that finds the context done aborts the WHOLE parse with the context error.
   [never] is the oracle of a context that is never cancelled: lrun_loop .. never .. is "the uncancelled parse". *)

(* (a) For EVERY machine, lookahead tables, event table, input, fuel and EVERY oracle rho: the parse returns the
   context error at a configuration (stack, rest of the input, events, session) that the uncancelled parse passes
   through, or it returns exactly the outcome, configuration and session of the uncancelled parse. *)
Theorem C29_lookaheads_cancel_or_same :
  forall m lt attempts eoi_off rho lfuel evt fixws end_state f c o c' s',
  lrun_loop m lt attempts eoi_off rho f lfuel evt fixws end_state c = (o, c', s') ->
  (o = CtxErr /\ exists k, (k <= f)%nat /\
     lrun_loop m lt attempts eoi_off never f lfuel evt fixws end_state c =
     lrun_loop m lt attempts eoi_off never (f - k) lfuel evt fixws end_state c') \/
  lrun_loop m lt attempts eoi_off never f lfuel evt fixws end_state c = (o, c', s').
Proof. exact la_cancel_or_same. Qed.

(* the events reported before the context error are a prefix of the events of the uncancelled parse *)
Theorem C29_lookaheads_events_before_cancellation_are_a_prefix :
  forall m lt attempts eoi_off rho lfuel evt fixws end_state f c c' s' o0 c0 s0,
  lrun_loop m lt attempts eoi_off rho f lfuel evt fixws end_state c = (CtxErr, c', s') ->
  lrun_loop m lt attempts eoi_off never f lfuel evt fixws end_state c = (o0, c0, s0) ->
  exists evs, xc_events (lc_x c0) = xc_events (lc_x c') ++ evs.
Proof. exact la_cancel_events_prefix. Qed.

(* (b) once the context is done from counter value s on (every poll at a counter value >= s sees it), the shared
   counter of the main loop and all lookahead sub-parses stops at the latest AT the next polled value, which is below
   s + 512, and then with the context error; any other outcome is reached before that value.  Every unit of the
   counter is one recorded shift attempt (ls_ticks: main loop or lookahead at some depth), so at most 511 further shift
   attempts - main loop and lookaheads together - are made before the error is returned or the parse has ended. *)
Theorem C29_lookaheads_cancel_bounded :
  forall m lt attempts eoi_off rho lfuel evt fixws end_state f s c o c' s',
  1 <= s -> (forall n, s <= n -> rho n = true) -> ls_counter (lc_s c) < next_poll s ->
  lrun_loop m lt attempts eoi_off rho f lfuel evt fixws end_state c = (o, c', s') ->
  ls_counter s' <= next_poll s < s + 512 /\
  (o <> CtxErr -> ls_counter s' < next_poll s) /\
  ls_counter (lc_s c) <= ls_counter s' /\
  Z.of_nat (length (ls_ticks s')) - Z.of_nat (length (ls_ticks (lc_s c))) = ls_counter s' - ls_counter (lc_s c).
Proof. exact la_cancel_bounded. Qed.

(* the hypotheses on the oracle are satisfiable (a context cancelled before the parse starts) *)
Example C29_bound_hypotheses_satisfiable : exists (rho : Z -> bool) s, 1 <= s /\ forall n, s <= n -> rho n = true.
Proof. exists (fun _ => true), 1. split; [discriminate|reflexivity]. Qed.

(* NOT modelled: the lexer/token stream below the parser (the model works on the token list; the lookahead's lexer
   copy is the rest of that list), error recovery (the generated test grammars and StopOnFirstError runs do not
   recover), the cancellableFetch option; goroutine timing of the cancelling side (rho abstracts it).  The js parser
   (9310 states, hand-written loop of the same shape) is checked against the statements above by its poll log only. *)

Print Assumptions C29_cancel_or_same.
Print Assumptions C29_events_before_cancellation_are_a_prefix.
Print Assumptions C29_cancel_bounded.
Print Assumptions C29_next_poll_is_near.
Print Assumptions C29_shifts_are_counted.
Print Assumptions C29_lookaheads_cancel_or_same.
Print Assumptions C29_lookaheads_events_before_cancellation_are_a_prefix.
Print Assumptions C29_lookaheads_cancel_bounded.
