(* C19 — Error recovery is safe and transparent.
   Model: Gram/Recover.v — the recovering parse loop of go_parser.go.tmpl (error reporting with the `recovering`
   counter, recoverFromError, skipBrokenCode, reduceAll) over the event loop of Gram/Events.v; the error handler
   is an ARBITRARY oracle (number of errors so far -> continue?). *)
From Coq Require Import List ZArith Bool Lia.
From TM Require Import Gram.PTables Gram.Run Gram.Validator Gram.Events Gram.Recover Gram.Recover_proofs Gram.Recover_progress.
From TM Require Import Gram.RedTerm Gram.RedTerm_proofs Gram.RedTermRec_proofs.
From TM Require Import Gram.Cfg Gram.CertGen Gram.RecoverSafe Gram.RecoverSafe_proofs Gram.RedTermFuel_proofs Gram.RecoverFuel_proofs.
Import ListNotations.
Local Open Scope Z_scope.

(* Transparency: on EVERY input the loop without recovery accepts (same tables, same event table), the recovering
   loop accepts as well, with the same stack, the same listener events, and without calling the error handler —
   for every error handler and fuel. *)
Theorem C19_recovery_transparent :
  forall p eh f x x' l,
  xrun_loop f (rp_m p) (rp_evt p) (rp_fixws p) (rp_eoi_off p) (rp_end p) x = (Accept, x') ->
  exists c', rrun_loop f p eh (mkRC x 0 [] l) = (RAccept, c') /\ rc_x c' = x' /\ rc_errors c' = [].
Proof. exact recovery_transparent. Qed.

(* Reported errors: for every input with non-decreasing token offsets, every error handler and fuel, at the end
   of the run (whatever its outcome) the remaining input is a suffix of the input, every error passed to the
   handler is the range of a token of the input or of the end-of-input token (hence inside the input), and the
   error offsets are non-decreasing. *)
Theorem C19_errors_inside_the_input_and_ordered :
  forall p eh f start input o c',
  sorted_offs p input ->
  rrun f p eh start input = (o, c') ->
  is_suffix (xc_input (rc_x c')) input /\
  Forall (in_tokens p input) (rc_errors c') /\
  nondecreasing (map fst (rc_errors c')).
Proof.
  intros p eh f start input o c' Hs Hrun. unfold rrun in Hrun.
  destruct (errors_in_input_and_ordered p eh f input _ _ _ Hs (einv_init p start input) Hrun) as (H1 & H2 & H3 & _).
  repeat split; assumption.
Qed.

(* recoverFromError terminates: its loop never needs more iterations than tokens plus recovery symbols *)
Theorem C19_recovery_loop_terminates :
  forall p stack input, recover_from_error p stack input <> RecFuel.
Proof. exact recover_terminates. Qed.

(* ---- progress after recovery ---- *)
(* Conditions on the tables: LALR(1) actions (lalr1: the action ignores the tokens after the next one),
   reduceAll's final shift test agrees with the loop (shift_ok_sound), the end state is not negative.  They hold
   for both encodings the generated parsers use (theorems C19_conditions_hold_for_default_tables and _optimized_tables below). *)

(* Simulation of reduceAll by the main loop: if reduceAll, walking its state stack stack2 over the real stack,
   answers "the terminal can be shifted", then from every loop configuration whose stack is the real stack with
   entries for stack2 on top, the loop performs at most `fuel` iterations, all of them plain reductions (reduces_for) that leave the
   input, the recovery counter and the error list untouched, and arrives in the end state or in a state where
   it shifts that terminal. *)
Theorem C19_reduceAll_predicts_the_loop :
  forall p eh, lalr1 p -> shift_ok_sound p -> 0 <= rp_end p ->
  forall f stack stack2 state symbol s',
  reduce_all f p stack stack2 state symbol = Some (s', true) ->
  forall x r errs l,
  vstack (xc_stack x) stack stack2 -> stack2 <> [] -> hd 0 stack2 = state -> xc_state x = state ->
  t_sym (next_tok (rp_eoi_off p) (xc_input x)) = symbol ->
  exists k x', (k <= f)%nat /\ rsteps p eh k (mkRC x r errs l) (mkRC x' r errs l) /\ xc_input x' = xc_input x /\
    reduces_for p k x = true /\
    (xc_state x' = rp_end p \/ exists q, m_act (rp_m p) (xc_state x') symbol [] = Shift q).
Proof. exact reduce_all_sim. Qed.

(* Progress: whenever the error branch of the loop continues (recoverFromError returned a stack and a next
   token t), the loop performs at most 4 * (|stack| + 1) + 64 further iterations without touching the input or
   reporting an error, and is then in the end state or shifts t. *)
Theorem C19_progress_after_recovery :
  forall p eh, lalr1 p -> shift_ok_sound p -> 0 <= rp_end p ->
  forall c0 stack events c1, handle_error p eh c0 stack events = RContinue c1 ->
  is_suffix (xc_input (rc_x c1)) (xc_input (rc_x c0)) /\
  exists k c2, (k <= S (length stack) * 4 + 64)%nat /\ rsteps p eh k c1 c2 /\
    xc_input (rc_x c2) = xc_input (rc_x c1) /\ rc_errors c2 = rc_errors c1 /\ reduces_for p k (rc_x c1) = true /\
    (xc_state (rc_x c2) = rp_end p \/
     exists q c3, m_act (rp_m p) (xc_state (rc_x c2)) (t_sym (next_tok (rp_eoi_off p) (xc_input (rc_x c1)))) [] = Shift q /\
       rstep p eh c2 = RContinue c3 /\ xc_state (rc_x c3) = q /\ rc_errors c3 = rc_errors c1 /\
       xc_input (rc_x c3) = (if t_sym (next_tok (rp_eoi_off p) (xc_input (rc_x c1))) =? 0 then xc_input (rc_x c1)
                             else tl (xc_input (rc_x c1)))).
Proof. exact recovery_progress. Qed.

(* Hence every recovery episode consumes at least one input token or ends the parse (end-of-input is only
   shifted into the end state: eoi_ends). *)
Theorem C19_every_recovery_consumes_a_token_or_ends_the_parse :
  forall p eh, lalr1 p -> shift_ok_sound p -> 0 <= rp_end p -> eoi_ends p ->
  forall c0 stack events c1, handle_error p eh c0 stack events = RContinue c1 ->
  exists k c2, (k <= S (length stack) * 4 + 64)%nat /\ rsteps p eh k c1 c2 /\ rc_errors c2 = rc_errors c1 /\
    (xc_state (rc_x c2) = rp_end p \/
     exists c3, rstep p eh c2 = RContinue c3 /\ rc_errors c3 = rc_errors c1 /\
       ((length (xc_input (rc_x c3)) < length (xc_input (rc_x c0)))%nat \/ xc_state (rc_x c3) = rp_end p)).
Proof. exact recovery_consumes_or_ends. Qed.

(* Termination of the whole recovering parse, relative to the plain loop: if no configuration of the plain loop
   starts an infinite sequence of reductions (reductions_terminate; a property of the tables alone, the domain of
   C01), then for EVERY configuration (stack, input, recovery counter) and every error handler the recovering loop
   stops with some fuel: error recovery adds no divergence. *)
Theorem C19_recovering_parse_terminates :
  forall p eh, lalr1 p -> shift_ok_sound p -> 0 <= rp_end p -> eoi_ends p -> reductions_terminate p ->
  forall c, exists f, fst (rrun_loop f p eh c) <> RFuel.
Proof. exact rrun_terminates. Qed.

(* An explicit fuel bound, linear in the remaining input: if every reduction sequence of the plain loop has at most
   R steps (reductions_bounded R), then (|input| + 1) * (2 R + 3) + R + 1 iterations suffice for EVERY
   configuration and handler: at most |input| + 1 shifts, at most one recovery episode per shift, at most R
   reductions before each of them. *)
Theorem C19_recovering_parse_fuel_bound :
  forall p eh, lalr1 p -> shift_ok_sound p -> 0 <= rp_end p -> forall R, eoi_ends p -> reductions_bounded p R ->
  forall c, fst (rrun_loop ((length (xc_input (rc_x c)) + 1) * (2 * R + 3) + R + 1) p eh c) <> RFuel.
Proof. exact rrun_fuel_linear. Qed.

Theorem C19_more_fuel_changes_nothing :
  forall p eh f c o c', rrun_loop f p eh c = (o, c') -> o <> RFuel -> forall g, rrun_loop (f + g) p eh c = (o, c').
Proof. exact rrun_fuel_mono. Qed.

Theorem C19_conditions_hold_for_default_tables :
  forall p t rl rs, rp_m p = lalr1_machine t rl rs -> rp_shift_ok p = shift_ok_default t -> lalr1 p /\ shift_ok_sound p.
Proof. exact conditions_default. Qed.

Theorem C19_conditions_hold_for_optimized_tables :
  forall p o terms rl rs, rp_m p = opt_machine o terms rl rs -> rp_shift_ok p = shift_ok_opt o -> lalr1 p /\ shift_ok_sound p.
Proof. exact conditions_opt. Qed.

(* ---- the hypotheses about the plain loop's reductions, discharged by validators on the tables ---- *)
(* RedTerm.check_redterm m nstates T NS F (a boolean, evaluated on the real tables by the C19 check): for every state b,
   every symbol A with a goto t = goto(b, A) and every terminal a, the reductions on lookahead a from the stack
   [t; b] stop, or pop the entry b, within F steps.  check_range: shifts and gotos of table states are table
   states, reduced rules have a symbol of the tables as left-hand side.  Neither uses the grammar or a certificate;
   C01's Validator.check is not needed. *)

(* Reduction sequences are bounded by the stack depth: on tables passing the two checks, a configuration whose stack
   holds table states and whose next token is a terminal admits at most (|stack| + 1) * F + 2 consecutive reductions
   of the plain loop (each anchored phase ends within F steps and leaves a strictly lower stack). *)
Theorem C19_reductions_bounded_by_stack_depth :
  forall p nstates T NS F, lalr1 p ->
  check_redterm (rp_m p) nstates T NS F = true -> check_range (rp_m p) nstates T NS = true ->
  forall x, xinv p nstates T x -> reduces_for p (S (S (length (xc_stack x)) * F + 1)) x = false.
Proof. exact redterm_bound. Qed.

(* Termination of the whole recovering parse WITHOUT the hypotheses reductions_terminate / eoi_ends: on tables passing
   check_range, check_redterm and check_eoi (end-of-input is only shifted into the end state, table states only),
   whose 'error' symbol is a symbol of the tables and has no goto from the state -1 (the state a failed goto leaves
   on the stack), the recovering loop stops with some fuel from EVERY configuration over table states and terminals
   (rinv: any stack, any recovery counter, any error list) and hence for every input over the terminals, every start
   state of the tables and every error handler. *)
Theorem C19_recovering_parse_terminates_on_validated_tables :
  forall p eh nstates T NS F, lalr1 p -> shift_ok_sound p -> 0 <= rp_end p ->
  check_range (rp_m p) nstates T NS = true -> check_redterm (rp_m p) nstates T NS F = true ->
  check_eoi (rp_m p) nstates (rp_end p) = true ->
  0 <= rp_err_sym p < NS -> m_goto (rp_m p) (-1) (rp_err_sym p) = -1 ->
  (forall c, rinv nstates T c -> exists f, fst (rrun_loop f p eh c) <> RFuel) /\
  (forall start input, 0 <= start < nstates -> Forall (fun t => 0 <= t_sym t < T) input ->
     exists f, fst (rrun f p eh start input) <> RFuel).
Proof. exact rrun_terminates_validated. Qed.

(* The recovering loop relative to ANY invariant of its iterations (the general form of the theorem above). *)
Theorem C19_recovering_parse_terminates_under_an_invariant :
  forall p eh, lalr1 p -> shift_ok_sound p -> 0 <= rp_end p ->
  forall Inv : rconfig -> Prop,
  (forall c c', Inv c -> rstep p eh c = RContinue c' -> Inv c') ->
  (forall c, Inv c -> exists n, reduces_for p n (rc_x c) = false) ->
  (forall c q, Inv c -> m_act (rp_m p) (xc_state (rc_x c)) 0 [] = Shift q -> q = rp_end p) ->
  forall c, Inv c -> exists f, fst (rrun_loop f p eh c) <> RFuel.
Proof. exact rrun_terminates_inv. Qed.

(* ---- certified tables: C01's Validator.check carried through recovery (both encodings) ---- *)
(* What the generated code does with the state -1: the main loop pushes the result of gotoState after a reduction even
   when it is -1 and then calls recoverFromError, whose first loop evaluates gotoState(stack[size-1].state, errSymbol)
   for EVERY entry, i.e. also gotoState(-1, errSymbol): harmless with default tables (the FromTo search finds nothing),
   an index-out-of-range (tmAction[-1]) with optimized tables.  So the state -1 reaches gotoState exactly when a reduction
   finds no goto.  The theorems below show that this never happens on tables that pass C01's certificate check: the
   stack of the recovering loop always spells a path of the certified LR automaton from the start state (sinv: Validator_proofs.stk
   over the (symbol, state) pairs of the stack) -- also after recoverFromError has cut the stack and pushed the 'error'
   entry, provided gotoState on 'error' agrees with the action table (check_err_goto, a boolean evaluated on the real tables) --
   and on such stacks every reduction finds its goto (a table state) and leaves the bottom entry alone. *)
Theorem C19_certified_stack_invariant :
  forall g p nstates finals nl ft ann eh i,
  lalr1 p -> check g (rp_m p) nstates finals nl ft ann = true ->
  check_err_goto (rp_m p) nstates (vT g) (rp_err_sym p) = true -> (i < ninputs g)%nat ->
  (forall input, toks_in g input -> sinv g p i (mkRC (mkXC [mkX 0 0 0 (Z.of_nat i) (TLeaf 0 0 0)] (Z.of_nat i) input []) 0 [] (0, 0))) /\
  (forall c c', sinv g p i c -> rstep p eh c = RContinue c' -> sinv g p i c') /\
  (forall c, sinv g p i c -> Forall (fun e => 0 <= x_state e < nstates) (xc_stack (rc_x c))) /\
  (forall c rule, sinv g p i c ->
     m_act (rp_m p) (xc_state (rc_x c)) (t_sym (next_tok (rp_eoi_off p) (xc_input (rc_x c)))) [] = Reduce rule ->
     (Z.to_nat (m_rule_len (rp_m p) rule) < length (xc_stack (rc_x c)))%nat /\
     exists b rest, skipn (Z.to_nat (m_rule_len (rp_m p) rule)) (xc_stack (rc_x c)) = b :: rest /\
       0 <= m_goto (rp_m p) (x_state b) (m_rule_sym (rp_m p) rule) < nstates).
Proof. exact certified_invariant. Qed.

(* Crash freedom.  The model's RCrash outcomes stand for the index-out-of-range panics of the Go code: 1 = the main loop
   pops the bottom entry, 2 = reduceAll walks below the stack / indexes tmAction[-1], 3 = recoverFromError's loop does not end.
   The model's reduceAll also answers 2 when its own iteration budget 4 * (|stack| + 1) + 64 is used up (the Go function has no
   budget).  On certified tables, for every input over the terminals, every handler and fuel: the only possible crash outcome
   is that budget being exhausted by that many genuine consecutive reductions of the loop (model_fuel_exhausted) ... *)
Theorem C19_recovering_parse_crashes_only_by_model_fuel :
  forall g p nstates finals nl ft ann eh i,
  lalr1 p -> check g (rp_m p) nstates finals nl ft ann = true ->
  check_err_goto (rp_m p) nstates (vT g) (rp_err_sym p) = true -> (i < ninputs g)%nat ->
  forall f input why, toks_in g input -> fst (rrun f p eh (Z.of_nat i) input) = RCrash why ->
  why = 2 /\ model_fuel_exhausted g p i.
Proof. exact rrun_crash_only_model_fuel. Qed.

(* ... and when every anchored reduction phase ends within F <= 4 steps (check_redterm with F = 4: at most 4 * (h + 1) + 2
   consecutive reductions on a stack of height h, below reduceAll's budget) the recovering loop never returns RCrash. *)
Theorem C19_recovering_parse_never_crashes :
  forall g p nstates finals nl ft ann eh F i,
  lalr1 p -> check g (rp_m p) nstates finals nl ft ann = true ->
  check_err_goto (rp_m p) nstates (vT g) (rp_err_sym p) = true ->
  check_range (rp_m p) nstates (vT g) (vNS g) = true -> check_redterm (rp_m p) nstates (vT g) (vNS g) F = true ->
  (F <= 4)%nat -> (i < ninputs g)%nat ->
  forall f input why, toks_in g input -> fst (rrun f p eh (Z.of_nat i) input) <> RCrash why.
Proof. exact rrun_never_crashes_certified. Qed.

(* Termination on certified tables, WITHOUT the premise m_goto (-1) err = -1 (the state -1 never gets on the stack), for any
   machine whose action looks at one terminal: every configuration of the invariant, every input over the terminals. *)
Theorem C19_recovering_parse_terminates_on_certified_tables :
  forall g p nstates finals nl ft ann eh F i,
  lalr1 p -> shift_ok_sound p -> 0 <= rp_end p ->
  check g (rp_m p) nstates finals nl ft ann = true ->
  check_err_goto (rp_m p) nstates (vT g) (rp_err_sym p) = true ->
  check_range (rp_m p) nstates (vT g) (vNS g) = true -> check_redterm (rp_m p) nstates (vT g) (vNS g) F = true ->
  check_eoi (rp_m p) nstates (rp_end p) = true -> (i < ninputs g)%nat ->
  (forall c, sinv g p i c -> exists f, fst (rrun_loop f p eh c) <> RFuel) /\
  (forall input, toks_in g input -> exists f, fst (rrun f p eh (Z.of_nat i) input) <> RFuel).
Proof. exact rrun_terminates_certified_tables. Qed.

(* in particular for the optimized (displacement) encoding: opt_machine with reduceAll's test shift_ok_opt *)
Theorem C19_recovering_parse_terminates_on_validated_optimized_tables :
  forall g p o terms rl rs nstates finals nl ft ann eh F i,
  rp_m p = opt_machine o terms rl rs -> rp_shift_ok p = shift_ok_opt o -> 0 <= rp_end p ->
  check g (rp_m p) nstates finals nl ft ann = true ->
  check_err_goto (rp_m p) nstates (vT g) (rp_err_sym p) = true ->
  check_range (rp_m p) nstates (vT g) (vNS g) = true -> check_redterm (rp_m p) nstates (vT g) (vNS g) F = true ->
  check_eoi (rp_m p) nstates (rp_end p) = true -> (i < ninputs g)%nat ->
  forall input, toks_in g input -> exists f, fst (rrun f p eh (Z.of_nat i) input) <> RFuel.
Proof. exact rrun_terminates_certified_opt. Qed.

(* the evaluated form of C01's check (CertGen.validate = check_report on the generated certificate) *)
Theorem C19_validate_zero_is_check :
  forall g m nstates finals nl ft ann, check_report g m nstates finals nl ft ann = 0 -> check g m nstates finals nl ft ann = true.
Proof. exact check_report_zero. Qed.

(* ---- explicit fuel for the whole parse from the validators (replaces the uniform-R hypothesis of C19_recovering_parse_fuel_bound) ---- *)
(* Amortised reduction bound: k consecutive reductions of the plain loop (reduce_n k x = Some y) from a configuration of the
   invariant satisfy  k + F * |stack y| <= F * |stack x| + F^2 + 2 F + 1 : a phase that pops its anchor pays for its <= F
   steps with the entry it removes, only the last phase can raise the stack (by <= F).  Implies the bound of
   C19_reductions_bounded_by_stack_depth and bounds the height afterwards. *)
Theorem C19_reductions_amortized_by_stack_depth :
  forall p nstates T NS F, lalr1 p ->
  check_redterm (rp_m p) nstates T NS F = true -> check_range (rp_m p) nstates T NS = true ->
  forall x, xinv p nstates T x -> forall k y, reduce_n p k x = Some y ->
  (k + F * length (xc_stack y) <= F * length (xc_stack x) + F * F + 2 * F + 1)%nat.
Proof. exact redterm_amortized. Qed.

(* With the potential F * |stack| (a shift or a recovery raises it by at most 2 F, every reduction sequence is paid by it up to
   F^2 + 2 F + 1):  parse_fuel F h n = F h + F^2 + 2 F + 1 + (n + 1) (2 F^2 + 8 F + 4) + 3  iterations suffice from every
   configuration of the invariant with stack height h and n tokens left, for every error handler -- linear in the input;
   a parse of `input` needs at most parse_fuel F 1 |input| iterations.  Validated tables (default encoding): *)
Theorem C19_recovering_parse_fuel_bound_on_validated_tables :
  forall p eh nstates T NS F, lalr1 p -> shift_ok_sound p -> 0 <= rp_end p ->
  check_range (rp_m p) nstates T NS = true -> check_redterm (rp_m p) nstates T NS F = true ->
  check_eoi (rp_m p) nstates (rp_end p) = true ->
  0 <= rp_err_sym p < NS -> m_goto (rp_m p) (-1) (rp_err_sym p) = -1 ->
  (forall c, rinv nstates T c ->
     fst (rrun_loop (parse_fuel F (length (xc_stack (rc_x c))) (length (xc_input (rc_x c)))) p eh c) <> RFuel) /\
  (forall start input, 0 <= start < nstates -> Forall (fun t => 0 <= t_sym t < T) input ->
     fst (rrun (parse_fuel F 1 (length input)) p eh start input) <> RFuel).
Proof. exact rrun_fuel_validated. Qed.

(* certified tables (both encodings) *)
Theorem C19_recovering_parse_fuel_bound_on_certified_tables :
  forall g p nstates finals nl ft ann eh F i,
  lalr1 p -> shift_ok_sound p -> 0 <= rp_end p ->
  check g (rp_m p) nstates finals nl ft ann = true ->
  check_err_goto (rp_m p) nstates (vT g) (rp_err_sym p) = true ->
  check_range (rp_m p) nstates (vT g) (vNS g) = true -> check_redterm (rp_m p) nstates (vT g) (vNS g) F = true ->
  check_eoi (rp_m p) nstates (rp_end p) = true -> (i < ninputs g)%nat ->
  (forall c, sinv g p i c ->
     fst (rrun_loop (parse_fuel F (length (xc_stack (rc_x c))) (length (xc_input (rc_x c)))) p eh c) <> RFuel) /\
  (forall input, toks_in g input -> fst (rrun (parse_fuel F 1 (length input)) p eh (Z.of_nat i) input) <> RFuel).
Proof. exact rrun_fuel_certified. Qed.

(* Still NOT proved (partial): (1) crash freedom without the side condition F <= 4: the model's reduceAll carries an iteration budget
   the Go code does not have, so for tables with longer anchored reduction phases the model may answer RCrash 2 where the
   generated parser simply keeps reducing (C19_recovering_parse_crashes_only_by_model_fuel pins the outcome down to exactly
   that case); (2) for tables that only pass check_range/check_redterm (no certificate) the premise m_goto (-1) err = -1 of
   C19_recovering_parse_terminates_on_validated_tables remains, and it is false in the model of optimized tables; note also
   that eoi_ends (all integers as states) fails for opt_machine, so C19_recovering_parse_terminates is vacuous for optimized
   tables while the validated/certified theorems use check_eoi (table states only). *)

(* non-vacuity: a two-state machine with an 'error' transition; the input "x y" has a syntax error at x, recovery
   skips x, pushes the error entry, and the loop then shifts y into the end state *)
Definition mx : machine :=
  mkMachine (fun s a _ => if (s =? 1) && (a =? 3) then Shift 2 else Err)
            (fun s x => if (s =? 0) && (x =? 1) then 1 else -1) (fun _ => 0) (fun _ => 0).
Definition px : rparams := mkRP mx [] true 2 2 1 [3] (fun s a => (s =? 1) && (a =? 3)) (fun _ _ => false).

Example C19_example :
  lalr1 px /\ shift_ok_sound px /\ 0 <= rp_end px /\ eoi_ends px /\ reductions_terminate px /\ reductions_bounded px 0 /\
  (let '(o, c) := rrun 10 px (fun _ => true) 0 [mkTok 2 0 1; mkTok 3 1 2] in
   o = RAccept /\ rc_errors c = [(0, 1)] /\ xc_input (rc_x c) = [] /\ map x_sym (xc_stack (rc_x c)) = [3; 1; 0]).
Proof.
  split; [intros s a more; reflexivity|]. split.
  { intros s a H. simpl in *. rewrite H. eauto. }
  split; [simpl; discriminate|]. split.
  { intros s q H. simpl in H. rewrite andb_false_r in H. discriminate. }
  split.
  { intros x. exists 1%nat. simpl. unfold plain_reduce. simpl. destruct (_ && _); reflexivity. }
  split.
  { intros x. simpl. unfold plain_reduce. simpl. destruct (_ && _); reflexivity. }
  vm_compute. repeat split; reflexivity.
Qed.

(* non-vacuity of the validated-tables theorem: textmapper's real tables of C01's example grammar
   N0 : 'a' 'b' 'b' N0 | %empty  (7 states, 4 terminals, 5 symbols; terminal 1 plays the 'error' symbol) pass the
   checks with F = 8, and the recovering loop stops on "abba" *)
Definition t0 : default_enc :=      (* the tables of Props/C01.v *)
  mkDefaultEnc [-3; -1; -1; -9; 0; -1; -2] [2; -1; 0; 1; -1; -2; 2; -1; 0; 1; -1; -2] [0; 2; 2; 6; 10; 14]
               [5; 6; 0; 1; 3; 1; 1; 2; 2; 3; 0; 5; 3; 4].
Definition m0 : machine := lalr1_machine t0 [4; 0] [4; 4].
Definition p0 : rparams := mkRP m0 [] false 4 6 1 [] (shift_ok_default t0) (fun _ _ => false).

Example C19_validated_example :
  lalr1 p0 /\ shift_ok_sound p0 /\ 0 <= rp_end p0 /\
  check_range (rp_m p0) 7 4 5 = true /\ check_redterm (rp_m p0) 7 4 5 8 = true /\ check_eoi (rp_m p0) 7 (rp_end p0) = true /\
  0 <= rp_err_sym p0 < 5 /\ m_goto (rp_m p0) (-1) (rp_err_sym p0) = -1 /\
  rinv 7 4 (mkRC (mkXC [mkX 0 0 0 0 (TLeaf 0 0 0)] 0 (toks_of [2; 3; 3; 2]) []) 0 [] (0, 0)) /\
  fst (rrun 40 p0 (fun _ => true) 0 (toks_of [2; 3; 3; 2])) = RSyntax 4 4.
Proof.
  destruct (conditions_default p0 t0 [4; 0] [4; 4] eq_refl eq_refl) as [H1 H2].
  split; [exact H1|]. split; [exact H2|]. split; [simpl; discriminate|].
  split; [vm_compute; reflexivity|]. split; [vm_compute; reflexivity|]. split; [vm_compute; reflexivity|].
  split; [simpl; split; [discriminate|reflexivity]|]. split; [vm_compute; reflexivity|]. split.
  - unfold rinv. cbn [rc_x xc_stack xc_state xc_input]. split; [discriminate|].
    split; [constructor; [unfold st_in; simpl; split; [discriminate|reflexivity]|constructor]|]. split; [reflexivity|].
    repeat constructor; unfold tok_in; simpl; try discriminate.
  - vm_compute. reflexivity.
Qed.

(* non-vacuity of the certified-tables theorems: the same real tables with C01's grammar and generated certificate
   pass check, check_err_goto, and check_redterm with F = 4 *)
Definition g0 : grammar := mkGrammar 4 1 [mkRule 4 [2; 3; 3; 4] 0; mkRule 4 [] 0] [(4, true)] [].

Example C19_certified_example :
  check g0 (rp_m p0) 7 [6] (nullable_set g0) (first_sets g0) (fst (gen_cert g0 400)) = true /\
  check_err_goto (rp_m p0) 7 (vT g0) (rp_err_sym p0) = true /\
  check_range (rp_m p0) 7 (vT g0) (vNS g0) = true /\ check_redterm (rp_m p0) 7 (vT g0) (vNS g0) 4 = true /\
  (0 < ninputs g0)%nat /\ toks_in g0 (toks_of [2; 3; 3; 2]) /\
  parse_fuel 4 1 4 = 372%nat /\ fst (rrun (parse_fuel 4 1 4) p0 (fun _ => true) 0 (toks_of [2; 3; 3; 2])) = RSyntax 4 4.
Proof.
  split; [vm_compute; reflexivity|]. split; [vm_compute; reflexivity|]. split; [vm_compute; reflexivity|].
  split; [vm_compute; reflexivity|]. split; [vm_compute; lia|].
  split; [repeat constructor; simpl; discriminate|]. split; vm_compute; reflexivity.
Qed.

Print Assumptions C19_recovery_transparent.
Print Assumptions C19_errors_inside_the_input_and_ordered.
Print Assumptions C19_recovery_loop_terminates.
Print Assumptions C19_reduceAll_predicts_the_loop.
Print Assumptions C19_progress_after_recovery.
Print Assumptions C19_every_recovery_consumes_a_token_or_ends_the_parse.
Print Assumptions C19_recovering_parse_terminates.
Print Assumptions C19_recovering_parse_fuel_bound.
Print Assumptions C19_reductions_bounded_by_stack_depth.
Print Assumptions C19_recovering_parse_terminates_on_validated_tables.
Print Assumptions C19_recovering_parse_terminates_under_an_invariant.
Print Assumptions C19_certified_stack_invariant.
Print Assumptions C19_recovering_parse_crashes_only_by_model_fuel.
Print Assumptions C19_recovering_parse_never_crashes.
Print Assumptions C19_recovering_parse_terminates_on_certified_tables.
Print Assumptions C19_recovering_parse_terminates_on_validated_optimized_tables.
Print Assumptions C19_validate_zero_is_check.
Print Assumptions C19_reductions_amortized_by_stack_depth.
Print Assumptions C19_recovering_parse_fuel_bound_on_validated_tables.
Print Assumptions C19_recovering_parse_fuel_bound_on_certified_tables.
Print Assumptions C19_more_fuel_changes_nothing.
Print Assumptions C19_conditions_hold_for_default_tables.
Print Assumptions C19_conditions_hold_for_optimized_tables.
