(* C19 — Error recovery is safe and transparent.
   Model: Gram/Recover.v — the recovering parse loop of go_parser.go.tmpl (error reporting with the `recovering`
   counter, recoverFromError, skipBrokenCode, reduceAll) over the event loop of Gram/Events.v; the error handler
   is an ARBITRARY oracle (number of errors so far -> continue?). *)
From Coq Require Import List ZArith Bool.
From TM Require Import Gram.PTables Gram.Run Gram.Events Gram.Recover Gram.Recover_proofs.
Import ListNotations.
Local Open Scope Z_scope.

(* Transparency: on EVERY input the loop without recovery accepts (same tables, same event table), the recovering
   loop accepts as well, with the same stack, the same listener events, and without calling the error handler —
   for every error handler and fuel. *)
Theorem C19_recovery_transparent :
  forall p eh f x x' l,
  xrun_loop f (rp_m p) (rp_evt p) (rp_fixws p) (rp_eoi_off p) (rp_end p) x = (Accept, x') ->
  exists c', rrun_loop f p eh (mkRC x 0 [] l) = (RAccept, c') /\ rc_x c' = x' /\ rc_errors c' = [].
Proof. exact recovery_transparent. Qed.

(* Reported errors: for every input with non-decreasing token offsets, every error handler and fuel, at the end
   of the run (whatever its outcome) the remaining input is a suffix of the input, every error passed to the
   handler is the range of a token of the input or of the end-of-input token (hence inside the input), and the
   error offsets are non-decreasing. *)
Theorem C19_errors_inside_the_input_and_ordered :
  forall p eh f start input o c',
  sorted_offs p input ->
  rrun f p eh start input = (o, c') ->
  is_suffix (xc_input (rc_x c')) input /\
  Forall (in_tokens p input) (rc_errors c') /\
  nondecreasing (map fst (rc_errors c')).
Proof.
  intros p eh f start input o c' Hs Hrun. unfold rrun in Hrun.
  destruct (errors_in_input_and_ordered p eh f input _ _ _ Hs (einv_init p start input) Hrun) as (H1 & H2 & H3 & _).
  repeat split; assumption.
Qed.

(* recoverFromError terminates: its loop never needs more iterations than tokens plus recovery symbols *)
Theorem C19_recovery_loop_terminates :
  forall p stack input, recover_from_error p stack input <> RecFuel.
Proof. exact recover_terminates. Qed.

(* NOT proved (partial): termination of the whole recovering parse (needs: after a successful recovery the loop
   performs the reductions reduceAll predicted and shifts the next token) and absence of the index-out-of-range
   crashes modelled as RCrash (reduceAll walking below the stack, a goto of -1 inside reduceAll). Both are
   monitored: generated parsers run under a time limit with recover(), and the model reports RCrash/RFuel. *)

Print Assumptions C19_recovery_transparent.
Print Assumptions C19_errors_inside_the_input_and_ordered.
Print Assumptions C19_recovery_loop_terminates.
