(* C24 — Shift-DFA scanners agree with the lexer tables they pack.
   Models: Lex/Tables.v (lex.Tables.Scan), Lex/ShiftDfa.v (shiftdfa.Pack, Scanner.Scan on 64-bit rows). *)
From Coq Require Import List ZArith NArith Bool.
From TM Require Import Lex.Tables Lex.ShiftDfa Lex.ShiftDfa_proofs.
Import ListNotations.
Local Open Scope Z_scope.

(* For every well-formed table set that Pack accepts and EVERY byte string, the packed scanner returns the
   same token length and token as Tables.Scan.  wf24b is evaluated on the real tables on every run. *)
Theorem C24_pack_scan_agrees :
  forall t s, wf24b t = true -> pack t = PackOk s ->
  forall text, Forall (fun b => 0 <= b < 256) text ->
  (fst (shift_scan s text), Z.of_N (snd (shift_scan s text))) = scan t 0 text.
Proof. exact pack_scan_agrees. Qed.

(* the bit-level fact behind it: OR-accumulated 6-bit fields can be read back *)
Theorem C24_fields_read_back :
  forall f : nat -> N, (forall i, (f i < 64)%N) ->
  forall k j, (j < k)%nat -> N.land (N.shiftr (rowk f k) (6 * N.of_nat j)) 63 = f j.
Proof. exact rowk_field. Qed.

(* tables of the single rule /a/ => 1 as lex.Compile produces them *)
Definition ex_tables : tables :=
  mkTables true [(0, 1); (97, 2); (98, 1)] 3 [0] [-1; -1; 1; -2; -2; -2] [].

Example C24_example_hypotheses_met :
  wf24b ex_tables = true /\
  match pack ex_tables with
  | PackOk s => forallb (fun txt => let '(a, b) := shift_scan s txt in let '(c, d) := scan ex_tables 0 txt in
                                    (a =? c) && (Z.of_N b =? d)) [[]; [97]; [97; 97]; [98]; [200; 97]] = true
  | PackErr _ => False
  end.
Proof. vm_compute. split; reflexivity. Qed.

(* the pre-fix guard (last class may start above 0x80) is refused by the model's Pack: error 4 *)
Example C24_split_high_bytes_refused :
  pack (mkTables true [(0, 1); (128, 2); (192, 1)] 3 [0] [-1; -1; 1; -4; -4; -4] []) = PackErr 4.
Proof. vm_compute. reflexivity. Qed.

Print Assumptions C24_pack_scan_agrees.
Print Assumptions C24_fields_read_back.
