(* C24 — Shift-DFA scanners agree with the lexer tables they pack.
   Models: Lex/Tables.v (lex.Tables.Scan), Lex/ShiftDfa.v (shiftdfa.Pack, Scanner.Scan on 64-bit rows). *)
From Coq Require Import List ZArith NArith Bool.
From TM Require Import Lex.Tables Lex.ShiftDfa Lex.ShiftDfa_proofs Lex.ShiftDfa_proofs2.
Import ListNotations.
Local Open Scope Z_scope.

(* For every well-formed table set that Pack accepts and EVERY byte string, the packed scanner returns the
   same token length and token as Tables.Scan.  wf24b is evaluated on the real tables on every run. *)
Theorem C24_pack_scan_agrees :
  forall t s, wf24b t = true -> pack t = PackOk s ->
  forall text, Forall (fun b => 0 <= b < 256) text ->
  (fst (shift_scan s text), Z.of_N (snd (shift_scan s text))) = scan t 0 text.
Proof. exact pack_scan_agrees. Qed.

(* the bit-level fact behind it: OR-accumulated 6-bit fields can be read back *)
Theorem C24_fields_read_back :
  forall f : nat -> N, (forall i, (f i < 64)%N) ->
  forall k j, (j < k)%nat -> N.land (N.shiftr (rowk f k) (6 * N.of_nat j)) 63 = f j.
Proof. exact rowk_field. Qed.

(* ---------- the layers of that proof, each for all accepted table sets ---------- *)

(* Pack accepts exactly when its conditions hold: at most 10 states, no backtracking, the single start state 0,
   the last symbol class starts at or below 0x80, every cell encodes into 6 bits (fewer than 32 actions), no
   shift on end of input; and then the scanner is the row/onEoi table of the model. *)
Theorem C24_pack_accepts_iff_conditions : forall t s, pack t = PackOk s <-> packed t s.
Proof. exact pack_ok_iff. Qed.

(* decode (pack row) = row, for every byte, every state < 10 and hence every 6-bit position of the 64-bit
   row: the field is 2*action+1 for an accepting/error transition and 6*target (< 60) for a shift. *)
Theorem C24_packed_field_is_transition :
  forall t s, wf24b t = true -> pack t = PackOk s ->
  forall b (st : nat), 0 <= b < 256 -> Z.of_nat st < num_states t ->
  let c := cell t st (lookup_sym (symbol_map t) b) in
  let fld := Z.of_N (N.land (N.shiftr (nth (Z.to_nat b) (sc_table s) 0%N) (6 * N.of_nat st)) 63) in
  (c < 0 -> fld = (-1 - c) * 2 + 1) /\ (0 <= c -> fld = c * 6 /\ c < num_states t).
Proof. exact packed_field_is_transition. Qed.

(* the onEoi array holds the action every state takes at the end of input *)
Theorem C24_packed_eoi_is_action :
  forall t s, wf24b t = true -> pack t = PackOk s ->
  forall (st : nat), Z.of_nat st < num_states t ->
  cell t st 0 < 0 /\ Z.of_N (nth st (sc_on_eoi s) 0%N) = -1 - cell t st 0.
Proof. exact packed_eoi_is_action. Qed.

(* step-by-step simulation: from ANY automaton state (the packed scanner holding a shifted row whose low six
   bits are 6*state) and any offset, both loops return the same size and token on every byte string *)
Theorem C24_scan_loops_simulate :
  forall t s, wf24b t = true -> pack t = PackOk s ->
  forall text (lst : nat) state i f,
  (length text < f)%nat -> Z.of_nat lst < num_states t ->
  N.land state 63 = (6 * N.of_nat lst)%N -> Forall (fun b => 0 <= b < 256) text ->
  shift_loop s state i text =
  (fst (scan_loop f t (Z.of_nat lst) i 0 0 text), Z.to_N (snd (scan_loop f t (Z.of_nat lst) i 0 0 text))).
Proof. exact scan_loops_simulate. Qed.

(* tables of the single rule /a/ => 1 as lex.Compile produces them *)
Definition ex_tables : tables :=
  mkTables true [(0, 1); (97, 2); (98, 1)] 3 [0] [-1; -1; 1; -2; -2; -2] [].

Example C24_example_hypotheses_met :
  wf24b ex_tables = true /\
  match pack ex_tables with
  | PackOk s => forallb (fun txt => let '(a, b) := shift_scan s txt in let '(c, d) := scan ex_tables 0 txt in
                                    (a =? c) && (Z.of_N b =? d)) [[]; [97]; [97; 97]; [98]; [200; 97]] = true
  | PackErr _ => False
  end.
Proof. vm_compute. split; reflexivity. Qed.

(* a three-state automaton for /ab/ => 1, /a/ => 2 (symbols: 0 EOI, 1 other, 2 'a', 3 'b'): the packed row of
   'b' is action 0 in state 0 (field 1), shift to state 2 in state 1 (field 12), action 1 in state 2
   (field 3): 1 + 12*2^6 + 3*2^12; onEoi = actions 0, 2, 1 *)
Definition ex_tables2 : tables :=
  mkTables true [(0, 1); (97, 2); (98, 3); (99, 1)] 4 [0] [-1; -1; 1; -1;  -3; -3; -3; 2;  -2; -2; -2; -2] [].

Example C24_example_packed_table :
  wf24b ex_tables2 = true /\
  match pack ex_tables2 with
  | PackOk s =>
      nth 98 (sc_table s) 0%N = 13057%N /\ nth 97 (sc_table s) 0%N = (6 + 5 * 64 + 3 * 4096)%N /\
      firstn 3 (sc_on_eoi s) = [0; 2; 1]%N /\
      map (shift_scan s) [[97; 98; 97]; [97; 97]; [97]; [98]; []] = [(2, 1%N); (1, 2%N); (1, 2%N); (0, 0%N); (0, 0%N)] /\
      map (scan ex_tables2 0) [[97; 98; 97]; [97; 97]; [97]; [98]; []] = [(2, 1); (1, 2); (1, 2); (0, 0); (0, 0)]
  | PackErr _ => False
  end.
Proof. vm_compute. repeat split; reflexivity. Qed.

(* the pre-fix guard (last class may start above 0x80) is refused by the model's Pack: error 4 *)
Example C24_split_high_bytes_refused :
  pack (mkTables true [(0, 1); (128, 2); (192, 1)] 3 [0] [-1; -1; 1; -4; -4; -4] []) = PackErr 4.
Proof. vm_compute. reflexivity. Qed.

Print Assumptions C24_pack_scan_agrees.
Print Assumptions C24_fields_read_back.
Print Assumptions C24_pack_accepts_iff_conditions.
Print Assumptions C24_packed_field_is_transition.
Print Assumptions C24_packed_eoi_is_action.
Print Assumptions C24_scan_loops_simulate.
