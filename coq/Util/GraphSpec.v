(* Certifying checkers for the outputs of Tarjan and LongestPath (P2): executable booleans whose
   soundness w.r.t. the declarative graph notions is proved in GraphSpec_proofs.v.  Reachability is
   obtained from the Warshall model, proved correct in Graph_proofs.v. *)
From Coq Require Import List Bool Arith.
From TM Require Import Util.Graph.
Import ListNotations.

Definition graph_wf (g : graph) : bool :=
  forallb (fun edges => forallb (fun e => e <? length g) edges) g.

Definition reachm (g : graph) : matrix := matrix_closure (matrix_of_graph g).

Definition memb (x : nat) (l : list nat) : bool := existsb (Nat.eqb x) l.

Fixpoint count (x : nat) (l : list nat) : nat :=
  match l with [] => 0 | y :: l' => (if x =? y then 1 else 0) + count x l' end.

Fixpoint order_ok (R : matrix) (comps : list (list nat)) : bool :=
  match comps with
  | [] => true
  | c :: rest =>
      forallb (fun u => forallb (fun c' => forallb (fun v => negb (has_edge R u v)) c') rest) c
      && order_ok R rest
  end.

Definition check_scc (g : graph) (comps : list (list nat)) : bool :=
  let n := length g in
  let R := reachm g in
  let all := concat comps in
  forallb (fun v => count v all =? 1) (seq 0 n)
  && forallb (fun v => v <? n) all
  && forallb (fun c => forallb (fun u => forallb (fun v => (u =? v) || has_edge R u v) c) c) comps
  && order_ok R comps.

(* contract of the onStack argument as Closure uses it: for an edge v->w leaving a vertex of the
   reported component, onStack(w) holds exactly when w belongs to the same component *)
Definition check_onstack (g : graph) (out : list (list nat * list bool)) : bool :=
  forallb (fun '(comp, on) =>
    forallb (fun v => forallb (fun w => Bool.eqb (nth w on false) (memb w comp)) (nth v g [])) comp) out.

(* ---- longest path ---- *)
Fixpoint height (fuel : nat) (g : graph) (v : nat) : nat :=
  match fuel with
  | O => 0
  | S f => S (fold_left Nat.max (map (height f g) (nth v g [])) 0)
  end.

Fixpoint valid_pathb (g : graph) (p : list nat) : bool :=
  match p with
  | [] => false
  | [v] => v <? length g
  | v :: ((w :: _) as t) => (v <? length g) && memb w (nth v g []) && valid_pathb g t
  end.

Definition cyclicb (g : graph) : bool :=
  existsb (fun v => has_edge (reachm g) v v) (seq 0 (length g)).

Definition check_longest (g : graph) (res : option (list nat)) : bool :=
  let n := length g in
  match res with
  | None => cyclicb g
  | Some p => negb (cyclicb g) && valid_pathb g p
              && (length p =? fold_left Nat.max (map (height n g) (seq 0 n)) 0)
  end.
