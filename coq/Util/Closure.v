(* Model of /repo/util/set/closure.go on top of IntSet.v and Graph.v (tarjan). *)
From Coq Require Import List ZArith Bool Arith.
From TM Require Import Util.IntSet Util.Graph.
Import ListNotations.

Inductive cop := OpUnion | OpIntersection | OpComplement.

Record cnode := mkNode { n_op : cop; n_edges : list nat; n_val : intset }.

Record cst := mkC { c_nodes : list cnode; c_err : list nat; c_oof : bool }.

Definition dummy_node := mkNode OpUnion [] (mkIntSet false []).
Definition node_at (st : cst) (v : nat) : cnode := nth v (c_nodes st) dummy_node.
Definition val_at (st : cst) (v : nat) : intset := n_val (node_at st v).
Definition set_val (st : cst) (v : nat) (x : intset) : cst :=
  let nd := node_at st v in
  mkC (upd (c_nodes st) v (mkNode (n_op nd) (n_edges nd) x)) (c_err st) (c_oof st).
Definition add_err (st : cst) (v : nat) : cst := mkC (c_nodes st) (c_err st ++ [v]) (c_oof st).

Definition is_intersection (o : cop) : bool := match o with OpIntersection => true | _ => false end.
Definition is_complement (o : cop) : bool := match o with OpComplement => true | _ => false end.

(* the "simple union" branch of Closure.closure *)
Definition union_closure (comp : list nat) (on : list bool) (st : cst) : cst :=
  let '(res, st1) := fold_left (fun '(res, st) v =>
      let fs := node_at st v in
      let res := set_merge res (n_val fs) in
      fold_left (fun '(res, st) w =>
          let set := val_at st w in
          if is_complement (n_op fs) then
            if nth w on false then (res, add_err st v)
            else (set_merge res (complement set), st)
          else if nth w on false then (res, st) else (set_merge res set, st))
        (n_edges fs) (res, st)) comp (mkIntSet false [], st) in
  match c_err st1 with
  | [] => fold_left (fun st v => set_val st v res) comp st1
  | _ => st1
  end.

(* one pass of the for-loop body in slowClosure; returns (state, dirty) *)
Definition slow_pass (comp : list nat) (on : list bool) (st : cst) : cst * bool :=
  fold_left (fun '(st, dirty) v =>
      let fs := node_at st v in
      match n_op fs with
      | OpIntersection =>
          let res := fold_left (fun res w => set_intersect res (val_at st w)) (n_edges fs) (mkIntSet true []) in
          if set_equals res (n_val fs) then (st, dirty) else (set_val st v res, true)
      | OpUnion =>
          let res := fold_left (fun res w => set_merge res (val_at st w)) (n_edges fs) (n_val fs) in
          if set_equals res (n_val fs) then (st, dirty) else (set_val st v res, true)
      | OpComplement =>
          match n_edges fs with
          | [w] => if nth w on false then (add_err st v, dirty)
                   else let res := complement (val_at st w) in
                        if set_equals res (n_val fs) then (st, dirty) else (set_val st v res, true)
          | _ => (st, dirty)   (* log.Fatal("broken invariant"): unreachable via the public API *)
          end
      end) comp (st, false).

Fixpoint slow_closure (fuel : nat) (comp : list nat) (on : list bool) (st : cst) : cst :=
  match fuel with
  | O => mkC (c_nodes st) (c_err st) true
  | S f => let '(st', dirty) := slow_pass comp on st in
           if dirty then slow_closure f comp on st' else st'
  end.

Definition total_elems (st : cst) : nat :=
  fold_left (fun n nd => n + length (elems (n_val nd)))%nat (c_nodes st) 0%nat.

Definition closure_cb (fuel : nat) (st : cst) (cb : list nat * list bool) : cst :=
  let '(comp, on) := cb in
  if existsb (fun q => is_intersection (n_op (node_at st q))) comp
  then slow_closure fuel comp on st
  else union_closure comp on st.

Definition closure_graph (nodes : list cnode) : graph := map n_edges nodes.

(* Closure.Compute: returns final nodes and the list of offending complement nodes *)
Definition compute (nodes : list cnode) : cst :=
  let st0 := mkC nodes [] false in
  let fuel := (4 + (length nodes + 2) * (total_elems st0 + 2))%nat in
  fold_left (closure_cb fuel) (tarjan (closure_graph nodes)) st0.

(* ---- naive oracle over a finite universe [0,u): stratified least solution by Kleene iteration,
        used only to search for failing inputs (never as a proof). ---- *)
Definition bits := list bool.
Definition bits_of (u : nat) (s : intset) : bits := map (fun x => mem (Z.of_nat x) s) (seq 0 u).
