(* Model of util/diff/diff.go: lcs (prefix/suffix trimming, trace, middle, chunk merging), the edit-script
   semantics, a quadratic LCS specification, and the hunk builder of LineDiff in structured form. *)
From Coq Require Import List ZArith Bool Arith.
Import ListNotations.
Local Open Scope Z_scope.

Record chunk := mkChunk { c_del : Z; c_ins : Z; c_eq : Z }.

(* ---------- semantics of an edit script: consume a, b in parallel ---------- *)
Fixpoint seq_eqb (x y : list Z) : bool :=
  match x, y with
  | [], [] => true
  | p :: x', q :: y' => (p =? q) && seq_eqb x' y'
  | _, _ => false
  end.

(* [script_ok chunks a b]: chunks is a valid edit script turning a into b: each chunk deletes c_del
   elements of a, inserts c_ins elements of b, then keeps c_eq elements that are equal in both. *)
Fixpoint script_ok (chunks : list chunk) (a b : list Z) : bool :=
  match chunks with
  | [] => match a, b with [], [] => true | _, _ => false end
  | c :: rest =>
      let d := Z.to_nat (c_del c) in let i := Z.to_nat (c_ins c) in let e := Z.to_nat (c_eq c) in
      (0 <=? c_del c) && (0 <=? c_ins c) && (0 <=? c_eq c)
      && (d <=? length a)%nat && (i <=? length b)%nat
      && (e <=? length (skipn d a))%nat && (e <=? length (skipn i b))%nat
      && seq_eqb (firstn e (skipn d a)) (firstn e (skipn i b))
      && script_ok rest (skipn e (skipn d a)) (skipn e (skipn i b))
  end.

(* applying the script to a (taking inserted elements from the script's own payload = b's segments) *)
Fixpoint apply_script (chunks : list chunk) (a b : list Z) : list Z :=
  match chunks with
  | [] => []
  | c :: rest =>
      let d := Z.to_nat (c_del c) in let i := Z.to_nat (c_ins c) in let e := Z.to_nat (c_eq c) in
      firstn i b ++ firstn e (skipn d a) ++ apply_script rest (skipn e (skipn d a)) (skipn e (skipn i b))
  end.

Definition cost (chunks : list chunk) : Z := fold_left (fun s c => s + c_del c + c_ins c) chunks 0.

(* ---------- LCS length: declarative recursion [L] and a quadratic table (specification, P3) ---------- *)
Fixpoint L (a b : list Z) : Z :=
  match a with
  | [] => 0
  | x :: a' =>
      (fix Lb (b : list Z) : Z :=
         match b with
         | [] => 0
         | y :: b' => if x =? y then 1 + L a' b' else Z.max (L a' b) (Lb b')
         end) b
  end.

(* prev = [L a' (skipn j b) | j = 0..|b|]; result: the same row for x :: a' *)
Fixpoint lcs_row (x : Z) (b : list Z) (prev : list Z) : list Z :=
  match b, prev with
  | y :: b', up :: ((diag :: _) as prev') =>
      let rest := lcs_row x b' prev' in
      (if x =? y then 1 + diag else Z.max up (hd 0 rest)) :: rest
  | _, _ => [0]
  end.

Definition lcs_table (a b : list Z) : list Z :=
  fold_right (fun x prev => lcs_row x b prev) (repeat 0 (S (length b))) a.

Definition lcs_len (a b : list Z) : Z := hd 0 (lcs_table a b).

(* ---------- middle / trace / lcs ---------- *)
Definition getb (buf : list Z) (i : Z) : Z := if i <? 0 then 0 else nth (Z.to_nat i) buf 0.
Definition setb (buf : list Z) (i : Z) (x : Z) : list Z :=
  if i <? 0 then buf else
  let n := Z.to_nat i in firstn n buf ++ match skipn n buf with [] => [] | _ :: t => x :: t end.
Definition elt (a : list Z) (i : Z) : Z := if i <? 0 then -1 else nth (Z.to_nat i) a (-1).

Inductive mid_result :=
| MidFound (ai bi snake : Z) (buf : list Z)
| MidFatal (buf : list Z)            (* log.Fatal("no snake") or an index out of range *)
| MidFuel.

(* extend a diagonal: while x < m && y < n && cond x y { x++; y++ } *)
Fixpoint slide (fuel : nat) (cond : Z -> Z -> bool) (m n x y : Z) : Z :=
  match fuel with
  | O => x
  | S f => if (x <? m) && (y <? n) && cond x y then slide f cond m n (x + 1) (y + 1) else x
  end.

Fixpoint count_snake (fuel : nat) (cond : Z -> bool) (lim snake : Z) : Z :=
  match fuel with
  | O => snake
  | S f => if (snake <? lim) && cond snake then count_snake f cond lim (snake + 1) else snake
  end.

Section Middle.
Variables (a b : list Z).
Let m := Z.of_nat (length a).
Let n := Z.of_nat (length b).
Let delta := n - m.
Let odd := Z.odd delta.
Let mx := (m + n + 2) / 2.
Let base := mx.
Let fuelN := S (length a + length b).

(* v1[i] = buf[i] (len 2*mx), v2[i] = buf[2*mx + i] *)
Definition v1get (buf : list Z) (i : Z) := getb buf i.
Definition v2get (buf : list Z) (i : Z) := getb buf (2 * mx + i).

(* forward pass over k = start, start+2, .. <= limit; returns Some result if the paths met *)
Fixpoint forward (fuel : nat) (d k limit pstart plimit : Z) (buf : list Z) : list Z * option (Z * Z * Z) :=
  match fuel with
  | O => (buf, None)
  | S f =>
    if k >? limit then (buf, None) else
    let x0 := if (k =? - d) || (negb (k =? d) && (v1get buf (base + k - 1) <? v1get buf (base + k + 1)))
              then v1get buf (base + k + 1) else v1get buf (base + k - 1) + 1 in
    let x := slide fuelN (fun x y => elt a x =? elt b y) m n x0 (x0 - k) in
    let buf := setb buf (base + k) x in
    let k2 := - delta - k in
    if odd && (k2 >=? pstart) && (k2 <=? plimit) && (x >=? m - v2get buf (base + k2)) then
      let x2 := m - v2get buf (base + k2) in
      let snake := count_snake fuelN (fun s => elt a (x2 + s) =? elt b (x2 - k + s)) (x - x2) 0 in
      (buf, Some (x2, x2 - k, snake))
    else forward f d (k + 2) limit pstart plimit buf
  end.

Fixpoint backward (fuel : nat) (d k start limit : Z) (buf : list Z) : list Z * option (Z * Z * Z) :=
  match fuel with
  | O => (buf, None)
  | S f =>
    if k >? limit then (buf, None) else
    let x0 := if (k =? - d) || (negb (k =? d) && (v2get buf (base + k - 1) <? v2get buf (base + k + 1)))
              then v2get buf (base + k + 1) else v2get buf (base + k - 1) + 1 in
    let x := slide fuelN (fun x y => elt a (m - x - 1) =? elt b (n - y - 1)) m n x0 (x0 - k) in
    let y := x - k in
    let buf := setb buf (2 * mx + base + k) x in
    let k1 := - delta - k in
    if negb odd && (k1 >=? start) && (k1 <=? limit) && (v1get buf (base + k1) >=? m - x) then
      let x1 := v1get buf (base + k1) in
      let x2 := m - x in
      let snake := count_snake fuelN (fun s => elt a (x2 + s) =? elt b (n - y + s)) (x1 - x2) 0 in
      (buf, Some (x2, n - y, snake))
    else backward f d (k + 2) start limit buf
  end.

Fixpoint middle_loop (fuel : nat) (d pstart plimit : Z) (buf : list Z) : mid_result :=
  match fuel with
  | O => MidFuel
  | S f =>
    if d >? mx then MidFatal buf else
    let start := - d + (if d >? n then 2 * (d - n) else 0) in
    let limit := d - (if d >? m then 2 * (d - m) else 0) in
    match forward fuelN d start limit pstart plimit buf with
    | (buf, Some (ai, bi, s)) => MidFound ai bi s buf
    | (buf, None) =>
      match backward fuelN d start start limit buf with
      | (buf, Some (ai, bi, s)) => MidFound ai bi s buf
      | (buf, None) => middle_loop f (d + 1) start limit buf
      end
    end
  end.

Definition middle (buf : list Z) : mid_result :=
  let buf := setb buf (base + 1) 0 in
  let buf := setb buf (2 * mx + base + 1) 0 in
  middle_loop (S (S (length a + length b))) 0 0 0 buf.
End Middle.

Inductive trace_result := TraceOk (chunks : list chunk) (buf : list Z) | TraceFatal | TraceFuel.

Fixpoint find_index (v : Z) (l : list Z) (i : Z) : option Z :=
  match l with [] => None | x :: l' => if x =? v then Some i else find_index v l' (i + 1) end.

Definition zlen (l : list Z) : Z := Z.of_nat (length l).
Definition sub (l : list Z) (from to : Z) : list Z := firstn (Z.to_nat (to - from)) (skipn (Z.to_nat from) l).

(* trace, parametrised by the middle-snake oracle so that script correctness does not depend on it *)
Section Trace.
Variable mid : list Z -> list Z -> list Z -> mid_result.

Fixpoint trace (fuel : nat) (a b buf : list Z) (chunks : list chunk) : trace_result :=
  match fuel with
  | O => TraceFuel
  | S f =>
    match a, b with
    | [], _ => TraceOk (chunks ++ [mkChunk 0 (zlen b) 0]) buf
    | _, [] => TraceOk (chunks ++ [mkChunk (zlen a) 0 0]) buf
    | [x], _ =>
        match find_index x b 0 with
        | Some i => TraceOk (chunks ++ [mkChunk 0 i 1; mkChunk 0 (zlen b - i - 1) 0]) buf
        | None => TraceOk (chunks ++ [mkChunk (zlen a) (zlen b) 0]) buf
        end
    | _, [y] =>
        match find_index y a 0 with
        | Some i => TraceOk (chunks ++ [mkChunk i 0 1; mkChunk (zlen a - i - 1) 0 0]) buf
        | None => TraceOk (chunks ++ [mkChunk (zlen a) (zlen b) 0]) buf
        end
    | _, _ =>
        match mid a b buf with
        | MidFound ai bi snake buf =>
            if ((ai =? zlen a) && (bi =? zlen b)) || ((ai =? 0) && (bi =? 0)) then TraceFatal
            else if negb ((0 <=? ai) && (0 <=? bi) && (0 <=? snake) && (ai + snake <=? zlen a) && (bi + snake <=? zlen b))
            then TraceFatal   (* slice bounds out of range *)
            else
              match trace f (sub a 0 ai) (sub b 0 bi) buf chunks with
              | TraceOk ret buf =>
                  let ret := if snake >? 0 then ret ++ [mkChunk 0 0 snake] else ret in
                  trace f (sub a (ai + snake) (zlen a)) (sub b (bi + snake) (zlen b)) buf ret
              | r => r
              end
        | MidFatal _ => TraceFatal
        | MidFuel => TraceFuel
        end
    end
  end.
End Trace.

Fixpoint common_prefix (a b : list Z) : nat :=
  match a, b with x :: a', y :: b' => if x =? y then S (common_prefix a' b') else O | _, _ => O end.

(* chunk.merge and the "optimize chunks away" loop *)
Definition merge_chunks (chunks : list chunk) : list chunk :=
  rev (fold_left (fun ret c =>
    match ret with
    | last :: ret' =>
        if (c_eq last =? 0) || ((c_ins c =? 0) && (c_del c =? 0))
        then mkChunk (c_del last + c_del c) (c_ins last + c_ins c) (c_eq last + c_eq c) :: ret'
        else c :: ret
    | [] => [c]
    end) chunks []).

Inductive lcs_result := LcsOk (chunks : list chunk) | LcsFatal | LcsFuel.

Definition lcs_gen (mid : list Z -> list Z -> list Z -> mid_result) (a b : list Z) : lcs_result :=
  let p := common_prefix a b in
  let ln := (Nat.min (length a) (length b) - p)%nat in
  let s := Nat.min ln (common_prefix (rev a) (rev b)) in
  let a' := firstn (length a - p - s) (skipn p a) in
  let b' := firstn (length b - p - s) (skipn p b) in
  let buf := repeat 0 (2 * (length a' + length b' + 2)) in
  let chunks := if (0 <? p)%nat then [mkChunk 0 0 (Z.of_nat p)] else [] in
  match trace mid (S (length a' + length b')) a' b' buf chunks with
  | TraceOk chunks _ =>
      let chunks := if (0 <? s)%nat then chunks ++ [mkChunk 0 0 (Z.of_nat s)] else chunks in
      LcsOk (merge_chunks chunks)
  | TraceFatal => LcsFatal
  | TraceFuel => LcsFuel
  end.

Definition lcs (a b : list Z) : lcs_result := lcs_gen middle a b.

(* ---------- LineDiff: hunks in structured form ---------- *)
(* an entry is (intro, line) with intro 0 = ' ', 1 = '-', 2 = '+'; line = id of the line text, or
   -k for the synthetic "  ... k lines skipped ..." line *)
Record hunk := mkHunk { h_left : Z; h_right : Z; h_lsize : Z; h_rsize : Z; h_entries : list (Z * Z) }.

Definition add_small (h : hunk) (c : Z) (lines : list Z) : hunk :=
  mkHunk (h_left h) (h_right h)
         (if c =? 2 then h_lsize h else h_lsize h + zlen lines)
         (if c =? 1 then h_rsize h else h_rsize h + zlen lines)
         (h_entries h ++ map (fun l => (c, l)) lines).

Definition hunk_add (h : hunk) (c : Z) (lines : list Z) : hunk :=
  if (14 <? length lines)%nat then
    let skipped := zlen lines - 13 in
    let h := add_small h c (firstn 10 lines) in
    let h := add_small h c [- skipped] in
    let h := add_small h c (skipn (length lines - 3) lines) in
    mkHunk (h_left h) (h_right h)
           (if c =? 2 then h_lsize h else h_lsize h + skipped)
           (if c =? 1 then h_rsize h else h_rsize h + skipped)
           (h_entries h)
  else add_small h c lines.

Definition hunk_write (out : list hunk) (h : hunk) : list hunk :=
  if (h_lsize h =? 0) && (h_rsize h =? 0) then out else out ++ [h].

Fixpoint diff_loop (chunks : list chunk) (first : bool) (a b : list Z) (ai bi : Z) (h : hunk)
    (out : list hunk) : list hunk :=
  match chunks with
  | [] => out
  | c :: rest =>
    let h := hunk_add h 1 (sub a ai (ai + c_del c)) in
    let h := hunk_add h 2 (sub b bi (bi + c_ins c)) in
    let ai := ai + c_eq c + c_del c in
    let bi := bi + c_eq c + c_ins c in
    let is_last := match rest with [] => true | _ => false end in
    if first && (c_del c =? 0) && (c_ins c =? 0) && (c_eq c >? 3) then
      let h := mkHunk (c_eq c - 2) (c_eq c - 2) (h_lsize h) (h_rsize h) (h_entries h) in
      diff_loop rest false a b ai bi (hunk_add h 0 (sub a (ai - 3) ai)) out
    else if c_eq c >? 6 then
      let h := hunk_add h 0 (sub a (ai - c_eq c) (ai - c_eq c + 3)) in
      let out := hunk_write out h in
      let h := mkHunk (ai - 2) (bi - 2) 0 0 [] in
      diff_loop rest false a b ai bi (hunk_add h 0 (sub a (ai - 3) ai)) out
    else if is_last then
      let mx := Z.min (ai - c_eq c + 3) (zlen a) in
      let h := hunk_add h 0 (sub a (ai - c_eq c) mx) in
      hunk_write out h
    else diff_loop rest false a b ai bi (hunk_add h 0 (sub a (ai - c_eq c) ai)) out
  end.

(* LineDiff on line-id sequences; None = the texts are equal (empty output) *)
Definition line_diff (a b : list Z) : option (list hunk) :=
  if seq_eqb a b then None else
  match lcs a b with
  | LcsOk chunks => Some (diff_loop chunks true a b 0 0 (mkHunk 1 1 0 0 []) [])
  | _ => Some []
  end.

(* ---------- applying hunks (oracle for "hunks apply to the first text to produce the second") ---------- *)
(* pos = number of lines of a already consumed (0-based); returns None when a hunk does not fit *)
Fixpoint apply_entries (es : list (Z * Z)) (a : list Z) (acc : list Z) : option (list Z * list Z) :=
  match es with
  | [] => Some (a, acc)
  | (c, l) :: es' =>
      if c =? 2 then apply_entries es' a (acc ++ [l])
      else match a with
           | x :: a' => if x =? l then apply_entries es' a' (if c =? 0 then acc ++ [l] else acc) else None
           | [] => None
           end
  end.

Fixpoint apply_hunks (hs : list hunk) (a : list Z) (pos : Z) (acc : list Z) : option (list Z) :=
  match hs with
  | [] => Some (acc ++ a)
  | h :: hs' =>
      let skip := h_left h - 1 - pos in
      if (skip <? 0) || (zlen a <? skip) then None else
      let keep := firstn (Z.to_nat skip) a in
      match apply_entries (h_entries h) (skipn (Z.to_nat skip) a) (acc ++ keep) with
      | Some (a', acc') =>
          let consumed := zlen (skipn (Z.to_nat skip) a) - zlen a' in
          apply_hunks hs' a' (pos + skip + consumed) acc'
      | None => None
      end
  end.
