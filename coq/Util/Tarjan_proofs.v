(* Direct correctness proof of the step-by-step model of util/graph/tarjan.go (Util/Graph.v:
   strong_connect / tarjan_run), in the style of Chen, Cohen, Levy, Merz, Thery, "Formal proofs of
   Tarjan's strongly connected components algorithm": an invariant over the imperative state
   (index / lowlink / stack / onStack / emitted components) with a ghost list of "gray" vertices
   (the active call chain), a pre/post specification of strong_connect proved by induction on the
   fuel, and a loop invariant for the successor loop. *)
From Coq Require Import List ZArith Bool Arith Lia.
From TM Require Import Lib.ListX Util.Graph Util.Graph_proofs Util.GraphSpec Util.GraphSpec_proofs.
Import ListNotations.
Local Open Scope Z_scope.

(* ------------------------------------------------------------------ *)
(* generic list helpers                                                 *)
(* ------------------------------------------------------------------ *)

Lemma FOP_app_iff {A} (R : A -> A -> Prop) (l1 l2 : list A) :
  ForallOrdPairs R (l1 ++ l2) <->
  ForallOrdPairs R l1 /\ ForallOrdPairs R l2 /\ (forall x y, In x l1 -> In y l2 -> R x y).
Proof.
  induction l1 as [|a l1 IH]; cbn [app].
  - split; [intro H; repeat split; [constructor|exact H|intros x y []]|tauto].
  - split.
    + intro H. inversion H as [|? ? Hf Hp]; subst. apply IH in Hp as [H1 [H2 H3]].
      rewrite Forall_forall in Hf. repeat split.
      * constructor; [|exact H1]. apply Forall_forall. intros y Hy. apply Hf. apply in_or_app. now left.
      * exact H2.
      * intros x y [<-|Hx] Hy; [apply Hf; apply in_or_app; now right|now apply H3].
    + intros [H1 [H2 H3]]. inversion H1 as [|? ? Hf Hp]; subst. constructor.
      * rewrite Forall_forall in *. intros y Hy. apply in_app_or in Hy as [Hy|Hy]; [now apply Hf|].
        apply H3; [now left|exact Hy].
      * apply IH. repeat split; [exact Hp|exact H2|]. intros x y Hx Hy. apply H3; [now right|exact Hy].
Qed.

Lemma FOP_impl_in {A} (R R' : A -> A -> Prop) (l : list A) :
  (forall x y, In x l -> In y l -> R x y -> R' x y) -> ForallOrdPairs R l -> ForallOrdPairs R' l.
Proof.
  induction l as [|a l IH]; intros H Hp; [constructor|].
  inversion Hp as [|? ? Hf Hp']; subst. constructor.
  - rewrite Forall_forall in *. intros y Hy. apply H; [now left|now right|now apply Hf].
  - apply IH; [|exact Hp']. intros x y Hx Hy. apply H; now right.
Qed.

Lemma firstn_app_len {A} (l r : list A) : firstn (length l) (l ++ r) = l.
Proof. induction l as [|a l IH]; cbn; [now destruct r|now rewrite IH]. Qed.

Lemma skipn_app_len {A} (l r : list A) : skipn (length l) (l ++ r) = r.
Proof. induction l as [|a l IH]; cbn; [reflexivity|exact IH]. Qed.

Lemma getZ_upd (l : list Z) i x j : (i < length l)%nat ->
  getZ (upd l i x) j = if Nat.eq_dec j i then x else getZ l j.
Proof. intro H. unfold getZ. now apply upd_nth. Qed.

Lemma getZ_overflow (l : list Z) j : (length l <= j)%nat -> getZ l j = -1.
Proof. intro H. unfold getZ. now apply nth_overflow. Qed.

(* clearing the onStack bits of a list of vertices *)
Lemma fold_upd_false_length (c : list nat) : forall on,
  length (fold_left (fun on x => upd on x false) c on) = length on.
Proof. induction c as [|x c IH]; intro on; cbn [fold_left]; [reflexivity|]. now rewrite IH, upd_length. Qed.

Lemma fold_upd_false_nth (c : list nat) : forall on j,
  (forall x, In x c -> (x < length on)%nat) ->
  (nth j (fold_left (fun on x => upd on x false) c on) false = true <->
   nth j on false = true /\ ~ In j c).
Proof.
  induction c as [|x c IH]; intros on j Hr; cbn [fold_left].
  - cbn. tauto.
  - rewrite IH by (intros y Hy; rewrite upd_length; apply Hr; now right).
    rewrite upd_nth by (apply Hr; now left).
    destruct (Nat.eq_dec j x) as [->|Hne]; cbn [In].
    + split; [intros [H _]; discriminate|intros [_ H]; exfalso; apply H; now left].
    + split; [intros [H1 H2]; split; [exact H1|intros [E|E]; [congruence|contradiction]]|].
      intros [H1 H2]. split; [exact H1|tauto].
Qed.

(* ------------------------------------------------------------------ *)
(* edges and reachability over adjacency lists                           *)
(* ------------------------------------------------------------------ *)

Definition edge (g : graph) (a b : nat) : Prop := In b (nth a g []).

Inductive reach' (g : graph) : nat -> nat -> Prop :=
| r_refl a : reach' g a a
| r_step a c b : edge g a c -> reach' g c b -> reach' g a b.

Lemma reach'_trans g a b c : reach' g a b -> reach' g b c -> reach' g a c.
Proof. intros P Q. induction P; [exact Q|eapply r_step; eauto]. Qed.

Lemma reach'_edge g a b : edge g a b -> reach' g a b.
Proof. intro H. eapply r_step; [exact H|apply r_refl]. Qed.

Lemma edge_src_lt g a b : edge g a b -> (a < length g)%nat.
Proof.
  unfold edge. intro H. destruct (Nat.lt_ge_cases a (length g)) as [Ha|Ha]; [exact Ha|].
  rewrite nth_overflow in H by exact Ha. destruct H.
Qed.

Lemma edge_dst_lt g a b : graph_wf g = true -> edge g a b -> (b < length g)%nat.
Proof.
  unfold graph_wf, edge. intros Hwf H. rewrite forallb_forall in Hwf.
  assert (Ha := edge_src_lt g a b H).
  specialize (Hwf (nth a g []) (nth_In g [] Ha)). rewrite forallb_forall in Hwf.
  apply Nat.ltb_lt. now apply Hwf.
Qed.

Lemma edge_gedge g a b : graph_wf g = true -> edge g a b -> gedge g a b.
Proof.
  intros Hwf H. split; [eapply edge_src_lt; eauto|]. split; [eapply edge_dst_lt; eauto|exact H].
Qed.

Lemma reach'_greach g a b : graph_wf g = true -> reach' g a b -> a = b \/ greach g a b.
Proof.
  intros Hwf P. induction P as [a|a c b He P IH]; [now left|]. right.
  assert (Hac : greach g a c) by (apply gedge_greach; now apply edge_gedge).
  destruct IH as [<-|IH]; [exact Hac|]. eapply greach_trans; eauto.
Qed.

Lemma greach_reach' g a b : greach g a b -> reach' g a b.
Proof.
  unfold greach, reach. intro P. induction P as [a b H|a c b H _ P IH].
  - apply reach'_edge. apply matrix_of_graph_edge in H. apply H.
  - eapply r_step; [|exact IH]. apply matrix_of_graph_edge in H. apply H.
Qed.

(* a set of vertices closed under edges is closed under reachability *)
Lemma reach'_closed g (S : nat -> Prop) : (forall x w, S x -> edge g x w -> S w) ->
  forall a b, reach' g a b -> S a -> S b.
Proof. intros Hc a b P. induction P; [auto|]. intro Ha. apply IHP. eapply Hc; eauto. Qed.

Lemma NoDup_app_iff {A} (l1 l2 : list A) :
  NoDup (l1 ++ l2) <-> NoDup l1 /\ NoDup l2 /\ (forall x, In x l1 -> In x l2 -> False).
Proof.
  induction l1 as [|a l1 IH]; cbn [app].
  - split; [intro H; repeat split; [constructor|exact H|intros x []]|tauto].
  - split.
    + intro H. inversion H as [|? ? Hn Hd]; subst. apply IH in Hd as [H1 [H2 H3]]. repeat split.
      * constructor; [|exact H1]. intro Hi. apply Hn. apply in_or_app. now left.
      * exact H2.
      * intros x [<-|Hx] Hy; [apply Hn; apply in_or_app; now right|eapply H3; eauto].
    + intros [H1 [H2 H3]]. inversion H1 as [|? ? Hn Hd]; subst. constructor.
      * intro Hi. apply in_app_or in Hi as [Hi|Hi]; [contradiction|]. apply (H3 a); [now left|exact Hi].
      * apply IH. repeat split; [exact Hd|exact H2|]. intros x Hx Hy. apply (H3 x); [now right|exact Hy].
Qed.

(* ------------------------------------------------------------------ *)
(* properties of the emitted components                                  *)
(* ------------------------------------------------------------------ *)

Fixpoint out_closed (g : graph) (seen : list nat) (out : list (list nat * list bool)) : Prop :=
  match out with
  | [] => True
  | co :: rest =>
      (forall x w, In x (fst co) -> edge g x w -> In w (seen ++ fst co)) /\
      out_closed g (seen ++ fst co) rest
  end.

Definition comp_ok (g : graph) (co : list nat * list bool) : Prop :=
  (forall x y, In x (fst co) -> In y (fst co) -> reach' g x y) /\
  (forall x w, In x (fst co) -> edge g x w -> (nth w (snd co) false = true <-> In w (fst co))).

Definition OutOK (g : graph) (out : list (list nat * list bool)) : Prop :=
  out_closed g [] out /\ Forall (comp_ok g) out.

Lemma out_closed_snoc g co : forall out seen,
  out_closed g seen (out ++ [co]) <->
  out_closed g seen out /\
  (forall x w, In x (fst co) -> edge g x w -> In w (seen ++ concat (map fst out) ++ fst co)).
Proof.
  induction out as [|co' out IH]; intro seen; cbn [app out_closed map concat].
  - tauto.
  - rewrite IH. rewrite <- !app_assoc. tauto.
Qed.

(* ------------------------------------------------------------------ *)
(* the invariant                                                         *)
(* ------------------------------------------------------------------ *)

Definition idx (s : tst) (v : nat) : Z := getZ (t_index s) v.
Definition low (s : tst) (v : nat) : Z := getZ (t_low s) v.
Definition visited (s : tst) (v : nat) : Prop := idx s v <> -1.
Definition emitted (s : tst) : list nat := concat (map fst (t_out s)).

Definition sc_push (v : nat) (s : tst) : tst :=
  mkT (t_stack s ++ [v]) (upd (t_index s) v (t_curr s)) (upd (t_low s) v (t_curr s))
      (upd (t_on s) v true) (t_curr s + 1) (t_out s) (t_oof s).

Definition sc_step (f : nat) (g : graph) (v : nat) : tst -> nat -> tst := fun s w =>
  if getZ (t_index s) w =? -1 then
    let s' := strong_connect f g w s in
    if getZ (t_low s') w <? getZ (t_low s') v then set_low s' v (getZ (t_low s') w) else s'
  else if nth w (t_on s) false && (getZ (t_index s) w <? getZ (t_low s) v)
       then set_low s v (getZ (t_index s) w) else s.

Definition sc_finish (base : nat) (v : nat) (s2 : tst) : tst :=
  if getZ (t_low s2) v =? getZ (t_index s2) v then
    let comp := skipn base (t_stack s2) in
    mkT (firstn base (t_stack s2)) (t_index s2) (t_low s2)
        (fold_left (fun on x => upd on x false) comp (t_on s2))
        (t_curr s2) (t_out s2 ++ [(comp, t_on s2)]) (t_oof s2)
  else s2.

Lemma strong_connect_S f g v s :
  strong_connect (S f) g v s =
  sc_finish (length (t_stack s)) v (fold_left (sc_step f g v) (nth v g []) (sc_push v s)).
Proof. reflexivity. Qed.

Lemma strong_connect_0 g v s :
  strong_connect 0 g v s = mkT (t_stack s) (t_index s) (t_low s) (t_on s) (t_curr s) (t_out s) true.
Proof. reflexivity. Qed.

Section Tarjan.
Variable g : graph.
Hypothesis Hwf : graph_wf g = true.

Record Inv (gr : list nat) (s : tst) : Prop := {
  I_len_idx : length (t_index s) = length g;
  I_len_low : length (t_low s) = length g;
  I_len_on : length (t_on s) = length g;
  I_on : forall v, nth v (t_on s) false = true <-> In v (t_stack s);
  I_nd_stack : NoDup (t_stack s);
  I_nd_em : NoDup (emitted s);
  I_disj : forall v, In v (t_stack s) -> In v (emitted s) -> False;
  I_vis : forall v, visited s v <-> In v (t_stack s) \/ In v (emitted s);
  I_curr : 0 <= t_curr s;
  I_idx_bound : forall v, visited s v -> idx s v < t_curr s;
  I_sorted : ForallOrdPairs (fun x y => idx s x < idx s y) (t_stack s);
  I_sreach : ForallOrdPairs (reach' g) (t_stack s);
  I_gray_nd : NoDup gr;
  I_gray : forall x, In x gr -> In x (t_stack s);
  I_nbw : forall x w, visited s x -> ~ In x gr -> edge g x w -> visited s w;
  I_togray : forall y, In y (t_stack s) -> exists k, In k gr /\ idx s k <= idx s y /\ reach' g y k;
  I_out : OutOK g (t_out s)
}.

Lemma visited_lt gr s x : Inv gr s -> visited s x -> (x < length g)%nat.
Proof.
  intros Hi Hv. destruct (Nat.lt_ge_cases x (length g)) as [H|H]; [exact H|].
  exfalso. apply Hv. unfold idx. apply getZ_overflow. now rewrite (I_len_idx _ _ Hi).
Qed.

Lemma stack_visited gr s x : Inv gr s -> In x (t_stack s) -> visited s x.
Proof. intros Hi Hx. apply (I_vis _ _ Hi). now left. Qed.

Lemma stack_lt gr s x : Inv gr s -> In x (t_stack s) -> (x < length g)%nat.
Proof. intros Hi Hx. eapply visited_lt; eauto using stack_visited. Qed.

Lemma Inv_set_low gr s v x : Inv gr s -> Inv gr (set_low s v x).
Proof.
  intros [H1 H2 H3 H4 H5 H6 H7 H8 H9 H10 H11 H12 H13 H14 H15 H16 H17].
  constructor; cbn; try assumption. now rewrite upd_length.
Qed.

Lemma idx_set_low s v x y : idx (set_low s v x) y = idx s y.
Proof. reflexivity. Qed.

Lemma low_set_low gr s v x y : Inv gr s -> (v < length g)%nat ->
  low (set_low s v x) y = if Nat.eq_dec y v then x else low s y.
Proof. intros Hi Hv. unfold low. cbn. apply getZ_upd. now rewrite (I_len_low _ _ Hi). Qed.

Record Pre (f : nat) (gr : list nat) (v : nat) (s : tst) : Prop := {
  Pre_inv : Inv gr s;
  Pre_white : ~ visited s v;
  Pre_lt : (v < length g)%nat;
  Pre_fuel : (length g + 1 <= f + length gr)%nat;
  Pre_reach : forall x, In x (t_stack s) -> reach' g x v
}.

Record Post (gr : list nat) (v : nat) (s s' : tst) : Prop := {
  P_inv : Inv gr s';
  P_oof : t_oof s' = t_oof s;
  P_vis : visited s' v;
  P_mono : forall x, visited s x -> idx s' x = idx s x /\ low s' x = low s x;
  P_stack : (t_stack s' = t_stack s /\ low s' v = t_curr s) \/
            (exists s'', t_stack s' = t_stack s ++ v :: s'' /\
               (exists y, In y (t_stack s) /\ idx s' y = low s' v /\ reach' g v y) /\
               (forall x y, In x (v :: s'') -> edge g x y -> In y (t_stack s) -> low s' v <= idx s' y))
}.

Record LInv (gr : list nat) (v : nat) (s0 s : tst) (done : list nat) : Prop := {
  L_inv : Inv (gr ++ [v]) s;
  L_oof : t_oof s = t_oof s0;
  L_mono : forall x, visited s0 x -> idx s x = idx s0 x /\ low s x = low s0 x;
  L_idxv : idx s v = t_curr s0;
  L_lowle : low s v <= idx s v;
  L_stack : exists s'', t_stack s = t_stack s0 ++ v :: s'' /\
             (forall x y, In x s'' -> edge g x y -> In y (t_stack s0) -> low s v <= idx s y);
  L_y : exists y, In y (t_stack s) /\ idx s y = low s v /\ reach' g v y;
  L_done : forall w, In w done -> visited s w /\ (In w (t_stack s0) -> low s v <= idx s w)
}.

(* ---------- entering strong_connect: push v ---------- *)
Lemma idx_push gr s v x : Inv gr s -> (v < length g)%nat ->
  idx (sc_push v s) x = if Nat.eq_dec x v then t_curr s else idx s x.
Proof. intros Hi Hv. unfold idx. cbn. apply getZ_upd. now rewrite (I_len_idx _ _ Hi). Qed.

Lemma low_push gr s v x : Inv gr s -> (v < length g)%nat ->
  low (sc_push v s) x = if Nat.eq_dec x v then t_curr s else low s x.
Proof. intros Hi Hv. unfold low. cbn. apply getZ_upd. now rewrite (I_len_low _ _ Hi). Qed.

Lemma push_LInv f gr v s : Pre f gr v s -> LInv gr v s (sc_push v s) [].
Proof.
  intros [Hi Hw Hv Hf Hr].
  assert (Hidx := fun x => idx_push gr s v x Hi Hv).
  assert (Hlow := fun x => low_push gr s v x Hi Hv).
  assert (Hvs : ~ In v (t_stack s)) by (intro H; apply Hw; eapply stack_visited; eauto).
  assert (Hve : ~ In v (emitted s)) by (intro H; apply Hw; apply (I_vis _ _ Hi); now right).
  assert (Hc := I_curr _ _ Hi).
  assert (Hvis : forall x, visited (sc_push v s) x <-> x = v \/ visited s x).
  { intro x. unfold visited. rewrite Hidx. destruct (Nat.eq_dec x v) as [->|Hne].
    - split; [now left|intros _; lia].
    - split; [now right|intros [E|E]; [contradiction|exact E]]. }
  assert (Hstk : forall x, In x (t_stack s) -> idx (sc_push v s) x = idx s x).
  { intros x Hx. rewrite Hidx. destruct (Nat.eq_dec x v) as [->|]; [contradiction|reflexivity]. }
  constructor.
  - constructor.
    + cbn. rewrite upd_length. apply (I_len_idx _ _ Hi).
    + cbn. rewrite upd_length. apply (I_len_low _ _ Hi).
    + cbn. rewrite upd_length. apply (I_len_on _ _ Hi).
    + intro x. cbn [t_on t_stack sc_push]. rewrite upd_nth by (rewrite (I_len_on _ _ Hi); exact Hv).
      rewrite in_app_iff. cbn [In]. destruct (Nat.eq_dec x v) as [->|Hne].
      * split; auto.
      * rewrite (I_on _ _ Hi). split; [auto|intros [H|[H|[]]]; [exact H|congruence]].
    + cbn [t_stack sc_push]. apply NoDup_app_iff. repeat split.
      * apply (I_nd_stack _ _ Hi).
      * constructor; [intros []|constructor].
      * intros x Hx [<-|[]]. contradiction.
    + apply (I_nd_em _ _ Hi).
    + intros x Hx He. cbn [t_stack sc_push] in Hx. apply in_app_or in Hx as [Hx|[<-|[]]].
      * eapply (I_disj _ _ Hi); eauto.
      * now apply Hve.
    + intro x. rewrite Hvis. cbn [t_stack sc_push]. rewrite in_app_iff. cbn [In].
      change (emitted (sc_push v s)) with (emitted s). rewrite (I_vis _ _ Hi x). split.
      * intros [->|[H|H]]; auto.
      * intros [[H|[H|[]]]|H]; auto.
    + cbn. lia.
    + intros x Hx. cbn [t_curr sc_push]. rewrite Hidx. destruct (Nat.eq_dec x v) as [->|Hne]; [lia|].
      apply Hvis in Hx as [Hx|Hx]; [contradiction|]. pose proof (I_idx_bound _ _ Hi x Hx). lia.
    + cbn [t_stack sc_push]. apply FOP_app_iff. repeat split.
      * eapply FOP_impl_in; [|apply (I_sorted _ _ Hi)]. intros x y Hx Hy. cbn beta. now rewrite !Hstk.
      * constructor; constructor.
      * intros x y Hx [<-|[]]. rewrite (Hstk x Hx), Hidx.
        destruct (Nat.eq_dec v v); [|congruence]. apply (I_idx_bound _ _ Hi). eapply stack_visited; eauto.
    + cbn [t_stack sc_push]. apply FOP_app_iff. repeat split.
      * apply (I_sreach _ _ Hi).
      * constructor; constructor.
      * intros x y Hx [<-|[]]. now apply Hr.
    + apply NoDup_app_iff. repeat split; [apply (I_gray_nd _ _ Hi)|constructor; [intros []|constructor]|].
      intros x Hx [<-|[]]. apply Hvs. now apply (I_gray _ _ Hi).
    + intros x Hx. cbn [t_stack sc_push]. apply in_or_app. apply in_app_or in Hx as [Hx|Hx]; [left|now right].
      now apply (I_gray _ _ Hi).
    + intros x w Hx Hng He. apply Hvis. right. rewrite in_app_iff in Hng. cbn [In] in Hng.
      apply Hvis in Hx as [->|Hx]; [exfalso; apply Hng; auto|].
      apply (I_nbw _ _ Hi x w Hx); [tauto|exact He].
    + intros y Hy. cbn [t_stack sc_push] in Hy. apply in_app_or in Hy as [Hy|[<-|[]]].
      * destruct (I_togray _ _ Hi y Hy) as [k [Hk [Hle Hrk]]]. exists k. split; [apply in_or_app; now left|].
        split; [|exact Hrk]. rewrite (Hstk y Hy), (Hstk k); [exact Hle|now apply (I_gray _ _ Hi)].
      * exists v. split; [apply in_or_app; right; now left|]. split; [lia|apply r_refl].
    + apply (I_out _ _ Hi).
  - reflexivity.
  - intros x Hx. rewrite Hidx, Hlow. destruct (Nat.eq_dec x v) as [->|]; [contradiction|auto].
  - rewrite Hidx. destruct (Nat.eq_dec v v); [reflexivity|congruence].
  - rewrite Hidx, Hlow. destruct (Nat.eq_dec v v); [lia|congruence].
  - exists []. split; [reflexivity|]. intros x y [].
  - exists v. split; [cbn; apply in_or_app; right; now left|]. split; [|apply r_refl].
    rewrite Hidx, Hlow. destruct (Nat.eq_dec v v); [reflexivity|congruence].
  - intros w [].
Qed.

(* ---------- one iteration of the successor loop ---------- *)
Lemma LInv_v_in_stack gr v s0 s done : LInv gr v s0 s done -> In v (t_stack s).
Proof. intros HL. destruct (L_stack _ _ _ _ _ HL) as [s'' [-> _]]. apply in_or_app. right. now left. Qed.

Lemma LInv_stack0_in gr v s0 s done x : LInv gr v s0 s done -> In x (t_stack s0) -> In x (t_stack s).
Proof. intros HL Hx. destruct (L_stack _ _ _ _ _ HL) as [s'' [-> _]]. apply in_or_app. now left. Qed.

Lemma LInv_transfer gr v s0 s done t ext w :
  LInv gr v s0 s done ->
  ~ visited s0 v ->
  Inv (gr ++ [v]) t ->
  t_oof t = t_oof s ->
  (forall x, visited s x -> idx t x = idx s x) ->
  (forall x, visited s x -> x <> v -> low t x = low s x) ->
  low t v <= low s v ->
  t_stack t = t_stack s ++ ext ->
  (exists y, In y (t_stack t) /\ idx t y = low t v /\ reach' g v y) ->
  (forall x y, In x ext -> edge g x y -> In y (t_stack s0) -> low t v <= idx t y) ->
  visited t w -> (In w (t_stack s0) -> low t v <= idx t w) ->
  LInv gr v s0 t (done ++ [w]).
Proof.
  intros HL Hw0 Hit Hoof Hidx Hlow Hlv Hstk Hy Hext Hvw Hww.
  assert (Hvin := LInv_v_in_stack _ _ _ _ _ HL).
  assert (Hin0 := fun x => LInv_stack0_in _ _ _ _ _ x HL).
  destruct HL as [Hi Hoof0 Hmono Hidxv Hlowle [s'' [Hstk0 Hedges]] _ Hdone].
  assert (Hvv : visited s v) by (eapply stack_visited; eauto).
  constructor.
  - exact Hit.
  - congruence.
  - intros x Hx. destruct (Hmono x Hx) as [E1 E2].
    assert (visited s x) by (unfold visited; rewrite E1; exact Hx).
    assert (x <> v) by (intros ->; contradiction).
    rewrite Hidx, Hlow by assumption. auto.
  - rewrite Hidx by exact Hvv. exact Hidxv.
  - rewrite (Hidx v Hvv). lia.
  - exists (s'' ++ ext). split; [rewrite Hstk, Hstk0, <- app_assoc; reflexivity|].
    intros x y Hx He Hy0. apply in_app_or in Hx as [Hx|Hx]; [|eapply Hext; eauto].
    specialize (Hedges x y Hx He Hy0). rewrite Hidx; [lia|]. eapply stack_visited; eauto.
  - exact Hy.
  - intros d Hd. apply in_app_or in Hd as [Hd|[<-|[]]]; [|auto].
    destruct (Hdone d Hd) as [Hdv Hdl]. split.
    + unfold visited. rewrite Hidx by exact Hdv. exact Hdv.
    + intro H0. specialize (Hdl H0). rewrite Hidx by exact Hdv. lia.
Qed.

Lemma step_LInv f gr v s0 s done w :
  (forall gr' v' s', Pre f gr' v' s' -> Post gr' v' s' (strong_connect f g v' s')) ->
  Pre (S f) gr v s0 ->
  LInv gr v s0 s done -> edge g v w ->
  LInv gr v s0 (sc_step f g v s w) (done ++ [w]).
Proof.
  intros IH [Hi0 Hw0 Hv Hf Hr0] HL He.
  assert (Hvin := LInv_v_in_stack _ _ _ _ _ HL).
  assert (Hin0 := fun x => LInv_stack0_in _ _ _ _ _ x HL).
  assert (Hi := L_inv _ _ _ _ _ HL).
  assert (Hvv : visited s v) by (eapply stack_visited; eauto).
  assert (Hwlt : (w < length g)%nat) by (eapply edge_dst_lt; eauto).
  assert (Hlowle := L_lowle _ _ _ _ _ HL).
  destruct (L_y _ _ _ _ _ HL) as [y [Hy [Hyidx Hyr]]].
  unfold sc_step. fold (idx s w). destruct (idx s w =? -1) eqn:Ew.
  - (* unvisited successor: recursive call *)
    apply Z.eqb_eq in Ew.
    assert (Hpre' : Pre f (gr ++ [v]) w s).
    { constructor; [exact Hi|unfold visited; lia|exact Hwlt|rewrite app_length; cbn [length]; lia|].
      intros x Hx. destruct (I_togray _ _ Hi x Hx) as [k [Hk [_ Hxk]]].
      apply reach'_trans with v; [|now apply reach'_edge].
      apply in_app_or in Hk as [Hk|[<-|[]]]; [|exact Hxk].
      apply reach'_trans with k; [exact Hxk|]. apply Hr0. now apply (I_gray _ _ Hi0). }
    specialize (IH _ _ _ Hpre'). cbv zeta. set (s' := strong_connect f g w s) in *.
    destruct IH as [Hi' Hoof' Hvis' Hmono' Hstack'].
    fold (low s' w) (low s' v).
    destruct (Hmono' v Hvv) as [Hv'i Hv'l].
    assert (Hw0s : ~ In w (t_stack s0)).
    { intro H. apply Hin0 in H. apply (stack_visited _ _ _ Hi) in H. unfold visited in H. lia. }
    destruct Hstack' as [[Hst Hlw]|[sw [Hst [[yw [Hyw [Hywidx Hywr]]] Hedw]]]].
    + (* the callee emitted its component *)
      assert (Hno : low s' w <? low s' v = false).
      { apply Z.ltb_ge. rewrite Hlw, Hv'l. pose proof (I_idx_bound _ _ Hi v Hvv). lia. }
      rewrite Hno. apply (LInv_transfer gr v s0 s done s' [] w HL Hw0 Hi' Hoof').
      * intros x Hx. apply (Hmono' x Hx).
      * intros x Hx _. apply (Hmono' x Hx).
      * lia.
      * now rewrite app_nil_r.
      * exists y. split; [now rewrite Hst|]. split; [|exact Hyr].
        rewrite Hv'l. destruct (Hmono' y) as [-> _]; [eapply stack_visited; eauto|exact Hyidx].
      * intros x y' [].
      * exact Hvis'.
      * intro H. contradiction.
    + destruct (low s' w <? low s' v) eqn:Elt.
      * (* callee stays on the stack and lowers low[v] *)
        apply Z.ltb_lt in Elt.
        assert (Hlv : low (set_low s' v (low s' w)) v = low s' w).
        { rewrite (low_set_low _ _ _ _ _ Hi' Hv). destruct (Nat.eq_dec v v); [reflexivity|congruence]. }
        apply (LInv_transfer gr v s0 s done _ (w :: sw) w HL Hw0 (Inv_set_low _ _ _ _ Hi')).
        -- exact Hoof'.
        -- intros x Hx. rewrite idx_set_low. apply (Hmono' x Hx).
        -- intros x Hx Hne. rewrite (low_set_low _ _ _ _ _ Hi' Hv).
           destruct (Nat.eq_dec x v); [contradiction|]. apply (Hmono' x Hx).
        -- rewrite Hlv. lia.
        -- exact Hst.
        -- exists yw. split; [cbn [t_stack set_low]; rewrite Hst; apply in_or_app; now left|].
           split; [rewrite idx_set_low, Hlv; exact Hywidx|].
           eapply r_step; [exact He|exact Hywr].
        -- intros x y' Hx He' Hy'. rewrite idx_set_low, Hlv. apply (Hedw x y' Hx He'). now apply Hin0.
        -- exact Hvis'.
        -- intro H. contradiction.
      * (* callee stays on the stack, low[v] already small enough *)
        apply Z.ltb_ge in Elt.
        apply (LInv_transfer gr v s0 s done s' (w :: sw) w HL Hw0 Hi' Hoof').
        -- intros x Hx. apply (Hmono' x Hx).
        -- intros x Hx _. apply (Hmono' x Hx).
        -- lia.
        -- exact Hst.
        -- exists y. split; [rewrite Hst; apply in_or_app; now left|]. split; [|exact Hyr].
           rewrite Hv'l. destruct (Hmono' y) as [-> _]; [eapply stack_visited; eauto|exact Hyidx].
        -- intros x y' Hx He' Hy'. specialize (Hedw x y' Hx He' (Hin0 _ Hy')). lia.
        -- exact Hvis'.
        -- intro H. contradiction.
  - (* already visited successor *)
    apply Z.eqb_neq in Ew. fold (low s v).
    destruct (nth w (t_on s) false && (idx s w <? low s v)) eqn:Eon.
    + apply andb_true_iff in Eon as [Eon Elt]. apply Z.ltb_lt in Elt.
      apply (I_on _ _ Hi) in Eon.
      assert (Hlv : low (set_low s v (idx s w)) v = idx s w).
      { rewrite (low_set_low _ _ _ _ _ Hi Hv). destruct (Nat.eq_dec v v); [reflexivity|congruence]. }
      apply (LInv_transfer gr v s0 s done _ [] w HL Hw0 (Inv_set_low _ _ _ _ Hi)).
      * reflexivity.
      * intros x _. apply idx_set_low.
      * intros x _ Hne. rewrite (low_set_low _ _ _ _ _ Hi Hv). destruct (Nat.eq_dec x v); [contradiction|reflexivity].
      * rewrite Hlv. lia.
      * cbn [t_stack set_low]. now rewrite app_nil_r.
      * exists w. split; [exact Eon|]. split; [now rewrite idx_set_low, Hlv|now apply reach'_edge].
      * intros x y' [].
      * exact Ew.
      * intros _. rewrite idx_set_low, Hlv. lia.
    + apply (LInv_transfer gr v s0 s done s [] w HL Hw0 Hi eq_refl).
      * reflexivity.
      * reflexivity.
      * lia.
      * now rewrite app_nil_r.
      * exists y. auto.
      * intros x y' [].
      * exact Ew.
      * intro H. apply Hin0 in H. apply (I_on _ _ Hi) in H. rewrite H in Eon. cbn [andb] in Eon.
        apply Z.ltb_ge in Eon. exact Eon.
Qed.

(* ---------- the whole successor loop ---------- *)
Lemma loop_LInv f gr v s0 :
  (forall gr' v' s', Pre f gr' v' s' -> Post gr' v' s' (strong_connect f g v' s')) ->
  Pre (S f) gr v s0 ->
  forall todo done s, LInv gr v s0 s done -> (forall w, In w todo -> edge g v w) ->
  LInv gr v s0 (fold_left (sc_step f g v) todo s) (done ++ todo).
Proof.
  intros IH Hpre. induction todo as [|w todo IHt]; intros done s HL Hed; cbn [fold_left].
  - now rewrite app_nil_r.
  - replace (done ++ w :: todo) with ((done ++ [w]) ++ todo) by (now rewrite <- app_assoc).
    apply IHt; [|intros w' Hw'; apply Hed; now right].
    eapply step_LInv; eauto. apply Hed. now left.
Qed.

(* ---------- leaving strong_connect: pop the component or stay on the stack ---------- *)
Lemma emitted_snoc s comp on :
  concat (map fst (t_out s ++ [(comp, on)])) = emitted s ++ comp.
Proof. unfold emitted. rewrite map_app, concat_app. cbn. now rewrite app_nil_r. Qed.

Lemma finish_Post f gr v s0 s2 :
  Pre (S f) gr v s0 -> LInv gr v s0 s2 (nth v g []) ->
  Post gr v s0 (sc_finish (length (t_stack s0)) v s2).
Proof.
  intros [Hi0 Hw0 Hv Hf Hr0] HL.
  assert (Hvin := LInv_v_in_stack _ _ _ _ _ HL).
  destruct HL as [Hi Hoof Hmono Hidxv Hlowle [s'' [Hstk Hedges]] [yl [Hyl [Hylidx Hylr]]] Hdone].
  assert (Hvv : visited s2 v) by (eapply stack_visited; eauto).
  assert (Hgr0 : forall x, In x gr -> In x (t_stack s0)) by apply (I_gray _ _ Hi0).
  assert (Hnd := I_nd_stack _ _ Hi). rewrite Hstk in Hnd. apply NoDup_app_iff in Hnd as [Hnd0 [Hndc Hndd]].
  assert (Hso := I_sorted _ _ Hi). rewrite Hstk in Hso. apply FOP_app_iff in Hso as [Hso0 [Hsoc Hsod]].
  assert (Hsr := I_sreach _ _ Hi). rewrite Hstk in Hsr. apply FOP_app_iff in Hsr as [Hsr0 [Hsrc Hsrd]].
  assert (Hsoc' : forall y, In y s'' -> idx s2 v < idx s2 y).
  { inversion Hsoc as [|? ? Hf' _]; subst. rewrite Forall_forall in Hf'. exact Hf'. }
  assert (Hsrc' : forall y, In y (v :: s'') -> reach' g v y).
  { inversion Hsrc as [|? ? Hf' _]; subst. rewrite Forall_forall in Hf'.
    intros y [<-|Hy]; [apply r_refl|now apply Hf']. }
  assert (Hcge : forall y, In y (v :: s'') -> idx s2 v <= idx s2 y).
  { intros y [<-|Hy]; [lia|]. specialize (Hsoc' y Hy). lia. }
  assert (Hin2 : forall x, In x (t_stack s2) <-> In x (t_stack s0) \/ In x (v :: s'')).
  { intro x. rewrite Hstk. apply in_app_iff. }
  assert (Hcng : forall x, In x (v :: s'') -> ~ In x gr).
  { intros x Hx Hg. apply (Hndd x); [now apply Hgr0|exact Hx]. }
  assert (Hsucc : forall w, edge g v w -> visited s2 w /\ (In w (t_stack s0) -> low s2 v <= idx s2 w)).
  { intros w He. apply Hdone. exact He. }
  assert (Hnbw : forall x w, visited s2 x -> ~ In x gr -> edge g x w -> visited s2 w).
  { intros x w Hx Hng He. destruct (Nat.eq_dec x v) as [->|Hne]; [now apply Hsucc|].
    apply (I_nbw _ _ Hi x w Hx); [|exact He]. rewrite in_app_iff. cbn [In]. intros [H|[H|[]]]; congruence. }
  assert (Htg0 : forall y, In y (t_stack s0) -> exists k, In k gr /\ idx s2 k <= idx s2 y /\ reach' g y k).
  { intros y Hy0. destruct (I_togray _ _ Hi y) as [k [Hk [Hle Hrk]]]; [apply Hin2; now left|].
    apply in_app_or in Hk as [Hk|[<-|[]]]; [eauto|].
    exfalso. specialize (Hsod y v Hy0 (or_introl eq_refl)). cbn beta in Hsod. lia. }
  assert (Htov : forall x, In x (v :: s'') -> reach' g x v).
  { intros x Hx. destruct (I_togray _ _ Hi x) as [k [Hk [_ Hrk]]]; [apply Hin2; now right|].
    apply in_app_or in Hk as [Hk|[<-|[]]]; [|exact Hrk].
    apply reach'_trans with k; [exact Hrk|]. apply Hsrd; [now apply Hgr0|now left]. }
  assert (Hcedge : forall x w, In x (v :: s'') -> edge g x w -> In w (t_stack s0) -> low s2 v <= idx s2 w).
  { intros x w [<-|Hx] He H0; [now apply Hsucc|eapply Hedges; eauto]. }
  unfold sc_finish. fold (low s2 v) (idx s2 v). destruct (low s2 v =? idx s2 v) eqn:Eq.
  - (* the component of v is complete: pop it *)
    apply Z.eqb_eq in Eq. cbv zeta.
    rewrite Hstk, firstn_app_len, skipn_app_len.
    assert (Hno0 : forall x w, In x (v :: s'') -> edge g x w -> ~ In w (t_stack s0)).
    { intros x w Hx He H0. specialize (Hcedge x w Hx He H0).
      specialize (Hsod w v H0 (or_introl eq_refl)). cbn beta in Hsod. lia. }
    assert (Hclosed : forall x w, In x (v :: s'') -> edge g x w -> In w (emitted s2 ++ v :: s'')).
    { intros x w Hx He.
      assert (Hw : visited s2 w).
      { apply (Hnbw x w); [eapply stack_visited; [exact Hi|apply Hin2; now right]|now apply Hcng|exact He]. }
      apply (I_vis _ _ Hi) in Hw as [Hw|Hw]; apply in_or_app; [|now left].
      apply Hin2 in Hw as [Hw|Hw]; [exfalso; eapply Hno0; eauto|now right]. }
    constructor.
    + constructor; cbn [t_stack t_index t_low t_on t_curr t_out].
      * apply (I_len_idx _ _ Hi).
      * apply (I_len_low _ _ Hi).
      * rewrite fold_upd_false_length. apply (I_len_on _ _ Hi).
      * intro x. rewrite fold_upd_false_nth.
        2:{ intros z Hz. rewrite (I_len_on _ _ Hi). eapply stack_lt; [exact Hi|apply Hin2; now right]. }
        rewrite (I_on _ _ Hi), Hin2. split; [intros [[H|H] Hn]; [exact H|contradiction]|].
        intro H. split; [now left|]. intro Hc. eapply Hndd; eauto.
      * exact Hnd0.
      * unfold emitted at 1. cbn [t_out]. rewrite emitted_snoc. apply NoDup_app_iff.
        repeat split; [apply (I_nd_em _ _ Hi)|exact Hndc|].
        intros x Hx Hc. apply (I_disj _ _ Hi x); [apply Hin2; now right|exact Hx].
      * intros x Hx. unfold emitted. cbn [t_out]. rewrite emitted_snoc. intro He.
        apply in_app_or in He as [He|He]; [|eapply Hndd; eauto].
        apply (I_disj _ _ Hi x); [apply Hin2; now left|exact He].
      * intro x. unfold emitted. cbn [t_out]. rewrite emitted_snoc.
        change (visited (mkT (t_stack s0) (t_index s2) (t_low s2)
                  (fold_left (fun on x => upd on x false) (v :: s'') (t_on s2)) (t_curr s2)
                  (t_out s2 ++ [(v :: s'', t_on s2)]) (t_oof s2)) x) with (visited s2 x).
        rewrite (I_vis _ _ Hi x), Hin2, in_app_iff. tauto.
      * apply (I_curr _ _ Hi).
      * apply (I_idx_bound _ _ Hi).
      * exact Hso0.
      * exact Hsr0.
      * apply (I_gray_nd _ _ Hi0).
      * exact Hgr0.
      * exact Hnbw.
      * exact Htg0.
      * destruct (I_out _ _ Hi) as [Hoc Hco]. split.
        -- apply out_closed_snoc. split; [exact Hoc|]. cbn [fst app]. exact Hclosed.
        -- apply Forall_app. split; [exact Hco|]. constructor; [|constructor]. split; cbn [fst snd].
           ++ intros x y Hx Hy. apply reach'_trans with v; [now apply Htov|now apply Hsrc'].
           ++ intros x w Hx He. rewrite (I_on _ _ Hi), Hin2.
              split; [intros [H|H]; [exfalso; eapply Hno0; eauto|exact H]|now right].
    + exact Hoof.
    + exact Hvv.
    + exact Hmono.
    + left. split; [reflexivity|]. change (low s2 v = t_curr s0). rewrite Eq. exact Hidxv.
  - (* v stays on the stack *)
    apply Z.eqb_neq in Eq.
    assert (Hyl0 : In yl (t_stack s0)).
    { apply Hin2 in Hyl as [H|H]; [exact H|]. specialize (Hcge yl H). lia. }
    constructor.
    + destruct Hi as [H1 H2 H3 H4 H5 H6 H7 H8 H9 H10 H11 H12 H13 H14 H15 H16 H17].
      constructor; try assumption.
      * apply (I_gray_nd _ _ Hi0).
      * intros x Hx. apply Hin2. left. now apply Hgr0.
      * intros y Hy. apply Hin2 in Hy as [Hy|Hy]; [now apply Htg0|].
        destruct (Htg0 yl Hyl0) as [k [Hk [Hle Hrk]]]. exists k. split; [exact Hk|].
        split; [specialize (Hcge y Hy); lia|].
        apply reach'_trans with v; [now apply Htov|]. apply reach'_trans with yl; assumption.
    + exact Hoof.
    + exact Hvv.
    + exact Hmono.
    + right. exists s''. split; [exact Hstk|]. split; [exists yl; auto|exact Hcedge].
Qed.

(* ---------- specification of strong_connect ---------- *)
Theorem strong_connect_spec : forall f gr v s,
  Pre f gr v s -> Post gr v s (strong_connect f g v s).
Proof.
  induction f as [|f IH]; intros gr v s Hpre.
  - exfalso. destruct Hpre as [Hi Hw Hv Hf _].
    assert (Hnd : NoDup (v :: gr)).
    { constructor; [|apply (I_gray_nd _ _ Hi)]. intro H. apply Hw. eapply stack_visited; eauto.
      now apply (I_gray _ _ Hi). }
    assert (Hincl : incl (v :: gr) (seq 0 (length g))).
    { intros x Hx. apply in_seq. cbn [plus]. split; [lia|]. destruct Hx as [<-|Hx]; [exact Hv|].
      eapply stack_lt; eauto. now apply (I_gray _ _ Hi). }
    pose proof (NoDup_incl_length Hnd Hincl) as Hlen. rewrite seq_length in Hlen. cbn [length] in Hlen. lia.
  - rewrite strong_connect_S. eapply finish_Post; [exact Hpre|].
    change (nth v g []) with ([] ++ nth v g []) at 2.
    apply (loop_LInv f gr v s IH Hpre); [eapply push_LInv; eauto|]. intros w Hw. exact Hw.
Qed.

End Tarjan.

(* ------------------------------------------------------------------ *)
(* the driver loop                                                       *)
(* ------------------------------------------------------------------ *)

Definition tarjan_init (n : nat) : tst := mkT [] (repeat (-1) n) (repeat 0 n) (repeat false n) 0 [] false.

Definition tarjan_body (g : graph) : tst -> nat -> tst :=
  fun s i => if getZ (t_index s) i =? -1 then strong_connect (S (length g)) g i s else s.

Lemma tarjan_run_unfold g : (2 <= length g)%nat ->
  tarjan_run g = fold_left (tarjan_body g) (seq 0 (length g)) (tarjan_init (length g)).
Proof.
  intro H. unfold tarjan_run. destruct (Nat.ltb_spec (length g) 2) as [H'|_]; [lia|reflexivity].
Qed.

Lemma getZ_repeat n v : getZ (repeat (-1) n) v = -1.
Proof. unfold getZ. apply nth_repeat. Qed.

Lemma init_Inv g : Inv g [] (tarjan_init (length g)).
Proof.
  assert (Hnv : forall v, ~ visited (tarjan_init (length g)) v).
  { intros v Hv. apply Hv. unfold idx. cbn. apply getZ_repeat. }
  constructor.
  - cbn. apply repeat_length.
  - cbn. apply repeat_length.
  - cbn. apply repeat_length.
  - intro v. cbn [tarjan_init t_on t_stack]. rewrite nth_repeat. split; [discriminate|intros []].
  - constructor.
  - constructor.
  - intros v [].
  - intro v. split; [intro H; now apply Hnv in H|intros [[]|[]]].
  - cbn. lia.
  - intros v Hv. now apply Hnv in Hv.
  - constructor.
  - constructor.
  - constructor.
  - intros x [].
  - intros x w Hv. now apply Hnv in Hv.
  - intros y [].
  - split; [exact I|constructor].
Qed.

Record TInv (g : graph) (k : nat) (s : tst) : Prop := {
  T_inv : Inv g [] s;
  T_stack : t_stack s = [];
  T_oof : t_oof s = false;
  T_vis : forall i, (i < k)%nat -> visited s i
}.

Lemma tarjan_body_TInv g k s : graph_wf g = true -> (k < length g)%nat ->
  TInv g k s -> TInv g (S k) (tarjan_body g s k).
Proof.
  intros Hwf Hk [Hi Hst Hoof Hvis]. unfold tarjan_body. fold (idx s k).
  destruct (idx s k =? -1) eqn:E.
  - apply Z.eqb_eq in E.
    assert (Hpre : Pre g (S (length g)) [] k s).
    { constructor; [exact Hi|unfold visited; lia|exact Hk|cbn [length]; lia|]. rewrite Hst. intros x []. }
    destruct (strong_connect_spec g Hwf _ _ _ _ Hpre) as [Hi' Hoof' Hvis' Hmono' Hstk'].
    constructor.
    + exact Hi'.
    + destruct Hstk' as [[H _]|[s'' [_ [[y [Hy _]] _]]]]; [congruence|]. rewrite Hst in Hy. destruct Hy.
    + congruence.
    + intros i Hik. destruct (Nat.eq_dec i k) as [->|Hne]; [exact Hvis'|].
      assert (Hv : visited s i) by (apply Hvis; lia).
      unfold visited. destruct (Hmono' i Hv) as [-> _]. exact Hv.
  - apply Z.eqb_neq in E. constructor; try assumption.
    intros i Hik. destruct (Nat.eq_dec i k) as [->|Hne]; [exact E|apply Hvis; lia].
Qed.

Lemma tarjan_loop_TInv g : graph_wf g = true -> forall k, (k <= length g)%nat ->
  TInv g k (fold_left (tarjan_body g) (seq 0 k) (tarjan_init (length g))).
Proof.
  intros Hwf. induction k as [|k IH]; intro Hk.
  - cbn [seq fold_left]. constructor; [apply init_Inv|reflexivity|reflexivity|intros i Hi; lia].
  - rewrite seq_S, fold_left_app. cbn [plus fold_left]. apply tarjan_body_TInv; [exact Hwf|lia|apply IH; lia].
Qed.

(* ------------------------------------------------------------------ *)
(* from the final invariant to the output specification                   *)
(* ------------------------------------------------------------------ *)

Lemma out_closed_order g : graph_wf g = true -> forall out seen,
  (forall x w, In x seen -> edge g x w -> In w seen) ->
  out_closed g seen out -> NoDup (seen ++ concat (map fst out)) ->
  ForallOrdPairs (no_reach g) (map fst out).
Proof.
  intros Hwf. induction out as [|co rest IH]; intros seen Hcl Hoc Hnd; cbn [map]; [constructor|].
  cbn [out_closed] in Hoc. destruct Hoc as [Hco Hrest].
  cbn [map concat] in Hnd. rewrite app_assoc in Hnd.
  assert (Hcl' : forall x w, In x (seen ++ fst co) -> edge g x w -> In w (seen ++ fst co)).
  { intros x w Hx He. apply in_app_or in Hx as [Hx|Hx]; [apply in_or_app; left; eapply Hcl; eauto|].
    eapply Hco; eauto. }
  constructor.
  - apply Forall_forall. intros c' Hc' u v Hu Hv Hreach.
    apply greach_reach' in Hreach.
    assert (Hin : In v (seen ++ fst co)).
    { apply (reach'_closed g (fun z => In z (seen ++ fst co)) Hcl' u v Hreach). apply in_or_app. now right. }
    apply NoDup_app_iff in Hnd as [_ [_ Hd]]. apply (Hd v Hin).
    apply in_concat. exists c'. split; assumption.
  - apply (IH (seen ++ fst co)); assumption.
Qed.

Lemma final_scc_ok g s : graph_wf g = true -> TInv g (length g) s ->
  scc_output_ok g (map fst (t_out s)).
Proof.
  intros Hwf [Hi Hst _ Hvis].
  assert (Hem : forall v, In v (emitted s) <-> (v < length g)%nat).
  { intro v. split.
    - intro H. eapply visited_lt; [exact Hi|]. apply (I_vis _ _ _ Hi). now right.
    - intro H. apply Hvis in H. apply (I_vis _ _ _ Hi) in H as [H|H]; [|exact H]. rewrite Hst in H. destruct H. }
  destruct (I_out _ _ _ Hi) as [Hoc Hco]. constructor.
  - intros v Hv. apply NoDup_count_occ'; [apply (I_nd_em _ _ _ Hi)|now apply Hem].
  - intros v Hv. now apply Hem.
  - intros c u v Hc Hu Hv. apply in_map_iff in Hc as [co [<- Hc]].
    rewrite Forall_forall in Hco. destruct (Hco co Hc) as [Hr _].
    apply reach'_greach; [exact Hwf|]. now apply Hr.
  - apply (out_closed_order g Hwf (t_out s) []); [intros x w []|exact Hoc|]. apply (I_nd_em _ _ _ Hi).
Qed.

Lemma final_onstack g gr s : Inv g gr s ->
  forall comp on v w, In (comp, on) (t_out s) -> In v comp -> In w (nth v g []) ->
  (nth w on false = true <-> In w comp).
Proof.
  intros Hi comp on v w Hin Hv Hw. destruct (I_out _ _ _ Hi) as [_ Hco].
  rewrite Forall_forall in Hco. destruct (Hco _ Hin) as [_ H]. apply (H v w Hv Hw).
Qed.

(* ------------------------------------------------------------------ *)
(* completeness of the certificate checkers (so the algorithm's output passes them) *)
(* ------------------------------------------------------------------ *)

Lemma order_ok_complete g comps : ForallOrdPairs (no_reach g) comps -> order_ok (reachm g) comps = true.
Proof.
  induction 1 as [|c rest Hf _ IH]; cbn [order_ok]; [reflexivity|].
  apply andb_true_iff. split; [|exact IH]. rewrite Forall_forall in Hf.
  apply forallb_forall. intros u Hu. apply forallb_forall. intros c' Hc'.
  apply forallb_forall. intros v Hv. apply negb_true_iff. apply greach_false. now apply (Hf c' Hc' u v).
Qed.

Theorem check_scc_complete g comps : scc_output_ok g comps -> check_scc g comps = true.
Proof.
  intros [Honce Hrange Hconn Hord]. unfold check_scc. rewrite !andb_true_iff. repeat split.
  - apply forallb_forall. intros v Hv. apply in_seq in Hv. apply Nat.eqb_eq.
    rewrite count_count_occ. apply Honce. lia.
  - apply forallb_forall. intros v Hv. apply Nat.ltb_lt. now apply Hrange.
  - apply forallb_forall. intros c Hc. apply forallb_forall. intros u Hu. apply forallb_forall. intros v Hv.
    apply orb_true_iff. destruct (Hconn c u v Hc Hu Hv) as [->|H]; [left; apply Nat.eqb_refl|right; now apply reachm_spec].
  - now apply order_ok_complete.
Qed.

Theorem check_onstack_complete g out :
  (forall comp on v w, In (comp, on) out -> In v comp -> In w (nth v g []) ->
     (nth w on false = true <-> In w comp)) ->
  check_onstack g out = true.
Proof.
  intro H. unfold check_onstack. apply forallb_forall. intros [comp on] Hin.
  apply forallb_forall. intros v Hv. apply forallb_forall. intros w Hw.
  specialize (H comp on v w Hin Hv Hw). rewrite <- memb_In in H.
  destruct (nth w on false), (memb w comp); cbn; try reflexivity; destruct H as [H1 H2];
    [now apply H1|now apply H2].
Qed.

(* ------------------------------------------------------------------ *)
(* main theorem                                                          *)
(* ------------------------------------------------------------------ *)

Theorem tarjan_spec g : graph_wf g = true -> (2 <= length g)%nat ->
  t_oof (tarjan_run g) = false /\
  t_stack (tarjan_run g) = [] /\
  scc_output_ok g (map fst (tarjan g)) /\
  (forall comp on v w, In (comp, on) (tarjan g) -> In v comp -> In w (nth v g []) ->
     (nth w on false = true <-> In w comp)).
Proof.
  intros Hwf Hn. unfold tarjan. rewrite (tarjan_run_unfold g Hn).
  pose proof (tarjan_loop_TInv g Hwf (length g) (le_n _)) as HT.
  split; [apply (T_oof _ _ _ HT)|]. split; [apply (T_stack _ _ _ HT)|].
  split; [now apply final_scc_ok|]. apply (final_onstack g [] _ (T_inv _ _ _ HT)).
Qed.

Corollary tarjan_passes_certificates g : graph_wf g = true -> (2 <= length g)%nat ->
  check_scc g (map fst (tarjan g)) = true /\ check_onstack g (tarjan g) = true.
Proof.
  intros Hwf Hn. destruct (tarjan_spec g Hwf Hn) as [_ [_ [H1 H2]]].
  split; [now apply check_scc_complete|now apply check_onstack_complete].
Qed.

(* the Go code returns early for fewer than two vertices: nothing is reported, which is correct for the
   empty graph and misses the single vertex of a one-vertex graph *)
Lemma tarjan_small g : (length g < 2)%nat -> tarjan g = [].
Proof.
  intro H. unfold tarjan, tarjan_run. destruct (Nat.ltb_spec (length g) 2) as [_|H']; [reflexivity|lia].
Qed.
