(* Naive executable specification of set-equation systems over a finite universe [0,u).
   Independent of Tarjan and of the sorted-list algebra: bit vectors, Warshall reachability,
   Kleene iteration per dependency class.  Used as the property oracle (P3). *)
From Coq Require Import List ZArith Bool Arith.
From TM Require Import Util.IntSet Util.Graph Util.Closure.
Import ListNotations.

Definition bor (a b : bits) : bits := or_rows a b.
Fixpoint band (a b : bits) : bits :=
  match a, b with x :: a', y :: b' => (x && y) :: band a' b' | _, _ => [] end.
Definition bnot (a : bits) : bits := map negb a.
Fixpoint bits_eqb (a b : bits) : bool :=
  match a, b with
  | [], [] => true
  | x :: a', y :: b' => Bool.eqb x y && bits_eqb a' b'
  | _, _ => false
  end.

Definition reach_matrix (g : graph) : matrix := matrix_closure (matrix_of_graph g).

Definition same_class (R : matrix) (i j : nat) : bool :=
  (i =? j)%nat || (has_edge R i j && has_edge R j i).

(* complement nodes whose operand reaches them *)
Definition spec_errors (nodes : list cnode) : list nat :=
  let R := reach_matrix (closure_graph nodes) in
  filter (fun v => let nd := nth v nodes dummy_node in
            is_complement (n_op nd) &&
            existsb (fun w => (w =? v)%nat || has_edge R w v) (n_edges nd))
         (seq 0 (length nodes)).

Definition eval_node (u : nat) (nd : cnode) (init : bits) (vals : list bits) : bits :=
  let get w := nth w vals (repeat false u) in
  match n_op nd with
  | OpUnion => fold_left (fun acc w => bor acc (get w)) (n_edges nd) init
  | OpIntersection => fold_left (fun acc w => band acc (get w)) (n_edges nd) (repeat true u)
  | OpComplement => match n_edges nd with w :: _ => bnot (get w) | [] => repeat true u end
  end.

Definition kleene_pass (u : nat) (nodes : list cnode) (inits : list bits) (members : list nat)
    (vals : list bits) : list bits :=
  fold_left (fun vals m => upd vals m (eval_node u (nth m nodes dummy_node) (nth m inits []) vals))
            members vals.

Fixpoint iter {A} (n : nat) (f : A -> A) (x : A) : A :=
  match n with O => x | S k => iter k f (f x) end.

Definition spec_solve (u : nat) (nodes : list cnode) : list bits :=
  let n := length nodes in
  let g := closure_graph nodes in
  let R := reach_matrix g in
  let inits := map (fun nd => match n_op nd with OpUnion => bits_of u (n_val nd) | _ => repeat false u end) nodes in
  let vals0 := map (fun _ => repeat false u) nodes in
  let all := seq 0 n in
  let round '(vals, done) :=
    fold_left (fun '(vals, done) v =>
      if nth v done false then (vals, done) else
      let ready := forallb (fun w => negb (has_edge R v w) || same_class R v w || nth w done false) all in
      if negb ready then (vals, done) else
      let members := filter (same_class R v) all in
      let vals' := iter (length members * u + 2) (kleene_pass u nodes inits members) vals in
      (vals', fold_left (fun d m => upd d m true) members done)) all (vals, done) in
  fst (iter n round (vals0, repeat false n)).
