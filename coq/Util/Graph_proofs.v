From Coq Require Import List ZArith Bool Arith Lia.
From TM Require Import Lib.ListX Util.Graph.
Import ListNotations.

(* ================= Transpose ================= *)

Lemma count_occ_map_const (a x : nat) (l : list nat) :
  count_occ Nat.eq_dec (map (fun _ => a) l) x = if Nat.eq_dec a x then length l else 0.
Proof.
  induction l as [|y l IH]; cbn [map count_occ length]; [now destruct (Nat.eq_dec a x)|].
  rewrite IH. destruct (Nat.eq_dec a x); reflexivity.
Qed.

Lemma length_filter_eqb (t : nat) (l : list nat) :
  length (filter (Nat.eqb t) l) = count_occ Nat.eq_dec l t.
Proof.
  induction l as [|y l IH]; cbn [filter count_occ]; [reflexivity|].
  destruct (Nat.eqb_spec t y) as [->|Hne].
  - destruct (Nat.eq_dec y y); [cbn; now rewrite IH|congruence].
  - destruct (Nat.eq_dec y t); [congruence|exact IH].
Qed.

(* multiplicity of [x] among the sources recorded for target [t] = multiplicity of [t] in x's edge list *)
Lemma froms_count (t : nat) (g : graph) : forall k x,
  count_occ Nat.eq_dec (froms t k g) x =
  if (k <=? x) && (x <? k + length g) then count_occ Nat.eq_dec (nth (x - k) g []) t else 0.
Proof.
  induction g as [|edges g IH]; intros k x; cbn [froms length].
  - rewrite Nat.add_0_r. destruct (k <=? x) eqn:E1, (x <? k) eqn:E2; cbn; try reflexivity.
    apply Nat.leb_le in E1. apply Nat.ltb_lt in E2. lia.
  - rewrite count_occ_app, count_occ_map_const, length_filter_eqb, IH.
    destruct (Nat.eq_dec k x) as [->|Hne].
    + rewrite Nat.sub_diag. cbn [nth].
      replace (S x <=? x) with false by (symmetry; apply Nat.leb_gt; lia). cbn [andb].
      replace (x <=? x) with true by (symmetry; apply Nat.leb_le; lia).
      replace (x <? x + S (length g)) with true by (symmetry; apply Nat.ltb_lt; lia). cbn. lia.
    + destruct (k <=? x) eqn:E1.
      * apply Nat.leb_le in E1. replace (S k <=? x) with true by (symmetry; apply Nat.leb_le; lia).
        replace (x <? S k + length g) with (x <? k + S (length g)) by (f_equal; lia).
        destruct (x <? k + S (length g)); cbn [andb]; [|reflexivity].
        replace (x - k) with (S (x - S k)) by lia. reflexivity.
      * apply Nat.leb_gt in E1. replace (S k <=? x) with false by (symmetry; apply Nat.leb_gt; lia).
        reflexivity.
Qed.

Lemma transpose_length g : length (transpose g) = length g.
Proof. unfold transpose. now rewrite map_length, seq_length. Qed.

Lemma transpose_nth g t : t < length g -> nth t (transpose g) [] = froms t 0 g.
Proof.
  intro H. unfold transpose.
  rewrite (nth_indep _ [] (froms (length g) 0 g)) by (now rewrite map_length, seq_length).
  change (froms (length g) 0 g) with ((fun t => froms t 0 g) (length g)).
  rewrite map_nth. now rewrite seq_nth.
Qed.

(* every edge from->to of g (with multiplicity) is an edge to->from of the transpose, and nothing else *)
Theorem transpose_spec g from to : from < length g -> to < length g ->
  count_occ Nat.eq_dec (nth to (transpose g) []) from = count_occ Nat.eq_dec (nth from g []) to.
Proof.
  intros Hf Ht. rewrite (transpose_nth g to Ht), froms_count. cbn [Nat.leb andb].
  replace (from <? 0 + length g) with true by (symmetry; apply Nat.ltb_lt; lia).
  now rewrite Nat.sub_0_r.
Qed.

Theorem transpose_sources_in_range g to x : In x (nth to (transpose g) []) -> x < length g.
Proof.
  intro H. destruct (Nat.lt_ge_cases to (length g)) as [Ht|Ht].
  - rewrite (transpose_nth g to Ht) in H.
    apply (count_occ_In Nat.eq_dec) in H. rewrite froms_count in H. cbn [Nat.leb andb] in H.
    destruct (x <? 0 + length g) eqn:E; [apply Nat.ltb_lt in E; lia|lia].
  - rewrite nth_overflow in H by (rewrite transpose_length; lia). destruct H.
Qed.

(* ================= Matrix.Closure (Warshall) ================= *)

Definition mwf (n : nat) (m : matrix) : Prop := length m = n /\ Forall (fun r => length r = n) m.

Definition E (m : matrix) (a b : nat) : Prop := has_edge m a b = true.

(* a path a -> ... -> b of at least one edge whose intermediate vertices satisfy S *)
Inductive path (m : matrix) (S : nat -> Prop) : nat -> nat -> Prop :=
| path_edge a b : E m a b -> path m S a b
| path_step a c b : E m a c -> S c -> path m S c b -> path m S a b.

Lemma path_mono m (S S' : nat -> Prop) a b : (forall c, S c -> S' c) -> path m S a b -> path m S' a b.
Proof. intros H P. induction P; [now apply path_edge|eapply path_step; eauto]. Qed.

Lemma path_trans m S a c b : path m S a c -> S c -> path m S c b -> path m S a b.
Proof.
  intros P Hc Q. induction P as [a c Hac | a d c Had Hd P IH].
  - eapply path_step; eauto.
  - eapply path_step; [exact Had|exact Hd|]. now apply IH.
Qed.

Lemma path_split m k a b :
  path m (fun v => v < S k) a b <->
  path m (fun v => v < k) a b \/ (path m (fun v => v < k) a k /\ path m (fun v => v < k) k b).
Proof.
  split.
  - intro P. induction P as [a b Hab | a c b Hac Hc P IH].
    + left. now apply path_edge.
    + destruct (Nat.eq_dec c k) as [->|Hne].
      * right. split; [now apply path_edge|]. destruct IH as [IH|[_ IH]]; exact IH.
      * assert (c < k) by lia. destruct IH as [IH|[IH1 IH2]].
        -- left. eapply path_step; eauto.
        -- right. split; [eapply path_step; eauto|exact IH2].
  - intros [P|[P Q]].
    + eapply path_mono; [|exact P]. cbn; lia.
    + eapply path_trans with (c := k).
      * eapply path_mono; [|exact P]. cbn; lia.
      * lia.
      * eapply path_mono; [|exact Q]. cbn; lia.
Qed.

Lemma upd_length {A} (l : list A) i x : length (upd l i x) = length l.
Proof.
  unfold upd. rewrite app_length. destruct (skipn i l) eqn:Es.
  - cbn. rewrite Nat.add_0_r. rewrite firstn_length.
    assert (length (skipn i l) = 0) by now rewrite Es. rewrite skipn_length in H. lia.
  - cbn [length]. rewrite firstn_length.
    assert (length (skipn i l) = S (length l0)) by now rewrite Es. rewrite skipn_length in H. lia.
Qed.

Lemma upd_nth {A} (l : list A) i x d j : i < length l ->
  nth j (upd l i x) d = if Nat.eq_dec j i then x else nth j l d.
Proof.
  intro Hi. unfold upd.
  destruct (skipn i l) as [|y t] eqn:Es.
  { assert (length (skipn i l) = 0) by now rewrite Es. rewrite skipn_length in H. lia. }
  assert (Hl : l = firstn i l ++ y :: t) by (rewrite <- Es; symmetry; apply firstn_skipn).
  assert (Hfl : length (firstn i l) = i) by (rewrite firstn_length; lia).
  destruct (Nat.eq_dec j i) as [->|Hne].
  - rewrite app_nth2 by lia. rewrite Hfl, Nat.sub_diag. reflexivity.
  - destruct (Nat.lt_ge_cases j i).
    + rewrite app_nth1 by lia. rewrite Hl at 2. now rewrite app_nth1 by lia.
    + rewrite app_nth2 by lia. rewrite Hl at 2. rewrite app_nth2 by lia. rewrite Hfl.
      destruct (j - i) as [|d'] eqn:Ed; [lia|]. reflexivity.
Qed.

Lemma upd_Forall {A} (P : A -> Prop) l i x : Forall P l -> P x -> Forall P (upd l i x).
Proof.
  intros Hl Hx. unfold upd. apply Forall_app. split; [now apply Forall_firstn'|].
  destruct (skipn i l) eqn:Es; [constructor|].
  assert (Forall P (skipn i l)) by now apply Forall_skipn'. rewrite Es in H. inversion H; subst.
  now constructor.
Qed.

Lemma or_rows_length a : forall b, length (or_rows a b) = length a.
Proof. induction a as [|x a IH]; destruct b; cbn; auto. Qed.

Lemma or_rows_nth a : forall b j, length a = length b ->
  nth j (or_rows a b) false = nth j a false || nth j b false.
Proof.
  induction a as [|x a IH]; destruct b as [|y b]; cbn [length or_rows]; intros j H; try discriminate.
  - destruct j; reflexivity.
  - destruct j; cbn [nth]; [reflexivity|]. apply IH. lia.
Qed.

Lemma mwf_row n m i : mwf n m -> i < n -> length (nth i m []) = n.
Proof.
  intros [Hl Hf] Hi. rewrite Forall_forall in Hf. apply Hf. apply nth_In. lia.
Qed.

Lemma has_edge_range n m a b : mwf n m -> has_edge m a b = true -> a < n /\ b < n.
Proof.
  intros Hwf H. unfold has_edge in H.
  destruct (Nat.lt_ge_cases a n) as [Ha|Ha].
  - split; [exact Ha|]. destruct (Nat.lt_ge_cases b n) as [Hb|Hb]; [exact Hb|].
    rewrite nth_overflow in H; [discriminate|]. rewrite (mwf_row n m a Hwf Ha). exact Hb.
  - destruct Hwf as [Hl _]. rewrite (nth_overflow m) in H by lia. destruct b; discriminate.
Qed.

(* effect of one inner-loop step *)
Lemma closure_step_spec n k m j : mwf n m -> j < n -> k < n ->
  mwf n (closure_step k m j) /\
  forall a b, has_edge (closure_step k m j) a b =
    if Nat.eq_dec a j then has_edge m j b || (has_edge m j k && has_edge m k b) else has_edge m a b.
Proof.
  intros Hwf Hj Hk. unfold closure_step.
  destruct (has_edge m j k) eqn:Ejk.
  - split.
    + destruct Hwf as [Hl Hf]. split; [now rewrite upd_length|].
      apply upd_Forall; [exact Hf|]. rewrite or_rows_length. apply (mwf_row n m j (conj Hl Hf) Hj).
    + intros a b. unfold has_edge at 1. rewrite upd_nth by (destruct Hwf; lia).
      destruct (Nat.eq_dec a j) as [->|Hne]; [|reflexivity].
      rewrite or_rows_nth by (rewrite !(mwf_row n m) by assumption; reflexivity). reflexivity.
  - split; [exact Hwf|]. intros a b. destruct (Nat.eq_dec a j) as [->|]; [|reflexivity].
    cbn. now rewrite orb_false_r.
Qed.

(* the whole inner loop: every row a gets  row a | (m[a][k] ? row k : 0)  *)
Lemma inner_loop_spec n k m : mwf n m -> k < n ->
  forall js, NoDup js -> (forall j, In j js -> j < n) ->
  let m' := fold_left (closure_step k) js m in
  mwf n m' /\
  forall a b, has_edge m' a b =
    if in_dec Nat.eq_dec a js then has_edge m a b || (has_edge m a k && has_edge m k b) else has_edge m a b.
Proof.
  intros Hwf Hk js. revert m Hwf.
  induction js as [|j js IH]; intros m Hwf Hnd Hr; cbn [fold_left].
  - split; [exact Hwf|]. intros a b. reflexivity.
  - inversion Hnd as [|? ? Hnotin Hnd']; subst.
    destruct (closure_step_spec n k m j Hwf (Hr j (or_introl eq_refl)) Hk) as [Hwf1 H1].
    specialize (IH (closure_step k m j) Hwf1 Hnd' (fun x Hx => Hr x (or_intror Hx))).
    cbn zeta in IH. destruct IH as [Hwf2 H2]. split; [exact Hwf2|].
    intros a b. rewrite H2.
    (* row k of the intermediate matrix equals row k of m *)
    assert (Hrowk : forall b, has_edge (closure_step k m j) k b = has_edge m k b).
    { intro b'. rewrite H1. destruct (Nat.eq_dec k j) as [<-|]; [|reflexivity].
      destruct (has_edge m k b'), (has_edge m k k); reflexivity. }
    destruct (in_dec Nat.eq_dec a js) as [Hin|Hnin].
    + destruct (in_dec Nat.eq_dec a (j :: js)) as [_|Hc]; [|exfalso; apply Hc; now right].
      rewrite Hrowk, !H1. destruct (Nat.eq_dec a j) as [->|]; [contradiction|].
      destruct (Nat.eq_dec a j); [contradiction|]. reflexivity.
    + rewrite H1. destruct (Nat.eq_dec a j) as [->|Hne].
      * destruct (in_dec Nat.eq_dec j (j :: js)) as [_|Hc]; [reflexivity|exfalso; apply Hc; now left].
      * destruct (in_dec Nat.eq_dec a (j :: js)) as [[Hc|Hc]|_]; [congruence|contradiction|reflexivity].
Qed.

Lemma inner_loop_full n k m : mwf n m -> k < n ->
  let m' := fold_left (closure_step k) (seq 0 n) m in
  mwf n m' /\ forall a b, has_edge m' a b = has_edge m a b || (has_edge m a k && has_edge m k b).
Proof.
  intros Hwf Hk.
  destruct (inner_loop_spec n k m Hwf Hk (seq 0 n) (seq_NoDup n 0)) as [Hwf' H].
  { intros j Hj. apply in_seq in Hj. lia. }
  split; [exact Hwf'|]. intros a b. rewrite H.
  destruct (in_dec Nat.eq_dec a (seq 0 n)) as [_|Hnin]; [reflexivity|].
  assert (n <= a) by (destruct (Nat.lt_ge_cases a n); [exfalso; apply Hnin; apply in_seq; lia|assumption]).
  destruct (has_edge m a k) eqn:Eak; [|now rewrite orb_false_r].
  apply (has_edge_range n m a k Hwf) in Eak. lia.
Qed.

Lemma outer_loop_spec n m0 : mwf n m0 ->
  forall k, k <= n ->
  let m := fold_left (fun m i => fold_left (closure_step i) (seq 0 n) m) (seq 0 k) m0 in
  mwf n m /\ forall a b, has_edge m a b = true <-> path m0 (fun v => v < k) a b.
Proof.
  intros Hwf k. induction k as [|k IH]; intro Hk.
  - cbn. split; [exact Hwf|]. intros a b. split.
    + intro H. now apply path_edge.
    + intro P. inversion P; subst; [assumption|lia].
  - rewrite seq_S, fold_left_app. cbn [fold_left plus].
    destruct (IH ltac:(lia)) as [Hwfk Hk'].
    set (mk := fold_left (fun m i => fold_left (closure_step i) (seq 0 n) m) (seq 0 k) m0) in *.
    destruct (inner_loop_full n k mk Hwfk ltac:(lia)) as [Hwf' H'].
    split; [exact Hwf'|]. intros a b. rewrite H', path_split.
    rewrite orb_true_iff, andb_true_iff, !Hk'. reflexivity.
Qed.

Definition reach (m : matrix) (a b : nat) : Prop := path m (fun _ => True) a b.

Lemma path_in_range n m S a b : mwf n m -> path m S a b -> path m (fun v => v < n) a b.
Proof.
  intros Hwf P. induction P as [a b H|a c b H Hc P IH]; [now apply path_edge|].
  eapply path_step; [exact H| |exact IH]. apply (has_edge_range n m a c Hwf H).
Qed.

(* Matrix.Closure adds exactly the pairs connected by a path of one or more edges *)
Theorem matrix_closure_spec n m : mwf n m ->
  mwf n (matrix_closure m) /\
  forall a b, has_edge (matrix_closure m) a b = true <-> reach m a b.
Proof.
  intro Hwf. unfold matrix_closure. assert (Hl : length m = n) by apply Hwf. rewrite Hl.
  destruct (outer_loop_spec n m Hwf n (le_n n)) as [Hwf' H]. split; [exact Hwf'|].
  intros a b. rewrite H. split.
  - apply path_mono. trivial.
  - apply (path_in_range n m _ a b Hwf).
Qed.
