(* Model of util/ident/id.go: Produce and IsValid (restricted to what Produce can output), and of the
   identifier bookkeeping of compiler/resolver.go.  Strings are lists of bytes (Z); the name is decoded
   as UTF-8 exactly like Go's [for i, r := range name]. *)
From Coq Require Import List ZArith Bool.
From TM Require Import Lex.Tables.   (* decode_rune *)
Import ListNotations.
Local Open Scope Z_scope.

Inductive style := CamelCase | CamelLower | UpperCase | UpperUnderscores.

Definition bytes := list Z.

(* ASCII helpers *)
Definition is_lower (r : Z) := (97 <=? r) && (r <=? 122).
Definition is_upper_ascii (r : Z) := (65 <=? r) && (r <=? 90).
Definition is_digit (r : Z) := (48 <=? r) && (r <=? 57).
Definition is_alnum (r : Z) := is_lower r || is_upper_ascii r || is_digit r.
Definition to_upper (r : Z) := if is_lower r then r - 32 else r.
Definition to_lower (r : Z) := if is_upper_ascii r then r + 32 else r.
(* unicode.IsUpper on a byte read as a Latin-1 code point (the Go code calls it on name[i-1]) *)
Definition is_upper_latin1 (b : Z) :=
  is_upper_ascii b || ((192 <=? b) && (b <=? 222) && negb (b =? 215)).

Definition str (l : list Z) : bytes := l.

(* charName *)
Definition char_name (r : Z) : option bytes :=
  if r =? 9 then Some [116;97;98] (* tab *)
  else if r =? 10 then Some [108;102] (* lf *)
  else if r =? 13 then Some [99;114] (* cr *)
  else if r =? 32 then Some [115;112;97;99;101] (* space *)
  else if r =? 33 then Some [101;120;99;108] (* excl *)
  else if r =? 34 then Some [113;117;111;116;101] (* quote *)
  else if r =? 35 then Some [115;104;97;114;112] (* sharp *)
  else if r =? 36 then Some [100;111;108;108;97;114] (* dollar *)
  else if r =? 37 then Some [114;101;109] (* rem *)
  else if r =? 38 then Some [97;110;100] (* and *)
  else if r =? 39 then Some [97;112;111;115] (* apos *)
  else if r =? 40 then Some [108;112;97;114;101;110] (* lparen *)
  else if r =? 41 then Some [114;112;97;114;101;110] (* rparen *)
  else if r =? 42 then Some [109;117;108;116] (* mult *)
  else if r =? 43 then Some [112;108;117;115] (* plus *)
  else if r =? 44 then Some [99;111;109;109;97] (* comma *)
  else if r =? 45 then Some [109;105;110;117;115] (* minus *)
  else if r =? 46 then Some [100;111;116] (* dot *)
  else if r =? 47 then Some [100;105;118] (* div *)
  else if r =? 58 then Some [99;111;108;111;110] (* colon *)
  else if r =? 59 then Some [115;101;109;105;99;111;108;111;110] (* semicolon *)
  else if r =? 60 then Some [108;116] (* lt *)
  else if r =? 61 then Some [97;115;115;105;103;110] (* assign *)
  else if r =? 62 then Some [103;116] (* gt *)
  else if r =? 63 then Some [113;117;101;115;116] (* quest *)
  else if r =? 64 then Some [97;116;115;105;103;110] (* atsign *)
  else if r =? 91 then Some [108;98;114;97;99;107] (* lbrack *)
  else if r =? 92 then Some [101;115;99] (* esc *)
  else if r =? 93 then Some [114;98;114;97;99;107] (* rbrack *)
  else if r =? 94 then Some [120;111;114] (* xor *)
  else if r =? 96 then Some [98;113;117;111;116;101] (* bquote *)
  else if r =? 123 then Some [108;98;114;97;99;101] (* lbrace *)
  else if r =? 124 then Some [111;114] (* or *)
  else if r =? 125 then Some [114;98;114;97;99;101] (* rbrace *)
  else if r =? 126 then Some [116;105;108;100;101] (* tilde *)
  else None.

Definition hex_digit (d : Z) : Z := if d <? 10 then 48 + d else 87 + d.   (* lowercase *)

(* fmt.Sprintf("x%02x", r) for r <= 0xff; "u%06x" otherwise (r < 2^24 for every rune) *)
Definition hex_word (r : Z) : bytes :=
  if r <=? 255 then [120; hex_digit (r / 16); hex_digit (r mod 16)]
  else [117; hex_digit (r / 1048576 mod 16); hex_digit (r / 65536 mod 16); hex_digit (r / 4096 mod 16);
        hex_digit (r / 256 mod 16); hex_digit (r / 16 mod 16); hex_digit (r mod 16)].

Definition nonempty (b : bytes) : bool := match b with [] => false | _ => true end.

(* the [write] closure *)
Definition write (st : style) (buf : bytes) (word : bytes) : bytes :=
  match st with
  | CamelLower | CamelCase =>
      if nonempty buf || match st with CamelCase => true | _ => false end
      then match word with w :: ws => buf ++ to_upper w :: ws | [] => buf end
      else buf ++ word
  | UpperUnderscores => (if nonempty buf then buf ++ [95] else buf) ++ map to_upper word
  | UpperCase => buf ++ map to_upper word
  end.

Definition is_camel (st : style) := match st with CamelCase | CamelLower => true | _ => false end.
Definition style_eqb (a b : style) : bool :=
  match a, b with
  | CamelCase, CamelCase | CamelLower, CamelLower | UpperCase, UpperCase | UpperUnderscores, UpperUnderscores => true
  | _, _ => false
  end.

(* one iteration of [for i, r := range name]; prev/next are name[i-1], name[i+w] as bytes (None at the ends) *)
Definition produce_step (st : style) (in_quotes : bool) (r : Z) (prev next : option Z)
    (buf : bytes) (cont : bool) : bytes * bool :=
  if is_alnum r then
    let cont :=
      if is_upper_ascii r &&
         ((match prev with Some p => negb (is_upper_latin1 p) | None => false end) ||
          (match next with Some n => negb (is_upper_latin1 n) | None => false end))
      then false else cont in
    let buf :=
      if (negb cont && nonempty buf && style_eqb st UpperUnderscores) || (negb (nonempty buf) && is_digit r)
      then buf ++ [95] else buf in
    let buf :=
      if is_camel st && (cont || (style_eqb st CamelLower && negb (nonempty buf)))
      then buf ++ [to_lower r] else buf ++ [to_upper r] in
    (buf, true)
  else if negb in_quotes then
    ((if (r =? 36) || ((r =? 95) && style_eqb st UpperCase) then buf ++ [95] else buf), false)
  else if r =? 95 then (buf ++ [95], true)
  else
    let word := match char_name r with Some w => w | None => hex_word r end in
    (write st buf word, false).

(* the range loop: [rest] is the undecoded remainder, [prev] the byte before it *)
Fixpoint produce_loop (fuel : nat) (st : style) (in_quotes : bool) (prev : option Z) (rest : bytes)
    (buf : bytes) (cont : bool) : bytes :=
  match fuel with
  | O => buf
  | S f =>
    match rest with
    | [] => buf
    | _ =>
      let '(r, w) := decode_rune rest in
      let after := skipn w rest in
      let '(buf', cont') := produce_step st in_quotes r prev (hd_error after) buf cont in
      produce_loop f st in_quotes (Some (last (firstn w rest) 0)) after buf' cont'
    end
  end.

Definition strip_quotes (name : bytes) : option bytes :=
  match name with
  | q :: rest =>
    if (2 <? Z.of_nat (length name)) && ((q =? 39) || (q =? 34)) && (last name 0 =? q)
    then Some (removelast rest) else None
  | [] => None
  end.

Definition is_esc_esc (body : bytes) : bool :=
  match body with [a; b] => (a =? 92) && (b =? 92) | _ => false end.

(* len(name) == 2 && name[0] == '\\' && charName[name[1]] != "": drop the backslash *)
Definition unescape (body : bytes) : bytes :=
  match body with
  | [b; c] => if (b =? 92) && (match char_name c with Some _ => true | None => false end) then [c] else body
  | _ => body
  end.

(* inQuotes && len(name) == 1: single characters without a name get the "char" prefix *)
Definition init_buf (st : style) (body : bytes) : bytes :=
  match body with
  | [c] =>
      let r := fst (decode_rune [c]) in
      match char_name r with
      | Some _ => []
      | None =>
          let b := write st [] [99; 104; 97; 114] (* "char" *) in
          if style_eqb st UpperCase || (style_eqb st UpperUnderscores && (r =? 95)) then b ++ [95] else b
      end
  | _ => []
  end.

Definition produce (name : bytes) (st : style) : bytes :=
  match strip_quotes name with
  | Some body =>
      if is_esc_esc body && style_eqb st UpperCase
      then [69; 83; 67] (* "ESC" *)
      else
        let body := unescape body in
        produce_loop (S (length body)) st true None body (init_buf st body) false
  | None => produce_loop (S (length name)) st false None name [] false
  end.

(* IsValid restricted to ASCII identifiers (Produce only emits ASCII) *)
Definition id_char (c : Z) : bool := is_lower c || is_upper_ascii c || is_digit c || (c =? 95).
Definition is_valid_ascii (id : bytes) : bool :=
  match id with
  | [] => false
  | c :: _ => negb (is_digit c) && forallb id_char id
  end.

(* ---- resolver bookkeeping: ids : ID -> name.  A declaration reports an error when its ID is taken. ---- *)
Fixpoint bytes_eqb (a b : bytes) : bool :=
  match a, b with
  | [], [] => true
  | x :: a', y :: b' => (x =? y) && bytes_eqb a' b'
  | _, _ => false
  end.

Record rstate := mkR { r_ids : list (bytes * bytes) (* (id, name) *); r_errors : nat }.

Definition declare (s : rstate) (name : bytes) (st : style) : rstate :=
  if existsb (fun e => bytes_eqb (snd e) name) (r_ids s) then s   (* known symbol: no new ID *)
  else
    let id := produce name st in
    let err := if existsb (fun e => bytes_eqb (fst e) id) (r_ids s) then 1%nat else 0%nat in
    mkR ((id, name) :: r_ids s) (r_errors s + err).
