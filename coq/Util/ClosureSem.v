(* Declarative meaning of a set-equation system: the specification of Closure.compute (util/set/closure.go).
   Prop-valued definitions only (not extracted); proofs are in Closure_proofs.v. *)
From Coq Require Import List ZArith Bool Arith.
From TM Require Import Util.IntSet Util.IntSet_proofs Util.Graph Util.Graph_proofs Util.GraphSpec Util.GraphSpec_proofs Util.Closure Util.ClosureCert.
Import ListNotations.

Definition nd (nodes : list cnode) (v : nat) : cnode := nth v nodes dummy_node.

(* a valuation gives every node a subset of Z *)
Definition valuation := nat -> Z -> Prop.

(* Membership derivable from the equations, where the operand of a complement is read from the fixed
   valuation [neg] (the "reduct" of the system): constants and edges of union nodes, all operands of an
   intersection node, the negated operand of a complement node.  Inductive = least. *)
Inductive lfp (nodes : list cnode) (neg : valuation) : nat -> Z -> Prop :=
| lfp_const v x : v < length nodes -> n_op (nd nodes v) = OpUnion -> den (n_val (nd nodes v)) x -> lfp nodes neg v x
| lfp_union v w x : v < length nodes -> n_op (nd nodes v) = OpUnion -> In w (n_edges (nd nodes v)) ->
    lfp nodes neg w x -> lfp nodes neg v x
| lfp_inter v x : v < length nodes -> n_op (nd nodes v) = OpIntersection ->
    (forall w, In w (n_edges (nd nodes v)) -> lfp nodes neg w x) -> lfp nodes neg v x
| lfp_compl v w x : v < length nodes -> n_op (nd nodes v) = OpComplement -> n_edges (nd nodes v) = [w] ->
    ~ neg w x -> lfp nodes neg v x.

(* THE solution of a system whose complements are not on dependency cycles: the valuation that is the least
   solution of its own reduct (stratified / stable solution; unique, see stable_unique) *)
Definition stable_solution (nodes : list cnode) (sol : valuation) : Prop :=
  forall v x, v < length nodes -> (sol v x <-> lfp nodes sol v x).

(* equational reading *)
Definition eqn_holds (nodes : list cnode) (sol : valuation) (v : nat) (x : Z) : Prop :=
  match n_op (nd nodes v) with
  | OpUnion => sol v x <-> den (n_val (nd nodes v)) x \/ exists w, In w (n_edges (nd nodes v)) /\ sol w x
  | OpIntersection => sol v x <-> forall w, In w (n_edges (nd nodes v)) -> sol w x
  | OpComplement => sol v x <-> exists w, n_edges (nd nodes v) = [w] /\ ~ sol w x
  end.

(* a valuation closed under the positive equations whose complement nodes contain the negation of [neg] *)
Definition pre_solution (nodes : list cnode) (neg sol : valuation) : Prop :=
  forall v x, v < length nodes ->
  match n_op (nd nodes v) with
  | OpUnion => (den (n_val (nd nodes v)) x -> sol v x) /\ (forall w, In w (n_edges (nd nodes v)) -> sol w x -> sol v x)
  | OpIntersection => (forall w, In w (n_edges (nd nodes v)) -> sol w x) -> sol v x
  | OpComplement => forall w, n_edges (nd nodes v) = [w] -> ~ neg w x -> sol v x
  end.

(* what Closure.Add / Intersect / Complement build: edges in range, sorted constants, no constant on
   intersection and complement nodes, exactly one operand of a complement *)
Definition node_ok (nodes : list cnode) (v : nat) : Prop :=
  wf (n_val (nd nodes v)) /\
  match n_op (nd nodes v) with
  | OpUnion => True
  | OpIntersection => forall x, ~ den (n_val (nd nodes v)) x
  | OpComplement => (forall x, ~ den (n_val (nd nodes v)) x) /\ exists w, n_edges (nd nodes v) = [w]
  end.

Definition nodes_wf (nodes : list cnode) : Prop :=
  graph_wf (closure_graph nodes) = true /\ forall v, v < length nodes -> node_ok nodes v.

(* the complement node v depends on itself *)
Definition compl_on_cycle (nodes : list cnode) (v : nat) : Prop :=
  v < length nodes /\ n_op (nd nodes v) = OpComplement /\
  exists w, n_edges (nd nodes v) = [w] /\ (w = v \/ greach (closure_graph nodes) w v).

(* the contract of graph.Tarjan as Closure uses it (checked by GraphSpec.check_scc / check_onstack, both
   proved sound): components = classes of mutual reachability, each vertex once, a component is reported
   after everything it depends on; onStack(w) for an edge leaving the component <-> w is in the component *)
Definition tarjan_cert (g : graph) (out : list (list nat * list bool)) : Prop :=
  scc_output_ok g (map fst out) /\
  forall comp on v w, In (comp, on) out -> In v comp -> In w (nth v g []) -> (nth w on false = true <-> In w comp).

Definition sol_of (st : cst) : valuation := fun v x => den (val_at st v) x.

