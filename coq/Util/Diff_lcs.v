(* LCS theory needed for Myers' algorithm: L (Util/Diff.v) is the maximum length of a common
   subsequence, hence symmetric under swapping and under reversal; consequences for the edit
   distance of prefixes (dist) and of suffixes (rdist). *)
From Coq Require Import List ZArith Bool Arith Lia.
From TM Require Import Lib.ListX Util.Diff Util.Diff_proofs.
Import ListNotations.
Local Open Scope Z_scope.

Inductive Sub : list Z -> list Z -> Prop :=
| Sub_nil l : Sub [] l
| Sub_take x s l : Sub s l -> Sub (x :: s) (x :: l)
| Sub_skip x s l : Sub s l -> Sub s (x :: l).

Lemma Sub_refl l : Sub l l.
Proof. induction l; constructor; auto. Qed.

Lemma Sub_tl s x l : Sub s (x :: l) -> Sub (tl s) l.
Proof.
  intro H. inversion H as [|? s' ? H'|? ? ? H']; subst; cbn [tl]; [constructor|exact H'|].
  clear H. induction H' as [l|y s' l H' IH|y s' l H' IH]; cbn [tl]; [constructor| |].
  - now apply Sub_skip.
  - now apply Sub_skip.
Qed.

Lemma Sub_app s1 l1 s2 l2 : Sub s1 l1 -> Sub s2 l2 -> Sub (s1 ++ s2) (l1 ++ l2).
Proof.
  intros H1 H2. induction H1 as [l|x s l H IH|x s l H IH]; cbn [app].
  - induction l as [|y l IHl]; [exact H2|now apply Sub_skip].
  - now apply Sub_take.
  - now apply Sub_skip.
Qed.

Lemma Sub_rev s l : Sub s l -> Sub (rev s) (rev l).
Proof.
  induction 1 as [l|x s l H IH|x s l H IH]; cbn [rev].
  - constructor.
  - apply Sub_app; [exact IH|apply Sub_refl].
  - rewrite <- (app_nil_r (rev s)). apply Sub_app; [exact IH|constructor].
Qed.

Lemma Sub_trans s l l' : Sub s l -> Sub l l' -> Sub s l'.
Proof.
  intros H1 H2. revert s H1. induction H2 as [l'|x l l' H IH|x l l' H IH]; intros s H1.
  - inversion H1; subst. constructor.
  - inversion H1; subst; [constructor|apply Sub_take; auto|apply Sub_skip; auto].
  - apply Sub_skip. auto.
Qed.

Lemma zlen_cons x (l : list Z) : zlen (x :: l) = 1 + zlen l.
Proof. unfold zlen. cbn [length]. lia. Qed.

Lemma zlen_nonneg (l : list Z) : 0 <= zlen l.
Proof. unfold zlen. lia. Qed.

Lemma zlen_tl (s : list Z) : zlen s <= 1 + zlen (tl s).
Proof. destruct s; cbn [tl]; [unfold zlen; cbn; lia|rewrite zlen_cons; lia]. Qed.

(* every common subsequence is at most L long *)
Lemma L_ub : forall a b s, Sub s a -> Sub s b -> zlen s <= L a b.
Proof.
  induction a as [|x a IHa]; intros b.
  { intros s Ha _. inversion Ha; subst. cbn. reflexivity. }
  induction b as [|y b IHb]; intros s Ha Hb.
  { inversion Hb; subst. cbn. reflexivity. }
  rewrite L_cons. destruct (x =? y) eqn:E.
  - pose proof (IHa b (tl s) (Sub_tl _ _ _ Ha) (Sub_tl _ _ _ Hb)). pose proof (zlen_tl s). lia.
  - apply Z.eqb_neq in E.
    inversion Ha as [|? s' ? Ha'|? ? ? Ha']; subst.
    + pose proof (L_nonneg a (y :: b)). cbn. lia.
    + inversion Hb as [|? ? ? Hb'|? ? ? Hb']; subst; [congruence|].
      pose proof (IHb (x :: s') Ha Hb'). lia.
    + pose proof (IHa (y :: b) s Ha' Hb). lia.
Qed.

(* and some common subsequence has length L *)
Lemma L_wit : forall a b, exists s, Sub s a /\ Sub s b /\ zlen s = L a b.
Proof.
  induction a as [|x a IHa]; intro b.
  { exists []. repeat split; constructor. }
  induction b as [|y b IHb].
  { exists []. repeat split; constructor. }
  rewrite L_cons. destruct (x =? y) eqn:E.
  - apply Z.eqb_eq in E. subst y. destruct (IHa b) as [s [H1 [H2 H3]]].
    exists (x :: s). repeat split; [now constructor|now constructor|rewrite zlen_cons; lia].
  - destruct (Z.le_ge_cases (L a (y :: b)) (L (x :: a) b)) as [Hle|Hge].
    + destruct IHb as [s [H1 [H2 H3]]]. exists s. repeat split; [exact H1|now apply Sub_skip|lia].
    + destruct (IHa (y :: b)) as [s [H1 [H2 H3]]]. exists s. repeat split; [now apply Sub_skip|exact H2|lia].
Qed.

Lemma L_mono a a' b b' : (forall s, Sub s a -> Sub s a') -> (forall s, Sub s b -> Sub s b') -> L a b <= L a' b'.
Proof.
  intros Ha Hb. destruct (L_wit a b) as [s [H1 [H2 <-]]]. apply L_ub; auto.
Qed.

Lemma L_comm a b : L a b = L b a.
Proof.
  apply Z.le_antisymm.
  - destruct (L_wit a b) as [s [H1 [H2 <-]]]. now apply L_ub.
  - destruct (L_wit b a) as [s [H1 [H2 <-]]]. now apply L_ub.
Qed.

Lemma zlen_rev (l : list Z) : zlen (rev l) = zlen l.
Proof. unfold zlen. now rewrite rev_length. Qed.

Lemma L_rev_le a b : L a b <= L (rev a) (rev b).
Proof.
  destruct (L_wit a b) as [s [H1 [H2 <-]]]. rewrite <- zlen_rev. apply L_ub; now apply Sub_rev.
Qed.

Lemma L_rev a b : L (rev a) (rev b) = L a b.
Proof.
  apply Z.le_antisymm; [|apply L_rev_le].
  pose proof (L_rev_le (rev a) (rev b)) as H. now rewrite !rev_involutive in H.
Qed.

(* snoc forms of the recursion *)
Lemma L_snoc_eq a b x : L (a ++ [x]) (b ++ [x]) = 1 + L a b.
Proof. rewrite <- L_rev, !rev_app_distr. cbn [rev app]. rewrite L_cons, Z.eqb_refl, L_rev. reflexivity. Qed.

Lemma L_snoc_neq a b x y : x <> y ->
  L (a ++ [x]) (b ++ [y]) = Z.max (L a (b ++ [y])) (L (a ++ [x]) b).
Proof.
  intro Hne. rewrite <- L_rev, !rev_app_distr. cbn [rev app]. rewrite L_cons.
  destruct (x =? y) eqn:E; [apply Z.eqb_eq in E; congruence|].
  rewrite <- (L_rev a (b ++ [y])), <- (L_rev (a ++ [x]) b), !rev_app_distr. reflexivity.
Qed.

Lemma L_suffix_common a b p : L (a ++ p) (b ++ p) = L a b + zlen p.
Proof. rewrite <- L_rev, !rev_app_distr, L_common, zlen_rev, L_rev. lia. Qed.

Lemma L_app_ge a1 a2 b1 b2 : L a1 b1 + L a2 b2 <= L (a1 ++ a2) (b1 ++ b2).
Proof.
  destruct (L_wit a1 b1) as [s1 [H1 [H2 <-]]]. destruct (L_wit a2 b2) as [s2 [H3 [H4 <-]]].
  rewrite <- zlen_app. apply L_ub; now apply Sub_app.
Qed.

Lemma L_le_len_l a b : L a b <= zlen a.
Proof.
  destruct (L_wit a b) as [s [H1 [_ <-]]]. clear b.
  induction H1; rewrite ?zlen_cons; try lia. apply zlen_nonneg.
Qed.

Lemma L_le_len_r a b : L a b <= zlen b.
Proof. rewrite L_comm. apply L_le_len_l. Qed.

(* single elements *)
Lemma L_single_in x b : In x b -> L [x] b = 1.
Proof.
  intro H. apply Z.le_antisymm; [apply (L_le_len_l [x] b)|].
  change 1 with (zlen [x]). apply L_ub; [apply Sub_refl|].
  induction b as [|y b IH]; [destruct H|]. destruct H as [->|H]; [apply Sub_take; constructor|apply Sub_skip; auto].
Qed.

Lemma Sub_In s l x : Sub s l -> In x s -> In x l.
Proof. induction 1; intro Hx; [destruct Hx|destruct Hx as [<-|Hx]; [now left|right; auto]|right; auto]. Qed.

Lemma L_single_notin x b : ~ In x b -> L [x] b = 0.
Proof.
  intro H. destruct (L_wit [x] b) as [s [H1 [H2 <-]]].
  destruct s as [|c s]; [reflexivity|]. exfalso. apply H.
  assert (c = x). { pose proof (Sub_In _ _ c H1 (or_introl eq_refl)) as Hi. destruct Hi as [->|[]]. reflexivity. }
  subst c. apply (Sub_In _ _ x H2). now left.
Qed.
