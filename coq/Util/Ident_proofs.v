From Coq Require Import List ZArith Bool Lia ZifyBool.
From TM Require Import Lex.Tables Util.Ident.
Import ListNotations.
Local Open Scope Z_scope.
Ltac Zify.zify_post_hook ::= Z.div_mod_to_equations.

(* [good buf]: every byte is an ASCII identifier character and the first one is not a digit *)
Definition good (buf : bytes) : Prop :=
  forallb id_char buf = true /\ match buf with c :: _ => is_digit c = false | [] => True end.

Lemma good_nil : good []. Proof. split; [reflexivity|exact I]. Qed.

Lemma good_app buf w : good buf -> forallb id_char w = true ->
  (buf = [] -> match w with c :: _ => is_digit c = false | [] => True end) -> good (buf ++ w).
Proof.
  intros [H1 H2] Hw Hfirst. split.
  - rewrite forallb_app, H1, Hw. reflexivity.
  - destruct buf as [|c buf]; [cbn; now apply Hfirst|exact H2].
Qed.

Lemma good_valid buf : good buf -> buf <> [] -> is_valid_ascii buf = true.
Proof.
  intros [H1 H2] Hne. destruct buf as [|c buf]; [congruence|].
  unfold is_valid_ascii. rewrite H2, H1. reflexivity.
Qed.

Lemma id_char_upper c : id_char c = true -> id_char (to_upper c) = true.
Proof. unfold id_char, to_upper, is_lower, is_upper_ascii, is_digit. intro H. destruct ((97 <=? c) && (c <=? 122)) eqn:E; lia. Qed.

Lemma lower_word_upper w : forallb is_lower w = true -> forallb id_char (map to_upper w) = true.
Proof.
  induction w as [|c w IH]; cbn [forallb map]; [reflexivity|]. rewrite andb_true_iff. intros [Hc Hw].
  rewrite IH by exact Hw. rewrite andb_true_r. apply id_char_upper.
  unfold id_char. rewrite Hc. reflexivity.
Qed.

Lemma lower_is_id w : forallb is_lower w = true -> forallb id_char w = true.
Proof.
  induction w as [|c w IH]; cbn [forallb]; [reflexivity|]. rewrite andb_true_iff. intros [Hc Hw].
  rewrite IH by exact Hw. unfold id_char. now rewrite Hc.
Qed.

(* words that can be passed to [write]: non-empty, first byte a lowercase letter, rest lowercase or digits *)
Definition wordok (w : bytes) : Prop :=
  match w with
  | c :: rest => is_lower c = true /\ forallb (fun x => is_lower x || is_digit x) rest = true
  | [] => False
  end.

Lemma char_name_ok r w : char_name r = Some w -> wordok w.
Proof.
  unfold char_name.
  repeat match goal with
  | |- (if ?c then _ else _) = _ -> _ => destruct c; [intros [= <-]; vm_compute; split; reflexivity|]
  end. discriminate.
Qed.

Lemma hex_digit_ok d : 0 <= d < 16 -> is_lower (hex_digit d) || is_digit (hex_digit d) = true.
Proof. unfold hex_digit, is_lower, is_digit. intro H. destruct (d <? 10) eqn:E; lia. Qed.

Lemma hex_word_ok r : 0 <= r -> wordok (hex_word r).
Proof.
  intro Hr. unfold hex_word. destruct (r <=? 255) eqn:E; cbn [wordok forallb].
  - split; [reflexivity|]. rewrite !hex_digit_ok by lia. reflexivity.
  - split; [reflexivity|]. rewrite !hex_digit_ok by lia. reflexivity.
Qed.

Lemma wordok_id w : wordok w -> forallb id_char w = true /\ forallb id_char (map to_upper w) = true.
Proof.
  destruct w as [|c rest]; [intros []|]. intros [Hc Hrest]. change (is_lower c = true) in Hc.
  assert (H1 : forallb id_char rest = true).
  { clear Hc. induction rest as [|x rest IH]; [reflexivity|]. cbn [forallb] in *.
    apply andb_true_iff in Hrest as [Hx Hr]. rewrite IH by exact Hr. unfold id_char.
    apply orb_true_iff in Hx as [Hx|Hx]; rewrite Hx; cbn; rewrite ?orb_true_r; reflexivity. }
  split.
  - cbn [forallb]. rewrite H1. unfold id_char. now rewrite Hc.
  - cbn [forallb map]. rewrite andb_true_iff. split.
    + apply id_char_upper. unfold id_char. now rewrite Hc.
    + clear Hc Hrest. induction rest as [|x rest IH]; [reflexivity|]. cbn [forallb map] in *.
      apply andb_true_iff in H1 as [Hx Hr]. rewrite IH by exact Hr. now rewrite (id_char_upper x Hx).
Qed.

Lemma lower_not_digit c : is_lower c = true -> is_digit c = false /\ is_digit (to_upper c) = false.
Proof. unfold to_upper, is_digit. intro H. rewrite H. unfold is_lower in H. lia. Qed.

Lemma write_good st buf w : good buf -> wordok w -> good (write st buf w) /\ write st buf w <> [].
Proof.
  intros Hg Hw. destruct (wordok_id w Hw) as [Hid Hup].
  destruct w as [|c rest]; [destruct Hw|]. destruct Hw as [Hc Hrest]. change (is_lower c = true) in Hc.
  destruct (lower_not_digit c Hc) as [Hnd Hnd'].
  cbn [forallb] in Hid. apply andb_true_iff in Hid as [Hidc Hidrest].
  assert (Hne : forall (a b : bytes) x, a ++ x :: b <> []) by (intros [|? ?] ? ?; discriminate).
  destruct st; cbn [write].
  - rewrite orb_true_r. split; [|apply Hne].
    apply good_app; [exact Hg| |intros _; exact Hnd'].
    cbn [forallb]. rewrite Hidrest, (id_char_upper c Hidc). reflexivity.
  - rewrite orb_false_r. destruct (nonempty buf) eqn:E.
    + split; [|apply Hne]. apply good_app; [exact Hg| |intros _; exact Hnd'].
      cbn [forallb]. rewrite Hidrest, (id_char_upper c Hidc). reflexivity.
    + split; [|apply Hne]. apply good_app; [exact Hg| |intros _; exact Hnd].
      cbn [forallb]. now rewrite Hidrest, Hidc.
  - split; [|cbn [map]; apply Hne]. apply good_app; [exact Hg|exact Hup|intros _; exact Hnd'].
  - split; [|cbn [map]; apply Hne]. apply good_app; [|exact Hup|].
    + destruct (nonempty buf) eqn:E; [|exact Hg].
      apply good_app; [exact Hg|reflexivity|]. intro Hb. subst buf. discriminate.
    + intro Hb. destruct (nonempty buf); [destruct buf; discriminate|]. exact Hnd'.
Qed.

Lemma alnum_chars r : is_alnum r = true ->
  id_char (to_upper r) = true /\ id_char (to_lower r) = true /\
  (is_digit r = false -> is_digit (to_upper r) = false /\ is_digit (to_lower r) = false).
Proof.
  unfold is_alnum, id_char, to_upper, to_lower, is_lower, is_upper_ascii, is_digit. intro H.
  destruct ((97 <=? r) && (r <=? 122)) eqn:E1; destruct ((65 <=? r) && (r <=? 90)) eqn:E2; lia.
Qed.

Lemma nonempty_spec (b : bytes) : nonempty b = true <-> b <> [].
Proof. destruct b; cbn; split; congruence. Qed.

Lemma produce_step_good st q r prev next buf cont : 0 <= r -> good buf ->
  good (fst (produce_step st q r prev next buf cont)).
Proof.
  intros Hr Hg. unfold produce_step.
  destruct (is_alnum r) eqn:Ea.
  - destruct (alnum_chars r Ea) as [Hu [Hl Hd]]. cbn [fst].
    match goal with |- context [if ?c then buf ++ [95] else buf] => set (cnd := c) end.
    assert (Hg1 : good (if cnd then buf ++ [95] else buf)).
    { destruct cnd; [|exact Hg]. apply good_app; [exact Hg|reflexivity|intros _; reflexivity]. }
    assert (Hfirst : (if cnd then buf ++ [95] else buf) = [] -> is_digit r = false).
    { unfold cnd. destruct (nonempty buf) eqn:En.
      - rewrite andb_false_l, orb_false_r.
        destruct (_ && _); intro H; destruct buf; discriminate.
      - cbn [negb andb]. rewrite andb_false_r. cbn [orb]. destruct (is_digit r); [|reflexivity].
        intro H. destruct buf; discriminate. }
    match goal with |- good (if ?c then _ else _) => destruct c end;
      (apply good_app; [exact Hg1|cbn [forallb]; now rewrite ?Hu, ?Hl|]);
      intro He; destruct (Hd (Hfirst He)) as [H1 H2]; assumption.
  - destruct (negb q).
    + cbn [fst]. destruct (_ || _); [|exact Hg].
      apply good_app; [exact Hg|reflexivity|intros _; reflexivity].
    + destruct (r =? 95).
      * cbn [fst]. apply good_app; [exact Hg|reflexivity|intros _; reflexivity].
      * cbn [fst]. apply write_good; [exact Hg|].
        destruct (char_name r) as [w|] eqn:Ec; [now apply (char_name_ok r)|now apply hex_word_ok].
Qed.

Definition byte_list (l : bytes) : Prop := Forall (fun b => 0 <= b < 256) l.

Lemma decode_rune_nonneg s : byte_list s -> 0 <= fst (decode_rune s).
Proof.
  intro H. unfold decode_rune, rune_error, cont.
  destruct s as [|b0 r]; [cbn; lia|]. inversion H as [|? ? H0 Hr]; subst.
  destruct (b0 <? 128) eqn:E1; [cbn; lia|].
  destruct (b0 <? 194) eqn:E2; [cbn; lia|].
  destruct (b0 <? 224) eqn:E3.
  { destruct r as [|b1 r]; [cbn; lia|]. destruct ((128 <=? b1) && (b1 <=? 191)) eqn:E; cbn [fst]; lia. }
  destruct (b0 <? 240) eqn:E4.
  { destruct r as [|b1 [|b2 r]]; try (cbn; lia).
    match goal with |- context [if ?c then _ else _] => destruct c eqn:E end; cbn [fst]; [|lia].
    destruct (b0 =? 224), (b0 =? 237); lia. }
  destruct (b0 <? 245) eqn:E5; [|cbn; lia].
  destruct r as [|b1 [|b2 [|b3 r]]]; try (cbn; lia).
  match goal with |- context [if ?c then _ else _] => destruct c eqn:E end; cbn [fst]; [|lia].
  destruct (b0 =? 240), (b0 =? 244); lia.
Qed.

Lemma byte_list_skipn n s : byte_list s -> byte_list (skipn n s).
Proof.
  unfold byte_list. rewrite !Forall_forall. intros H x Hx. apply H.
  rewrite <- (firstn_skipn n s). apply in_or_app. now right.
Qed.

Lemma produce_loop_good st q : forall fuel prev rest buf cont,
  byte_list rest -> good buf -> good (produce_loop fuel st q prev rest buf cont).
Proof.
  induction fuel as [|f IH]; intros prev rest buf cont Hb Hg; cbn [produce_loop]; [exact Hg|].
  destruct rest as [|b rest']; [exact Hg|].
  destruct (decode_rune (b :: rest')) as [r w] eqn:Ed.
  pose proof (decode_rune_nonneg _ Hb) as Hr. rewrite Ed in Hr. cbn [fst] in Hr.
  destruct (produce_step st q r prev (hd_error (skipn w (b :: rest'))) buf cont) as [buf' cont'] eqn:Es.
  apply IH; [now apply byte_list_skipn|].
  pose proof (produce_step_good st q r prev (hd_error (skipn w (b :: rest'))) buf cont Hr Hg) as H.
  now rewrite Es in H.
Qed.

Lemma byte_list_removelast s : byte_list s -> byte_list (removelast s).
Proof.
  unfold byte_list. rewrite !Forall_forall. intros H x Hx. apply H.
  destruct s as [|a s]; [destruct Hx|]. 
  assert (a :: s <> []) by discriminate. rewrite (app_removelast_last 0 H0). apply in_or_app. now left.
Qed.

Lemma unescape_bytes body : byte_list body -> byte_list (unescape body).
Proof.
  intro Hb. unfold unescape.
  destruct body as [|x [|c [|? ?]]]; try exact Hb.
  destruct (_ && _); [|exact Hb].
  inversion Hb as [|? ? _ H2]; subst. inversion H2; subst. now constructor.
Qed.

Lemma init_buf_good st body : good (init_buf st body).
Proof.
  unfold init_buf. destruct body as [|c [|? ?]]; try apply good_nil.
  destruct (char_name (fst (decode_rune [c]))); [apply good_nil|].
  assert (Hw : wordok [99; 104; 97; 114]) by (vm_compute; split; reflexivity).
  destruct (write_good st [] _ good_nil Hw) as [Hg Hne].
  destruct (_ || _); [|exact Hg].
  apply good_app; [exact Hg|reflexivity|]. intro He. contradiction.
Qed.

(* Every identifier produced from a byte string, in every style, consists of ASCII letters, digits and '_'
   and does not start with a digit; so it is valid in all targets as soon as it is non-empty. *)
Theorem produce_good name st : byte_list name -> good (produce name st).
Proof.
  intro Hb. unfold produce.
  destruct (strip_quotes name) as [body|] eqn:Es.
  - assert (Hbody : byte_list body).
    { unfold strip_quotes in Es. destruct name as [|q rest]; [discriminate|].
      destruct (_ && _) in Es; [|discriminate]. injection Es as <-.
      apply byte_list_removelast. now inversion Hb. }
    destruct (_ && style_eqb st UpperCase); [vm_compute; split; reflexivity|].
    apply produce_loop_good; [now apply unescape_bytes|apply init_buf_good].
  - apply produce_loop_good; [exact Hb|apply good_nil].
Qed.

Corollary produce_valid name st : byte_list name -> produce name st <> [] ->
  is_valid_ascii (produce name st) = true.
Proof. intros Hb Hne. apply good_valid; [now apply produce_good|exact Hne]. Qed.

(* ================= non-emptiness ================= *)
Definition extends (buf x : bytes) : Prop := exists s, x = buf ++ s.

Lemma extends_refl b : extends b b. Proof. exists []. now rewrite app_nil_r. Qed.
Lemma extends_app b s : extends b (b ++ s). Proof. now exists s. Qed.
Lemma extends_trans a b c : extends a b -> extends b c -> extends a c.
Proof. intros [s ->] [s' ->]. exists (s ++ s'). now rewrite app_assoc. Qed.
Lemma extends_nonempty a b : extends a b -> a <> [] -> b <> [].
Proof. intros [s ->] H. destruct a; [congruence|discriminate]. Qed.

Lemma write_extends st buf w : extends buf (write st buf w).
Proof.
  unfold write. destruct st.
  - destruct (_ || _); [destruct w; [apply extends_refl|apply extends_app]|apply extends_app].
  - destruct (_ || _); [destruct w; [apply extends_refl|apply extends_app]|apply extends_app].
  - apply extends_app.
  - destruct (nonempty buf); [rewrite <- app_assoc|]; apply extends_app.
Qed.

Lemma write_nonempty st buf w : w <> [] -> write st buf w <> [].
Proof.
  intro Hw. destruct w as [|c rest]; [congruence|].
  assert (Hne : forall (a b : bytes) x, a ++ x :: b <> []) by (intros [|? ?] ? ?; discriminate).
  unfold write. destruct st.
  - destruct (_ || _); apply Hne.
  - destruct (_ || _); apply Hne.
  - cbn [map]. apply Hne.
  - cbn [map]. apply Hne.
Qed.

Lemma step_extends st q r prev next buf cont : extends buf (fst (produce_step st q r prev next buf cont)).
Proof.
  unfold produce_step. destruct (is_alnum r).
  - cbn [fst]. match goal with |- context [if ?c then buf ++ [95] else buf] => destruct c end;
    match goal with |- extends _ (if ?c then _ else _) => destruct c end;
    try (rewrite <- app_assoc); apply extends_app.
  - destruct (negb q); [cbn [fst]; destruct (_ || _); [apply extends_app|apply extends_refl]|].
    destruct (r =? 95); cbn [fst]; [apply extends_app|apply write_extends].
Qed.

Lemma app_ne {A} (a : list A) x : a ++ [x] <> [].
Proof. destruct a; discriminate. Qed.

(* inside quotes every rune contributes at least one byte *)
Lemma step_quoted_nonempty st r prev next buf cont : 0 <= r ->
  fst (produce_step st true r prev next buf cont) <> [].
Proof.
  intro Hr. unfold produce_step. destruct (is_alnum r).
  - cbn [fst]. match goal with |- (if ?c then _ else _) <> [] => destruct c end; apply app_ne.
  - cbn [negb]. destruct (r =? 95); cbn [fst]; [apply app_ne|].
    apply write_nonempty. destruct (char_name r) as [w|] eqn:E.
    + pose proof (char_name_ok r w E) as H. destruct w; [destruct H|discriminate].
    + unfold hex_word. destruct (r <=? 255); discriminate.
Qed.

(* an ASCII letter or digit contributes at least one byte, quoted or not *)
Lemma step_alnum_nonempty st q r prev next buf cont : is_alnum r = true ->
  fst (produce_step st q r prev next buf cont) <> [].
Proof.
  intro Ha. unfold produce_step. rewrite Ha. cbn [fst].
  match goal with |- (if ?c then _ else _) <> [] => destruct c end; apply app_ne.
Qed.

Lemma loop_extends st q : forall fuel prev rest buf cont,
  extends buf (produce_loop fuel st q prev rest buf cont).
Proof.
  induction fuel as [|f IH]; intros prev rest buf cont; cbn [produce_loop]; [apply extends_refl|].
  destruct rest as [|b rest']; [apply extends_refl|].
  destruct (decode_rune (b :: rest')) as [r w].
  destruct (produce_step st q r prev (hd_error (skipn w (b :: rest'))) buf cont) as [buf' cont'] eqn:Es.
  eapply extends_trans; [|apply IH].
  pose proof (step_extends st q r prev (hd_error (skipn w (b :: rest'))) buf cont) as H. now rewrite Es in H.
Qed.

Lemma produce_loop_cons f st q prev b rest' buf cont :
  produce_loop (S f) st q prev (b :: rest') buf cont =
  let '(r, w) := decode_rune (b :: rest') in
  let after := skipn w (b :: rest') in
  let '(buf', cont') := produce_step st q r prev (hd_error after) buf cont in
  produce_loop f st q (Some (last (firstn w (b :: rest')) 0)) after buf' cont'.
Proof. reflexivity. Qed.

(* quoted names (more than the two quote characters) never give the empty identifier *)
Theorem produce_quoted_nonempty name st body : byte_list name -> strip_quotes name = Some body ->
  produce name st <> [].
Proof.
  intros Hb Hs. unfold produce. rewrite Hs.
  destruct (_ && _); [discriminate|].
  assert (Hbody : body <> [] /\ byte_list body).
  { unfold strip_quotes in Hs. destruct name as [|q rest]; [discriminate|].
    destruct ((2 <? Z.of_nat (length (q :: rest))) && _ && _) eqn:E; [|discriminate]. injection Hs as <-.
    split; [|apply byte_list_removelast; now inversion Hb].
    destruct rest as [|a [|b rest']]; cbn [length] in E; [cbn in E; discriminate|cbn in E; discriminate|].
    cbn [removelast]. discriminate. }
  destruct Hbody as [Hne Hbl].
  assert (Hu : unescape body <> [] /\ byte_list (unescape body)).
  { split; [|now apply unescape_bytes]. unfold unescape.
    destruct body as [|x [|c [|? ?]]]; try discriminate; try congruence. destruct (_ && _); discriminate. }
  destruct Hu as [Hune Hubl].
  destruct (unescape body) as [|b rest'] eqn:Eu; [congruence|].
  rewrite produce_loop_cons.
  destruct (decode_rune (b :: rest')) as [r w] eqn:Ed.
  pose proof (decode_rune_nonneg _ Hubl) as Hr. rewrite Ed in Hr. cbn [fst] in Hr. cbn zeta.
  destruct (produce_step st true r None (hd_error (skipn w (b :: rest'))) (init_buf st (b :: rest')) false) as [buf' cont'] eqn:Es.
  eapply extends_nonempty; [apply loop_extends|].
  pose proof (step_quoted_nonempty st r None (hd_error (skipn w (b :: rest'))) (init_buf st (b :: rest')) false Hr) as H.
  now rewrite Es in H.
Qed.

(* decoding never swallows an ASCII byte into a multi-byte rune *)
Lemma decode_keeps_ascii s c : In c s -> c < 128 ->
  (exists rest, s = c :: rest /\ decode_rune s = (c, 1%nat)) \/ In c (skipn (snd (decode_rune s)) s).
Proof.
  intros Hin Hc. unfold decode_rune, cont.
  destruct s as [|b0 r]; [destruct Hin|].
  destruct (b0 <? 128) eqn:E1.
  { destruct Hin as [->|Hin]; [left; eauto|right; exact Hin]. }
  assert (Hne : c <> b0) by lia.
  assert (Hr : In c r) by (destruct Hin; [congruence|assumption]).
  right.
  destruct (b0 <? 194); [exact Hr|].
  destruct (b0 <? 224).
  { destruct r as [|b1 r']; [exact Hr|]. destruct ((128 <=? b1) && (b1 <=? 191)) eqn:E; [|exact Hr].
    cbn [snd skipn]. destruct Hr as [->|Hr]; [lia|exact Hr]. }
  destruct (b0 <? 240).
  { destruct r as [|b1 [|b2 r']]; try exact Hr.
    match goal with |- context [if ?x then _ else _] => destruct x eqn:E end; [|exact Hr].
    cbn [snd skipn]. destruct (b0 =? 224), (b0 =? 237); (destruct Hr as [->|[->|Hr]]; [lia|lia|exact Hr]). }
  destruct (b0 <? 245); [|exact Hr].
  destruct r as [|b1 [|b2 [|b3 r']]]; try exact Hr.
  match goal with |- context [if ?x then _ else _] => destruct x eqn:E end; [|exact Hr].
  cbn [snd skipn]. destruct (b0 =? 240), (b0 =? 244); (destruct Hr as [->|[->|[->|Hr]]]; [lia|lia|lia|exact Hr]).
Qed.

Lemma decode_width_pos s : s <> [] -> (1 <= snd (decode_rune s))%nat.
Proof.
  intro H. unfold decode_rune. destruct s as [|b0 r]; [congruence|].
  repeat match goal with
  | |- context [if ?c then _ else _] => destruct c
  | |- context [match ?l with [] => _ | _ :: _ => _ end] => destruct l
  end; cbn [snd]; lia.
Qed.

Lemma alnum_ascii c : is_alnum c = true -> c < 128.
Proof. unfold is_alnum, is_lower, is_upper_ascii, is_digit. lia. Qed.

Lemma loop_alnum_nonempty st q : forall fuel prev rest buf cont c,
  (length rest < fuel)%nat -> In c rest -> is_alnum c = true ->
  produce_loop fuel st q prev rest buf cont <> [].
Proof.
  induction fuel as [|f IH]; intros prev rest buf cont c Hf Hin Ha; [lia|].
  cbn [produce_loop]. destruct rest as [|b rest']; [destruct Hin|].
  destruct (decode_keeps_ascii (b :: rest') c Hin (alnum_ascii c Ha)) as [[tl [Heq Hd]]|Hskip].
  - rewrite Hd. injection Heq as -> ->.
    destruct (produce_step st q c prev (hd_error (skipn 1 (c :: tl))) buf cont) as [buf' cont'] eqn:Es.
    eapply extends_nonempty; [apply loop_extends|].
    pose proof (step_alnum_nonempty st q c prev (hd_error (skipn 1 (c :: tl))) buf cont Ha) as H. now rewrite Es in H.
  - destruct (decode_rune (b :: rest')) as [r w] eqn:Ed. cbn [snd] in Hskip.
    destruct (produce_step st q r prev (hd_error (skipn w (b :: rest'))) buf cont) as [buf' cont'] eqn:Es.
    apply (IH _ _ _ _ c); [|exact Hskip|exact Ha].
    pose proof (decode_width_pos (b :: rest') ltac:(discriminate)) as Hw. rewrite Ed in Hw. cbn [snd] in Hw.
    rewrite skipn_length. cbn [length] in *. lia.
Qed.

(* a name containing an ASCII letter or digit never gives the empty identifier (quoted or not) *)
Theorem produce_alnum_nonempty name st c : byte_list name -> In c name -> is_alnum c = true ->
  strip_quotes name = None -> produce name st <> [].
Proof.
  intros Hb Hin Ha Hs. unfold produce. rewrite Hs. apply (loop_alnum_nonempty st false _ _ _ _ _ c); [lia|exact Hin|exact Ha].
Qed.

(* ================= resolver: identifiers are unique unless an error was reported ================= *)
Lemma bytes_eqb_eq a : forall b, bytes_eqb a b = true <-> a = b.
Proof.
  induction a as [|x a IH]; destruct b as [|y b]; cbn [bytes_eqb]; try (split; discriminate); [tauto|].
  rewrite andb_true_iff, Z.eqb_eq, IH. split; [intros [-> ->]; reflexivity|intros [= -> ->]; auto].
Qed.

Definition ids_injective (l : list (bytes * bytes)) : Prop :=
  forall e1 e2, In e1 l -> In e2 l -> fst e1 = fst e2 -> e1 = e2.

Definition declare_all (s : rstate) (ds : list (bytes * style)) : rstate :=
  fold_left (fun s d => declare s (fst d) (snd d)) ds s.

Lemma declare_errors_mono s name st : (r_errors s <= r_errors (declare s name st))%nat.
Proof. unfold declare. destruct (existsb _ _); [lia|]. cbn [r_errors]. lia. Qed.

Lemma declare_all_errors_mono ds : forall s, (r_errors s <= r_errors (declare_all s ds))%nat.
Proof.
  induction ds as [|d ds IH]; intro s; cbn [declare_all fold_left]; [lia|].
  etransitivity; [apply (declare_errors_mono s (fst d) (snd d))|apply IH].
Qed.

Lemma declare_injective s name st : ids_injective (r_ids s) ->
  r_errors (declare s name st) = r_errors s -> ids_injective (r_ids (declare s name st)).
Proof.
  intros Hinj Herr. unfold declare in *. destruct (existsb (fun e => bytes_eqb (snd e) name) (r_ids s)); [exact Hinj|].
  cbn [r_ids r_errors] in *.
  destruct (existsb (fun e => bytes_eqb (fst e) (produce name st)) (r_ids s)) eqn:E; [lia|].
  assert (Hnew : forall e, In e (r_ids s) -> fst e <> produce name st).
  { intros e He Heq. assert (existsb (fun e => bytes_eqb (fst e) (produce name st)) (r_ids s) = true).
    { apply existsb_exists. exists e. split; [exact He|]. now apply bytes_eqb_eq. } congruence. }
  intros e1 e2 [<-|H1] [<-|H2] Heq; cbn [fst] in *.
  - reflexivity.
  - exfalso. apply (Hnew e2 H2). now symmetry.
  - exfalso. now apply (Hnew e1 H1).
  - now apply Hinj.
Qed.

(* after any sequence of declarations that reported no ID clash, distinct symbols have distinct IDs *)
Theorem resolver_injective ds : forall s, ids_injective (r_ids s) ->
  r_errors (declare_all s ds) = r_errors s -> ids_injective (r_ids (declare_all s ds)).
Proof.
  induction ds as [|d ds IH]; intros s Hinj Herr; [exact Hinj|].
  change (declare_all s (d :: ds)) with (declare_all (declare s (fst d) (snd d)) ds) in *.
  pose proof (declare_errors_mono s (fst d) (snd d)) as H1.
  pose proof (declare_all_errors_mono ds (declare s (fst d) (snd d))) as H2.
  apply IH; [apply declare_injective; [exact Hinj|lia]|lia].
Qed.
