(* Model of the position arithmetic behind every compiler diagnostic:
     parsers/tm/ast/tree.go   lineOffsets, Node.LineColumn (sort.Search over the line table)
     parsers/tm/ast/tree_ext.go Node.SourceRange
     status/status.go         Error, Status.AddError, FromError, Status.Err
     compiler/compiler.go     the way Compile hands errors back (syntax error of the tm front-end vs the
                              accumulated status)
   Texts are lists of bytes (Z). No proofs here. *)
From Coq Require Import List ZArith Bool.
Import ListNotations.
Local Open Scope Z_scope.

Definition NL : Z := 10.

(* ---- the specification: scan the first n bytes, counting lines and bytes since the line start ---- *)
Fixpoint lc_scan (s : list Z) (n : nat) (line col : Z) : Z * Z :=
  match n, s with
  | S k, c :: t => if c =? NL then lc_scan t k (line + 1) 1 else lc_scan t k line (col + 1)
  | _, _ => (line, col)
  end.

(* 1-based line and 1-based byte column of a byte offset *)
Definition line_col (s : list Z) (off : Z) : Z * Z := lc_scan s (Z.to_nat off) 1 1.

(* ---- lineOffsets: offsets at which lines start (0, and every offset following a '\n') ---- *)
Fixpoint lines_from (s : list Z) (pos : Z) : list Z :=
  match s with
  | [] => []
  | c :: t => if c =? NL then (pos + 1) :: lines_from t (pos + 1) else lines_from t (pos + 1)
  end.

Definition line_offsets (s : list Z) : list Z := 0 :: lines_from s 0.

Definition nthZ (l : list Z) (i : Z) : Z := nth (Z.to_nat i) l 0.

(* ---- sort.Search(n, f): binary search for the smallest index in [0, n) at which f holds ---- *)
Fixpoint search (fuel : nat) (f : Z -> bool) (i j : Z) : Z :=
  match fuel with
  | O => i
  | S k =>
    if i <? j then
      let h := (i + j) / 2 in
      if f h then search k f i h else search k f (h + 1) j
    else i
  end.

(* ---- Node.LineColumn; None = the slice index lines[-1] would panic ---- *)
Definition line_column (lines : list Z) (offset : Z) : option (Z * Z) :=
  let n := Z.of_nat (length lines) in
  let line := search (length lines) (fun i => offset <? nthZ lines i) 0 n - 1 in
  if (line <? 0) || (n <=? line) then None
  else Some (line + 1, offset - nthZ lines line + 1).

(* ---- status.SourceRange / status.Error ---- *)
Record source_range := mkSR { sr_file : list Z; sr_off : Z; sr_end : Z; sr_line : Z; sr_col : Z }.
Record serror := mkErr { e_origin : source_range; e_msg : list Z }.
Definition empty_range := mkSR [] 0 0 0 0.

(* an AST node as far as diagnostics are concerned *)
Record node := mkNode { n_off : Z; n_end : Z }.

(* Node.SourceRange: a nil node gives the zero range; None = panic inside LineColumn *)
Definition node_source_range (path lines : list Z) (n : option node) : option source_range :=
  match n with
  | None => Some empty_range
  | Some nd =>
    match line_column lines (n_off nd) with
    | Some (l, c) => Some (mkSR path (n_off nd) (n_end nd) l c)
    | None => None
    end
  end.

(* Go error values that reach status.AddError *)
Inductive go_error :=
| ENil
| EStatus (l : list serror)
| EOne (e : serror)
| EOther (msg : list Z).       (* any other error type, e.g. tm.SyntaxError *)

Definition add_error (s : list serror) (e : go_error) : list serror :=
  match e with
  | ENil => s
  | EStatus l => s ++ l
  | EOne x => s ++ [x]
  | EOther m => s ++ [mkErr empty_range m]     (* "I/O errors don't originate in source code" *)
  end.

Definition from_error (e : go_error) : list serror := add_error [] e.

Definition status_err (s : list serror) : go_error :=
  match s with [] => ENil | _ => EStatus s end.

(* ---- strings.LastIndexByte(s, '\n') ---- *)
Fixpoint last_index_from (s : list Z) (pos acc : Z) : Z :=
  match s with
  | [] => acc
  | c :: t => last_index_from t (pos + 1) (if c =? NL then pos else acc)
  end.
Definition last_index_nl (s : list Z) : Z := last_index_from s 0 (-1).

(* ---- compiler.Compile as far as error construction goes ---- *)
Record syntax_error := mkSE { se_line : Z; se_off : Z; se_end : Z }.

Inductive front_end_result :=
| ParseFail (se : syntax_error)                          (* ast.Parse returned tm.SyntaxError *)
| ParseOk (diags : list (option node * list Z)).         (* nodes handed to Status.Errorf by the passes *)

Definition syntax_error_msg : list Z := [115;121;110;116;97;120;32;101;114;114;111;114]. (* "syntax error" *)

(* the pinned tree: `return nil, err` with the raw tm.SyntaxError *)
Definition compile_pinned (path content : list Z) (r : front_end_result) : option go_error :=
  match r with
  | ParseFail se => Some (EOther syntax_error_msg)
  | ParseOk ds =>
    let lines := line_offsets content in
    let step acc d :=
      match acc, node_source_range path lines (fst d) with
      | Some s, Some rg => Some (s ++ [mkErr rg (snd d)])
      | _, _ => None
      end in
    option_map status_err (fold_left step ds (Some []))
  end.

(* the repaired tree: the syntax error is wrapped with its position *)
Definition syntax_error_range (path content : list Z) (se : syntax_error) : source_range :=
  mkSR path (se_off se) (se_end se) (se_line se)
       (se_off se - last_index_nl (firstn (Z.to_nat (se_off se)) content)).

Definition compile (path content : list Z) (r : front_end_result) : option go_error :=
  match r with
  | ParseFail se => Some (EOne (mkErr (syntax_error_range path content se) syntax_error_msg))
  | ParseOk _ => compile_pinned path content r
  end.

(* ---- boolean range check used by the oracle glue (the Prop version is in LineCol_proofs) ---- *)
Definition wellformedb (path content : list Z) (r : source_range) : bool :=
  let '(l, c) := line_col content (sr_off r) in
  (0 <=? sr_off r) && (sr_off r <=? sr_end r) && (sr_end r <=? Z.of_nat (length content))
  && (sr_line r =? l) && (sr_col r =? c) && (1 <=? sr_line r) && (1 <=? sr_col r)
  && (if list_eq_dec Z.eq_dec (sr_file r) path then true else false).
