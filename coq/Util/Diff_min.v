(* Minimality of the script produced by trace / lcs, for ANY middle-snake oracle whose snakes split the
   problem optimally (mid_optimal); Myers' search is shown to be such an oracle in Util/Diff_myers.v. *)
From Coq Require Import List ZArith Bool Arith Lia.
From TM Require Import Lib.ListX Util.Diff Util.Diff_proofs Util.Diff_lcs.
Import ListNotations.
Local Open Scope Z_scope.

Definition mid_optimal (mid : list Z -> list Z -> list Z -> mid_result) : Prop :=
  forall a b buf ai bi s buf', 2 <= zlen a -> 2 <= zlen b ->
  2 * (zlen a + zlen b + 2) <= zlen buf ->
  mid a b buf = MidFound ai bi s buf' ->
  zlen buf' = zlen buf /\
  (0 <= ai -> 0 <= bi -> 0 <= s -> ai + s <= zlen a -> bi + s <= zlen b ->
   L a b = L (sub a 0 ai) (sub b 0 bi) + s + L (sub a (ai + s) (zlen a)) (sub b (bi + s) (zlen b))).

(* cost as a structural sum *)
Definition cst (chunks : list chunk) : Z := fold_right (fun c s => c_del c + c_ins c + s) 0 chunks.

Lemma dels_inss_cst chunks : dels chunks + inss chunks = cst chunks.
Proof.
  induction chunks as [|c r IH]; [reflexivity|].
  change (dels (c :: r)) with (c_del c + dels r). change (inss (c :: r)) with (c_ins c + inss r).
  change (cst (c :: r)) with (c_del c + c_ins c + cst r). lia.
Qed.

Lemma cost_cst chunks : cost chunks = cst chunks.
Proof. unfold cost. rewrite cost_fold, <- dels_inss_cst. lia. Qed.

Lemma cst_cons c x : cst (c :: x) = c_del c + c_ins c + cst x.
Proof. reflexivity. Qed.

Lemma cst_app x y : cst (x ++ y) = cst x + cst y.
Proof. induction x as [|c x IH]; [reflexivity|]. cbn [app]. rewrite !cst_cons, IH. lia. Qed.

Lemma cst_rev x : cst (rev x) = cst x.
Proof. induction x as [|c x IH]; cbn [rev]; [reflexivity|]. rewrite cst_app, IH, !cst_cons. cbn. lia. Qed.

Lemma merge_loop_cst : forall chunks acc,
  cst (fold_left (fun ret c =>
    match ret with
    | last :: ret' =>
        if (c_eq last =? 0) || ((c_ins c =? 0) && (c_del c =? 0))
        then mkChunk (c_del last + c_del c) (c_ins last + c_ins c) (c_eq last + c_eq c) :: ret'
        else c :: ret
    | [] => [c]
    end) chunks acc) = cst acc + cst chunks.
Proof.
  induction chunks as [|c chunks IH]; intro acc; cbn [fold_left].
  - change (cst []) with 0. lia.
  - rewrite IH, (cst_cons c chunks). destruct acc as [|last acc'].
    + rewrite cst_cons. change (cst []) with 0. lia.
    + destruct ((c_eq last =? 0) || ((c_ins c =? 0) && (c_del c =? 0))); rewrite !cst_cons; cbn [c_del c_ins]; lia.
Qed.

Lemma merge_chunks_cost chunks : cost (merge_chunks chunks) = cost chunks.
Proof. rewrite !cost_cst. unfold merge_chunks. rewrite cst_rev, merge_loop_cst. change (cst []) with 0. lia. Qed.

Lemma find_index_none v l : forall i, find_index v l i = None -> ~ In v l.
Proof.
  induction l as [|x l IH]; intros i H; cbn [find_index] in H; [intros []|].
  destruct (x =? v) eqn:E; [discriminate|]. apply Z.eqb_neq in E.
  intros [Hx|Hx]; [congruence|]. eapply IH; eauto.
Qed.

Lemma find_index_some_in v l i k : find_index v l i = Some k -> In v l.
Proof.
  intro H. destruct (find_index_spec _ _ _ _ H) as [Hr Hn]. rewrite <- Hn. apply nth_In. unfold zlen in Hr. lia.
Qed.

Ltac cst_simp := rewrite ?cst_cons; change (cst []) with 0; cbn [c_del c_ins]; rewrite ?zlen_cons; change (zlen (@nil Z)) with 0.

Section TraceCost.
Variable mid : list Z -> list Z -> list Z -> mid_result.
Hypothesis Hopt : mid_optimal mid.

Theorem trace_cost : forall fuel a b buf chunks ret buf',
  2 * (zlen a + zlen b + 2) <= zlen buf ->
  trace mid fuel a b buf chunks = TraceOk ret buf' ->
  zlen buf' = zlen buf /\
  exists new, ret = chunks ++ new /\ cst new = zlen a + zlen b - 2 * L a b.
Proof.
  induction fuel as [|f IH]; intros a b buf chunks ret buf' Hbuf H; [discriminate|].
  destruct a as [|x a'].
  { cbn [trace] in H. injection H as <- <-. split; [reflexivity|]. exists [mkChunk 0 (zlen b) 0]. split; [reflexivity|].
    change (L [] b) with 0. cst_simp. lia. }
  destruct b as [|y b'].
  { assert (buf' = buf /\ ret = chunks ++ [mkChunk (zlen (x :: a')) 0 0]) as [-> ->].
    { destruct a' as [|? ?]; cbn [trace] in H; injection H as <- <-; split; reflexivity. }
    split; [reflexivity|]. exists [mkChunk (zlen (x :: a')) 0 0]. (split; [reflexivity|]);
      rewrite L_nil_r; cst_simp; lia. }
  destruct a' as [|x2 a''].
  { cbn [trace] in H.
    destruct (find_index x (y :: b') 0) as [i|] eqn:Ef; injection H as <- <-; (split; [reflexivity|]).
    - exists [mkChunk 0 i 1; mkChunk 0 (zlen (y :: b') - i - 1) 0]. split; [reflexivity|].
      rewrite (L_single_in x (y :: b')) by (eapply find_index_some_in; eauto).
      cst_simp. lia.
    - exists [mkChunk (zlen [x]) (zlen (y :: b')) 0]. split; [reflexivity|].
      rewrite (L_single_notin x (y :: b')) by (eapply find_index_none; eauto).
      cst_simp. lia. }
  destruct b' as [|y2 b''].
  { cbn [trace] in H.
    destruct (find_index y (x :: x2 :: a'') 0) as [i|] eqn:Ef; injection H as <- <-; (split; [reflexivity|]).
    - exists [mkChunk i 0 1; mkChunk (zlen (x :: x2 :: a'') - i - 1) 0 0]. split; [reflexivity|].
      rewrite L_comm, (L_single_in y (x :: x2 :: a'')) by (eapply find_index_some_in; eauto).
      cst_simp. lia.
    - exists [mkChunk (zlen (x :: x2 :: a'')) (zlen [y]) 0]. split; [reflexivity|].
      rewrite L_comm, (L_single_notin y (x :: x2 :: a'')) by (eapply find_index_none; eauto).
      cst_simp. lia. }
  cbn [trace] in H.
  set (a := x :: x2 :: a'') in *. set (b := y :: y2 :: b'') in *.
  assert (Hla : 2 <= zlen a) by (unfold a; rewrite !zlen_cons; pose proof (zlen_nonneg a''); lia).
  assert (Hlb : 2 <= zlen b) by (unfold b; rewrite !zlen_cons; pose proof (zlen_nonneg b''); lia).
  destruct (mid a b buf) as [ai bi s buf1| |] eqn:Em; try discriminate.
  destruct (_ || _) in H; [discriminate|].
  destruct ((0 <=? ai) && (0 <=? bi) && (0 <=? s) && (ai + s <=? zlen a) && (bi + s <=? zlen b)) eqn:Er;
    cbn [negb] in H; [|discriminate].
  rewrite !andb_true_iff in Er. destruct Er as [[[[R1 R2] R3] R4] R5].
  apply Z.leb_le in R1, R2, R3, R4, R5.
  destruct (trace mid f (sub a 0 ai) (sub b 0 bi) buf1 chunks) as [ret1 buf2| |] eqn:E1; try discriminate.
  destruct (Hopt a b buf ai bi s buf1 Hla Hlb Hbuf Em) as [Hb1 HL].
  specialize (HL R1 R2 R3 R4 R5).
  assert (Hs1 : zlen (sub a 0 ai) = ai /\ zlen (sub b 0 bi) = bi) by (rewrite !sub_length by lia; lia).
  assert (Hs2 : zlen (sub a (ai + s) (zlen a)) = zlen a - (ai + s) /\ zlen (sub b (bi + s) (zlen b)) = zlen b - (bi + s))
    by (rewrite !sub_length by lia; lia).
  assert (Hq1 : 2 * (zlen (sub a 0 ai) + zlen (sub b 0 bi) + 2) <= zlen buf1) by lia.
  destruct (IH _ _ _ _ _ _ Hq1 E1) as [Hb2 [n1 [-> Hn1]]].
  assert (Hq2 : 2 * (zlen (sub a (ai + s) (zlen a)) + zlen (sub b (bi + s) (zlen b)) + 2) <= zlen buf2) by lia.
  destruct (IH _ _ _ _ _ _ Hq2 H) as [Hb3 [n2 [-> Hn2]]].
  split; [lia|].
  exists (n1 ++ (if s >? 0 then [mkChunk 0 0 s] else []) ++ n2). split.
  - destruct (s >? 0); rewrite <- !app_assoc; reflexivity.
  - rewrite !cst_app, Hn1, Hn2. destruct Hs1 as [-> ->]. destruct Hs2 as [-> ->]. destruct (s >? 0); cst_simp; lia.
Qed.
End TraceCost.

Theorem lcs_gen_minimal mid a b chunks : mid_optimal mid ->
  lcs_gen mid a b = LcsOk chunks -> cost chunks = zlen a + zlen b - 2 * L a b.
Proof.
  intros Hopt H. unfold lcs_gen in H.
  set (p := common_prefix a b) in *.
  set (s := Nat.min (Nat.min (length a) (length b) - p) (common_prefix (rev a) (rev b))) in *.
  destruct (common_prefix_spec a b) as [Hpre [Hpa Hpb]]. fold p in Hpre, Hpa, Hpb.
  assert (Hs : (p + s <= length a)%nat /\ (p + s <= length b)%nat) by (unfold s; lia).
  destruct Hs as [Hsa Hsb].
  assert (Hsuf : skipn (length a - s) a = skipn (length b - s) b) by (apply common_suffix; unfold s; lia).
  set (a' := firstn (length a - p - s) (skipn p a)) in *.
  set (b' := firstn (length b - p - s) (skipn p b)) in *.
  match type of H with match ?t with _ => _ end = _ => destruct t as [ret buf'| |] eqn:Et end; try discriminate.
  injection H as <-. rewrite merge_chunks_cost.
  assert (Hbuf : 2 * (zlen a' + zlen b' + 2) <= zlen (repeat 0 (2 * (length a' + length b' + 2)))).
  { unfold zlen. rewrite repeat_length. lia. }
  destruct (trace_cost mid Hopt _ _ _ _ _ _ _ Hbuf Et) as [_ [new [-> Hnew]]].
  assert (HLab : L a b = Z.of_nat p + L a' b' + Z.of_nat s).
  { rewrite (three_way a p s Hsa), (three_way b p s Hsb). fold a' b'. rewrite <- Hsuf, <- Hpre.
    rewrite L_common, L_suffix_common. unfold zlen. rewrite firstn_length, skipn_length. lia. }
  assert (Hza : zlen a = Z.of_nat p + zlen a' + Z.of_nat s).
  { unfold zlen, a'. rewrite firstn_length, skipn_length. lia. }
  assert (Hzb : zlen b = Z.of_nat p + zlen b' + Z.of_nat s).
  { unfold zlen, b'. rewrite firstn_length, skipn_length. lia. }
  rewrite cost_cst.
  destruct (0 <? s)%nat; destruct (0 <? p)%nat; rewrite ?cst_app; cst_simp; lia.
Qed.
