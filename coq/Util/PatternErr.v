(* Model of the error branch of compiler/lexer.go parsePattern: the position of a regexp error (offsets
   relative to the pattern text between the slashes) is mapped into the pattern's range in the grammar.

     text := p.Text(); text = text[1 : len(text)-1]
     rng := p.SourceRange()
     if err.Offset <= err.EndOffset && err.EndOffset <= len(text) && err.Offset < len(text) {
         if err.Offset < err.EndOffset { rng.EndOffset = rng.Offset + err.EndOffset + 1 } else { rng.EndOffset-- }
         rng.Offset += err.Offset + 1
         rng.Column += err.Offset + 1
     }

   No proofs here. *)
From Coq Require Import List ZArith Bool.
From TM Require Import Util.LineCol.
Import ListNotations.
Local Open Scope Z_scope.

(* lex.ParseError as far as positions go *)
Record parse_error := mkPE { pe_off : Z; pe_end : Z }.

(* len(text) of the pattern between the slashes, from the node's range *)
Definition pattern_text_len (rng : source_range) : Z := sr_end rng - sr_off rng - 2.

Definition pattern_guard (rng : source_range) (pe : parse_error) : bool :=
  (pe_off pe <=? pe_end pe) && (pe_end pe <=? pattern_text_len rng) && (pe_off pe <? pattern_text_len rng).

Definition map_pattern_error (rng : source_range) (pe : parse_error) : source_range :=
  if pattern_guard rng pe then
    let e := if pe_off pe <? pe_end pe then sr_off rng + pe_end pe + 1 else sr_end rng - 1 in
    mkSR (sr_file rng) (sr_off rng + (pe_off pe + 1)) e (sr_line rng) (sr_col rng + (pe_off pe + 1))
  else rng.

(* the origin of the status.Error returned by parsePattern; None = panic in LineColumn / in the slicing
   text[1 : len(text)-1] of a node shorter than two bytes *)
Definition pattern_error_range (path lines : list Z) (nd : node) (pe : parse_error) : option source_range :=
  if n_end nd - n_off nd <? 2 then None
  else option_map (fun r => map_pattern_error r pe) (node_source_range path lines (Some nd)).
