From Coq Require Import List ZArith Bool Lia.
From TM Require Import Util.IntSet.
Import ListNotations.
Local Open Scope Z_scope.

Definition sorted (l : list Z) : Prop := sortedb l = true.
Definition wf (s : intset) : Prop := sorted (elems s).

Definition lb (v : Z) (l : list Z) : Prop := forall y, In y l -> v < y.   (* strict lower bound *)
Definition lbe (v : Z) (l : list Z) : Prop := forall y, In y l -> v <= y.

Lemma sorted_cons_inv x l : sorted (x :: l) -> sorted l /\ lb x l.
Proof.
  revert x; induction l as [|y l IH]; intros x H.
  - split; [reflexivity | intros ? []].
  - unfold sorted in *. cbn [sortedb] in H. apply andb_true_iff in H as [Hxy Hs].
    apply Z.ltb_lt in Hxy. split; [exact Hs|].
    destruct (IH y Hs) as [_ Hlb]. intros z [->|Hz]; [lia|]. specialize (Hlb z Hz). lia.
Qed.

Lemma sorted_cons x l : sorted l -> lb x l -> sorted (x :: l).
Proof.
  intros Hs Hlb. destruct l as [|y l]; [reflexivity|].
  unfold sorted in *. cbn [sortedb]. apply andb_true_iff. split; [|exact Hs].
  apply Z.ltb_lt. apply Hlb. left; reflexivity.
Qed.

Lemma sorted_tail x l : sorted (x :: l) -> sorted l.
Proof. intro H; apply (sorted_cons_inv x l H). Qed.

Lemma span_lt_app v b : b = fst (span_lt v b) ++ snd (span_lt v b).
Proof.
  induction b as [|x b IH]; cbn [span_lt]; [reflexivity|].
  destruct (x <? v); [|reflexivity].
  destruct (span_lt v b) as [p r]; cbn [fst snd app] in *. now rewrite <- IH.
Qed.

Lemma span_lt_fst v b : forall y, In y (fst (span_lt v b)) -> y < v.
Proof.
  induction b as [|x b IH]; cbn [span_lt]; [intros ? []|].
  destruct (x <? v) eqn:E; [|intros ? []].
  destruct (span_lt v b) as [p r]; cbn [fst snd] in *.
  intros y [->|Hy]; [now apply Z.ltb_lt | now apply IH].
Qed.

Lemma span_lt_snd v b : sorted b -> lbe v (snd (span_lt v b)).
Proof.
  induction b as [|x b IH]; cbn [span_lt]; intro Hs; [intros ? []|].
  destruct (x <? v) eqn:E.
  - specialize (IH (sorted_tail _ _ Hs)). destruct (span_lt v b) as [p r]; exact IH.
  - cbn [snd]. apply Z.ltb_ge in E. destruct (sorted_cons_inv _ _ Hs) as [_ Hlb].
    intros y [->|Hy]; [lia|]. specialize (Hlb y Hy). lia.
Qed.

Lemma span_lt_snd_sorted v b : sorted b -> sorted (snd (span_lt v b)).
Proof.
  induction b as [|x b IH]; cbn [span_lt]; intro Hs; [reflexivity|].
  destruct (x <? v); [|exact Hs].
  specialize (IH (sorted_tail _ _ Hs)). destruct (span_lt v b); exact IH.
Qed.

Lemma span_lt_snd_in v b y : In y (snd (span_lt v b)) -> In y b.
Proof. intro H. rewrite (span_lt_app v b). apply in_or_app. now right. Qed.

Lemma in_span v b y : In y b <-> In y (fst (span_lt v b)) \/ In y (snd (span_lt v b)).
Proof. rewrite (span_lt_app v b) at 1. apply in_app_iff. Qed.

Lemma in_drop_eq v r y : In y r <-> (y = v /\ head_eq v r = true) \/ In y (drop_eq v r).
Proof.
  destruct r as [|x r]; cbn [drop_eq head_eq]; [firstorder discriminate|].
  destruct (x =? v) eqn:E.
  - apply Z.eqb_eq in E; subst. cbn [In]. intuition.
  - cbn [In]. intuition discriminate.
Qed.

(* combine: membership holds without any sortedness assumption *)
Lemma combine_in a : forall b y, In y (combine a b) <-> In y a \/ In y b.
Proof.
  induction a as [|v a IH]; intros b y; cbn [combine]; [firstorder|].
  rewrite (surjective_pairing (span_lt v b)).
  rewrite in_app_iff. cbn [In]. rewrite IH.
  rewrite (in_span v b y). rewrite (in_drop_eq v (snd (span_lt v b)) y). intuition.
Qed.

Lemma sorted_app p l : sorted p -> sorted l -> (forall x y, In x p -> In y l -> x < y) -> sorted (p ++ l).
Proof.
  induction p as [|x p IH]; intros Hp Hl H; [exact Hl|].
  cbn [app]. destruct (sorted_cons_inv _ _ Hp) as [Hp' Hlb].
  apply sorted_cons.
  - apply IH; [exact Hp'|exact Hl|]. intros; apply H; [now right|assumption].
  - intros y Hy. apply in_app_iff in Hy as [Hy|Hy]; [now apply Hlb|]. apply H; [now left|exact Hy].
Qed.

Lemma span_lt_fst_sorted v b : sorted b -> sorted (fst (span_lt v b)).
Proof.
  induction b as [|x b IH]; cbn [span_lt]; intro Hs; [reflexivity|].
  destruct (x <? v); [|reflexivity].
  destruct (sorted_cons_inv _ _ Hs) as [Hs' Hlb]. specialize (IH Hs').
  pose proof (span_lt_app v b) as Happ.
  destruct (span_lt v b) as [p r]; cbn [fst snd] in *.
  apply sorted_cons; [exact IH|]. intros y Hy. apply Hlb. rewrite Happ. apply in_or_app; now left.
Qed.

Lemma drop_eq_sorted v r : sorted r -> sorted (drop_eq v r).
Proof. destruct r as [|x r]; cbn [drop_eq]; [trivial|]. destruct (x =? v); [apply sorted_tail|trivial]. Qed.

Lemma drop_eq_lb v r : sorted r -> lbe v r -> lb v (drop_eq v r).
Proof.
  destruct r as [|x r]; cbn [drop_eq]; intros Hs Hl; [intros ? []|].
  destruct (x =? v) eqn:E.
  - apply Z.eqb_eq in E; subst. apply (sorted_cons_inv _ _ Hs).
  - apply Z.eqb_neq in E. intros y Hy. destruct Hy as [->|Hy].
    + specialize (Hl y (or_introl eq_refl)). lia.
    + destruct (sorted_cons_inv _ _ Hs) as [_ Hlb]. specialize (Hlb y Hy).
      specialize (Hl x (or_introl eq_refl)). lia.
Qed.

Lemma combine_sorted a : forall b, sorted a -> sorted b -> sorted (combine a b).
Proof.
  induction a as [|v a IH]; intros b Ha Hb; cbn [combine]; [exact Hb|].
  rewrite (surjective_pairing (span_lt v b)).
  destruct (sorted_cons_inv _ _ Ha) as [Ha' Hlb].
  pose proof (span_lt_snd v b Hb) as Hr. pose proof (span_lt_snd_sorted v b Hb) as Hrs.
  apply sorted_app.
  - now apply span_lt_fst_sorted.
  - apply sorted_cons.
    + apply IH; [exact Ha'|now apply drop_eq_sorted].
    + intros y Hy. apply combine_in in Hy as [Hy|Hy]; [now apply Hlb|].
      now apply (drop_eq_lb v _ Hrs Hr).
  - intros x y Hx Hy. apply span_lt_fst in Hx. destruct Hy as [->|Hy]; [exact Hx|].
    apply combine_in in Hy as [Hy|Hy].
    + specialize (Hlb y Hy). lia.
    + specialize (drop_eq_lb v _ Hrs Hr y Hy). lia.
Qed.

Lemma head_eq_in v r : head_eq v r = true -> In v r.
Proof. destruct r as [|x r]; cbn; [discriminate|]. intro E; apply Z.eqb_eq in E; now left. Qed.

Lemma head_eq_false_notin v r : sorted r -> lbe v r -> head_eq v r = false -> ~ In v r.
Proof.
  destruct r as [|x r]; cbn [head_eq]; intros Hs Hl E; [intros []|].
  apply Z.eqb_neq in E. intros [->|Hv]; [now apply E|].
  destruct (sorted_cons_inv _ _ Hs) as [_ Hlb]. specialize (Hlb v Hv).
  specialize (Hl x (or_introl eq_refl)). lia.
Qed.

(* what is cut off by span_lt cannot matter for later (larger) elements of a *)
Lemma intersect_in a : forall b y, sorted a -> sorted b ->
  (In y (intersect a b) <-> In y a /\ In y b).
Proof.
  induction a as [|v a IH]; intros b y Ha Hb; cbn [intersect]; [firstorder|].
  destruct (sorted_cons_inv _ _ Ha) as [Ha' Hlb].
  pose proof (span_lt_snd v b Hb) as Hr. pose proof (span_lt_snd_sorted v b Hb) as Hrs.
  pose proof (span_lt_fst v b) as Hp.
  assert (Hcut : forall z, In z a -> (In z b <-> In z (snd (span_lt v b)))).
  { intros z Hz. rewrite (in_span v b z). split; [|tauto].
    intros [H|H]; [|exact H]. specialize (Hp z H). specialize (Hlb z Hz). lia. }
  destruct (head_eq v (snd (span_lt v b))) eqn:E.
  - cbn [In]. rewrite (IH _ y Ha' Hrs). split.
    + intros [<-|[H1 H2]]; [split; [now left|]|].
      * apply (span_lt_snd_in v). now apply head_eq_in.
      * split; [now right|now apply (span_lt_snd_in v)].
    + intros [[<-|H1] H2]; [now left|right]. split; [exact H1|now apply Hcut].
  - rewrite (IH _ y Ha' Hrs). split.
    + intros [H1 H2]. split; [now right|now apply (span_lt_snd_in v)].
    + intros [[<-|H1] H2].
      * exfalso. apply (head_eq_false_notin v _ Hrs Hr E).
        apply (in_span v b v) in H2 as [H2|H2]; [specialize (Hp v H2); lia|exact H2].
      * split; [exact H1|now apply Hcut].
Qed.

Lemma intersect_sub a : forall b y, In y (intersect a b) -> In y a.
Proof.
  induction a as [|v a IH]; intros b y; cbn [intersect]; [trivial|].
  destruct (head_eq v _); cbn [In]; intros H; [destruct H as [H|H]; [now left|]|]; right; eapply IH; eauto.
Qed.

Lemma intersect_sorted a : forall b, sorted a -> sorted (intersect a b).
Proof.
  induction a as [|v a IH]; intros b Ha; cbn [intersect]; [reflexivity|].
  destruct (sorted_cons_inv _ _ Ha) as [Ha' Hlb].
  destruct (head_eq v _); [|now apply IH].
  apply sorted_cons; [now apply IH|]. intros y Hy. apply Hlb. eapply intersect_sub; eauto.
Qed.

Lemma subtract_in a : forall b y, sorted a -> sorted b ->
  (In y (subtract a b) <-> In y a /\ ~ In y b).
Proof.
  induction a as [|v a IH]; intros b y Ha Hb; cbn [subtract]; [firstorder|].
  destruct (sorted_cons_inv _ _ Ha) as [Ha' Hlb].
  pose proof (span_lt_snd v b Hb) as Hr. pose proof (span_lt_snd_sorted v b Hb) as Hrs.
  pose proof (span_lt_fst v b) as Hp.
  assert (Hcut : forall z, In z a -> (In z b <-> In z (snd (span_lt v b)))).
  { intros z Hz. rewrite (in_span v b z). split; [|tauto].
    intros [H|H]; [|exact H]. specialize (Hp z H). specialize (Hlb z Hz). lia. }
  destruct (head_eq v (snd (span_lt v b))) eqn:E.
  - rewrite (IH _ y Ha' Hrs). split.
    + intros [H1 H2]. split; [now right|]. intro H3. apply H2. now apply Hcut.
    + intros [[<-|H1] H2].
      * exfalso. apply H2. apply (span_lt_snd_in v). now apply head_eq_in.
      * split; [exact H1|]. intro H3. apply H2. now apply Hcut.
  - cbn [In]. rewrite (IH _ y Ha' Hrs). split.
    + intros [<-|[H1 H2]].
      * split; [now left|]. intro H2. apply (head_eq_false_notin v _ Hrs Hr E).
        apply (in_span v b v) in H2 as [H2|H2]; [specialize (Hp v H2); lia|exact H2].
      * split; [now right|]. intro H3. apply H2. now apply Hcut.
    + intros [[<-|H1] H2]; [now left|right]. split; [exact H1|]. intro H3. apply H2. now apply Hcut.
Qed.

Lemma subtract_sub a : forall b y, In y (subtract a b) -> In y a.
Proof.
  induction a as [|v a IH]; intros b y; cbn [subtract]; [trivial|].
  destruct (head_eq v _); cbn [In]; intros H; [|destruct H as [H|H]; [now left|]]; right; eapply IH; eauto.
Qed.

Lemma subtract_sorted a : forall b, sorted a -> sorted (subtract a b).
Proof.
  induction a as [|v a IH]; intros b Ha; cbn [subtract]; [reflexivity|].
  destruct (sorted_cons_inv _ _ Ha) as [Ha' Hlb].
  destruct (head_eq v _); [now apply IH|].
  apply sorted_cons; [now apply IH|]. intros y Hy. apply Hlb. eapply subtract_sub; eauto.
Qed.

(* ---- denotation ---- *)
Lemma existsb_eqb_in x l : existsb (Z.eqb x) l = true <-> In x l.
Proof.
  rewrite existsb_exists. split.
  - intros [y [Hy E]]. apply Z.eqb_eq in E. now subst.
  - intro H. exists x. split; [exact H|apply Z.eqb_refl].
Qed.

Definition den (s : intset) (x : Z) : Prop := if inverse s then ~ In x (elems s) else In x (elems s).

Lemma mem_den s x : mem x s = true <-> den s x.
Proof.
  unfold mem, den. destruct (inverse s).
  - rewrite negb_true_iff. rewrite <- not_true_iff_false. now rewrite existsb_eqb_in.
  - apply existsb_eqb_in.
Qed.

Lemma is_empty_den s : is_empty s = true -> forall x, ~ den s x.
Proof.
  unfold is_empty, den. destruct (elems s); [|discriminate].
  destruct (inverse s); [discriminate|]. intros _ x [].
Qed.

Lemma In_dec_Z (x : Z) l : In x l \/ ~ In x l.
Proof. destruct (in_dec Z.eq_dec x l); auto. Qed.

Theorem complement_spec s x : den (complement s) x <-> ~ den s x.
Proof.
  unfold den, complement; cbn. destruct (inverse s); cbn; [|tauto].
  destruct (In_dec_Z x (elems s)); tauto.
Qed.

Theorem complement_wf s : wf s -> wf (complement s).
Proof. trivial. Qed.

Theorem merge_spec a b x : wf a -> wf b -> (den (set_merge a b) x <-> den a x \/ den b x).
Proof.
  intros Ha Hb. unfold set_merge.
  destruct (is_empty a) eqn:Ea; [pose proof (is_empty_den a Ea x); tauto|].
  destruct (is_empty b) eqn:Eb; [pose proof (is_empty_den b Eb x); tauto|].
  unfold den. destruct (inverse a), (inverse b); cbn [inverse elems].
  - rewrite (intersect_in _ _ _ Ha Hb). destruct (In_dec_Z x (elems a)), (In_dec_Z x (elems b)); tauto.
  - rewrite (subtract_in _ _ _ Ha Hb). destruct (In_dec_Z x (elems a)), (In_dec_Z x (elems b)); tauto.
  - rewrite (subtract_in _ _ _ Hb Ha). destruct (In_dec_Z x (elems a)), (In_dec_Z x (elems b)); tauto.
  - apply combine_in.
Qed.

Theorem merge_wf a b : wf a -> wf b -> wf (set_merge a b).
Proof.
  intros Ha Hb. unfold set_merge, wf.
  destruct (is_empty a); [exact Hb|]. destruct (is_empty b); [exact Ha|].
  destruct (inverse a), (inverse b); cbn [elems];
    auto using intersect_sorted, subtract_sorted, combine_sorted.
Qed.

Theorem intersect_spec a b x : wf a -> wf b -> (den (set_intersect a b) x <-> den a x /\ den b x).
Proof.
  intros Ha Hb. unfold set_intersect.
  destruct (is_empty a) eqn:Ea; [pose proof (is_empty_den a Ea x); cbn; tauto|].
  destruct (is_empty b) eqn:Eb; [pose proof (is_empty_den b Eb x); cbn; tauto|].
  cbn [orb]. unfold den. destruct (inverse a), (inverse b); cbn [inverse elems].
  - rewrite combine_in. tauto.
  - rewrite (subtract_in _ _ _ Hb Ha). tauto.
  - rewrite (subtract_in _ _ _ Ha Hb). tauto.
  - apply (intersect_in _ _ _ Ha Hb).
Qed.

Theorem intersect_wf a b : wf a -> wf b -> wf (set_intersect a b).
Proof.
  intros Ha Hb. unfold set_intersect, wf.
  destruct (is_empty a || is_empty b); [reflexivity|].
  destruct (inverse a), (inverse b); cbn [elems];
    auto using intersect_sorted, subtract_sorted, combine_sorted.
Qed.

Lemma list_eqb_eq a : forall b, list_eqb a b = true <-> a = b.
Proof.
  induction a as [|x a IH]; destruct b as [|y b]; cbn [list_eqb]; try (split; [discriminate|discriminate]); [tauto|].
  rewrite andb_true_iff, Z.eqb_eq, IH. split; [intros [-> ->]; reflexivity|intros [= -> ->]; auto].
Qed.

Theorem equals_spec a b : set_equals a b = true <-> a = b.
Proof.
  unfold set_equals. rewrite andb_true_iff, list_eqb_eq, Bool.eqb_true_iff.
  destruct a, b; cbn. split; [intros [-> ->]; reflexivity|intros [= -> ->]; auto].
Qed.
