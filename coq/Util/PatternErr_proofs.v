(* Proofs about Util/PatternErr.v *)
From Coq Require Import List ZArith Bool Lia.
From TM Require Import Lib.ListX Util.LineCol Util.LineCol_proofs Util.PatternErr.
Import ListNotations.
Local Open Scope Z_scope.

(* ---- line_col over a newline-free stretch: same line, column advances by the distance ---- *)

Lemma lc_scan_no_nl_prefix : forall b n line col, ~ In NL b -> (n <= length b)%nat ->
  lc_scan b n line col = (line, col + Z.of_nat n).
Proof.
  induction b as [|x b IH]; intros n line col Hno Hn.
  - cbn in Hn. assert (n = 0)%nat by lia. subst. cbn. f_equal; lia.
  - destruct n as [|n]; [cbn; f_equal; lia|]. cbn [lc_scan]. cbn [length] in Hn.
    destruct (x =? NL) eqn:Hx.
    + apply Z.eqb_eq in Hx. exfalso. apply Hno. now left.
    + rewrite IH; [f_equal; lia| |lia]. intro H. apply Hno. now right.
Qed.

Lemma lc_scan_app_le : forall p r n line col,
  lc_scan (p ++ r) (length p + n) line col =
  let '(l, c) := lc_scan p (length p) line col in lc_scan r n l c.
Proof. exact lc_scan_app. Qed.

Lemma line_col_shift pre mid rest k :
  ~ In NL mid -> 0 <= k <= Z.of_nat (length mid) ->
  line_col (pre ++ mid ++ rest) (Z.of_nat (length pre) + k) =
  (fst (line_col (pre ++ mid ++ rest) (Z.of_nat (length pre))),
   snd (line_col (pre ++ mid ++ rest) (Z.of_nat (length pre))) + k).
Proof.
  intros Hno Hk. unfold line_col.
  replace (Z.to_nat (Z.of_nat (length pre) + k)) with (length pre + Z.to_nat k)%nat by lia.
  rewrite Nat2Z.id.
  replace (length pre) with (length pre + 0)%nat at 2 3 by lia.
  rewrite !lc_scan_app. destruct (lc_scan pre (length pre) 1 1) as [l c].
  assert (H0 : forall s, lc_scan s 0 l c = (l, c)) by (intros [|? ?]; reflexivity).
  rewrite H0. cbn [fst snd].
  (* scan k bytes of mid ++ rest *)
  assert (Hs : forall m r n line col, ~ In NL m -> (n <= length m)%nat ->
               lc_scan (m ++ r) n line col = (line, col + Z.of_nat n)).
  { induction m as [|x m IH]; intros r n line col Hm Hn.
    - cbn in Hn. assert (n = 0)%nat by lia. subst. destruct r; cbn; f_equal; lia.
    - destruct n as [|n]; [cbn; f_equal; lia|]. cbn [app lc_scan]. cbn [length] in Hn.
      destruct (x =? NL) eqn:Hx.
      + apply Z.eqb_eq in Hx. exfalso. apply Hm. now left.
      + rewrite IH; [f_equal; lia| |lia]. intro H. apply Hm. now right. }
  rewrite Hs by (try assumption; lia). f_equal. lia.
Qed.

(* ---- the offset arithmetic alone ---- *)

Definition inside (rng r : source_range) : Prop := sr_off rng <= sr_off r <= sr_end r /\ sr_end r <= sr_end rng.

(* every ParseError with a non-negative offset is mapped inside the pattern's own range *)
Lemma map_pattern_error_inside rng pe :
  sr_off rng + 2 <= sr_end rng -> 0 <= pe_off pe ->
  inside rng (map_pattern_error rng pe) /\ sr_file (map_pattern_error rng pe) = sr_file rng /\
  sr_line (map_pattern_error rng pe) = sr_line rng.
Proof.
  intros Hr Hp. unfold map_pattern_error, pattern_guard, pattern_text_len, inside.
  destruct (_ && _) eqn:Hg; cbn [sr_off sr_end sr_file sr_line].
  - apply andb_true_iff in Hg as [Hg H3]. apply andb_true_iff in Hg as [H1 H2].
    apply Z.leb_le in H1, H2. apply Z.ltb_lt in H3.
    destruct (pe_off pe <? pe_end pe) eqn:Hlt; [apply Z.ltb_lt in Hlt|apply Z.ltb_ge in Hlt]; repeat split; lia.
  - repeat split; lia.
Qed.

(* when the guard accepts the error: the range starts at the offending byte, strictly between the slashes;
   a non-empty error range is translated as it is, an empty one extends to the closing slash *)
Lemma map_pattern_error_exact rng pe :
  0 <= pe_off pe <= pe_end pe -> pe_end pe <= pattern_text_len rng -> pe_off pe < pattern_text_len rng ->
  let r := map_pattern_error rng pe in
  sr_off r = sr_off rng + 1 + pe_off pe /\
  sr_end r = (if pe_off pe <? pe_end pe then sr_off rng + 1 + pe_end pe else sr_end rng - 1) /\
  sr_off rng + 1 <= sr_off r /\ sr_off r < sr_end rng - 1 /\ sr_off r <= sr_end r <= sr_end rng - 1 /\
  sr_col r - sr_col rng = sr_off r - sr_off rng.
Proof.
  intros H1 H2 H3. unfold map_pattern_error, pattern_guard.
  replace ((pe_off pe <=? pe_end pe) && (pe_end pe <=? pattern_text_len rng) && (pe_off pe <? pattern_text_len rng)) with true
    by (symmetry; rewrite !andb_true_iff, !Z.leb_le, Z.ltb_lt; lia).
  unfold pattern_text_len in *. cbn [sr_off sr_end sr_col].
  destruct (pe_off pe <? pe_end pe) eqn:Hlt; [apply Z.ltb_lt in Hlt|apply Z.ltb_ge in Hlt]; repeat split; lia.
Qed.

(* an error the guard rejects is reported for the whole pattern *)
Lemma map_pattern_error_fallback rng pe :
  pattern_guard rng pe = false -> map_pattern_error rng pe = rng.
Proof. intros H. unfold map_pattern_error. now rewrite H. Qed.

(* the guard does not test 0 <= Offset: it relies on ParseRegexp for that *)
Lemma pattern_guard_needs_nonneg :
  exists rng pe, sr_off rng + 2 <= sr_end rng /\ pattern_guard rng pe = true /\
                 sr_off (map_pattern_error rng pe) < sr_off rng.
Proof.
  exists (mkSR [] 10 15 1 11), (mkPE (-5) (-5)). vm_compute. repeat split; congruence.
Qed.

(* ---- the whole error origin: in range, on the pattern's line, column consistent ---- *)

Lemma pattern_error_wellformed path pre pat rest pe :
  (2 <= length pat)%nat -> ~ In NL pat -> 0 <= pe_off pe ->
  let content := pre ++ pat ++ rest in
  let nd := mkNode (Z.of_nat (length pre)) (Z.of_nat (length pre + length pat)) in
  exists r, pattern_error_range path (line_offsets content) nd pe = Some r /\
            wellformed path content r /\
            n_off nd <= sr_off r /\ sr_end r <= n_end nd /\
            sr_line r = fst (line_col content (n_off nd)).
Proof.
  intros Hlen Hno Hp content nd.
  assert (Hok : node_ok content nd).
  { unfold node_ok, nd, content. cbn [n_off n_end]. rewrite !app_length. lia. }
  destruct (node_source_range_wellformed path content nd Hok) as (r0 & Hr0 & Hw0).
  unfold pattern_error_range.
  replace (n_end nd - n_off nd <? 2) with false by (symmetry; apply Z.ltb_ge; unfold nd; cbn [n_off n_end]; lia).
  rewrite Hr0. cbn [option_map]. eexists; split; [reflexivity|].
  (* the fields of r0 *)
  assert (Hf : sr_off r0 = n_off nd /\ sr_end r0 = n_end nd).
  { unfold node_source_range in Hr0. destruct (line_column _ _) as [[l c]|]; [|discriminate].
    injection Hr0 as <-. cbn. split; reflexivity. }
  destruct Hf as [Hoff Hend].
  destruct Hw0 as (Hfile & Hrange & Hin & Hl1 & Hc1 & Hlc).
  assert (Hspan : sr_off r0 + 2 <= sr_end r0) by (rewrite Hoff, Hend; unfold nd; cbn [n_off n_end]; lia).
  pose proof (map_pattern_error_inside r0 pe Hspan Hp) as ((Hi1 & Hi2) & Hfile' & Hline').
  assert (Hk : 0 <= sr_off (map_pattern_error r0 pe) - sr_off r0 <= Z.of_nat (length pat)).
  { rewrite Hend in Hi2. rewrite Hoff in *. unfold nd in *. cbn [n_off n_end] in *. lia. }
  assert (Hcol : sr_col (map_pattern_error r0 pe) = sr_col r0 + (sr_off (map_pattern_error r0 pe) - sr_off r0)).
  { unfold map_pattern_error. destruct (pattern_guard r0 pe); cbn [sr_col sr_off]; lia. }
  pose proof (line_col_shift pre pat rest _ Hno Hk) as Hs.
  fold content in Hs. rewrite Hoff in Hs at 1. unfold nd in Hs at 1. cbn [n_off] in Hs.
  assert (Hlc0 : line_col content (Z.of_nat (length pre)) = (sr_line r0, sr_col r0)).
  { rewrite Hlc, Hoff. reflexivity. }
  rewrite Hlc0 in Hs. cbn [fst snd] in Hs.
  replace (Z.of_nat (length pre) + (sr_off (map_pattern_error r0 pe) - Z.of_nat (length pre)))
    with (sr_off (map_pattern_error r0 pe)) in Hs by lia.
  split; [|split; [|split; [|]]].
  - unfold wellformed. rewrite Hfile', Hline', Hcol.
    repeat split; try congruence; try lia.
  - rewrite <- Hoff. lia.
  - rewrite <- Hend. lia.
  - rewrite Hline'. unfold nd. cbn [n_off]. rewrite Hlc0. reflexivity.
Qed.
