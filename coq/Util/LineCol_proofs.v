(* Proofs about Util/LineCol.v *)
From Coq Require Import List ZArith Bool Lia Sorting.Sorted.
From TM Require Import Lib.ListX Util.LineCol.
Import ListNotations.
Local Open Scope Z_scope.

(* ------------------------------------------------------------------ sort.Search *)

Lemma search_spec f : forall fuel i j,
  0 <= i <= j -> (Z.to_nat (j - i) <= fuel)%nat ->
  (forall a b, i <= a <= b -> b < j -> f a = true -> f b = true) ->
  i <= search fuel f i j <= j /\
  (forall k, i <= k < search fuel f i j -> f k = false) /\
  (forall k, search fuel f i j <= k < j -> f k = true).
Proof.
  induction fuel as [|fuel IH]; intros i j Hij Hfuel Hmono.
  - cbn [search]. assert (i = j) by lia. subst. repeat split; intros; lia.
  - cbn [search]. destruct (i <? j) eqn:Hlt.
    2:{ apply Z.ltb_ge in Hlt. assert (i = j) by lia. subst. repeat split; intros; lia. }
    apply Z.ltb_lt in Hlt. cbv zeta.
    assert (Hh : i <= (i + j) / 2 < j).
    { split; [apply Z.div_le_lower_bound; lia | apply Z.div_lt_upper_bound; lia]. }
    set (h := (i + j) / 2) in *.
    destruct (f h) eqn:Hfh.
    + destruct (IH i h) as (Hr & Hlo & Hhi); [lia | lia | |].
      { intros a b Hab Hb. apply Hmono; lia. }
      repeat split; try lia; [exact Hlo|].
      intros k Hk. destruct (Z_lt_le_dec k h) as [Hkh|Hkh]; [apply Hhi; lia|].
      apply (Hmono h k); try lia. exact Hfh.
    + destruct (IH (h + 1) j) as (Hr & Hlo & Hhi); [lia | lia | |].
      { intros a b Hab Hb. apply Hmono; lia. }
      repeat split; try lia; [|exact Hhi].
      intros k Hk. destruct (Z_lt_le_dec k (h + 1)) as [Hkh|Hkh]; [|apply Hlo; lia].
      destruct (f k) eqn:Hfk; [|reflexivity].
      rewrite (Hmono k h) in Hfh; [discriminate | lia | lia | exact Hfk].
Qed.

(* ------------------------------------------------------------------ the line table *)

Lemma lines_from_bounds : forall s pos, Forall (fun x => pos < x <= pos + Z.of_nat (length s)) (lines_from s pos).
Proof.
  induction s as [|c t IH]; intro pos; cbn [lines_from length]; [constructor|].
  specialize (IH (pos + 1)).
  assert (H : Forall (fun x => pos < x <= pos + Z.of_nat (S (length t))) (lines_from t (pos + 1))).
  { eapply Forall_impl; [|exact IH]. cbv beta. intros; lia. }
  destruct (c =? NL); [constructor; [lia|exact H] | exact H].
Qed.

Lemma lines_from_sorted : forall s pos, StronglySorted Z.lt (lines_from s pos).
Proof.
  induction s as [|c t IH]; intro pos; cbn [lines_from]; [constructor|].
  destruct (c =? NL); [|apply IH].
  constructor; [apply IH|]. eapply Forall_impl; [|apply lines_from_bounds]. cbv beta. intros; lia.
Qed.

Lemma line_offsets_sorted s : StronglySorted Z.lt (line_offsets s).
Proof.
  unfold line_offsets. constructor; [apply lines_from_sorted|].
  eapply Forall_impl; [|apply lines_from_bounds]. cbv beta. intros; lia.
Qed.

Lemma sorted_nth_lt : forall (l : list Z), StronglySorted Z.lt l ->
  forall i j, (i < j < length l)%nat -> nth i l 0 < nth j l 0.
Proof.
  induction 1 as [|a l Hs IH Hall]; intros i j Hij; [cbn in Hij; lia|].
  destruct j as [|j]; [lia|]. cbn [nth].
  destruct i as [|i].
  - rewrite Forall_forall in Hall. apply Hall. apply nth_In. cbn in Hij. lia.
  - apply IH. cbn in Hij. lia.
Qed.

(* ------------------------------------------------------------------ scanning vs the table *)

Lemma last_cons {A} : forall (l : list A) a d, last (a :: l) d = last l a.
Proof.
  induction l as [|b l IH]; intros a d; [reflexivity|].
  change (last (a :: b :: l) d) with (last (b :: l) d). now rewrite (IH b d), (IH b a).
Qed.

Lemma last_firstn_nth {A} : forall (M : list A) k d d', (k <= length M)%nat -> last (firstn k M) d = nth k (d :: M) d'.
Proof.
  induction M as [|a M IH]; intros k d d' Hk.
  - cbn in Hk. assert (k = 0)%nat by lia. subst. reflexivity.
  - destruct k as [|k]; [reflexivity|]. cbn [firstn]. rewrite last_cons. cbn [nth].
    rewrite (IH k a d'); [reflexivity | cbn in Hk; lia].
Qed.

Lemma scan_lines : forall s pos ls line off pre post,
  pos <= off <= pos + Z.of_nat (length s) ->
  lines_from s pos = pre ++ post ->
  Forall (fun x => x <= off) pre -> Forall (fun x => off < x) post ->
  lc_scan s (Z.to_nat (off - pos)) line (pos - ls + 1) = (line + Z.of_nat (length pre), off - last pre ls + 1).
Proof.
  induction s as [|c t IH]; intros pos ls line off pre post Hoff Hsplit Hpre Hpost.
  - cbn [lines_from] in Hsplit. symmetry in Hsplit. apply app_eq_nil in Hsplit. destruct Hsplit; subst.
    cbn [length] in Hoff. assert (off = pos) by lia. subst. replace (Z.to_nat (pos - pos)) with 0%nat by lia. cbn. f_equal; lia.
  - destruct (Z.eq_dec off pos) as [->|Hne].
    + (* nothing to scan: every table entry lies beyond pos *)
      assert (pre = []).
      { destruct pre as [|x pre]; [reflexivity|]. exfalso.
        pose proof (lines_from_bounds (c :: t) pos) as Hb. rewrite Hsplit in Hb.
        inversion Hb; subst. inversion Hpre; subst. lia. }
      subst. replace (Z.to_nat (pos - pos)) with 0%nat by lia. cbn. f_equal; lia.
    + cbn [length] in Hoff.
      replace (Z.to_nat (off - pos)) with (S (Z.to_nat (off - (pos + 1)))) by lia.
      cbn [lc_scan lines_from] in *. destruct (c =? NL).
      * destruct pre as [|x pre'].
        { exfalso. cbn [app] in Hsplit. subst post. inversion Hpost; subst. lia. }
        cbn [app] in Hsplit. injection Hsplit as Hx Hrest. subst x.
        inversion Hpre; subst.
        pose proof (IH (pos + 1) (pos + 1) (line + 1) off pre' post) as HI.
        replace ((pos + 1) - (pos + 1) + 1) with 1 in HI by lia.
        rewrite HI; try assumption; [|lia].
        rewrite last_cons. cbn [length]. f_equal; lia.
      * replace (pos - ls + 1 + 1) with ((pos + 1) - ls + 1) by lia.
        apply (IH (pos + 1) ls line off pre post); try assumption. lia.
Qed.

(* The main fact: Node.LineColumn over the table built by lineOffsets agrees with the scanning
   specification, for every text and every offset inside it (and never indexes out of range). *)
Lemma line_column_spec s off :
  0 <= off <= Z.of_nat (length s) ->
  line_column (line_offsets s) off = Some (line_col s off).
Proof.
  intro Hoff. unfold line_column.
  set (L := line_offsets s). set (n := Z.of_nat (length L)).
  set (f := fun i => off <? nthZ L i).
  assert (Hmono : forall a b, 0 <= a <= b -> b < n -> f a = true -> f b = true).
  { intros a b Hab Hb Hfa. unfold f in *. apply Z.ltb_lt in Hfa. apply Z.ltb_lt.
    destruct (Z.eq_dec a b) as [->|Hne]; [exact Hfa|].
    pose proof (sorted_nth_lt L (line_offsets_sorted s) (Z.to_nat a) (Z.to_nat b)) as Hlt.
    unfold nthZ in *. unfold n in Hb. assert (Hc : (Z.to_nat a < Z.to_nat b < length L)%nat) by lia. specialize (Hlt Hc). lia. }
  destruct (search_spec f (length L) 0 n) as (Hr & Hlo & Hhi); [lia | lia | exact Hmono |].
  set (r := search (length L) f 0 n) in *.
  assert (Hr1 : 1 <= r).
  { destruct (Z_lt_le_dec r 1) as [Hlt|]; [|assumption]. exfalso.
    assert (Hf0 : f 0 = true). { apply Hhi. unfold n, L, line_offsets. cbn [length]. lia. }
    unfold f, nthZ, L, line_offsets in Hf0. cbn in Hf0. apply Z.ltb_lt in Hf0. lia. }
  replace ((r - 1 <? 0) || (n <=? r - 1)) with false.
  2:{ symmetry. apply orb_false_intro; [apply Z.ltb_ge | apply Z.leb_gt]; lia. }
  f_equal. unfold line_col.
  (* split the table at r *)
  set (M := lines_from s 0). set (k := Z.to_nat (r - 1)).
  assert (HL : L = 0 :: M) by reflexivity.
  assert (Hn : n = 1 + Z.of_nat (length M)). { unfold n. rewrite HL. cbn [length]. lia. }
  assert (Hk : (k <= length M)%nat) by lia.
  assert (Hpre : Forall (fun x => x <= off) (firstn k M)).
  { rewrite Forall_forall. intros x Hx. destruct (In_nth _ _ 0 Hx) as (i & Hi & Hnth).
    rewrite firstn_length in Hi. rewrite nth_firstn' in Hnth by lia. subst x.
    specialize (Hlo (Z.of_nat (S i))). unfold f, nthZ in Hlo. rewrite Nat2Z.id, HL in Hlo. cbn [nth] in Hlo.
    apply Z.ltb_ge. apply Hlo. lia. }
  assert (Hpost : Forall (fun x => off < x) (skipn k M)).
  { rewrite Forall_forall. intros x Hx. destruct (In_nth _ _ 0 Hx) as (i & Hi & Hnth).
    rewrite skipn_length in Hi. rewrite nth_skipn' in Hnth. subst x.
    specialize (Hhi (Z.of_nat (S (k + i)))). unfold f, nthZ in Hhi. rewrite Nat2Z.id, HL in Hhi. cbn [nth] in Hhi.
    apply Z.ltb_lt. apply Hhi. lia. }
  pose proof (scan_lines s 0 0 1 off (firstn k M) (skipn k M)) as Hscan.
  replace (off - 0) with off in Hscan by lia. replace (0 - 0 + 1) with 1 in Hscan by lia.
  rewrite Hscan; [| lia | symmetry; apply firstn_skipn | exact Hpre | exact Hpost].
  rewrite firstn_length, Nat.min_l by exact Hk.
  rewrite (last_firstn_nth M k 0 0 Hk). unfold nthZ. rewrite HL. fold k. f_equal; lia.
Qed.

(* ------------------------------------------------------------------ declarative reading of line_col *)

Fixpoint count_nl (s : list Z) : Z :=
  match s with [] => 0 | c :: t => (if c =? NL then 1 else 0) + count_nl t end.

Lemma lc_scan_app : forall p r n line col,
  lc_scan (p ++ r) (length p + n) line col =
  let '(l, c) := lc_scan p (length p) line col in lc_scan r n l c.
Proof.
  induction p as [|x p IH]; intros r n line col; [reflexivity|].
  cbn [app length plus lc_scan]. destruct (x =? NL); apply IH.
Qed.

Lemma lc_scan_no_nl : forall b line col, ~ In NL b ->
  lc_scan b (length b) line col = (line, col + Z.of_nat (length b)).
Proof.
  induction b as [|x b IH]; intros line col Hno; [cbn; f_equal; lia|].
  cbn [length lc_scan]. destruct (x =? NL) eqn:Hx.
  - apply Z.eqb_eq in Hx. exfalso. apply Hno. now left.
  - rewrite IH; [f_equal; lia|]. intro H. apply Hno. now right.
Qed.

Lemma lc_scan_lines : forall a line col,
  fst (lc_scan a (length a) line col) = line + count_nl a.
Proof.
  induction a as [|x a IH]; intros line col; [cbn; lia|].
  cbn [length lc_scan count_nl]. destruct (x =? NL); rewrite IH; lia.
Qed.

Lemma lc_scan_ends_nl : forall a line col, a <> [] -> last a 0 = NL ->
  snd (lc_scan a (length a) line col) = 1.
Proof.
  induction a as [|x a IH]; intros line col Hne Hlast; [congruence|].
  cbn [length lc_scan]. destruct a as [|y a'].
  - cbn in Hlast. subst x. reflexivity.
  - assert (Hl : last (y :: a') 0 = NL) by exact Hlast.
    destruct (x =? NL); apply IH; congruence.
Qed.

(* line = 1 + number of newlines before the offset; column = 1 + number of bytes since the last
   newline (or since the start of the text) *)
Lemma line_col_decl a b rest :
  (a = [] \/ last a 0 = NL) -> ~ In NL b ->
  line_col (a ++ b ++ rest) (Z.of_nat (length a + length b)) = (1 + count_nl a, Z.of_nat (length b) + 1).
Proof.
  intros Ha Hb. unfold line_col. rewrite Nat2Z.id.
  rewrite lc_scan_app. destruct (lc_scan a (length a) 1 1) as [l c] eqn:Hs.
  replace (length b) with (length b + 0)%nat by lia.
  rewrite lc_scan_app. rewrite lc_scan_no_nl by exact Hb.
  replace (length b + 0)%nat with (length b) by lia.
  assert (Hl : l = 1 + count_nl a). { pose proof (lc_scan_lines a 1 1) as H. rewrite Hs in H. exact H. }
  assert (Hc : c = 1).
  { destruct Ha as [->|Hlast]; [cbn in Hs; congruence|].
    destruct a as [|x a']; [cbn in Hs; congruence|].
    pose proof (lc_scan_ends_nl (x :: a') 1 1) as H. rewrite Hs in H. apply H; [discriminate|exact Hlast]. }
  subst. destruct rest; cbn [lc_scan]; f_equal; lia.
Qed.

(* ------------------------------------------------------------------ inverse *)

(* the byte offset is recovered from (line, column) through the line table *)
Definition offset_of (lines : list Z) (lc : Z * Z) : Z := nthZ lines (fst lc - 1) + snd lc - 1.

Lemma line_column_inverse lines off lc : line_column lines off = Some lc -> offset_of lines lc = off.
Proof.
  unfold line_column, offset_of. destruct (_ || _); [discriminate|]. intros [= <-]. cbn [fst snd].
  match goal with |- nthZ _ (?a + 1 - 1) + _ - 1 = _ => replace (a + 1 - 1) with a by lia end. lia.
Qed.

Lemma line_col_injective s o1 o2 :
  0 <= o1 <= Z.of_nat (length s) -> 0 <= o2 <= Z.of_nat (length s) ->
  line_col s o1 = line_col s o2 -> o1 = o2.
Proof.
  intros H1 H2 Heq.
  rewrite <- (line_column_inverse _ _ _ (line_column_spec s o1 H1)).
  rewrite <- (line_column_inverse _ _ _ (line_column_spec s o2 H2)). now rewrite Heq.
Qed.

Lemma lc_scan_ge1 : forall s n line col, 1 <= line -> 1 <= col ->
  1 <= fst (lc_scan s n line col) /\ 1 <= snd (lc_scan s n line col).
Proof.
  induction s as [|c t IH]; intros n line col Hl Hc; destruct n; cbn [lc_scan fst snd]; try lia.
  destruct (c =? NL); apply IH; lia.
Qed.

(* ------------------------------------------------------------------ status *)

Definition wellformed (path content : list Z) (r : source_range) : Prop :=
  sr_file r = path /\ 0 <= sr_off r <= sr_end r /\ sr_end r <= Z.of_nat (length content) /\
  1 <= sr_line r /\ 1 <= sr_col r /\ (sr_line r, sr_col r) = line_col content (sr_off r).

Lemma wellformedb_iff path content r : wellformedb path content r = true <-> wellformed path content r.
Proof.
  unfold wellformedb, wellformed. destruct (line_col content (sr_off r)) as [l c].
  destruct (list_eq_dec Z.eq_dec (sr_file r) path) as [He|He].
  - rewrite !andb_true_iff, !Z.leb_le, !Z.eqb_eq. split.
    + intros [[[[[[[H1 H2] H3] H4] H5] H6] H7] _].
      repeat split; try assumption. now rewrite H4, H5.
    + intros (_ & (H1 & H2) & H3 & H4 & H5 & H6). injection H6 as H6 H7. repeat split; assumption.
  - rewrite andb_false_r. split; [discriminate | intros (H & _); congruence].
Qed.

Definition node_ok (content : list Z) (n : node) : Prop := 0 <= n_off n <= n_end n /\ n_end n <= Z.of_nat (length content).

Lemma node_source_range_wellformed path content nd :
  node_ok content nd ->
  exists r, node_source_range path (line_offsets content) (Some nd) = Some r /\ wellformed path content r.
Proof.
  intros (H1 & H2). unfold node_source_range. rewrite line_column_spec by lia.
  destruct (line_col content (n_off nd)) as [l c] eqn:Hlc. eexists; split; [reflexivity|].
  unfold wellformed; cbn. pose proof (lc_scan_ge1 content (Z.to_nat (n_off nd)) 1 1 ltac:(lia) ltac:(lia)) as H.
  unfold line_col in Hlc. rewrite Hlc in H. cbn in H. repeat split; try lia. now rewrite <- Hlc.
Qed.

(* strings.LastIndexByte against the column of the scan *)
Lemma last_index_scan : forall s n pos acc line,
  (n <= length s)%nat ->
  snd (lc_scan s n line (pos - acc)) = pos + Z.of_nat n - last_index_from (firstn n s) pos acc.
Proof.
  induction s as [|c t IH]; intros n pos acc line Hn.
  - cbn in Hn. assert (n = 0)%nat by lia. subst. cbn. lia.
  - destruct n as [|n]; [cbn; lia|]. cbn [lc_scan firstn last_index_from]. cbn [length] in Hn.
    destruct (c =? NL).
    + pose proof (IH n (pos + 1) pos (line + 1) ltac:(lia)) as HI.
      replace (pos + 1 - pos) with 1 in HI by lia. rewrite HI. lia.
    + replace (pos - acc + 1) with ((pos + 1) - acc) by lia. rewrite IH by lia. lia.
Qed.

Definition syntax_error_ok (content : list Z) (se : syntax_error) : Prop :=
  0 <= se_off se <= se_end se /\ se_end se <= Z.of_nat (length content) /\
  se_line se = fst (line_col content (se_off se)).    (* contract of the generated lexer's line counter (C12) *)

Lemma syntax_error_range_wellformed path content se :
  syntax_error_ok content se -> wellformed path content (syntax_error_range path content se).
Proof.
  intros (H1 & H2 & H3). unfold wellformed, syntax_error_range. cbn [sr_file sr_off sr_end sr_line sr_col].
  pose proof (lc_scan_ge1 content (Z.to_nat (se_off se)) 1 1 ltac:(lia) ltac:(lia)) as (Hl & Hc).
  fold (line_col content (se_off se)) in Hl, Hc.
  assert (Hcol : se_off se - last_index_nl (firstn (Z.to_nat (se_off se)) content) = snd (line_col content (se_off se))).
  { unfold line_col, last_index_nl. pose proof (last_index_scan content (Z.to_nat (se_off se)) 0 (-1) 1 ltac:(lia)) as H.
    replace (0 - -1) with 1 in H by lia. rewrite H. lia. }
  rewrite Hcol, H3. repeat split; try lia. now destruct (line_col content (se_off se)).
Qed.

Definition diag_ok (content : list Z) (d : option node * list Z) : Prop :=
  exists nd, fst d = Some nd /\ node_ok content nd.

Definition front_end_ok (content : list Z) (r : front_end_result) : Prop :=
  match r with
  | ParseFail se => syntax_error_ok content se
  | ParseOk ds => Forall (diag_ok content) ds
  end.

Lemma fold_diags path content : forall ds acc,
  Forall (diag_ok content) ds -> Forall (fun e => wellformed path content (e_origin e)) acc ->
  exists s,
    fold_left (fun acc d =>
      match acc, node_source_range path (line_offsets content) (fst d) with
      | Some s, Some rg => Some (s ++ [mkErr rg (snd d)])
      | _, _ => None
      end) ds (Some acc) = Some s /\
    Forall (fun e => wellformed path content (e_origin e)) s /\ length s = (length acc + length ds)%nat.
Proof.
  induction ds as [|d ds IH]; intros acc Hds Hacc.
  - exists acc. cbn. repeat split; [assumption | lia].
  - inversion Hds as [|? ? (nd & Hfst & Hnd) Hrest]; subst. cbn [fold_left]. rewrite Hfst.
    destruct (node_source_range_wellformed path content nd Hnd) as (rg & Hrg & Hwf). rewrite Hrg.
    destruct (IH (acc ++ [mkErr rg (snd d)]) Hrest) as (s & Hs & Hall & Hlen).
    { apply Forall_app; split; [assumption|]. constructor; [exact Hwf|constructor]. }
    exists s. repeat split; try assumption. rewrite Hlen, app_length. cbn. lia.
Qed.

Lemma from_error_status_err s : from_error (status_err s) = s.
Proof. destruct s; reflexivity. Qed.

(* the repaired glue *)
Lemma status_wellformed path content r :
  front_end_ok content r ->
  exists e, compile path content r = Some e /\
            Forall (fun x => wellformed path content (e_origin x)) (from_error e).
Proof.
  destruct r as [se|ds]; cbn [front_end_ok compile]; intro Hok.
  - eexists; split; [reflexivity|]. cbn. constructor; [|constructor].
    apply syntax_error_range_wellformed; exact Hok.
  - unfold compile_pinned. destruct (fold_diags path content ds [] Hok ltac:(constructor)) as (s & Hs & Hall & _).
    rewrite Hs. cbn [option_map]. eexists; split; [reflexivity|]. now rewrite from_error_status_err.
Qed.

(* the pinned glue: every syntax error comes out origin-less, whatever the text *)
Lemma pinned_syntax_error_originless path content se :
  exists e, compile_pinned path content (ParseFail se) = Some e /\
            from_error e = [mkErr empty_range syntax_error_msg] /\
            ~ wellformed path content (e_origin (mkErr empty_range syntax_error_msg)).
Proof.
  eexists; split; [reflexivity|]. split; [reflexivity|].
  unfold wellformed, empty_range; cbn. intros (_ & _ & _ & H & _). lia.
Qed.

(* no error is lost or invented by the glue: one status entry per reported diagnostic *)
Lemma compile_error_count path content ds :
  Forall (diag_ok content) ds ->
  exists e, compile path content (ParseOk ds) = Some e /\ length (from_error e) = length ds.
Proof.
  intro Hok. cbn [compile]. unfold compile_pinned.
  destruct (fold_diags path content ds [] Hok ltac:(constructor)) as (s & Hs & _ & Hlen).
  rewrite Hs. cbn [option_map]. eexists; split; [reflexivity|]. rewrite from_error_status_err. exact Hlen.
Qed.
