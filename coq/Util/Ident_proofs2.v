(* C28: the collision check in its reporting form.  Produce is not injective (foo-bar, fooBar and foo_bar all
   give FooBar), but two different declared names whose identifiers coincide always make the resolver report
   an error: Produce is injective up to the collision check. *)
From Coq Require Import List ZArith Bool Arith Lia.
From TM Require Import Lex.Tables Util.Ident Util.Ident_proofs.
Import ListNotations.

Section Reported.
Variable sty : bytes -> style.   (* the style a name is declared with (tokens / nonterminals / options) *)

Definition ids_produced (l : list (bytes * bytes)) : Prop :=
  forall e, In e l -> fst e = produce (snd e) (sty (snd e)).

Definition decls (names : list bytes) : list (bytes * style) := map (fun n => (n, sty n)) names.

Lemma declare_keeps_produced s name : ids_produced (r_ids s) -> ids_produced (r_ids (declare s name (sty name))).
Proof.
  intro H. unfold declare. destruct (existsb _ _); [exact H|]. cbn [r_ids].
  intros e [<-|He]; [reflexivity|now apply H].
Qed.

Lemma declare_registers s name : exists id, In (id, name) (r_ids (declare s name (sty name))).
Proof.
  unfold declare. destruct (existsb (fun e => bytes_eqb (snd e) name) (r_ids s)) eqn:E.
  - apply existsb_exists in E. destruct E as [[id nm] [Hin Heq]]. cbn [snd] in Heq.
    apply bytes_eqb_eq in Heq. subst nm. now exists id.
  - cbn [r_ids]. eexists. now left.
Qed.

Lemma declare_keeps_entries s name st e : In e (r_ids s) -> In e (r_ids (declare s name st)).
Proof. intro H. unfold declare. destruct (existsb _ _); [exact H|]. cbn [r_ids]. now right. Qed.

Lemma declare_all_keeps_entries ds : forall s e, In e (r_ids s) -> In e (r_ids (declare_all s ds)).
Proof.
  induction ds as [|d ds IH]; intros s e H; [exact H|].
  change (declare_all s (d :: ds)) with (declare_all (declare s (fst d) (snd d)) ds).
  apply IH. now apply declare_keeps_entries.
Qed.

Lemma declare_all_keeps_produced names : forall s, ids_produced (r_ids s) ->
  ids_produced (r_ids (declare_all s (decls names))).
Proof.
  induction names as [|y ys IH]; intros s H; [exact H|].
  change (declare_all s (decls (y :: ys))) with (declare_all (declare s y (sty y)) (decls ys)).
  apply IH. now apply declare_keeps_produced.
Qed.

Lemma declare_all_registers names : forall s n, ids_produced (r_ids s) -> In n names ->
  ids_produced (r_ids (declare_all s (decls names))) /\
  In (produce n (sty n), n) (r_ids (declare_all s (decls names))).
Proof.
  induction names as [|x names IH]; intros s n Hp Hin; [destruct Hin|].
  change (declare_all s (decls (x :: names))) with (declare_all (declare s x (sty x)) (decls names)).
  pose proof (declare_keeps_produced s x Hp) as Hp'.
  destruct Hin as [->|Hin].
  - destruct (declare_registers s n) as [id Hid].
    assert (Hall : ids_produced (r_ids (declare_all (declare s n (sty n)) (decls names))))
      by (now apply declare_all_keeps_produced).
    split; [exact Hall|].
    pose proof (Hp' _ Hid) as E. cbn [fst snd] in E. subst id.
    now apply declare_all_keeps_entries.
  - now apply IH.
Qed.

(* two different declared names with the same identifier: the resolver reports (at least) one error *)
Theorem collision_reported names n1 n2 : In n1 names -> In n2 names -> n1 <> n2 ->
  produce n1 (sty n1) = produce n2 (sty n2) ->
  (1 <= r_errors (declare_all (mkR [] 0) (decls names)))%nat.
Proof.
  intros H1 H2 Hne Heq.
  destruct (Nat.eq_dec (r_errors (declare_all (mkR [] 0) (decls names))) 0) as [E|E]; [exfalso|lia].
  assert (Hinj : ids_injective (r_ids (declare_all (mkR [] 0) (decls names)))).
  { apply resolver_injective; [intros e1 e2 []|exact E]. }
  assert (Hp0 : ids_produced (r_ids (mkR [] 0))) by (intros e []).
  destruct (declare_all_registers names (mkR [] 0) n1 Hp0 H1) as [_ R1].
  destruct (declare_all_registers names (mkR [] 0) n2 Hp0 H2) as [_ R2].
  specialize (Hinj _ _ R1 R2 Heq). congruence.
Qed.

(* conversely, without a reported error the identifier determines the name: Produce is injective on the
   declared names *)
Corollary produce_injective_on_declared names n1 n2 :
  r_errors (declare_all (mkR [] 0) (decls names)) = 0%nat ->
  In n1 names -> In n2 names -> produce n1 (sty n1) = produce n2 (sty n2) -> n1 = n2.
Proof.
  intros E H1 H2 Heq. destruct (list_eq_dec Z.eq_dec n1 n2) as [|Hne]; [assumption|exfalso].
  pose proof (collision_reported names n1 n2 H1 H2 Hne Heq). lia.
Qed.
End Reported.
