(* Totality of trace / lcs (Util/Diff.v): the split returned by Myers' middle-snake search lies inside the
   grid, makes progress, and leaves sub-problems without a common prefix / suffix, so that trace never
   reaches its log.Fatal / slice-bounds failure and the model's fuel always suffices. *)
From Coq Require Import List ZArith Bool Arith Lia.
From TM Require Import Lib.ListX Util.Graph Util.Graph_proofs Util.Diff Util.Diff_proofs Util.Diff_lcs Util.Diff_dist
  Util.Diff_greedy Util.Diff_min Util.Diff_myers.
Import ListNotations.
Local Open Scope Z_scope.

(* ---------- saturation of the prefix distance beyond the grid ---------- *)
Lemma dist_sat_x a b x y : zlen a <= x -> dist a b x y = (x - zlen a) + dist a b (zlen a) y.
Proof. intro H. unfold dist. rewrite !(pre_out a) by lia. lia. Qed.

Lemma dist_sat_y a b x y : zlen b <= y -> dist a b x y = (y - zlen b) + dist a b x (zlen b).
Proof. intro H. unfold dist. rewrite !(pre_out b) by lia. lia. Qed.

Lemma dist_full a b : dist a b (zlen a) (zlen b) = Dtot a b.
Proof. unfold dist, Dtot. rewrite !pre_out by lia. reflexivity. Qed.

Lemma dist_x0 a b x : 0 <= x -> dist a b x 0 = x.
Proof. intro H. unfold dist, pre. cbn [Z.to_nat firstn]. rewrite L_nil_r. lia. Qed.

Lemma dist_0y a b y : 0 <= y -> dist a b 0 y = y.
Proof. intro H. rewrite dist_comm. now apply dist_x0. Qed.

(* ---------- sequences without a common first / last element ---------- *)
Definition NoCommon (a b : list Z) : Prop :=
  1 <= zlen a -> 1 <= zlen b -> elt a 0 <> elt b 0 /\ elt a (zlen a - 1) <> elt b (zlen b - 1).

Lemma elt_last (l : list Z) p : elt (l ++ [p]) (zlen (l ++ [p]) - 1) = p.
Proof.
  unfold elt, zlen. rewrite app_length. cbn [length].
  destruct (Z.ltb_spec (Z.of_nat (length l + 1) - 1) 0) as [H|H]; [lia|].
  replace (Z.to_nat (Z.of_nat (length l + 1) - 1)) with (length l) by lia. apply nth_middle.
Qed.

Lemma L_le_1 (a b : list Z) x y a' b' p q a'' b'' :
  a = x :: a' -> b = y :: b' -> a = a'' ++ [p] -> b = b'' ++ [q] -> x <> y -> p <> q ->
  2 <= zlen a -> 2 <= zlen b -> 2 <= Dtot a b.
Proof.
  intros Ea Eb Ea2 Eb2 Hxy Hpq Hm Hn. unfold Dtot.
  assert (Hza : zlen a = 1 + zlen a') by (rewrite Ea; apply zlen_cons).
  assert (Hzb : zlen b = 1 + zlen b') by (rewrite Eb; apply zlen_cons).
  assert (Hza2 : zlen a = zlen a'' + 1) by (rewrite Ea2, zlen_app; reflexivity).
  assert (Hzb2 : zlen b = zlen b'' + 1) by (rewrite Eb2, zlen_app; reflexivity).
  (* the first elements differ *)
  assert (H1 : L a b = Z.max (L a' b) (L a b')).
  { rewrite Ea, Eb at 1. rewrite L_cons. destruct (Z.eqb_spec x y); [contradiction|]. now rewrite <- Ea, <- Eb. }
  (* a' and b' still end with p and q *)
  destruct a'' as [|x0 a3].
  { exfalso. rewrite Ea2 in Hm. cbn in Hm. lia. }
  destruct b'' as [|y0 b3].
  { exfalso. rewrite Eb2 in Hn. cbn in Hn. lia. }
  assert (Ea' : a' = a3 ++ [p]) by (rewrite Ea in Ea2; cbn [app] in Ea2; now injection Ea2).
  assert (Eb' : b' = b3 ++ [q]) by (rewrite Eb in Eb2; cbn [app] in Eb2; now injection Eb2).
  assert (Hz3 : zlen a' = zlen a3 + 1) by (rewrite Ea', zlen_app; reflexivity).
  assert (Hz4 : zlen b' = zlen b3 + 1) by (rewrite Eb', zlen_app; reflexivity).
  assert (H2 : L a' b = Z.max (L a3 b) (L a' (y0 :: b3))).
  { rewrite Ea' at 1. rewrite Eb2 at 1. rewrite (L_snoc_neq _ _ _ _ Hpq). now rewrite <- Ea', <- Eb2. }
  assert (H3 : L a b' = Z.max (L (x0 :: a3) b') (L a b3)).
  { rewrite Ea2 at 1. rewrite Eb' at 1. rewrite (L_snoc_neq _ _ _ _ Hpq). now rewrite <- Ea2, <- Eb'. }
  pose proof (L_le_len_l a3 b). pose proof (L_le_len_r a3 b).
  pose proof (L_le_len_l a' (y0 :: b3)). pose proof (L_le_len_r a' (y0 :: b3)).
  pose proof (L_le_len_l (x0 :: a3) b'). pose proof (L_le_len_r (x0 :: a3) b').
  pose proof (L_le_len_l a b3). pose proof (L_le_len_r a b3).
  rewrite !zlen_cons in *. lia.
Qed.

Lemma Dtot_ge_2 a b : 2 <= zlen a -> 2 <= zlen b -> NoCommon a b -> 2 <= Dtot a b.
Proof.
  intros Hm Hn Hnc. destruct (Hnc ltac:(lia) ltac:(lia)) as [H0 H1].
  destruct a as [|x a']; [cbn in Hm; lia|]. destruct b as [|y b']; [cbn in Hn; lia|].
  destruct (exists_last (l := x :: a') ltac:(discriminate)) as [a'' [p Ea]].
  destruct (exists_last (l := y :: b') ltac:(discriminate)) as [b'' [q Eb]].
  assert (Hpq : p <> q).
  { rewrite Ea in H1 at 1 2. rewrite Eb in H1 at 1 2. now rewrite !elt_last in H1. }
  apply (L_le_1 _ _ x y a' b' p q a'' b'' eq_refl eq_refl Ea Eb H0 Hpq Hm Hn).
Qed.

(* ---------- the snake counter stops at a mismatch or at its limit ---------- *)
Lemma count_snake_stop cond lim : forall fuel s0, lim - s0 < Z.of_nat fuel ->
  count_snake fuel cond lim s0 <= Z.max lim s0 /\
  (count_snake fuel cond lim s0 < lim -> cond (count_snake fuel cond lim s0) = false).
Proof.
  induction fuel as [|f IH]; intros s0 Hf; cbn [count_snake].
  - split; [lia|intros; lia].
  - destruct (Z.ltb_spec s0 lim) as [Hlt|Hge]; cbn [andb].
    + destruct (cond s0) eqn:E.
      * destruct (IH (s0 + 1) ltac:(lia)) as [H1 H2]. split; [lia|exact H2].
      * split; [lia|intros _; exact E].
    + split; [lia|intros; lia].
Qed.

Section Overlap.
Variables a b : list Z.
Local Notation m := (zlen a).
Local Notation n := (zlen b).
Local Notation delta := (zlen b - zlen a).
Local Notation fuelN := (S (length a + length b)).

(* what trace needs from a split (ai, bi, s) *)
Definition Good (ai bi s : Z) : Prop :=
  0 <= ai /\ 0 <= bi /\ 0 <= s /\ ai + s <= m /\ bi + s <= n /\
  ~ (ai = 0 /\ bi = 0) /\ ~ (ai = m /\ bi = n) /\
  (1 <= ai -> 1 <= bi -> elt a (ai - 1) <> elt b (bi - 1)) /\
  (ai + s < m -> bi + s < n -> elt a (ai + s) <> elt b (bi + s)).

Lemma rdist_mx y : 0 <= y <= n -> rdist a b m y = n - y.
Proof.
  intro H. unfold rdist, suf. rewrite (skipn_all2 a) by (unfold zlen; lia).
  change (L [] (skipn (Z.to_nat y) b)) with 0. lia.
Qed.

Lemma rdist_xn x : 0 <= x <= m -> rdist a b x n = m - x.
Proof.
  intro H. unfold rdist, suf. rewrite (skipn_all2 b) by (unfold zlen; lia).
  rewrite L_nil_r. lia.
Qed.

Lemma distR_full : dist (rev a) (rev b) m n = Dtot a b.
Proof.
  pose proof (dist_full (rev a) (rev b)) as H. rewrite !zlen_rev in H. rewrite H.
  unfold Dtot. now rewrite L_rev, !zlen_rev.
Qed.

(* A forward furthest point (fx, fx - k) of cost df and a reverse furthest point of cost dr on the same
   diagonal that have met, while no cheaper meeting exists (df + dr <= D): both lie in the grid, the split
   at the reverse point makes progress and the two sub-problems have no common prefix / suffix. *)
Lemma overlap_gen df dr k fx ru s :
  2 <= Dtot a b -> 0 <= dr -> dr <= df <= dr + 1 -> df + dr <= Dtot a b ->
  Vf a b df k fx -> Vr a b dr (- delta - k) ru -> m - ru <= fx ->
  s = count_snake fuelN (fun s => elt a (m - ru + s) =? elt b (m - ru - k + s)) (fx - (m - ru)) 0 ->
  Good (m - ru) (m - ru - k) s.
Proof.
  intros HD Hdr Hdf Hsum [F1 [F2 [F3 F4]]] [R1 [R2 [R3 R4]]] Hov Hs.
  remember (ru - (- delta - k)) as rw eqn:Erw.
  remember (fx - k) as fy eqn:Efy.
  pose proof (dist_ge_diff a b fx fy F1 ltac:(lia)) as [FG1 FG2].
  pose proof (dist_ge_diff (rev a) (rev b) ru rw R1 ltac:(lia)) as [RG1 RG2].
  pose proof (dist_full a b) as Hfull. pose proof distR_full as HfullR.
  pose proof (zlen_nonneg a) as Hm0. pose proof (zlen_nonneg b) as Hn0.
  (* the reverse point is in the grid *)
  assert (Hru : ru <= m).
  { destruct (Z.le_gt_cases ru m) as [|Hgt]; [assumption|exfalso].
    pose proof (dist_sat_x (rev a) (rev b) ru rw) as S1. rewrite zlen_rev in S1. specialize (S1 ltac:(lia)).
    destruct (Z.le_gt_cases rw n) as [Hw|Hw].
    - pose proof (dist_rev a b m rw ltac:(lia) ltac:(lia)) as S2.
      pose proof (dist_rdist_ge a b 0 (n - rw)) as S3. rewrite dist_0y in S3 by lia.
      replace (m - m) with 0 in S2 by lia. lia.
    - pose proof (dist_sat_y (rev a) (rev b) m rw) as S2. rewrite zlen_rev in S2. specialize (S2 ltac:(lia)). lia. }
  assert (Hrw : rw <= n).
  { destruct (Z.le_gt_cases rw n) as [|Hgt]; [assumption|exfalso].
    pose proof (dist_sat_y (rev a) (rev b) ru rw) as S1. rewrite zlen_rev in S1. specialize (S1 ltac:(lia)).
    pose proof (dist_rev a b ru n ltac:(lia) ltac:(lia)) as S2.
    pose proof (dist_rdist_ge a b (m - ru) 0) as S3. rewrite dist_x0 in S3 by lia.
    replace (n - n) with 0 in S2 by lia. lia. }
  assert (Hrd : rdist a b (m - ru) (n - rw) <= dr).
  { rewrite rdist_as_dist by lia. replace (m - (m - ru)) with ru by lia. replace (n - (n - rw)) with rw by lia. exact R3. }
  (* the forward point is in the grid *)
  assert (Hfx : fx <= m).
  { destruct (Z.le_gt_cases fx m) as [|Hgt]; [assumption|exfalso].
    pose proof (dist_sat_x a b fx fy ltac:(lia)) as S1.
    destruct (Z.le_gt_cases fy n) as [Hw|Hw].
    - pose proof (dist_rdist_ge a b m fy) as S3. rewrite rdist_mx in S3 by lia. lia.
    - pose proof (dist_sat_y a b m fy ltac:(lia)) as S2. lia. }
  assert (Hfy : fy <= n).
  { destruct (Z.le_gt_cases fy n) as [|Hgt]; [assumption|exfalso].
    pose proof (dist_sat_y a b fx fy ltac:(lia)) as S1.
    pose proof (dist_rdist_ge a b fx n) as S3. rewrite rdist_xn in S3 by lia. lia. }
  (* the snake *)
  match type of Hs with _ = count_snake ?fu ?cond ?lim 0 =>
    destruct (count_snake_spec cond lim fu 0) as [C1 _];
    destruct (count_snake_stop cond lim fu 0) as [C2 C3]; [unfold zlen in *; lia|] end.
  rewrite <- Hs in C1, C2, C3. cbn beta in C3.
  unfold Good. repeat split; try lia.
  - (* not (0, 0) *)
    intros [E1 E2]. assert (E3 : ru = m) by lia. assert (E4 : rw = n) by lia. rewrite E3, E4 in R3. lia.
  - (* not (m, n) *)
    intros [E1 E2]. assert (E3 : fx = m) by lia. assert (E4 : fy = n) by lia. rewrite E3, E4 in F3. lia.
  - (* the left part has no common suffix *)
    intros A1 A2 Heq.
    assert (Hmc : Mc m n (condr a b) ru rw = true).
    { unfold Mc, condr. rewrite !andb_true_iff. repeat split; [apply Z.ltb_lt; lia|apply Z.ltb_lt; lia|].
      apply Z.eqb_eq. replace (m - ru - 1) with (m - ru - 1) by lia.
      replace (n - rw - 1) with (m - ru - k - 1) by lia. exact Heq. }
    rewrite Mc_r in Hmc by lia.
    pose proof (dist_match (rev a) (rev b) ru rw R1 ltac:(lia) Hmc) as Hd.
    specialize (R4 (ru + 1) ltac:(lia) ltac:(lia)).
    replace (ru + 1 - (- delta - k)) with (rw + 1) in R4 by lia. lia.
  - (* the right part has no common prefix *)
    intros A1 A2 Heq.
    destruct (Z.lt_ge_cases s (fx - (m - ru))) as [Hlt|Hge].
    + specialize (C3 Hlt). apply Z.eqb_neq in C3. contradiction.
    + assert (Es : s = fx - (m - ru)) by lia.
      assert (Hmc : Mc m n (condf a b) fx fy = true).
      { unfold Mc, condf. rewrite !andb_true_iff. repeat split; [apply Z.ltb_lt; lia|apply Z.ltb_lt; lia|].
        apply Z.eqb_eq. replace fx with (m - ru + s) by lia. replace fy with (m - ru - k + s) by lia. exact Heq. }
      rewrite Mc_f in Hmc by lia.
      pose proof (dist_match a b fx fy F1 ltac:(lia) Hmc) as Hd.
      specialize (F4 (fx + 1) ltac:(lia) ltac:(lia)).
      replace (fx + 1 - k) with (fy + 1) in F4 by lia. lia.
Qed.
End Overlap.

(* ---------- the passes of middle, again, with the stronger postcondition ---------- *)
Section Myers2.
Variables a b : list Z.
Local Notation m := (zlen a).
Local Notation n := (zlen b).
Local Notation delta := (zlen b - zlen a).
Local Notation mx := ((zlen a + zlen b + 2) / 2).
Local Notation fuelN := (S (length a + length b)).
Local Notation lo := (lo b).
Local Notation hi := (hi a).
Local Notation V1 := (V1 a b).
Local Notation V2 := (V2 a b).
Local Notation Vf := (Vf a b).
Local Notation Vr := (Vr a b).

Hypothesis Hm2 : 2 <= m.
Hypothesis Hn2 : 2 <= n.
Variable len0 : Z.
Hypothesis Hlen0 : 2 * (m + n + 2) <= len0.
Hypothesis HD2 : 2 <= Dtot a b.

Local Notation FI := (FI a b len0).
Local Notation BI := (BI a b len0).

Ltac win_lia := pose proof (mx_bounds a b); unfold Diff_myers.lo, Diff_myers.hi in *;
  repeat match goal with
  | |- context[?x >? ?y] => destruct (Z.gtb_spec x y)
  | H : context[?x >? ?y] |- _ => destruct (Z.gtb_spec x y)
  end; lia.

Lemma forward_pass2 d ps pl : 0 <= d -> 2 * d <= m + n + 1 ->
  (Z.odd delta = true -> 2 * d - 1 <= Dtot a b) ->
  ((d = 0 /\ ps = 0 /\ pl = 0) \/ (1 <= d /\ ps = lo (d - 1) /\ pl = hi (d - 1))) ->
  forall fuel k buf, FI d k buf -> same_par k d -> lo d <= k -> hi d - k < 2 * Z.of_nat fuel ->
  match forward a b fuel d k (hi d) ps pl buf with
  | (buf', Some (ai, bi, s)) => zlen buf' = len0 /\ Good a b ai bi s
  | (buf', None) => exists k', hi d < k' /\ FI d k' buf'
  end.
Proof.
  intros Hd H2d Hlow Hps. induction fuel as [|f IH]; intros k buf HI Hpar Hlo Hfuel.
  { cbn [forward]. exists k. split; [lia|exact HI]. }
  rewrite forward_S. destruct (Z.gtb_spec k (hi d)) as [Hgt|Hle].
  { exists k. split; [lia|exact HI]. }
  cbv zeta.
  set (x := newx m n (condf a b) fuelN d k (getb buf (mx + k - 1)) (getb buf (mx + k + 1))).
  set (buf' := setb buf (mx + k) x).
  set (k2 := - delta - k).
  assert (Hkd : - d <= k <= d) by win_lia.
  assert (Hidx : 0 <= mx + k < len0) by win_lia.
  assert (Hlen := fi_len _ _ _ _ _ _ HI).
  assert (Hx : Vf d k x).
  { unfold x. replace (mx + k - 1) with (mx + (k - 1)) by lia. replace (mx + k + 1) with (mx + (k + 1)) by lia.
    fold (V1 buf (k - 1)) (V1 buf (k + 1)). apply Vf_update; try assumption.
    - intros ->. assert (k = 0) by lia. subst k. apply (fi_i1 _ _ _ _ _ _ HI eq_refl).
    - intros H1 Hk. destruct Hpar as [j Hj]. apply (fi_p1 _ _ _ _ _ _ HI H1); [win_lia|]. exists j. lia.
    - intros H1 Hk. destruct Hpar as [j Hj]. apply (fi_p1 _ _ _ _ _ _ HI H1); [win_lia|]. exists (j + 1). lia. }
  assert (F1 : forall k', V1 buf' k' = if k' =? k then x else V1 buf k') by (intro; apply (V1_write a b len0); assumption).
  assert (F2 : forall d' k', 0 <= d' -> lo d' <= k' -> V2 buf' k' = V2 buf k').
  { intros d' k' Hd' Hk'. apply (V2_write1 a b len0); try assumption. apply (window_sep a b d d'); assumption. }
  assert (Hk2 : Z.odd delta = true -> ps <= k2 <= pl -> 1 <= d /\ Vr (d - 1) k2 (V2 buf' k2)).
  { intros Hodd Hr. destruct (odd_delta_ex a b Hodd) as [q Hq]. destruct Hps as [[-> [-> ->]]|[H1 [-> ->]]].
    - exfalso. unfold k2 in Hr. lia.
    - split; [exact H1|]. rewrite (F2 (d - 1) k2) by lia. apply (fi_p2 _ _ _ _ _ _ HI H1); [lia|].
      destruct Hpar as [j Hj]. exists (- q - j - d). unfold k2. lia. }
  match goal with |- context[if ?c then _ else _] => destruct c eqn:Ec end.
  - (* the paths overlap *)
    rewrite !andb_true_iff in Ec. destruct Ec as [[[Eo E1] E2] E3].
    apply Z.geb_le in E1, E3. apply Z.leb_le in E2.
    destruct (Hk2 Eo (conj E1 E2)) as [H1 Hu].
    split; [unfold buf'; now rewrite zlen_setb|].
    fold k2. fold k2 in E3. specialize (Hlow Eo).
    apply (overlap_gen a b d (d - 1) k x (V2 buf' k2)); try assumption; try lia.
    reflexivity.
  - (* no overlap on this diagonal *)
    assert (HI' : FI d (k + 2) buf').
    { constructor.
      - unfold buf'. now rewrite zlen_setb.
      - intros k' L1 L2 L3 Pk'. rewrite F1. destruct (Z.eqb_spec k' k) as [->|Hne]; [exact Hx|].
        apply (fi_cur _ _ _ _ _ _ HI); try assumption.
        destruct Pk' as [j1 E1]. destruct Hpar as [j2 E2]. lia.
      - intros H1 k' Hr Pk'. rewrite F1. destruct (Z.eqb_spec k' k) as [Heq|Hne].
        + exfalso. rewrite Heq in Pk'. exact (not_same_par_succ _ _ Hpar Pk').
        + now apply (fi_p1 _ _ _ _ _ _ HI).
      - intros H1 k' Hr Pk'. rewrite (F2 (d - 1) k') by lia. now apply (fi_p2 _ _ _ _ _ _ HI).
      - intros ->. rewrite F1. assert (k = 0) by lia. subst k. cbn. apply (fi_i1 _ _ _ _ _ _ HI eq_refl).
      - intros ->. unfold buf'. rewrite (V2_write1 a b len0); [apply (fi_i2 _ _ _ _ _ _ HI eq_refl)|assumption|assumption|win_lia].
      - intros Hodd k' L1 L2 L3 Pk' px py Hpx Hpy Hdiag Hdist Hrd.
        destruct (Z.eq_dec k' k) as [->|Hne].
        2:{ apply (fi_nm _ _ _ _ _ _ HI Hodd k') with (px := px) (py := py); try assumption.
            destruct Pk' as [j1 E1]. destruct Hpar as [j2 E2]. lia. }
        pose proof (rdist_nonneg a b px py Hpx Hpy) as Hrn.
        destruct (in_window_r a b px py (d - 1) Hpx Hpy Hrd) as [Wr Pr].
        assert (Hk2eq : (m - px) - (n - py) = k2) by (unfold k2; lia). rewrite Hk2eq in *.
        assert (Hpsl : ps <= k2 <= pl) by (destruct Hps as [[? _]|[_ [-> ->]]]; lia).
        destruct (Hk2 Hodd Hpsl) as [H1 Hu].
        destruct Hx as [X1 [X2 [X3 X4]]]. destruct Hu as [U1 [U2 [U3 U4]]].
        assert (Hpx' : px <= x).
        { apply X4; try lia. replace (px - k) with py by lia. lia. }
        assert (Hu' : m - px <= V2 buf' k2).
        { apply U4; try lia. replace (m - px - k2) with (n - py) by lia.
          rewrite <- rdist_as_dist by lia. lia. }
        assert (Hc : Z.odd delta && (k2 >=? ps) && (k2 <=? pl) && (x >=? m - V2 buf' k2) = true).
        { rewrite !andb_true_iff. repeat split; [exact Hodd|apply Z.geb_le; lia|apply Z.leb_le; lia|apply Z.geb_le; lia]. }
        fold k2 in Ec. congruence. }
    apply IH; [exact HI'|apply same_par_step; exact Hpar|lia|lia].
Qed.

Lemma backward_pass2 d : 0 <= d -> 2 * d <= m + n + 1 ->
  (Z.odd delta = false -> 2 * d <= Dtot a b) ->
  forall fuel k buf, BI d k buf -> same_par k d -> lo d <= k -> hi d - k < 2 * Z.of_nat fuel ->
  match backward a b fuel d k (lo d) (hi d) buf with
  | (buf', Some (ai, bi, s)) => zlen buf' = len0 /\ Good a b ai bi s
  | (buf', None) => exists k', hi d < k' /\ BI d k' buf'
  end.
Proof.
  intros Hd H2d Hlow. induction fuel as [|f IH]; intros k buf HI Hpar Hlo Hfuel.
  { cbn [backward]. exists k. split; [lia|exact HI]. }
  rewrite backward_S. destruct (Z.gtb_spec k (hi d)) as [Hgt|Hle].
  { exists k. split; [lia|exact HI]. }
  cbv zeta.
  set (x := newx m n (condr a b) fuelN d k (getb buf (2 * mx + (mx + k - 1))) (getb buf (2 * mx + (mx + k + 1)))).
  set (buf' := setb buf (2 * mx + mx + k) x).
  set (k1 := - delta - k).
  assert (Hkd : - d <= k <= d) by win_lia.
  assert (Hidx : 0 <= 2 * mx + mx + k < len0) by win_lia.
  assert (Hlen := bi_len _ _ _ _ _ _ HI).
  assert (Hx : Vr d k x).
  { unfold x. replace (mx + k - 1) with (mx + (k - 1)) by lia. replace (mx + k + 1) with (mx + (k + 1)) by lia.
    fold (V2 buf (k - 1)) (V2 buf (k + 1)). apply Vr_update; try assumption.
    - intros ->. assert (k = 0) by lia. subst k. apply (bi_i2 _ _ _ _ _ _ HI eq_refl).
    - intros H1 Hk. destruct Hpar as [j Hj]. apply (bi_p _ _ _ _ _ _ HI H1); [win_lia|]. exists j. lia.
    - intros H1 Hk. destruct Hpar as [j Hj]. apply (bi_p _ _ _ _ _ _ HI H1); [win_lia|]. exists (j + 1). lia. }
  assert (F2 : forall k', V2 buf' k' = if k' =? k then x else V2 buf k') by (intro; apply (V2_write a b len0); assumption).
  assert (F1 : forall d' k', 0 <= d' -> k' <= hi d' -> V1 buf' k' = V1 buf k').
  { intros d' k' Hd' Hk'. apply (V1_write2 a b len0); try assumption. apply (window_sep a b d' d); assumption. }
  assert (Hk1 : Z.odd delta = false -> lo d <= k1 <= hi d -> Vf d k1 (V1 buf' k1)).
  { intros Hev Hr. destruct (even_delta_ex a b Hev) as [q Hq].
    rewrite (F1 d k1) by lia. apply (bi_f _ _ _ _ _ _ HI); [lia|].
    destruct Hpar as [j Hj]. exists (- q - j - d). unfold k1. lia. }
  match goal with |- context[if ?c then _ else _] => destruct c eqn:Ec end.
  - (* the paths overlap *)
    rewrite !andb_true_iff in Ec. destruct Ec as [[[Eo E1] E2] E3].
    apply negb_true_iff in Eo. apply Z.geb_le in E1, E3. apply Z.leb_le in E2.
    pose proof (Hk1 Eo (conj E1 E2)) as Hu.
    split; [unfold buf'; now rewrite zlen_setb|].
    fold k1 in E3. specialize (Hlow Eo).
    replace (n - (x - k)) with (m - x - k1) by (unfold k1; lia).
    apply (overlap_gen a b d d k1 (V1 buf' k1) x); try assumption; try lia.
    + replace (- delta - k1) with k by (unfold k1; lia). exact Hx.
    + unfold bsnake. fold k1. replace (n - (x - k)) with (m - x - k1) by (unfold k1; lia). reflexivity.
  - (* no overlap on this diagonal *)
    assert (HI' : BI d (k + 2) buf').
    { constructor.
      - unfold buf'. now rewrite zlen_setb.
      - intros k' L1 L2 L3 Pk'. rewrite F2. destruct (Z.eqb_spec k' k) as [->|Hne]; [exact Hx|].
        apply (bi_cur _ _ _ _ _ _ HI); try assumption.
        destruct Pk' as [j1 E1]. destruct Hpar as [j2 E2]. lia.
      - intros H1 k' Hr Pk'. rewrite F2. destruct (Z.eqb_spec k' k) as [Heq|Hne].
        + exfalso. rewrite Heq in Pk'. exact (not_same_par_succ _ _ Hpar Pk').
        + now apply (bi_p _ _ _ _ _ _ HI).
      - intros k' Hr Pk'. rewrite (F1 d k') by lia. now apply (bi_f _ _ _ _ _ _ HI).
      - intros ->. rewrite F2. assert (k = 0) by lia. subst k. cbn. apply (bi_i2 _ _ _ _ _ _ HI eq_refl).
      - intros Hev k' L1 L2 L3 Pk' px py Hpx Hpy Hdiag Hdist Hrd.
        destruct (Z.eq_dec k' k) as [->|Hne].
        2:{ apply (bi_nm _ _ _ _ _ _ HI Hev k') with (px := px) (py := py); try assumption.
            destruct Pk' as [j1 E1]. destruct Hpar as [j2 E2]. lia. }
        destruct (in_window_f a b px py d Hpx Hpy Hdist) as [Wf Pf].
        assert (Hk1eq : px - py = k1) by (unfold k1; lia). rewrite Hk1eq in *.
        pose proof (Hk1 Hev Wf) as Hu.
        destruct Hx as [X1 [X2 [X3 X4]]]. destruct Hu as [U1 [U2 [U3 U4]]].
        assert (Hpx' : px <= V1 buf' k1).
        { apply U4; try lia. replace (px - k1) with py by lia. lia. }
        assert (Hx' : m - px <= x).
        { apply X4; try lia. replace (m - px - k) with (n - py) by lia.
          rewrite <- rdist_as_dist by lia. lia. }
        assert (Hc : negb (Z.odd delta) && (k1 >=? lo d) && (k1 <=? hi d) && (V1 buf' k1 >=? m - x) = true).
        { rewrite !andb_true_iff. repeat split; [now rewrite Hev|apply Z.geb_le; lia|apply Z.leb_le; lia|apply Z.geb_le; lia]. }
        fold k1 in Ec. congruence. }
    apply IH; [exact HI'|apply same_par_step; exact Hpar|lia|lia].
Qed.

Lemma middle_loop_good : forall fuel d ps pl buf, 0 <= d -> FI d (lo d) buf ->
  ((d = 0 /\ ps = 0 /\ pl = 0) \/ (1 <= d /\ ps = lo (d - 1) /\ pl = hi (d - 1))) ->
  (Z.odd delta = true -> 2 * d - 1 <= Dtot a b) ->
  (Z.odd delta = false -> 2 * d <= Dtot a b) ->
  forall ai bi s buf', middle_loop a b fuel d ps pl buf = MidFound ai bi s buf' ->
  zlen buf' = len0 /\ Good a b ai bi s.
Proof.
  induction fuel as [|f IH]; intros d ps pl buf Hd HI Hps Ho He ai bi s buf' H; [discriminate|].
  rewrite middle_loop_S in H. destruct (d >? mx); [discriminate|].
  pose proof (Dtot_bounds a b) as [Db1 Db2].
  assert (H2d : 2 * d <= m + n + 1) by (destruct (Z.odd delta); [specialize (Ho eq_refl)|specialize (He eq_refl)]; lia).
  assert (Hfu : hi d - lo d < 2 * Z.of_nat fuelN) by (unfold zlen in *; win_lia).
  pose proof (forward_pass2 d ps pl Hd H2d Ho Hps fuelN (lo d) buf HI (same_par_lo b d) (Z.le_refl _) Hfu) as HF.
  destruct (forward a b fuelN d (lo d) (hi d) ps pl buf) as [buf1 [[[ai1 bi1] s1]|]].
  { injection H as <- <- <- <-. exact HF. }
  destruct HF as [k1 [Hk1 HI1]].
  pose proof (backward_pass2 d Hd H2d He fuelN (lo d) buf1 (FI_end_BI a b len0 d k1 buf1 Hk1 HI1) (same_par_lo b d) (Z.le_refl _) Hfu) as HB.
  destruct (backward a b fuelN d (lo d) (lo d) (hi d) buf1) as [buf2 [[[ai2 bi2] s2]|]].
  { injection H as <- <- <- <-. exact HB. }
  destruct HB as [k2 [Hk2 HI2]].
  apply (IH (d + 1) (lo d) (hi d) buf2); try assumption.
  - lia.
  - eapply BI_end_FI; eauto.
  - right. replace (d + 1 - 1) with d by lia. repeat split; lia.
  - intro Hodd. pose proof (forward_no_mid a b len0 d k1 buf1 Hd Hk1 HI1 Hodd). specialize (Ho Hodd).
    destruct (odd_delta_ex a b Hodd) as [q Hq]. unfold Dtot in *. lia.
  - intro Hev. pose proof (backward_no_mid a b len0 d k2 buf2 Hd Hk2 HI2 Hev). specialize (He Hev).
    destruct (even_delta_ex a b Hev) as [q Hq]. unfold Dtot in *. lia.
Qed.
End Myers2.

(* middle on sequences (length >= 2) without a common first / last element: the split is in the grid, makes
   progress, and its two sides again have no common first / last element *)
Theorem middle_good a b buf ai bi s buf' : 2 <= zlen a -> 2 <= zlen b -> 2 * (zlen a + zlen b + 2) <= zlen buf ->
  NoCommon a b -> middle a b buf = MidFound ai bi s buf' -> zlen buf' = zlen buf /\ Good a b ai bi s.
Proof.
  intros Hm Hn Hbuf Hnc H. rewrite middle_unfold in H. pose proof (Dtot_bounds a b).
  eapply (middle_loop_good a b Hm Hn (zlen buf) Hbuf (Dtot_ge_2 a b Hm Hn Hnc) _ 0 0 0 _ (Z.le_refl 0)); [| | | |exact H].
  - now apply middle_init_FI.
  - left. repeat split.
  - intros _. lia.
  - intros _. lia.
Qed.

(* ---------- trace ---------- *)
Lemma elt_sub (l : list Z) from to j : 0 <= from -> 0 <= j < to - from -> to <= zlen l ->
  elt (sub l from to) j = elt l (from + j).
Proof. intros Hf Hj Ht. rewrite (elt_nth (sub l from to)) by lia. now apply sub_nth. Qed.

Lemma NoCommon_left a b ai bi s : NoCommon a b -> 1 <= zlen a -> 1 <= zlen b -> Good a b ai bi s ->
  NoCommon (sub a 0 ai) (sub b 0 bi).
Proof.
  intros Hnc Hm Hn (G1 & G2 & G3 & G4 & G5 & G6 & G7 & G8 & G9).
  assert (La : zlen (sub a 0 ai) = ai) by (rewrite sub_length; lia).
  assert (Lb : zlen (sub b 0 bi) = bi) by (rewrite sub_length; lia).
  unfold NoCommon. rewrite La, Lb. intros Ha Hb.
  rewrite !elt_sub by lia. rewrite !Z.add_0_l. destruct (Hnc Hm Hn) as [H0 _]. split; [exact H0|].
  apply G8; lia.
Qed.

Lemma NoCommon_right a b ai bi s : NoCommon a b -> 1 <= zlen a -> 1 <= zlen b -> Good a b ai bi s ->
  NoCommon (sub a (ai + s) (zlen a)) (sub b (bi + s) (zlen b)).
Proof.
  intros Hnc Hm Hn (G1 & G2 & G3 & G4 & G5 & G6 & G7 & G8 & G9).
  assert (La : zlen (sub a (ai + s) (zlen a)) = zlen a - (ai + s)) by (rewrite sub_length; lia).
  assert (Lb : zlen (sub b (bi + s) (zlen b)) = zlen b - (bi + s)) by (rewrite sub_length; lia).
  unfold NoCommon. rewrite La, Lb. intros Ha Hb.
  rewrite !elt_sub by lia. destruct (Hnc Hm Hn) as [_ H1]. split.
  - rewrite !Z.add_0_r. apply G9; lia.
  - replace (ai + s + (zlen a - (ai + s) - 1)) with (zlen a - 1) by lia.
    replace (bi + s + (zlen b - (bi + s) - 1)) with (zlen b - 1) by lia. exact H1.
Qed.

(* trace never fails: with fuel > |a|+|b|, a buffer of the size lcs allocates, and no common first / last
   element (the precondition stated in diff.go), it returns a script and keeps the buffer's length *)
Theorem trace_total : forall fuel a b buf chunks,
  zlen a + zlen b < Z.of_nat fuel -> 2 * (zlen a + zlen b + 2) <= zlen buf -> NoCommon a b ->
  exists ret buf', trace middle fuel a b buf chunks = TraceOk ret buf' /\ zlen buf' = zlen buf.
Proof.
  induction fuel as [|f IH]; intros a b buf chunks Hfuel Hbuf Hnc.
  { pose proof (zlen_nonneg a). pose proof (zlen_nonneg b). lia. }
  destruct a as [|x a'].
  { cbn [trace]. eauto. }
  destruct b as [|y b'].
  { destruct a' as [|? ?]; cbn [trace]; eauto. }
  destruct a' as [|x2 a''].
  { cbn [trace]. destruct (find_index x (y :: b') 0); eauto. }
  destruct b' as [|y2 b''].
  { cbn [trace]. destruct (find_index y (x :: x2 :: a'') 0); eauto. }
  cbn [trace].
  set (a := x :: x2 :: a'') in *. set (b := y :: y2 :: b'') in *.
  assert (Hm : 2 <= zlen a) by (unfold a; rewrite !zlen_cons; pose proof (zlen_nonneg a''); lia).
  assert (Hn : 2 <= zlen b) by (unfold b; rewrite !zlen_cons; pose proof (zlen_nonneg b''); lia).
  destruct (middle_total a b buf Hm Hn Hbuf) as (ai & bi & s & buf1 & Em). rewrite Em.
  destruct (middle_good a b buf ai bi s buf1 Hm Hn Hbuf Hnc Em) as [Hl1 HG].
  pose proof HG as (G1 & G2 & G3 & G4 & G5 & G6 & G7 & G8 & G9).
  replace ((ai =? zlen a) && (bi =? zlen b) || (ai =? 0) && (bi =? 0)) with false.
  2:{ symmetry. apply orb_false_iff. split; apply andb_false_iff.
      - destruct (Z.eqb_spec ai (zlen a)); [|now left]. destruct (Z.eqb_spec bi (zlen b)); [|now right]. tauto.
      - destruct (Z.eqb_spec ai 0); [|now left]. destruct (Z.eqb_spec bi 0); [|now right]. tauto. }
  replace ((0 <=? ai) && (0 <=? bi) && (0 <=? s) && (ai + s <=? zlen a) && (bi + s <=? zlen b)) with true.
  2:{ symmetry. rewrite !andb_true_iff. repeat split; apply Z.leb_le; lia. }
  cbn [negb].
  destruct (IH (sub a 0 ai) (sub b 0 bi) buf1 chunks) as (ret1 & buf2 & E1 & Hl2).
  { rewrite !sub_length by lia. lia. }
  { rewrite !sub_length by lia. lia. }
  { apply (NoCommon_left a b ai bi s); try assumption; lia. }
  rewrite E1.
  destruct (IH (sub a (ai + s) (zlen a)) (sub b (bi + s) (zlen b)) buf2
              (if s >? 0 then ret1 ++ [mkChunk 0 0 s] else ret1)) as (ret2 & buf3 & E2 & Hl3).
  { rewrite !sub_length by lia. lia. }
  { rewrite !sub_length by lia. lia. }
  { apply (NoCommon_right a b ai bi s); try assumption; lia. }
  rewrite E2. exists ret2, buf3. split; [reflexivity|lia].
Qed.

(* ---------- lcs: the trimmed sequences have no common first / last element ---------- *)
Lemma common_prefix_max a : forall b, (common_prefix a b < length a)%nat -> (common_prefix a b < length b)%nat ->
  nth (common_prefix a b) a (-1) <> nth (common_prefix a b) b (-1).
Proof.
  induction a as [|x a IH]; intros b Ha Hb; [cbn in Ha; lia|].
  destruct b as [|y b]; [cbn in Hb; lia|]. cbn [common_prefix] in *.
  destruct (Z.eqb_spec x y) as [->|Hne].
  - cbn [nth length] in *. apply IH; lia.
  - cbn [nth]. exact Hne.
Qed.

Lemma trimmed_NoCommon a b :
  let p := common_prefix a b in
  let ln := (Nat.min (length a) (length b) - p)%nat in
  let s := Nat.min ln (common_prefix (rev a) (rev b)) in
  NoCommon (firstn (length a - p - s) (skipn p a)) (firstn (length b - p - s) (skipn p b)).
Proof.
  intros p ln s.
  destruct (common_prefix_spec a b) as [_ [Hpa Hpb]]. fold p in Hpa, Hpb.
  set (a' := firstn (length a - p - s) (skipn p a)). set (b' := firstn (length b - p - s) (skipn p b)).
  assert (La : length a' = (length a - p - s)%nat) by (unfold a'; rewrite firstn_length, skipn_length; lia).
  assert (Lb : length b' = (length b - p - s)%nat) by (unfold b'; rewrite firstn_length, skipn_length; lia).
  intros Ha Hb. unfold zlen in Ha, Hb |- *.
  assert (Ea : forall j, (j < length a')%nat -> elt a' (Z.of_nat j) = nth (p + j) a (-1)).
  { intros j Hj. rewrite elt_nth by lia. rewrite Nat2Z.id. unfold a'. rewrite nth_firstn' by lia. apply nth_skipn'. }
  assert (Eb : forall j, (j < length b')%nat -> elt b' (Z.of_nat j) = nth (p + j) b (-1)).
  { intros j Hj. rewrite elt_nth by lia. rewrite Nat2Z.id. unfold b'. rewrite nth_firstn' by lia. apply nth_skipn'. }
  split.
  - change 0 with (Z.of_nat 0). rewrite Ea, Eb by lia. rewrite Nat.add_0_r.
    apply common_prefix_max; fold p; lia.
  - replace (Z.of_nat (length a') - 1) with (Z.of_nat (length a' - 1)) by lia.
    replace (Z.of_nat (length b') - 1) with (Z.of_nat (length b' - 1)) by lia.
    rewrite Ea, Eb by lia.
    assert (Hs : s = common_prefix (rev a) (rev b)) by (unfold s, ln in *; lia).
    pose proof (common_prefix_max (rev a) (rev b)) as Hmax. rewrite <- Hs, !rev_length in Hmax.
    specialize (Hmax ltac:(lia) ltac:(lia)). rewrite !rev_nth in Hmax by lia.
    replace (p + (length a' - 1))%nat with (length a - S s)%nat by lia.
    replace (p + (length b' - 1))%nat with (length b - S s)%nat by lia. exact Hmax.
Qed.

(* lcs is total: log.Fatal("no snake"), the slice-bounds failures and the model's fuel exhaustion are
   unreachable for every pair of sequences *)
Theorem lcs_total a b : exists chunks, lcs a b = LcsOk chunks.
Proof.
  unfold lcs, lcs_gen.
  set (p := common_prefix a b).
  set (s := Nat.min (Nat.min (length a) (length b) - p) (common_prefix (rev a) (rev b))).
  set (a' := firstn (length a - p - s) (skipn p a)). set (b' := firstn (length b - p - s) (skipn p b)).
  destruct (trace_total (S (length a' + length b')) a' b' (repeat 0 (2 * (length a' + length b' + 2)))
              (if (0 <? p)%nat then [mkChunk 0 0 (Z.of_nat p)] else [])) as (ret & buf' & E & _).
  - unfold zlen. lia.
  - unfold zlen. rewrite repeat_length. lia.
  - apply trimmed_NoCommon.
  - rewrite E. eauto.
Qed.

Theorem script_minimal_total a b :
  exists chunks, lcs a b = LcsOk chunks /\ script_ok chunks a b = true /\
    cost chunks = zlen a + zlen b - 2 * L a b /\
    forall chunks', script_ok chunks' a b = true -> cost chunks <= cost chunks'.
Proof.
  destruct (lcs_total a b) as [chunks H]. exists chunks. split; [exact H|].
  destruct (lcs_valid_and_minimal a b chunks H) as [H1 H2]. repeat split; try assumption.
  now apply script_minimal.
Qed.

(* LineDiff therefore always renders the hunks of a minimum script *)
Lemma line_diff_total a b : a <> b ->
  exists chunks, lcs a b = LcsOk chunks /\ script_ok chunks a b = true /\
    line_diff a b = Some (diff_loop chunks true a b 0 0 (mkHunk 1 1 0 0 []) []).
Proof.
  intro H. destruct (lcs_total a b) as [c E]. exists c. split; [exact E|]. split; [now apply lcs_correct|].
  unfold line_diff. destruct (seq_eqb a b) eqn:Eq; [apply seq_eqb_eq in Eq; contradiction|]. now rewrite E.
Qed.
