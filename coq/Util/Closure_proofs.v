(* Proofs about the closure model (Util/Closure.v): every component callback computes the least solution
   of its equations given the already solved components; errors are exactly the complements on cycles. *)
From Coq Require Import List ZArith Bool Arith Lia.
From TM Require Import Lib.ListX Util.IntSet Util.IntSet_proofs Util.Graph Util.Graph_proofs Util.GraphSpec
  Util.GraphSpec_proofs Util.Closure Util.ClosureSem.
Import ListNotations.

(* ---------- state basics ---------- *)
Definition shape (nodes : list cnode) (st : cst) : Prop :=
  length (c_nodes st) = length nodes /\
  forall v, n_op (node_at st v) = n_op (nd nodes v) /\ n_edges (node_at st v) = n_edges (nd nodes v).

Definition all_wf (st : cst) : Prop := forall v, wf (val_at st v).

Lemma node_at_set_val st v x u : v < length (c_nodes st) ->
  node_at (set_val st v x) u =
  if Nat.eq_dec u v then mkNode (n_op (node_at st v)) (n_edges (node_at st v)) x else node_at st u.
Proof. intro H. unfold node_at, set_val. cbn [c_nodes]. now rewrite upd_nth. Qed.

Lemma val_at_set_val st v x u : v < length (c_nodes st) ->
  val_at (set_val st v x) u = if Nat.eq_dec u v then x else val_at st u.
Proof. intro H. unfold val_at. rewrite node_at_set_val by exact H. now destruct (Nat.eq_dec u v). Qed.

Lemma shape_set_val nodes st v x : shape nodes st -> v < length nodes -> shape nodes (set_val st v x).
Proof.
  intros [Hl Hs] Hv. split.
  - unfold set_val. cbn [c_nodes]. now rewrite upd_length.
  - intro u. rewrite node_at_set_val by lia. destruct (Nat.eq_dec u v) as [->|_]; [cbn; apply Hs|apply Hs].
Qed.

Lemma shape_add_err nodes st v : shape nodes st -> shape nodes (add_err st v).
Proof. intro H. exact H. Qed.

Lemma all_wf_set_val st v x : all_wf st -> wf x -> v < length (c_nodes st) -> all_wf (set_val st v x).
Proof. intros H Hx Hv u. rewrite val_at_set_val by exact Hv. destruct (Nat.eq_dec u v); [exact Hx|apply H]. Qed.

Lemma wf_empty : wf (mkIntSet false []).
Proof. reflexivity. Qed.
Lemma wf_full : wf (mkIntSet true []).
Proof. reflexivity. Qed.
Lemma den_empty x : ~ den (mkIntSet false []) x.
Proof. intros []. Qed.
Lemma den_full x : den (mkIntSet true []) x.
Proof. intros []. Qed.

(* ---------- folds of merge / intersect ---------- *)
Lemma fold_merge_spec (f : nat -> intset) (Hf : forall w, wf (f w)) edges : forall init, wf init ->
  wf (fold_left (fun res w => set_merge res (f w)) edges init) /\
  forall x, den (fold_left (fun res w => set_merge res (f w)) edges init) x <->
            den init x \/ exists w, In w edges /\ den (f w) x.
Proof.
  induction edges as [|e edges IH]; intros init Hi; cbn [fold_left].
  - split; [exact Hi|]. intro x. split; [tauto|]. intros [H|[w [[] _]]]. exact H.
  - destruct (IH (set_merge init (f e)) (merge_wf _ _ Hi (Hf e))) as [Hw Hd]. split; [exact Hw|].
    intro x. rewrite Hd. rewrite (merge_spec _ _ x Hi (Hf e)). split.
    + intros [[H|H]|[w [Hw' H]]]; [now left|right; exists e; cbn; auto|right; exists w; cbn; auto].
    + intros [H|[w [[<-|Hw'] H]]]; [left; now left|left; now right|right; eauto].
Qed.

Lemma fold_intersect_spec (f : nat -> intset) (Hf : forall w, wf (f w)) edges : forall init, wf init ->
  wf (fold_left (fun res w => set_intersect res (f w)) edges init) /\
  forall x, den (fold_left (fun res w => set_intersect res (f w)) edges init) x <->
            den init x /\ forall w, In w edges -> den (f w) x.
Proof.
  induction edges as [|e edges IH]; intros init Hi; cbn [fold_left].
  - split; [exact Hi|]. intro x. split; [intro H; split; [exact H|intros w []]|tauto].
  - destruct (IH (set_intersect init (f e)) (intersect_wf _ _ Hi (Hf e))) as [Hw Hd]. split; [exact Hw|].
    intro x. rewrite Hd. rewrite (intersect_spec _ _ x Hi (Hf e)). split.
    + intros [[H1 H2] H3]. split; [exact H1|]. intros w [<-|Hw']; [exact H2|now apply H3].
    + intros [H1 H2]. split; [split; [exact H1|apply H2; now left]|]. intros w Hw'. apply H2. now right.
Qed.

(* ---------- slow closure: one pass ---------- *)
Definition sp_step (on : list bool) (acc : cst * bool) : nat -> cst * bool :=
  let '(st, dirty) := acc in fun v =>
  let fs := node_at st v in
  match n_op fs with
  | OpIntersection =>
      let res := fold_left (fun res w => set_intersect res (val_at st w)) (n_edges fs) (mkIntSet true []) in
      if set_equals res (n_val fs) then (st, dirty) else (set_val st v res, true)
  | OpUnion =>
      let res := fold_left (fun res w => set_merge res (val_at st w)) (n_edges fs) (n_val fs) in
      if set_equals res (n_val fs) then (st, dirty) else (set_val st v res, true)
  | OpComplement =>
      match n_edges fs with
      | [w] => if nth w on false then (add_err st v, dirty)
               else let res := complement (val_at st w) in
                    if set_equals res (n_val fs) then (st, dirty) else (set_val st v res, true)
      | _ => (st, dirty)
      end
  end.

Lemma slow_pass_eq comp on st : slow_pass comp on st = fold_left (sp_step on) comp (st, false).
Proof. reflexivity. Qed.

(* the value a pass assigns to a union / intersection node *)
Definition sp_new (st : cst) (v : nat) : intset :=
  let fs := node_at st v in
  match n_op fs with
  | OpIntersection => fold_left (fun res w => set_intersect res (val_at st w)) (n_edges fs) (mkIntSet true [])
  | _ => fold_left (fun res w => set_merge res (val_at st w)) (n_edges fs) (n_val fs)
  end.

Lemma sp_step_pos on st d v : n_op (node_at st v) <> OpComplement ->
  sp_step on (st, d) v =
  if set_equals (sp_new st v) (val_at st v) then (st, d) else (set_val st v (sp_new st v), true).
Proof.
  intro H. unfold sp_step, sp_new, val_at. destruct (n_op (node_at st v)); [reflexivity|reflexivity|congruence].
Qed.

Lemma sp_new_union st v : all_wf st -> n_op (node_at st v) = OpUnion ->
  wf (sp_new st v) /\
  forall x, den (sp_new st v) x <-> den (val_at st v) x \/ exists w, In w (n_edges (node_at st v)) /\ den (val_at st w) x.
Proof.
  intros Hw Ho. unfold sp_new. rewrite Ho. apply (fold_merge_spec (val_at st) Hw). apply Hw.
Qed.

Lemma sp_new_inter st v : all_wf st -> n_op (node_at st v) = OpIntersection ->
  wf (sp_new st v) /\
  forall x, den (sp_new st v) x <-> forall w, In w (n_edges (node_at st v)) -> den (val_at st w) x.
Proof.
  intros Hw Ho. unfold sp_new. rewrite Ho.
  destruct (fold_intersect_spec (val_at st) Hw (n_edges (node_at st v)) _ wf_full) as [H1 H2].
  split; [exact H1|]. intro x. rewrite H2. split; [tauto|]. intro H. split; [apply den_full|exact H].
Qed.

Lemma sp_dirty_sticky on l : forall st, snd (fold_left (sp_step on) l (st, true)) = true.
Proof.
  induction l as [|v l IH]; intro st; [reflexivity|]. cbn [fold_left].
  assert (H : exists st', sp_step on (st, true) v = (st', true)).
  { unfold sp_step. destruct (n_op (node_at st v)).
    - destruct (set_equals _ _); eauto.
    - destruct (set_equals _ _); eauto.
    - destruct (n_edges (node_at st v)) as [|w [|? ?]]; eauto.
      destruct (nth w on false); eauto. destruct (set_equals _ _); eauto. }
  destruct H as [st' ->]. apply IH.
Qed.

(* a clean pass changed nothing: every node of the component already satisfies its equation *)
Lemma sp_clean on l : forall st d st',
  (forall v, In v l -> n_op (node_at st v) <> OpComplement) ->
  fold_left (sp_step on) l (st, d) = (st', false) ->
  st' = st /\ d = false /\ forall v, In v l -> sp_new st v = val_at st v.
Proof.
  induction l as [|v l IH]; intros st d st' Hnc H; cbn [fold_left] in H.
  - inversion H; subst. repeat split. intros v [].
  - rewrite sp_step_pos in H by (apply Hnc; now left).
    destruct (set_equals (sp_new st v) (val_at st v)) eqn:Eq.
    + destruct (IH st d st' (fun u Hu => Hnc u (or_intror Hu)) H) as [-> [-> Hall]]. repeat split.
      intros u [<-|Hu]; [now apply equals_spec|now apply Hall].
    + pose proof (sp_dirty_sticky on l (set_val st v (sp_new st v))) as Hs. rewrite H in Hs. discriminate.
Qed.

Section Component.
  Variables (nodes : list cnode) (neg : valuation) (comp : list nat) (done : nat -> Prop) (on : list bool) (st0 : cst).
  Hypothesis Hrange : forall v, In v comp -> v < length nodes.
  Hypothesis Hedges : forall v w, In v comp -> In w (n_edges (nd nodes v)) -> In w comp \/ done w.
  Hypothesis Hdisj : forall w, done w -> ~ In w comp.
  Hypothesis Hdone : forall w x, done w -> (den (val_at st0 w) x <-> lfp nodes neg w x).
  Hypothesis Hneg : forall w x, done w -> (neg w x <-> den (val_at st0 w) x).

  Record J (st : cst) : Prop := {
    J_shape : shape nodes st;
    J_wf : all_wf st;
    J_err : c_err st = c_err st0;
    J_oof : c_oof st = c_oof st0;
    J_out : forall u, ~ In u comp -> node_at st u = node_at st0 u;
    J_sound : forall v x, In v comp -> den (val_at st v) x -> lfp nodes neg v x;
    J_init : forall v x, In v comp -> n_op (nd nodes v) = OpUnion -> den (n_val (nd nodes v)) x -> den (val_at st v) x
  }.

  Hypothesis Hnc : forall v, In v comp -> n_op (nd nodes v) <> OpComplement.

  Lemma J_done_val st w x : J st -> done w -> (den (val_at st w) x <-> lfp nodes neg w x).
  Proof. intros HJ Hw. unfold val_at. rewrite (J_out st HJ w (Hdisj w Hw)). apply Hdone, Hw. Qed.

  Lemma J_step st d v : J st -> In v comp -> J (fst (sp_step on (st, d) v)).
  Proof.
    intros HJ Hv. destruct (J_shape st HJ) as [Hlen Hsh].
    destruct (Hsh v) as [Hop Hed].
    rewrite sp_step_pos by (rewrite Hop; now apply Hnc).
    destruct (set_equals (sp_new st v) (val_at st v)); [exact HJ|]. cbn [fst].
    assert (Hvl : v < length (c_nodes st)) by (rewrite Hlen; now apply Hrange).
    assert (Hnew : wf (sp_new st v) /\ (forall x, den (sp_new st v) x -> lfp nodes neg v x) /\
                   (forall x, n_op (nd nodes v) = OpUnion -> den (val_at st v) x -> den (sp_new st v) x)).
    { destruct (n_op (nd nodes v)) eqn:Eo.
      - destruct (sp_new_union st v (J_wf st HJ) Hop) as [W D]. split; [exact W|]. split.
        + intros x Hx. apply D in Hx as [Hx|[w [Hw Hx]]]; [now apply (J_sound st HJ)|].
          rewrite Hed in Hw. apply (lfp_union nodes neg v w x (Hrange v Hv) Eo Hw).
          destruct (Hedges v w Hv Hw) as [Hc|Hd]; [now apply (J_sound st HJ)|now apply (J_done_val st w x HJ Hd)].
        + intros x _ Hx. apply D. now left.
      - destruct (sp_new_inter st v (J_wf st HJ) Hop) as [W D]. split; [exact W|]. split.
        + intros x Hx. apply (lfp_inter nodes neg v x (Hrange v Hv) Eo). intros w Hw.
          assert (Hx' : den (val_at st w) x) by (apply (proj1 (D x) Hx); now rewrite Hed).
          destruct (Hedges v w Hv Hw) as [Hc|Hd]; [now apply (J_sound st HJ)|now apply (J_done_val st w x HJ Hd)].
        + intros x E. discriminate.
      - exfalso. now apply (Hnc v Hv). }
    destruct Hnew as [W [Snd Grow]].
    constructor.
    - apply shape_set_val; [exact (J_shape st HJ)|now apply Hrange].
    - apply all_wf_set_val; [exact (J_wf st HJ)|exact W|exact Hvl].
    - exact (J_err st HJ).
    - exact (J_oof st HJ).
    - intros u Hu. rewrite node_at_set_val by exact Hvl.
      destruct (Nat.eq_dec u v) as [->|_]; [contradiction|now apply (J_out st HJ)].
    - intros u x Hu. rewrite val_at_set_val by exact Hvl.
      destruct (Nat.eq_dec u v) as [->|_]; [apply Snd|now apply (J_sound st HJ)].
    - intros u x Hu Eo Hx. rewrite val_at_set_val by exact Hvl.
      destruct (Nat.eq_dec u v) as [->|_]; [apply Grow; [exact Eo|]|]; now apply (J_init st HJ).
  Qed.

  Lemma J_pass l : forall st d, J st -> (forall v, In v l -> In v comp) -> J (fst (fold_left (sp_step on) l (st, d))).
  Proof.
    induction l as [|v l IH]; intros st d HJ Hl; [exact HJ|]. cbn [fold_left].
    pose proof (J_step st d v HJ (Hl v (or_introl eq_refl))) as H.
    destruct (sp_step on (st, d) v) as [st1 d1]. cbn [fst] in H. apply IH; [exact H|]. intros u Hu. apply Hl. now right.
  Qed.

  (* a state in which every node of the component satisfies its equation is complete *)
  Lemma J_complete st : J st -> (forall v, In v comp -> sp_new st v = val_at st v) ->
    forall v x, lfp nodes neg v x -> In v comp -> den (val_at st v) x.
  Proof.
    intros HJ Hfix v x H. destruct (J_shape st HJ) as [Hlen Hsh].
    induction H as [v x Hv Ho Hx|v w x Hv Ho Hw Hl IH|v x Hv Ho Hall IH|v w x Hv Ho He Hn]; intro Hc.
    - now apply (J_init st HJ).
    - destruct (Hsh v) as [Hop Hed]. rewrite Ho in Hop.
      destruct (sp_new_union st v (J_wf st HJ) Hop) as [_ D]. rewrite <- (Hfix v Hc). apply D. right. exists w.
      split; [now rewrite Hed|].
      destruct (Hedges v w Hc Hw) as [Hwc|Hd]; [now apply IH|now apply (J_done_val st w x HJ Hd)].
    - destruct (Hsh v) as [Hop Hed]. rewrite Ho in Hop.
      destruct (sp_new_inter st v (J_wf st HJ) Hop) as [_ D]. rewrite <- (Hfix v Hc). apply D. intros w Hw.
      rewrite Hed in Hw.
      destruct (Hedges v w Hc Hw) as [Hwc|Hd]; [now apply IH|apply (J_done_val st w x HJ Hd); now apply Hall].
    - exfalso. now apply (Hnc v Hc).
  Qed.

  Lemma slow_closure_correct fuel : forall st, J st ->
    let st' := slow_closure fuel comp on st in
    c_oof st' = false ->
    J st' /\ forall v x, In v comp -> (den (val_at st' v) x <-> lfp nodes neg v x).
  Proof.
    induction fuel as [|f IH]; intros st HJ; cbn [slow_closure]; [cbn; discriminate|].
    rewrite slow_pass_eq.
    pose proof (J_pass comp st false HJ (fun v H => H)) as HJ1.
    destruct (fold_left (sp_step on) comp (st, false)) as [st1 d] eqn:E. cbn [fst] in HJ1.
    destruct d; [apply IH; exact HJ1|].
    intros _.
    assert (Hnc' : forall v, In v comp -> n_op (node_at st v) <> OpComplement).
    { intros v Hv. destruct (J_shape st HJ) as [_ Hsh]. destruct (Hsh v) as [-> _]. now apply Hnc. }
    destruct (sp_clean on comp st false st1 Hnc' E) as [-> [_ Hfix]].
    split; [exact HJ|]. intros v x Hv. split; [now apply (J_sound st HJ)|].
    intro H. now apply (J_complete st HJ Hfix).
  Qed.
End Component.
