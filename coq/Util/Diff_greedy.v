(* Myers' greedy lemma, abstractly: for a distance function [dst] on the (extended) edit graph that
   behaves like an edit distance w.r.t. the match predicate used by [slide], the value computed for
   diagonal k in round d from the furthest reaching points of round d-1 on diagonals k-1 and k+1 is
   the furthest reaching point of round d on diagonal k. *)
From Coq Require Import List ZArith Bool Arith Lia.
From TM Require Import Util.Diff.
Import ListNotations.
Local Open Scope Z_scope.

Section Greedy.
Variables (m n : Z) (cond : Z -> Z -> bool) (dst : Z -> Z -> Z).
Definition Mc (x y : Z) : bool := (x <? m) && (y <? n) && cond x y.

Lemma slide_spec : forall fuel x y, m - x < Z.of_nat fuel ->
  let r := slide fuel cond m n x y in
  x <= r /\ (forall j, x <= j < r -> Mc j (j + (y - x)) = true) /\ Mc r (r + (y - x)) = false.
Proof.
  induction fuel as [|f IH]; intros x y Hf; cbn [slide].
  - cbn zeta. split; [lia|]. split; [intros; lia|]. unfold Mc.
    replace (x <? m) with false by (symmetry; apply Z.ltb_ge; lia). reflexivity.
  - fold (Mc x y). destruct (Mc x y) eqn:E.
    + destruct (IH (x + 1) (y + 1) ltac:(lia)) as [H1 [H2 H3]]. cbn zeta in *.
      replace (y + 1 - (x + 1)) with (y - x) in * by lia.
      split; [lia|]. split; [|exact H3]. intros j Hj.
      destruct (Z.eq_dec j x) as [->|Hne]; [replace (x + (y - x)) with y by lia; exact E|apply H2; lia].
    + cbn zeta. split; [lia|]. split; [intros; lia|]. now replace (x + (y - x)) with y by lia.
Qed.

Hypothesis H_r : forall x y, 0 <= x -> 0 <= y -> dst (x + 1) y <= dst x y + 1.
Hypothesis H_d : forall x y, 0 <= x -> 0 <= y -> dst x (y + 1) <= dst x y + 1.
Hypothesis H_m : forall x y, 0 <= x -> 0 <= y -> Mc x y = true -> dst (x + 1) (y + 1) = dst x y.
Hypothesis H_mm : forall x y, 0 <= x -> 0 <= y -> Mc x y = false ->
  dst (x + 1) y + 1 <= dst (x + 1) (y + 1) \/ dst x (y + 1) + 1 <= dst (x + 1) (y + 1).
Hypothesis H_ge : forall x y, 0 <= x -> 0 <= y -> x - y <= dst x y /\ y - x <= dst x y.
Hypothesis H_00 : dst 0 0 = 0.

(* v is the furthest point on diagonal k (x - y = k) at distance <= d *)
Definition Vok (d k v : Z) : Prop :=
  0 <= v /\ k <= v /\ dst v (v - k) <= d /\
  forall x, 0 <= x -> k <= x -> dst x (x - k) <= d -> x <= v.

Lemma slide_Vok fuel d k x0 :
  0 <= x0 -> k <= x0 -> dst x0 (x0 - k) <= d -> m - x0 < Z.of_nat fuel ->
  (forall x, x0 < x -> ~ dst (x - 1) (x - k) <= d - 1 /\ ~ dst x (x - k - 1) <= d - 1) ->
  Vok d k (slide fuel cond m n x0 (x0 - k)).
Proof.
  intros Hx0 Hk H0 Hf Hup.
  destruct (slide_spec fuel x0 (x0 - k) Hf) as [H1 [H2 H3]]. cbn zeta in *.
  set (r := slide fuel cond m n x0 (x0 - k)) in *.
  replace (x0 - k - x0) with (- k) in * by lia.
  (* every point of the snake is at distance <= d *)
  assert (Hsn : forall t, 0 <= t -> x0 + t <= r -> dst (x0 + t) (x0 + t - k) <= d).
  { intros t Ht. pattern t. apply natlike_ind; [rewrite Z.add_0_r; intros; exact H0| |exact Ht].
    intros t' Ht' IHt Hle. specialize (IHt ltac:(lia)).
    specialize (H2 (x0 + t') ltac:(lia)). replace (x0 + t' + - k) with (x0 + t' - k) in H2 by lia.
    pose proof (H_m (x0 + t') (x0 + t' - k) ltac:(lia) ltac:(lia) H2) as Hm.
    replace (x0 + Z.succ t') with (x0 + t' + 1) by lia. replace (x0 + t' + 1 - k) with (x0 + t' - k + 1) by lia. lia. }
  repeat split; try lia.
  - specialize (Hsn (r - x0) ltac:(lia) ltac:(lia)). now replace (x0 + (r - x0)) with r in Hsn by lia.
  - intros x Hx Hkx Hd.
    destruct (Z.le_gt_cases x r) as [Hle|Hgt]; [exact Hle|exfalso].
    (* walking back from x along the diagonal, every step is a match *)
    assert (Hback : forall t, 0 <= t -> x0 <= x - t -> dst (x - t) (x - t - k) <= d /\
                      forall j, x - t <= j < x -> Mc j (j - k) = true).
    { intros t Ht. pattern t. apply natlike_ind; [|clear t Ht|exact Ht].
      - rewrite Z.sub_0_r. intros _. split; [exact Hd|intros; lia].
      - intros t Ht IHt Hle. destruct (IHt ltac:(lia)) as [IH1 IH2].
        set (j := x - Z.succ t) in *. replace (x - t) with (j + 1) in * by (unfold j; lia).
        assert (Hmj : Mc j (j - k) = true).
        { destruct (Mc j (j - k)) eqn:E; [reflexivity|exfalso].
          destruct (Hup (j + 1) ltac:(lia)) as [N1 N2].
          replace (j + 1 - 1) with j in N1 by lia.
          replace (j + 1 - k - 1) with (j - k) in N2 by lia.
          destruct (H_mm j (j - k) ltac:(lia) ltac:(lia) E) as [Hc|Hc].
          - replace (j - k + 1) with (j + 1 - k) in Hc by lia. apply N2. lia.
          - replace (j - k + 1) with (j + 1 - k) in Hc by lia. apply N1. lia. }
        split.
        + pose proof (H_m j (j - k) ltac:(lia) ltac:(lia) Hmj) as Hm.
          replace (j - k + 1) with (j + 1 - k) in Hm by lia. lia.
        + intros j' Hj'. destruct (Z.eq_dec j' j) as [->|Hne]; [exact Hmj|apply IH2; lia]. }
    destruct (Hback (x - r) ltac:(lia) ltac:(lia)) as [_ Hall].
    specialize (Hall r ltac:(lia)). replace (r + - k) with (r - k) in H3 by lia. congruence.
Qed.

Definition newx (fuel : nat) (d k vm vp : Z) : Z :=
  let x0 := if (k =? - d) || (negb (k =? d) && (vm <? vp)) then vp else vm + 1 in
  slide fuel cond m n x0 (x0 - k).

Lemma newx_base fuel vm : m < Z.of_nat fuel -> Vok 0 0 (newx fuel 0 0 vm 0).
Proof.
  intro Hf. unfold newx. cbn [Z.opp Z.eqb orb]. apply slide_Vok; try lia.
  - rewrite Z.sub_0_r. rewrite H_00. lia.
  - intros x Hx. split; intro H.
    + pose proof (H_ge (x - 1) (x - 0) ltac:(lia) ltac:(lia)). lia.
    + pose proof (H_ge x (x - 0 - 1) ltac:(lia) ltac:(lia)). lia.
Qed.

Lemma newx_lo fuel d k vm vp : m < Z.of_nat fuel -> 1 <= d -> k = - d ->
  Vok (d - 1) (k + 1) vp -> Vok d k (newx fuel d k vm vp).
Proof.
  intros Hf Hd Hk [P1 [P2 [P3 P4]]]. unfold newx.
  replace (k =? - d) with true by (symmetry; apply Z.eqb_eq; exact Hk). cbn [orb].
  apply slide_Vok; try lia.
  - pose proof (H_d vp (vp - (k + 1)) ltac:(lia) ltac:(lia)) as H.
    replace (vp - (k + 1) + 1) with (vp - k) in H by lia. lia.
  - intros x Hx. split; intro H.
    + pose proof (H_ge (x - 1) (x - k) ltac:(lia) ltac:(lia)). lia.
    + specialize (P4 x ltac:(lia) ltac:(lia)). replace (x - (k + 1)) with (x - k - 1) in P4 by lia.
      specialize (P4 H). lia.
Qed.

Lemma newx_hi fuel d k vm vp : m < Z.of_nat fuel -> 1 <= d -> k = d ->
  Vok (d - 1) (k - 1) vm -> Vok d k (newx fuel d k vm vp).
Proof.
  intros Hf Hd Hk [P1 [P2 [P3 P4]]]. unfold newx.
  replace (k =? - d) with false by (symmetry; apply Z.eqb_neq; lia).
  replace (k =? d) with true by (symmetry; apply Z.eqb_eq; exact Hk). cbn [orb negb andb].
  apply slide_Vok; try lia.
  - pose proof (H_r vm (vm - (k - 1)) ltac:(lia) ltac:(lia)) as H.
    replace (vm + 1 - k) with (vm - (k - 1)) by lia. lia.
  - intros x Hx. split; intro H.
    + specialize (P4 (x - 1) ltac:(lia) ltac:(lia)). replace (x - 1 - (k - 1)) with (x - k) in P4 by lia.
      specialize (P4 H). lia.
    + pose proof (H_ge x (x - k - 1) ltac:(lia) ltac:(lia)). lia.
Qed.

Lemma newx_mid fuel d k vm vp : m < Z.of_nat fuel -> 1 <= d -> - d < k < d ->
  Vok (d - 1) (k - 1) vm -> Vok (d - 1) (k + 1) vp -> Vok d k (newx fuel d k vm vp).
Proof.
  intros Hf Hd Hk [P1 [P2 [P3 P4]]] [Q1 [Q2 [Q3 Q4]]]. unfold newx.
  replace (k =? - d) with false by (symmetry; apply Z.eqb_neq; lia).
  replace (k =? d) with false by (symmetry; apply Z.eqb_neq; lia). cbn [orb negb andb].
  assert (Hup : forall x0, vm + 1 <= x0 -> vp <= x0 ->
    forall x, x0 < x -> ~ dst (x - 1) (x - k) <= d - 1 /\ ~ dst x (x - k - 1) <= d - 1).
  { intros x0 G1 G2 x Hx. split; intro H.
    - specialize (P4 (x - 1) ltac:(lia) ltac:(lia)). replace (x - 1 - (k - 1)) with (x - k) in P4 by lia.
      specialize (P4 H). lia.
    - specialize (Q4 x ltac:(lia) ltac:(lia)). replace (x - (k + 1)) with (x - k - 1) in Q4 by lia.
      specialize (Q4 H). lia. }
  destruct (Z.ltb_spec vm vp) as [Hlt|Hge].
  - apply slide_Vok; try lia.
    + pose proof (H_d vp (vp - (k + 1)) ltac:(lia) ltac:(lia)) as H.
      replace (vp - (k + 1) + 1) with (vp - k) in H by lia. lia.
    + apply Hup; lia.
  - apply slide_Vok; try lia.
    + pose proof (H_r vm (vm - (k - 1)) ltac:(lia) ltac:(lia)) as H.
      replace (vm + 1 - k) with (vm - (k - 1)) by lia. lia.
    + apply Hup; lia.
Qed.

(* all four cases of the diagonal update at once *)
Lemma newx_ok fuel d k vm vp : m < Z.of_nat fuel -> 0 <= d -> - d <= k <= d ->
  (d = 0 -> vp = 0) ->
  (1 <= d -> - d < k -> Vok (d - 1) (k - 1) vm) ->
  (1 <= d -> k < d -> Vok (d - 1) (k + 1) vp) ->
  Vok d k (newx fuel d k vm vp).
Proof.
  intros Hf Hd Hk H0 Hm Hp.
  destruct (Z.eq_dec d 0) as [->|Hne].
  - assert (k = 0) by lia. subst k. rewrite (H0 eq_refl). now apply newx_base.
  - destruct (Z.eq_dec k (- d)) as [E1|E1]; [apply newx_lo; try lia; apply Hp; lia|].
    destruct (Z.eq_dec k d) as [E2|E2]; [apply newx_hi; try lia; apply Hm; lia|].
    apply newx_mid; try lia; [apply Hm|apply Hp]; lia.
Qed.
End Greedy.
