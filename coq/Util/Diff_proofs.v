From Coq Require Import List ZArith Bool Arith Lia.
From TM Require Import Lib.ListX Util.Diff.
Import ListNotations.
Local Open Scope Z_scope.

(* ================= 1. script semantics ================= *)
Lemma seq_eqb_eq x : forall y, seq_eqb x y = true <-> x = y.
Proof.
  induction x as [|p x IH]; destruct y as [|q y]; cbn [seq_eqb]; try (split; discriminate); [tauto|].
  rewrite andb_true_iff, Z.eqb_eq, IH. split; [intros [-> ->]; reflexivity|intros [= -> ->]; auto].
Qed.

(* a valid script, applied to a, yields b *)
Theorem script_ok_applies chunks : forall a b, script_ok chunks a b = true -> apply_script chunks a b = b.
Proof.
  induction chunks as [|c rest IH]; intros a b H; cbn [script_ok apply_script] in *.
  - destruct a, b; try discriminate. reflexivity.
  - rewrite !andb_true_iff in H. destruct H as [[H1 Heq] Hrest].
    apply seq_eqb_eq in Heq. rewrite (IH _ _ Hrest), Heq.
    rewrite (firstn_skipn (Z.to_nat (c_eq c)) (skipn (Z.to_nat (c_ins c)) b)).
    apply firstn_skipn.
Qed.

(* ---- composition of scripts ---- *)
Lemma skipn_app_le {A} n (l1 l2 : list A) : (n <= length l1)%nat -> skipn n (l1 ++ l2) = skipn n l1 ++ l2.
Proof. intro H. rewrite skipn_app. replace (n - length l1)%nat with 0%nat by lia. reflexivity. Qed.

Lemma firstn_app_le {A} n (l1 l2 : list A) : (n <= length l1)%nat -> firstn n (l1 ++ l2) = firstn n l1.
Proof. intro H. rewrite firstn_app. replace (n - length l1)%nat with 0%nat by lia. cbn. apply app_nil_r. Qed.

Lemma script_ok_app s1 : forall s2 a1 b1 a2 b2,
  script_ok s1 a1 b1 = true -> script_ok s2 a2 b2 = true -> script_ok (s1 ++ s2) (a1 ++ a2) (b1 ++ b2) = true.
Proof.
  induction s1 as [|c s1 IH]; intros s2 a1 b1 a2 b2 H1 H2; cbn [script_ok app] in *.
  - destruct a1, b1; try discriminate. exact H2.
  - rewrite !andb_true_iff in H1. destruct H1 as [[[[[[[[Hd Hi] He] Hda] Hib] Hea] Heb] Heq] Hrest].
    apply Nat.leb_le in Hda, Hib, Hea, Heb.
    rewrite !(skipn_app_le (Z.to_nat (c_del c))) by exact Hda.
    rewrite !(skipn_app_le (Z.to_nat (c_ins c))) by exact Hib.
    rewrite !(firstn_app_le (Z.to_nat (c_eq c))) by assumption.
    rewrite !(skipn_app_le (Z.to_nat (c_eq c))) by assumption.
    rewrite Hd, Hi, He, Heq. rewrite (IH _ _ _ _ _ Hrest H2).
    rewrite !app_length.
    replace (Z.to_nat (c_del c) <=? length a1 + length a2)%nat with true by (symmetry; apply Nat.leb_le; lia).
    replace (Z.to_nat (c_ins c) <=? length b1 + length b2)%nat with true by (symmetry; apply Nat.leb_le; lia).
    replace (Z.to_nat (c_eq c) <=? length (skipn (Z.to_nat (c_del c)) a1) + length a2)%nat with true by (symmetry; apply Nat.leb_le; lia).
    replace (Z.to_nat (c_eq c) <=? length (skipn (Z.to_nat (c_ins c)) b1) + length b2)%nat with true by (symmetry; apply Nat.leb_le; lia).
    reflexivity.
Qed.

Lemma script_nil : script_ok [] [] [] = true. Proof. reflexivity. Qed.

Lemma script_ins b : script_ok [mkChunk 0 (zlen b) 0] [] b = true.
Proof.
  cbn [script_ok c_del c_ins c_eq]. unfold zlen. rewrite Nat2Z.id. cbn [Z.to_nat skipn firstn length].
  rewrite skipn_all. cbn. rewrite Nat.leb_refl.
  replace (0 <=? Z.of_nat (length b)) with true by (symmetry; apply Z.leb_le; lia). reflexivity.
Qed.

Lemma script_del a : script_ok [mkChunk (zlen a) 0 0] a [] = true.
Proof.
  cbn [script_ok c_del c_ins c_eq]. unfold zlen. rewrite Nat2Z.id. cbn [Z.to_nat skipn firstn length].
  rewrite skipn_all. cbn. rewrite Nat.leb_refl.
  replace (0 <=? Z.of_nat (length a)) with true by (symmetry; apply Z.leb_le; lia). reflexivity.
Qed.

Lemma script_replace a b : script_ok [mkChunk (zlen a) (zlen b) 0] a b = true.
Proof.
  cbn [script_ok c_del c_ins c_eq]. unfold zlen. rewrite !Nat2Z.id. cbn [Z.to_nat firstn].
  rewrite !skipn_all. cbn. rewrite !Nat.leb_refl.
  replace (0 <=? Z.of_nat (length a)) with true by (symmetry; apply Z.leb_le; lia).
  replace (0 <=? Z.of_nat (length b)) with true by (symmetry; apply Z.leb_le; lia). reflexivity.
Qed.

Lemma seq_eqb_refl x : seq_eqb x x = true.
Proof. now apply seq_eqb_eq. Qed.

Lemma script_eq p : script_ok [mkChunk 0 0 (zlen p)] p p = true.
Proof.
  cbn [script_ok c_del c_ins c_eq]. unfold zlen. rewrite !Nat2Z.id. cbn [Z.to_nat skipn].
  rewrite !firstn_all, !skipn_all, seq_eqb_refl. cbn. rewrite !Nat.leb_refl.
  replace (0 <=? Z.of_nat (length p)) with true by (symmetry; apply Z.leb_le; lia). reflexivity.
Qed.

(* ================= 2. trace with an arbitrary sound middle-snake oracle ================= *)
Definition mid_sound (mid : list Z -> list Z -> list Z -> mid_result) : Prop :=
  forall a b buf ai bi s buf', mid a b buf = MidFound ai bi s buf' ->
  forall j, 0 <= j < s -> elt a (ai + j) = elt b (bi + j).

Lemma find_index_spec v l : forall i k, find_index v l i = Some k ->
  i <= k < i + zlen l /\ nth (Z.to_nat (k - i)) l (-1) = v.
Proof.
  induction l as [|x l IH]; intros i k H; cbn [find_index] in H; [discriminate|].
  unfold zlen in *. cbn [length]. destruct (x =? v) eqn:E.
  - injection H as <-. apply Z.eqb_eq in E. rewrite Z.sub_diag. cbn. split; [lia|exact E].
  - destruct (IH _ _ H) as [Hr Hn]. split; [lia|].
    replace (Z.to_nat (k - i)) with (S (Z.to_nat (k - (i + 1)))) by lia. exact Hn.
Qed.

Lemma split_at {A} (l : list A) n d : (n < length l)%nat ->
  l = firstn n l ++ nth n l d :: skipn (S n) l.
Proof.
  revert l; induction n as [|n IH]; intros [|x l] H; cbn [length] in H; try lia; cbn [firstn nth skipn app].
  - reflexivity.
  - f_equal. apply IH. lia.
Qed.

Lemma skipn_app_exact {A} (l1 l2 : list A) : skipn (length l1) (l1 ++ l2) = l2.
Proof. rewrite skipn_app, skipn_all, Nat.sub_diag. reflexivity. Qed.

(* one chunk: delete pre_a, insert pre_b, keep p *)
Lemma script_chunk pre_a pre_b p :
  script_ok [mkChunk (zlen pre_a) (zlen pre_b) (zlen p)] (pre_a ++ p) (pre_b ++ p) = true.
Proof.
  cbn [script_ok c_del c_ins c_eq]. unfold zlen. rewrite !Nat2Z.id.
  rewrite !skipn_app_exact, !firstn_all, !skipn_all, seq_eqb_refl, !app_length, Nat.leb_refl.
  replace (0 <=? Z.of_nat (length pre_a)) with true by (symmetry; apply Z.leb_le; lia).
  replace (0 <=? Z.of_nat (length pre_b)) with true by (symmetry; apply Z.leb_le; lia).
  replace (0 <=? Z.of_nat (length p)) with true by (symmetry; apply Z.leb_le; lia).
  replace (length pre_a <=? length pre_a + length p)%nat with true by (symmetry; apply Nat.leb_le; lia).
  replace (length pre_b <=? length pre_b + length p)%nat with true by (symmetry; apply Nat.leb_le; lia).
  reflexivity.
Qed.

Lemma script_one_in_b x b i : 0 <= i < zlen b -> nth (Z.to_nat i) b (-1) = x ->
  script_ok [mkChunk 0 i 1; mkChunk 0 (zlen b - i - 1) 0] [x] b = true.
Proof.
  intros Hi Hn. unfold zlen in *.
  rewrite (split_at b (Z.to_nat i) (-1)) at 2 by lia. rewrite Hn.
  change [mkChunk 0 i 1; mkChunk 0 (Z.of_nat (length b) - i - 1) 0]
    with ([mkChunk 0 i 1] ++ [mkChunk 0 (Z.of_nat (length b) - i - 1) 0]).
  change [x] with (([] ++ [x]) ++ []).
  replace (firstn (Z.to_nat i) b ++ x :: skipn (S (Z.to_nat i)) b)
    with ((firstn (Z.to_nat i) b ++ [x]) ++ skipn (S (Z.to_nat i)) b) by (rewrite <- app_assoc; reflexivity).
  apply script_ok_app.
  - replace i with (zlen (firstn (Z.to_nat i) b)) at 1 by (unfold zlen; rewrite firstn_length; lia).
    apply (script_chunk [] (firstn (Z.to_nat i) b) [x]).
  - replace (Z.of_nat (length b) - i - 1) with (zlen (skipn (S (Z.to_nat i)) b)).
    + apply script_ins.
    + unfold zlen. rewrite skipn_length. lia.
Qed.

Lemma script_one_in_a y a i : 0 <= i < zlen a -> nth (Z.to_nat i) a (-1) = y ->
  script_ok [mkChunk i 0 1; mkChunk (zlen a - i - 1) 0 0] a [y] = true.
Proof.
  intros Hi Hn. unfold zlen in *.
  rewrite (split_at a (Z.to_nat i) (-1)) at 2 by lia. rewrite Hn.
  change [mkChunk i 0 1; mkChunk (Z.of_nat (length a) - i - 1) 0 0]
    with ([mkChunk i 0 1] ++ [mkChunk (Z.of_nat (length a) - i - 1) 0 0]).
  change [y] with (([] ++ [y]) ++ []).
  replace (firstn (Z.to_nat i) a ++ y :: skipn (S (Z.to_nat i)) a)
    with ((firstn (Z.to_nat i) a ++ [y]) ++ skipn (S (Z.to_nat i)) a) by (rewrite <- app_assoc; reflexivity).
  apply script_ok_app.
  - replace i with (zlen (firstn (Z.to_nat i) a)) at 1 by (unfold zlen; rewrite firstn_length; lia).
    apply (script_chunk (firstn (Z.to_nat i) a) [] [y]).
  - replace (Z.of_nat (length a) - i - 1) with (zlen (skipn (S (Z.to_nat i)) a)).
    + apply script_del.
    + unfold zlen. rewrite skipn_length. lia.
Qed.

(* a list splits at ai and ai+s *)
Lemma sub_split (l : list Z) ai s : 0 <= ai -> 0 <= s -> ai + s <= zlen l ->
  l = sub l 0 ai ++ sub l ai (ai + s) ++ sub l (ai + s) (zlen l).
Proof.
  intros Ha Hs Hl. unfold sub, zlen in *. cbn [Z.to_nat skipn].
  rewrite Z.sub_0_r. replace (ai + s - ai) with s by lia.
  replace (Z.of_nat (length l) - (ai + s)) with (Z.of_nat (length (skipn (Z.to_nat (ai + s)) l)))
    by (rewrite skipn_length; lia).
  rewrite Nat2Z.id, firstn_all.
  replace (Z.to_nat (ai + s)) with (Z.to_nat s + Z.to_nat ai)%nat by lia.
  rewrite <- skipn_skipn'. rewrite (firstn_skipn (Z.to_nat s)). symmetry. apply firstn_skipn.
Qed.

Lemma sub_length (l : list Z) from to : 0 <= from -> from <= to -> to <= zlen l -> zlen (sub l from to) = to - from.
Proof. intros. unfold sub, zlen in *. rewrite firstn_length, skipn_length. lia. Qed.

Lemma sub_nth (l : list Z) from to j : 0 <= from -> 0 <= j < to - from -> to <= zlen l ->
  nth (Z.to_nat j) (sub l from to) (-1) = elt l (from + j).
Proof.
  intros Hf Hj Ht. unfold sub, elt, zlen in *. destruct (from + j <? 0) eqn:E; [lia|].
  rewrite nth_firstn' by lia. rewrite nth_skipn'. f_equal. lia.
Qed.

Lemma nth_ext_eq (x y : list Z) : length x = length y ->
  (forall j, (j < length x)%nat -> nth j x (-1) = nth j y (-1)) -> x = y.
Proof. intros Hl H. apply (nth_ext x y (-1) (-1) Hl H). Qed.

Lemma snake_equal a b ai bi s : 0 <= ai -> 0 <= bi -> 0 <= s -> ai + s <= zlen a -> bi + s <= zlen b ->
  (forall j, 0 <= j < s -> elt a (ai + j) = elt b (bi + j)) -> sub a ai (ai + s) = sub b bi (bi + s).
Proof.
  intros. apply nth_ext_eq.
  - pose proof (sub_length a ai (ai + s)). pose proof (sub_length b bi (bi + s)). unfold zlen in *. lia.
  - intros j Hj. pose proof (sub_length a ai (ai + s) ltac:(lia) ltac:(lia) ltac:(lia)) as Hla. unfold zlen in Hla.
    replace j with (Z.to_nat (Z.of_nat j)) by lia.
    rewrite !sub_nth by lia. apply H4. lia.
Qed.

Section TraceCorrect.
Variable mid : list Z -> list Z -> list Z -> mid_result.
Hypothesis Hmid : mid_sound mid.

Theorem trace_correct : forall fuel a b buf chunks ret buf',
  trace mid fuel a b buf chunks = TraceOk ret buf' ->
  exists new, ret = chunks ++ new /\ script_ok new a b = true.
Proof.
  induction fuel as [|f IH]; intros a b buf chunks ret buf' H; [discriminate|].
  destruct a as [|x a'].
  { cbn [trace] in H. injection H as <- <-. eexists. split; [reflexivity|apply script_ins]. }
  destruct b as [|y b'].
  { destruct a' as [|? ?]; cbn [trace] in H; injection H as <- <-; eexists; (split; [reflexivity|apply script_del]). }
  destruct a' as [|x2 a''].
  { cbn [trace] in H.
    destruct (find_index x (y :: b') 0) as [i|] eqn:Ef; injection H as <- <-; eexists; (split; [reflexivity|]).
    - destruct (find_index_spec _ _ _ _ Ef) as [Hr Hn]. rewrite Z.sub_0_r in Hn. apply script_one_in_b; [lia|exact Hn].
    - apply script_replace. }
  destruct b' as [|y2 b''].
  { cbn [trace] in H.
    destruct (find_index y (x :: x2 :: a'') 0) as [i|] eqn:Ef; injection H as <- <-; eexists; (split; [reflexivity|]).
    - destruct (find_index_spec _ _ _ _ Ef) as [Hr Hn]. rewrite Z.sub_0_r in Hn. apply script_one_in_a; [lia|exact Hn].
    - apply script_replace. }
  cbn [trace] in H.
  set (a := x :: x2 :: a'') in *. set (b := y :: y2 :: b'') in *.
  destruct (mid a b buf) as [ai bi s buf1| |] eqn:Em; try discriminate.
  destruct (_ || _) in H; [discriminate|].
  destruct ((0 <=? ai) && (0 <=? bi) && (0 <=? s) && (ai + s <=? zlen a) && (bi + s <=? zlen b)) eqn:Er;
    cbn [negb] in H; [|discriminate].
  rewrite !andb_true_iff in Er. destruct Er as [[[[R1 R2] R3] R4] R5].
  apply Z.leb_le in R1, R2, R3, R4, R5.
  destruct (trace mid f (sub a 0 ai) (sub b 0 bi) buf1 chunks) as [ret1 buf2| |] eqn:E1; try discriminate.
  destruct (IH _ _ _ _ _ _ E1) as [n1 [-> Hn1]].
  destruct (IH _ _ _ _ _ _ H) as [n2 [-> Hn2]].
  assert (Hsn : sub a ai (ai + s) = sub b bi (bi + s)).
  { apply snake_equal; try lia. apply (Hmid a b buf ai bi s buf1 Em). }
  destruct (s >? 0) eqn:Es.
  - exists (n1 ++ [mkChunk 0 0 s] ++ n2). split; [now rewrite <- !app_assoc|].
    rewrite (sub_split a ai s R1 R3 R4) at 1. rewrite (sub_split b bi s R2 R3 R5) at 1.
    apply script_ok_app; [exact Hn1|]. apply script_ok_app; [|exact Hn2].
    rewrite <- Hsn. replace s with (zlen (sub a ai (ai + s))) at 1 by (rewrite sub_length; lia).
    apply script_eq.
  - exists (n1 ++ n2). split; [now rewrite <- app_assoc|].
    assert (s = 0) by lia. subst s.
    rewrite (sub_split a ai 0 R1 R3 R4) at 1. rewrite (sub_split b bi 0 R2 R3 R5) at 1.
    apply script_ok_app; [exact Hn1|].
    unfold sub at 1 3. rewrite !Z.add_0_r, !Z.sub_diag. cbn [Z.to_nat firstn app]. rewrite !Z.add_0_r in Hn2. exact Hn2.
Qed.
End TraceCorrect.

(* ================= 3. the faithful middle-snake search is a sound oracle ================= *)
Lemma count_snake_spec cond lim : forall fuel s0,
  s0 <= count_snake fuel cond lim s0 /\
  forall j, s0 <= j < count_snake fuel cond lim s0 -> cond j = true.
Proof.
  induction fuel as [|f IH]; intro s0; cbn [count_snake]; [split; [lia|intros; lia]|].
  destruct ((s0 <? lim) && cond s0) eqn:E; [|split; [lia|intros; lia]].
  destruct (IH (s0 + 1)) as [H1 H2]. split; [lia|].
  intros j Hj. destruct (Z.eq_dec j s0) as [->|Hne]; [now apply andb_true_iff in E|apply H2; lia].
Qed.

Opaque count_snake slide.

Definition snake_ok (a b : list Z) (r : Z * Z * Z) : Prop :=
  let '(ai, bi, s) := r in forall j, 0 <= j < s -> elt a (ai + j) = elt b (bi + j).

Lemma forward_sound a b : forall fuel d k limit ps pl buf buf' r,
  forward a b fuel d k limit ps pl buf = (buf', Some r) -> snake_ok a b r.
Proof.
  induction fuel as [|f IH]; intros d k limit ps pl buf buf' r H; cbn [forward] in H; [discriminate|].
  destruct (k >? limit); [discriminate|].
  match type of H with (if ?c then _ else _) = _ => destruct c eqn:E end.
  - injection H as _ <-. unfold snake_ok. intros j Hj.
    match type of Hj with _ <= _ < count_snake ?fu ?cond ?lim 0 =>
      destruct (count_snake_spec cond lim fu 0) as [_ Hc] end.
    specialize (Hc j Hj). cbn beta in Hc. apply Z.eqb_eq in Hc. exact Hc.
  - eapply IH; eauto.
Qed.

Lemma backward_sound a b : forall fuel d k start limit buf buf' r,
  backward a b fuel d k start limit buf = (buf', Some r) -> snake_ok a b r.
Proof.
  induction fuel as [|f IH]; intros d k start limit buf buf' r H; cbn [backward] in H; [discriminate|].
  destruct (k >? limit); [discriminate|].
  match type of H with (if ?c then _ else _) = _ => destruct c eqn:E end.
  - injection H as _ <-. unfold snake_ok. intros j Hj.
    match type of Hj with _ <= _ < count_snake ?fu ?cond ?lim 0 =>
      destruct (count_snake_spec cond lim fu 0) as [_ Hc] end.
    specialize (Hc j Hj). cbn beta in Hc. apply Z.eqb_eq in Hc. exact Hc.
  - eapply IH; eauto.
Qed.

Lemma middle_loop_sound a b : forall fuel d ps pl buf ai bi s buf',
  middle_loop a b fuel d ps pl buf = MidFound ai bi s buf' -> snake_ok a b (ai, bi, s).
Proof.
  induction fuel as [|f IH]; intros d ps pl buf ai bi s buf' H; cbn [middle_loop] in H; [discriminate|].
  destruct (d >? _); [discriminate|].
  match type of H with match ?x with _ => _ end = _ => destruct x as [buf1 [[[ai1 bi1] s1]|]] eqn:Ef end.
  - injection H as <- <- <- _. apply (forward_sound _ _ _ _ _ _ _ _ _ _ _ Ef).
  - match type of H with match ?x with _ => _ end = _ => destruct x as [buf2 [[[ai2 bi2] s2]|]] eqn:Eb end.
    + injection H as <- <- <- _. apply (backward_sound _ _ _ _ _ _ _ _ _ _ Eb).
    + eapply IH; eauto.
Qed.

Transparent count_snake slide.

Theorem middle_sound : mid_sound middle.
Proof.
  intros a b buf ai bi s buf' H. unfold middle in H.
  apply (middle_loop_sound _ _ _ _ _ _ _ _ _ _ _ H).
Qed.

(* ================= 4. merging chunks keeps the script valid ================= *)
Lemma script_ok_prefix_congr pre s s' : forall a b,
  (forall a' b', script_ok s a' b' = true -> script_ok s' a' b' = true) ->
  script_ok (pre ++ s) a b = true -> script_ok (pre ++ s') a b = true.
Proof.
  induction pre as [|c pre IH]; intros a b Hs H; cbn [app script_ok] in *; [now apply Hs|].
  rewrite !andb_true_iff in *. destruct H as [H1 H2]. split; [exact H1|]. now apply IH.
Qed.

Lemma script_cons_inv c rest a b : script_ok (c :: rest) a b = true ->
  exists da p a' ib b', a = da ++ p ++ a' /\ b = ib ++ p ++ b' /\
    c_del c = zlen da /\ c_ins c = zlen ib /\ c_eq c = zlen p /\ script_ok rest a' b' = true.
Proof.
  intro H. cbn [script_ok] in H. rewrite !andb_true_iff in H.
  destruct H as [[[[[[[[Hd Hi] He] Hda] Hib] Hea] Heb] Heq] Hrest].
  apply Z.leb_le in Hd, Hi, He. apply Nat.leb_le in Hda, Hib, Hea, Heb. apply seq_eqb_eq in Heq.
  exists (firstn (Z.to_nat (c_del c)) a), (firstn (Z.to_nat (c_eq c)) (skipn (Z.to_nat (c_del c)) a)),
         (skipn (Z.to_nat (c_eq c)) (skipn (Z.to_nat (c_del c)) a)),
         (firstn (Z.to_nat (c_ins c)) b), (skipn (Z.to_nat (c_eq c)) (skipn (Z.to_nat (c_ins c)) b)).
  repeat split.
  - now rewrite !firstn_skipn.
  - rewrite Heq. now rewrite !firstn_skipn.
  - unfold zlen. rewrite firstn_length. lia.
  - unfold zlen. rewrite firstn_length. lia.
  - unfold zlen. rewrite firstn_length. lia.
  - exact Hrest.
Qed.

Lemma script_cons_intro rest da p a' ib b' :
  script_ok rest a' b' = true ->
  script_ok (mkChunk (zlen da) (zlen ib) (zlen p) :: rest) (da ++ p ++ a') (ib ++ p ++ b') = true.
Proof.
  intro H. rewrite !app_assoc.
  change (mkChunk (zlen da) (zlen ib) (zlen p) :: rest) with ([mkChunk (zlen da) (zlen ib) (zlen p)] ++ rest).
  apply script_ok_app; [apply script_chunk|exact H].
Qed.

Lemma zlen_app (x y : list Z) : zlen (x ++ y) = zlen x + zlen y.
Proof. unfold zlen. rewrite app_length. lia. Qed.

Lemma zlen_zero (x : list Z) : zlen x = 0 -> x = [].
Proof. unfold zlen. destruct x; [reflexivity|cbn; lia]. Qed.

Lemma merge_two_ok c1 c2 rest a b :
  ((c_eq c1 =? 0) || ((c_ins c2 =? 0) && (c_del c2 =? 0))) = true ->
  script_ok (c1 :: c2 :: rest) a b = true ->
  script_ok (mkChunk (c_del c1 + c_del c2) (c_ins c1 + c_ins c2) (c_eq c1 + c_eq c2) :: rest) a b = true.
Proof.
  intros Hc H.
  destruct (script_cons_inv _ _ _ _ H) as (da1 & p1 & a1 & ib1 & b1 & -> & -> & Hd1 & Hi1 & He1 & H1).
  destruct (script_cons_inv _ _ _ _ H1) as (da2 & p2 & a2 & ib2 & b2 & -> & -> & Hd2 & Hi2 & He2 & H2).
  rewrite Hd1, Hd2, Hi1, Hi2, He1, He2.
  apply orb_true_iff in Hc as [Hc|Hc].
  - apply Z.eqb_eq in Hc. rewrite He1 in Hc. apply zlen_zero in Hc. subst p1. cbn [app].
    replace (zlen da1 + zlen da2) with (zlen (da1 ++ da2)) by (now rewrite zlen_app).
    replace (zlen ib1 + zlen ib2) with (zlen (ib1 ++ ib2)) by (now rewrite zlen_app).
    change (zlen [] + zlen p2) with (zlen p2).
    replace (da1 ++ da2 ++ p2 ++ a2) with ((da1 ++ da2) ++ p2 ++ a2) by (now rewrite <- app_assoc).
    replace (ib1 ++ ib2 ++ p2 ++ b2) with ((ib1 ++ ib2) ++ p2 ++ b2) by (now rewrite <- app_assoc).
    now apply script_cons_intro.
  - apply andb_true_iff in Hc as [Hi Hd]. apply Z.eqb_eq in Hi, Hd.
    rewrite Hi2 in Hi. rewrite Hd2 in Hd. apply zlen_zero in Hi, Hd. subst da2 ib2. cbn [app].
    cbn [zlen length Z.of_nat]. rewrite !Z.add_0_r. rewrite <- zlen_app.
    replace (da1 ++ p1 ++ p2 ++ a2) with (da1 ++ (p1 ++ p2) ++ a2) by (now rewrite <- app_assoc).
    replace (ib1 ++ p1 ++ p2 ++ b2) with (ib1 ++ (p1 ++ p2) ++ b2) by (now rewrite <- app_assoc).
    now apply script_cons_intro.
Qed.

(* the "optimize chunks away" loop *)
Lemma merge_loop_ok : forall chunks acc a b,
  script_ok (rev acc ++ chunks) a b = true ->
  script_ok (rev (fold_left (fun ret c =>
    match ret with
    | last :: ret' =>
        if (c_eq last =? 0) || ((c_ins c =? 0) && (c_del c =? 0))
        then mkChunk (c_del last + c_del c) (c_ins last + c_ins c) (c_eq last + c_eq c) :: ret'
        else c :: ret
    | [] => [c]
    end) chunks acc)) a b = true.
Proof.
  induction chunks as [|c chunks IH]; intros acc a b H; cbn [fold_left].
  - now rewrite app_nil_r in H.
  - apply IH. destruct acc as [|last acc'].
    + exact H.
    + destruct ((c_eq last =? 0) || ((c_ins c =? 0) && (c_del c =? 0))) eqn:E.
      * cbn [rev] in *. rewrite <- app_assoc in *. cbn [app] in *.
        eapply script_ok_prefix_congr; [|exact H].
        intros a' b' H'. now apply merge_two_ok.
      * cbn [rev] in *. rewrite <- !app_assoc in *. exact H.
Qed.

Theorem merge_chunks_ok chunks a b : script_ok chunks a b = true -> script_ok (merge_chunks chunks) a b = true.
Proof. intro H. unfold merge_chunks. now apply merge_loop_ok. Qed.

(* ================= 5. lcs: prefix/suffix trimming + trace + merge ================= *)
Lemma common_prefix_spec a : forall b,
  firstn (common_prefix a b) a = firstn (common_prefix a b) b /\
  (common_prefix a b <= length a)%nat /\ (common_prefix a b <= length b)%nat.
Proof.
  induction a as [|x a IH]; intro b; cbn [common_prefix]; [repeat split; cbn; lia|].
  destruct b as [|y b]; [repeat split; cbn; lia|].
  destruct (x =? y) eqn:E; [|repeat split; cbn; lia].
  apply Z.eqb_eq in E; subst y. destruct (IH b) as [H1 [H2 H3]]. cbn [firstn length].
  repeat split; [now rewrite H1|lia|lia].
Qed.

Lemma firstn_le_common n x : forall y, (n <= common_prefix x y)%nat -> firstn n x = firstn n y.
Proof.
  revert n; induction x as [|p x IH]; intros n y H; cbn [common_prefix] in H.
  - replace n with 0%nat by lia. reflexivity.
  - destruct y as [|q y]; [replace n with 0%nat by lia; reflexivity|].
    destruct (p =? q) eqn:E; [|replace n with 0%nat by lia; reflexivity].
    apply Z.eqb_eq in E; subst q. destruct n as [|n]; [reflexivity|]. cbn [firstn]. f_equal. apply IH. lia.
Qed.

Lemma common_suffix a b s : (s <= common_prefix (rev a) (rev b))%nat -> (s <= length a)%nat -> (s <= length b)%nat ->
  skipn (length a - s) a = skipn (length b - s) b.
Proof.
  intros H Ha Hb. pose proof (firstn_le_common s (rev a) (rev b) H) as E.
  rewrite !firstn_rev in E. apply (f_equal (@rev Z)) in E. now rewrite !rev_involutive in E.
Qed.

Lemma three_way (l : list Z) p s : (p + s <= length l)%nat ->
  l = firstn p l ++ firstn (length l - p - s) (skipn p l) ++ skipn (length l - s) l.
Proof.
  intro H. rewrite <- (firstn_skipn p l) at 1. f_equal.
  rewrite <- (firstn_skipn (length l - p - s) (skipn p l)) at 1. f_equal.
  rewrite skipn_skipn'. f_equal. lia.
Qed.

Theorem lcs_gen_correct mid a b chunks : mid_sound mid -> lcs_gen mid a b = LcsOk chunks -> script_ok chunks a b = true.
Proof.
  intros Hmid H. unfold lcs_gen in H.
  set (p := common_prefix a b) in *.
  set (s := Nat.min (Nat.min (length a) (length b) - p) (common_prefix (rev a) (rev b))) in *.
  destruct (common_prefix_spec a b) as [Hpre [Hpa Hpb]]. fold p in Hpre, Hpa, Hpb.
  assert (Hs : (p + s <= length a)%nat /\ (p + s <= length b)%nat) by (unfold s; lia).
  destruct Hs as [Hsa Hsb].
  assert (Hsuf : skipn (length a - s) a = skipn (length b - s) b) by (apply common_suffix; unfold s; lia).
  set (a' := firstn (length a - p - s) (skipn p a)) in *.
  set (b' := firstn (length b - p - s) (skipn p b)) in *.
  match type of H with match ?t with _ => _ end = _ => destruct t as [ret buf'| |] eqn:Et end; try discriminate.
  injection H as <-. apply merge_chunks_ok.
  destruct (trace_correct mid Hmid _ _ _ _ _ _ _ Et) as [new [-> Hnew]].
  rewrite (three_way a p s Hsa), (three_way b p s Hsb). fold a' b'. rewrite <- Hsuf, <- Hpre.
  set (pre := firstn p a). set (suf := skipn (length a - s) a).
  assert (Hlp : zlen pre = Z.of_nat p) by (unfold zlen, pre; rewrite firstn_length; lia).
  assert (Hls : zlen suf = Z.of_nat s) by (unfold zlen, suf; rewrite skipn_length; lia).
  assert (Hmidpart : script_ok (new ++ (if (0 <? s)%nat then [mkChunk 0 0 (Z.of_nat s)] else [])) (a' ++ suf) (b' ++ suf) = true).
  { apply script_ok_app; [exact Hnew|]. destruct (0 <? s)%nat eqn:E.
    - rewrite <- Hls. apply script_eq.
    - apply Nat.ltb_ge in E. assert (suf = []) by (apply zlen_zero; lia). now rewrite H. }
  destruct (0 <? p)%nat eqn:Ep.
  - replace (if (0 <? s)%nat then ([mkChunk 0 0 (Z.of_nat p)] ++ new) ++ [mkChunk 0 0 (Z.of_nat s)] else [mkChunk 0 0 (Z.of_nat p)] ++ new)
      with ([mkChunk 0 0 (Z.of_nat p)] ++ (new ++ (if (0 <? s)%nat then [mkChunk 0 0 (Z.of_nat s)] else [])))
      by (destruct (0 <? s)%nat; [now rewrite <- app_assoc|now rewrite app_nil_r]).
    apply script_ok_app; [rewrite <- Hlp; apply script_eq|exact Hmidpart].
  - apply Nat.ltb_ge in Ep. assert (pre = []) by (apply zlen_zero; lia). rewrite H. cbn [app].
    destruct (0 <? s)%nat; [exact Hmidpart|now rewrite app_nil_r in Hmidpart].
Qed.

Theorem lcs_correct a b chunks : lcs a b = LcsOk chunks -> script_ok chunks a b = true.
Proof. apply lcs_gen_correct. exact middle_sound. Qed.

(* ================= 6. no valid script beats the LCS bound ================= *)
Lemma L_nil_r a : L a [] = 0.
Proof. destruct a; reflexivity. Qed.

Lemma L_cons x a y b : L (x :: a) (y :: b) = if x =? y then 1 + L a b else Z.max (L a (y :: b)) (L (x :: a) b).
Proof. reflexivity. Qed.

Lemma L_nonneg a : forall b, 0 <= L a b.
Proof.
  induction a as [|x a IH]; intro b; [reflexivity|].
  induction b as [|y b IHb]; [reflexivity|]. rewrite L_cons. destruct (x =? y); [specialize (IH b); lia|lia].
Qed.

(* A(a): one more element of b adds at most one; D(a): one more element of a never hurts *)
Lemma L_A_D a : (forall b y, L a (y :: b) <= 1 + L a b) /\ (forall b x, L a b <= L (x :: a) b).
Proof.
  induction a as [|x0 a [IHA IHD]].
  - split; [intros; cbn; lia|]. intros b x. change (L [] b) with 0. apply L_nonneg.
  - assert (HA : forall b y, L (x0 :: a) (y :: b) <= 1 + L (x0 :: a) b).
    { intros b y. rewrite L_cons. destruct (x0 =? y).
      - specialize (IHD b x0). lia.
      - specialize (IHA b y). specialize (IHD b x0). lia. }
    split; [exact HA|].
    intros b x. induction b as [|y b IHb]; [reflexivity|].
    rewrite (L_cons x (x0 :: a) y b). destruct (x =? y).
    + specialize (HA b y). lia.
    + lia.
Qed.

Lemma L_B_C a : (forall b x, L (x :: a) b <= 1 + L a b) /\ (forall b y, L a b <= L a (y :: b)).
Proof.
  induction a as [|x0 a [IHB IHC]].
  - split.
    + intros b x. induction b as [|y b IHb]; [cbn; lia|]. rewrite L_cons. cbn [L] in *. destruct (x =? y); lia.
    + intros; cbn; lia.
  - assert (HC : forall b y, L (x0 :: a) b <= L (x0 :: a) (y :: b)).
    { intros b y. rewrite L_cons. destruct (x0 =? y).
      - specialize (IHB b x0). lia.
      - lia. }
    split; [|exact HC].
    intros b x. induction b as [|y b IHb]; [cbn; lia|].
    rewrite (L_cons x (x0 :: a) y b). destruct (x =? y).
    + specialize (HC b y). lia.
    + specialize (HC b y). lia.
Qed.

Lemma L_skip_a n : forall a b, L (skipn n a) b <= L a b.
Proof.
  induction n as [|n IH]; intros a b; [reflexivity|]. destruct a as [|x a]; [reflexivity|].
  cbn [skipn]. specialize (IH a b). pose proof (proj2 (L_A_D a) b x). lia.
Qed.

Lemma L_skip_b n : forall a b, L a (skipn n b) <= L a b.
Proof.
  induction n as [|n IH]; intros a b; [reflexivity|]. destruct b as [|y b]; [reflexivity|].
  cbn [skipn]. specialize (IH a b). pose proof (proj2 (L_B_C a) b y). lia.
Qed.

Lemma L_common p : forall a b, L (p ++ a) (p ++ b) = zlen p + L a b.
Proof.
  induction p as [|x p IH]; intros a b; [reflexivity|].
  cbn [app]. rewrite L_cons, Z.eqb_refl, IH. unfold zlen. cbn [length]. lia.
Qed.

Definition kept (chunks : list chunk) : Z := fold_right (fun c s => c_eq c + s) 0 chunks.
Definition dels (chunks : list chunk) : Z := fold_right (fun c s => c_del c + s) 0 chunks.
Definition inss (chunks : list chunk) : Z := fold_right (fun c s => c_ins c + s) 0 chunks.

Lemma script_accounts chunks : forall a b, script_ok chunks a b = true ->
  zlen a = dels chunks + kept chunks /\ zlen b = inss chunks + kept chunks /\ kept chunks <= L a b.
Proof.
  induction chunks as [|c rest IH]; intros a b H.
  - cbn in H. destruct a, b; try discriminate. cbn. repeat split; lia.
  - destruct (script_cons_inv _ _ _ _ H) as (da & p & a' & ib & b' & -> & -> & Hd & Hi & He & Hr).
    destruct (IH _ _ Hr) as [Ha [Hb Hk]]. cbn [kept dels inss fold_right]. fold (kept rest) (dels rest) (inss rest).
    rewrite !zlen_app, Hd, Hi, He. repeat split; try lia.
    pose proof (L_common p a' b') as Hc.
    pose proof (L_skip_a (length da) (da ++ p ++ a') (ib ++ p ++ b')) as H1. rewrite skipn_app_exact in H1.
    pose proof (L_skip_b (length ib) (p ++ a') (ib ++ p ++ b')) as H2. rewrite skipn_app_exact in H2.
    lia.
Qed.

Lemma cost_fold chunks : forall acc, fold_left (fun s c => s + c_del c + c_ins c) chunks acc = acc + dels chunks + inss chunks.
Proof.
  induction chunks as [|c rest IH]; intro acc; cbn [fold_left dels inss fold_right]; [lia|].
  rewrite IH. fold (dels rest) (inss rest). lia.
Qed.

Theorem script_cost_lower_bound chunks a b : script_ok chunks a b = true ->
  zlen a + zlen b - 2 * L a b <= cost chunks.
Proof.
  intro H. destruct (script_accounts _ _ _ H) as [Ha [Hb Hk]]. unfold cost. rewrite cost_fold. lia.
Qed.

(* the quadratic table computes L on all suffixes of b *)
Definition Lrow (a b : list Z) : list Z := map (fun j => L a (skipn j b)) (seq 0 (S (length b))).

Lemma Lrow_cons a y b : Lrow a (y :: b) = L a (y :: b) :: Lrow a b.
Proof.
  unfold Lrow. cbn [length]. change (seq 0 (S (S (length b)))) with (0%nat :: seq 1 (S (length b))).
  cbn [map skipn]. f_equal. rewrite <- seq_shift, map_map. reflexivity.
Qed.

Lemma Lrow_nil a : Lrow a [] = [0].
Proof. unfold Lrow. cbn. now rewrite L_nil_r. Qed.

Lemma Lrow_head a b : exists t, Lrow a b = L a b :: t.
Proof. unfold Lrow. cbn [seq map skipn]. eauto. Qed.

Lemma lcs_row_spec x a' : forall b, lcs_row x b (Lrow a' b) = Lrow (x :: a') b.
Proof.
  induction b as [|y b IH].
  - rewrite !Lrow_nil. reflexivity.
  - rewrite !Lrow_cons. destruct (Lrow_head a' b) as [t Ht]. 
    cbn [lcs_row]. rewrite Ht. rewrite <- Ht, IH.
    destruct (Lrow_head (x :: a') b) as [t' Ht']. rewrite Ht'. cbn [hd]. rewrite <- Ht'.
    reflexivity.
Qed.

Lemma lcs_table_spec a b : lcs_table a b = Lrow a b.
Proof.
  unfold lcs_table. induction a as [|x a IH]; cbn [fold_right].
  - unfold Lrow. change (fun j : nat => L [] (skipn j b)) with (fun _ : nat => 0).
    generalize (S (length b)). intro n. generalize 0%nat. induction n as [|n IHn]; intro k; [reflexivity|].
    cbn [repeat seq map]. now rewrite <- IHn.
  - rewrite IH. apply lcs_row_spec.
Qed.

Theorem lcs_len_spec a b : lcs_len a b = L a b.
Proof. unfold lcs_len. rewrite lcs_table_spec. destruct (Lrow_head a b) as [t ->]. reflexivity. Qed.


(* the bound is tight: some valid script attains it (so L is the true optimum, not just a bound) *)
Theorem lcs_bound_attained a : forall b, exists chunks,
  script_ok chunks a b = true /\ cost chunks = zlen a + zlen b - 2 * L a b.
Proof.
  induction a as [|x a IHa]; intro b.
  - exists [mkChunk 0 (zlen b) 0]. split; [apply script_ins|]. cbn. unfold zlen. cbn. lia.
  - induction b as [|y b IHb].
    + exists [mkChunk (zlen (x :: a)) 0 0]. split; [apply script_del|]. rewrite L_nil_r. cbn. unfold zlen. cbn [length]. lia.
    + rewrite L_cons. destruct (x =? y) eqn:E.
      * apply Z.eqb_eq in E; subst y. destruct (IHa b) as [c [Hc Hcost]].
        exists (mkChunk 0 0 1 :: c). split.
        -- apply (script_cons_intro c [] [x] a [] b Hc).
        -- unfold cost in *. cbn [fold_left c_del c_ins]. rewrite cost_fold in *. unfold zlen in *. cbn [length]. lia.
      * destruct (Z.le_ge_cases (L (x :: a) b) (L a (y :: b))) as [Hle|Hge].
        -- destruct (IHa (y :: b)) as [c [Hc Hcost]]. exists (mkChunk 1 0 0 :: c). split.
           ++ apply (script_cons_intro c [x] [] a [] (y :: b) Hc).
           ++ unfold cost in *. cbn [fold_left c_del c_ins]. rewrite cost_fold in *. unfold zlen in *. cbn [length] in *. lia.
        -- destruct IHb as [c [Hc Hcost]]. exists (mkChunk 0 1 0 :: c). split.
           ++ apply (script_cons_intro c [] [] (x :: a) [y] b Hc).
           ++ unfold cost in *. cbn [fold_left c_del c_ins]. rewrite cost_fold in *. unfold zlen in *. cbn [length] in *. lia.
Qed.
