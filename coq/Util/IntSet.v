(* Model of /repo/util/container/intset.go — executable definitions only (no proofs). *)
From Coq Require Import List ZArith Bool.
Import ListNotations.
Local Open Scope Z_scope.

Record intset := mkIntSet { inverse : bool; elems : list Z }.

Definition is_empty (s : intset) : bool :=
  match elems s with [] => negb (inverse s) | _ => false end.

Definition complement (s : intset) : intset := mkIntSet (negb (inverse s)) (elems s).

(* The inner loop [for e < bl && b[e] < v { ...; e++ }]: split b at the first element >= v. *)
Fixpoint span_lt (v : Z) (b : list Z) : list Z * list Z :=
  match b with
  | [] => ([], [])
  | x :: b' => if x <? v then let (p, r) := span_lt v b' in (x :: p, r) else ([], b)
  end.

(* [if e < bl && b[e] == v { e++ }] *)
Definition drop_eq (v : Z) (b : list Z) : list Z :=
  match b with
  | x :: b' => if x =? v then b' else b
  | [] => []
  end.

Definition head_eq (v : Z) (b : list Z) : bool :=
  match b with x :: _ => x =? v | [] => false end.

Fixpoint combine (a b : list Z) : list Z :=
  match a with
  | [] => b
  | v :: a' => let (p, r) := span_lt v b in p ++ v :: combine a' (drop_eq v r)
  end.

(* Go's intersect does not advance e on equality; the next iteration's b[e] < v' does. *)
Fixpoint intersect (a b : list Z) : list Z :=
  match a with
  | [] => []
  | v :: a' => let r := snd (span_lt v b) in
               if head_eq v r then v :: intersect a' r else intersect a' r
  end.

Fixpoint subtract (a b : list Z) : list Z :=
  match a with
  | [] => []
  | v :: a' => let r := snd (span_lt v b) in
               if head_eq v r then subtract a' r else v :: subtract a' r
  end.

Definition set_intersect (a b : intset) : intset :=
  if is_empty a || is_empty b then mkIntSet false []
  else if inverse a then
    if inverse b then mkIntSet true (combine (elems a) (elems b))
    else mkIntSet false (subtract (elems b) (elems a))
  else if inverse b then mkIntSet false (subtract (elems a) (elems b))
  else mkIntSet false (intersect (elems a) (elems b)).

Definition set_merge (a b : intset) : intset :=
  if is_empty a then b
  else if is_empty b then a
  else if inverse a then
    if inverse b then mkIntSet true (intersect (elems a) (elems b))
    else mkIntSet true (subtract (elems a) (elems b))
  else if inverse b then mkIntSet true (subtract (elems b) (elems a))
  else mkIntSet false (combine (elems a) (elems b)).

Fixpoint list_eqb (a b : list Z) : bool :=
  match a, b with
  | [], [] => true
  | x :: a', y :: b' => (x =? y) && list_eqb a' b'
  | _, _ => false
  end.

Definition set_equals (a b : intset) : bool :=
  Bool.eqb (inverse a) (inverse b) && list_eqb (elems a) (elems b).

(* Denotation over the infinite universe Z. *)
Definition mem (x : Z) (s : intset) : bool :=
  let i := existsb (Z.eqb x) (elems s) in if inverse s then negb i else i.

Fixpoint sortedb (l : list Z) : bool :=
  match l with
  | x :: ((y :: _) as t) => (x <? y) && sortedb t
  | _ => true
  end.
