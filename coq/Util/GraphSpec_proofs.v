From Coq Require Import List Bool Arith Lia.
From TM Require Import Lib.ListX Util.Graph Util.Graph_proofs Util.GraphSpec.
Import ListNotations.

(* ---------- adjacency lists vs the adjacency matrix ---------- *)
Definition gedge (g : graph) (a b : nat) : Prop := a < length g /\ b < length g /\ In b (nth a g []).
Definition greach (g : graph) (a b : nat) : Prop := reach (matrix_of_graph g) a b.

Lemma memb_In x l : memb x l = true <-> In x l.
Proof.
  unfold memb. rewrite existsb_exists. split.
  - intros [y [Hy E]]. apply Nat.eqb_eq in E. now subst.
  - intro H. exists x. split; [exact H|apply Nat.eqb_refl].
Qed.

Lemma matrix_of_graph_wf g : mwf (length g) (matrix_of_graph g).
Proof.
  unfold matrix_of_graph, mwf. split; [now rewrite map_length|].
  apply Forall_forall. intros r Hr. apply in_map_iff in Hr as [edges [<- _]].
  now rewrite map_length, seq_length.
Qed.

Lemma matrix_of_graph_edge g a b : has_edge (matrix_of_graph g) a b = true <-> gedge g a b.
Proof.
  unfold has_edge, gedge, matrix_of_graph.
  destruct (Nat.lt_ge_cases a (length g)) as [Ha|Ha].
  - rewrite (nth_indep _ [] (map (fun e => existsb (Nat.eqb e) []) (seq 0 (length g))))
      by (now rewrite map_length).
    rewrite (map_nth (fun edges => map (fun e => existsb (Nat.eqb e) edges) (seq 0 (length g))) g [] a).
    destruct (Nat.lt_ge_cases b (length g)) as [Hb|Hb].
    + rewrite (nth_indep _ false (existsb (Nat.eqb (length g)) (nth a g []))) by (now rewrite map_length, seq_length).
      rewrite (map_nth (fun e => existsb (Nat.eqb e) (nth a g [])) (seq 0 (length g)) (length g) b).
      rewrite seq_nth by exact Hb. cbn [plus]. fold (memb b (nth a g [])). rewrite memb_In. tauto.
    + rewrite nth_overflow by (rewrite map_length, seq_length; exact Hb). split; [discriminate|lia].
  - rewrite (nth_overflow (map _ g)) by (rewrite map_length; exact Ha).
    split; [destruct b; discriminate|lia].
Qed.

Theorem reachm_spec g a b : has_edge (reachm g) a b = true <-> greach g a b.
Proof. apply (matrix_closure_spec (length g) (matrix_of_graph g) (matrix_of_graph_wf g)). Qed.

Lemma greach_false g a b : has_edge (reachm g) a b = false <-> ~ greach g a b.
Proof. rewrite <- reachm_spec. destruct (has_edge (reachm g) a b); split; congruence. Qed.

(* ---------- Tarjan output ---------- *)
Lemma count_count_occ x l : count x l = count_occ Nat.eq_dec l x.
Proof.
  induction l as [|y l IH]; cbn [count count_occ]; [reflexivity|]. rewrite IH.
  destruct (Nat.eqb_spec x y) as [->|Hne].
  - destruct (Nat.eq_dec y y); [reflexivity|congruence].
  - destruct (Nat.eq_dec y x); [congruence|reflexivity].
Qed.

Definition no_reach (g : graph) (c1 c2 : list nat) : Prop :=
  forall u v, In u c1 -> In v c2 -> ~ greach g u v.

Lemma order_ok_spec g comps : order_ok (reachm g) comps = true -> ForallOrdPairs (no_reach g) comps.
Proof.
  induction comps as [|c rest IH]; cbn [order_ok]; intro H; [constructor|].
  apply andb_true_iff in H as [H1 H2]. constructor; [|now apply IH].
  rewrite forallb_forall in H1. apply Forall_forall. intros c' Hc' u v Hu Hv.
  specialize (H1 u Hu). rewrite forallb_forall in H1. specialize (H1 c' Hc').
  rewrite forallb_forall in H1. specialize (H1 v Hv). apply negb_true_iff in H1.
  now apply greach_false.
Qed.

Record scc_output_ok (g : graph) (comps : list (list nat)) : Prop := {
  scc_each_once : forall v, v < length g -> count_occ Nat.eq_dec (concat comps) v = 1;
  scc_in_range  : forall v, In v (concat comps) -> v < length g;
  scc_connected : forall c u v, In c comps -> In u c -> In v c -> u = v \/ greach g u v;
  scc_order     : ForallOrdPairs (no_reach g) comps
}.

Theorem check_scc_sound g comps : check_scc g comps = true -> scc_output_ok g comps.
Proof.
  unfold check_scc. rewrite !andb_true_iff. intros [[[H1 H2] H3] H4]. constructor.
  - intros v Hv. rewrite forallb_forall in H1. specialize (H1 v). rewrite in_seq in H1.
    specialize (H1 ltac:(lia)). apply Nat.eqb_eq in H1. now rewrite <- count_count_occ.
  - intros v Hv. rewrite forallb_forall in H2. specialize (H2 v Hv). now apply Nat.ltb_lt.
  - intros c u v Hc Hu Hv. rewrite forallb_forall in H3. specialize (H3 c Hc).
    rewrite forallb_forall in H3. specialize (H3 u Hu). rewrite forallb_forall in H3. specialize (H3 v Hv).
    apply orb_true_iff in H3 as [H3|H3]; [left; now apply Nat.eqb_eq|right; now apply reachm_spec].
  - now apply order_ok_spec.
Qed.

(* consequence: the reported components are exactly the classes of mutual reachability, each vertex
   is reported once, and a component is reported before every component that can reach it *)
Theorem scc_output_exact g comps : scc_output_ok g comps ->
  forall u v, u < length g -> v < length g ->
  ((exists c, In c comps /\ In u c /\ In v c) <-> (u = v \/ (greach g u v /\ greach g v u))).
Proof.
  intros [Honce Hrange Hconn Hord] u v Hu Hv. split.
  - intros [c [Hc [Huc Hvc]]].
    destruct (Hconn c u v Hc Huc Hvc) as [->|Huv]; [now left|].
    destruct (Hconn c v u Hc Hvc Huc) as [->|Hvu]; [now left|]. right; split; assumption.
  - intros Heq.
    assert (Hin : forall w, w < length g -> exists c, In c comps /\ In w c).
    { intros w Hw. specialize (Honce w Hw).
      assert (In w (concat comps)) by (apply (count_occ_In Nat.eq_dec); lia).
      apply in_concat in H as [c [Hc Hwc]]. eauto. }
    destruct (Hin u Hu) as [cu [Hcu Hucu]]. destruct (Hin v Hv) as [cv [Hcv Hvcv]].
    destruct Heq as [->|[Huv Hvu]]; [exists cu; auto|].
    destruct (ForallOrdPairs_In Hord cu cv Hcu Hcv) as [<-|[Hno|Hno]].
    + exists cu; auto.
    + exfalso. exact (Hno u v Hucu Hvcv Huv).
    + exfalso. exact (Hno v u Hvcv Hucu Hvu).
Qed.

(* ---------- LongestPath output ---------- *)
Inductive valid_path (g : graph) : list nat -> Prop :=
| vp_one v : v < length g -> valid_path g [v]
| vp_cons v w t : v < length g -> In w (nth v g []) -> valid_path g (w :: t) -> valid_path g (v :: w :: t).

Lemma valid_pathb_spec g p : valid_pathb g p = true <-> valid_path g p.
Proof.
  induction p as [|v p IH]; [split; [discriminate|inversion 1]|].
  destruct p as [|w t].
  - cbn [valid_pathb]. rewrite Nat.ltb_lt. split; [apply vp_one|inversion 1; auto].
  - change (valid_pathb g (v :: w :: t)) with ((v <? length g) && memb w (nth v g []) && valid_pathb g (w :: t)).
    rewrite !andb_true_iff, Nat.ltb_lt, memb_In, IH. split.
    + intros [[H1 H2] H3]. now apply vp_cons.
    + inversion 1; subst. auto.
Qed.

Lemma fold_max_le (l : list nat) : forall a x, (x <= a \/ exists y, In y l /\ x <= y) -> x <= fold_left Nat.max l a.
Proof.
  induction l as [|y l IH]; intros a x H; cbn [fold_left].
  - destruct H as [H|[y [[] _]]]; exact H.
  - apply IH. destruct H as [H|[z [[<-|Hz] Hle]]]; [left; lia|left; lia|right; eauto].
Qed.

Lemma fold_max_in (l : list nat) : forall a, fold_left Nat.max l a = a \/ In (fold_left Nat.max l a) l.
Proof.
  induction l as [|y l IH]; intro a; cbn [fold_left]; [now left|].
  destruct (IH (Nat.max a y)) as [H|H]; [|right; now right].
  rewrite H. destruct (Nat.max_spec a y) as [[_ ->]|[_ ->]]; [right; now left|now left].
Qed.

(* no path starting at v with at most [fuel] vertices is longer than height fuel g v *)
Lemma height_bounds_paths g : forall fuel v t, valid_path g (v :: t) -> length (v :: t) <= fuel ->
  length (v :: t) <= height fuel g v.
Proof.
  induction fuel as [|f IH]; intros v t Hp Hlen; [cbn in Hlen; lia|].
  cbn [height]. inversion Hp as [v' Hv|v' w t' Hv Hw Ht]; subst; [cbn; lia|].
  cbn [length] in *. apply le_n_S.
  apply fold_max_le. right. exists (height f g w). split; [apply in_map; exact Hw|].
  apply (IH w t' Ht). cbn [length]; lia.
Qed.

(* a path visiting only vertices < n without repetition has at most n vertices *)
Lemma valid_path_in_range g p : valid_path g p -> forall v, In v p -> v < length g.
Proof.
  induction 1 as [v Hv|v w t Hv Hw Ht IH]; intros x Hx.
  - destruct Hx as [<-|[]]; exact Hv.
  - destruct Hx as [<-|Hx]; [exact Hv|now apply IH].
Qed.

Lemma nodup_path_short g p : valid_path g p -> NoDup p -> length p <= length g.
Proof.
  intros Hp Hnd. rewrite <- (seq_length (length g) 0).
  apply NoDup_incl_length; [exact Hnd|]. intros v Hv. apply in_seq.
  pose proof (valid_path_in_range g p Hp v Hv). lia.
Qed.

(* a repeated vertex on a path closes a cycle *)
Lemma gedge_greach g a b : gedge g a b -> greach g a b.
Proof. intro H. apply path_edge. now apply matrix_of_graph_edge. Qed.

Lemma greach_trans g a b c : greach g a b -> greach g b c -> greach g a c.
Proof. intros P Q. now apply (path_trans _ _ a b c). Qed.

Lemma path_reaches_later g : forall p v, valid_path g (v :: p) -> forall x, In x p -> greach g v x.
Proof.
  induction p as [|w t IH]; intros v Hp x Hx; [destruct Hx|].
  inversion Hp as [|? ? ? Hv Hw Ht]; subst.
  assert (Hvw : greach g v w).
  { apply gedge_greach. split; [exact Hv|]. split; [|exact Hw].
    apply (valid_path_in_range g (w :: t) Ht). now left. }
  destruct Hx as [<-|Hx]; [exact Hvw|].
  eapply greach_trans; [exact Hvw|]. now apply IH.
Qed.

Lemma valid_path_tail g v w t : valid_path g (v :: w :: t) -> valid_path g (w :: t).
Proof. inversion 1; assumption. Qed.

Lemma acyclic_path_nodup g : (forall v, ~ greach g v v) -> forall p, valid_path g p -> NoDup p.
Proof.
  intros Hac p. induction p as [|v p IH]; intro Hp; [constructor|].
  constructor.
  - intro Hin. apply (Hac v). now apply (path_reaches_later g p v Hp).
  - destruct p as [|w t]; [constructor|]. apply IH. now apply valid_path_tail in Hp.
Qed.

Lemma cyclicb_spec g : cyclicb g = true <-> exists v, greach g v v.
Proof.
  unfold cyclicb. rewrite existsb_exists. split.
  - intros [v [_ H]]. exists v. now apply reachm_spec.
  - intros [v H]. exists v. split; [|now apply reachm_spec].
    apply in_seq. apply reachm_spec in H.
    destruct (has_edge_range (length g) (reachm g) v v) as [Hv _]; [|exact H|lia].
    apply (matrix_closure_spec (length g) _ (matrix_of_graph_wf g)).
Qed.

(* LongestPath contract: nil exactly for cyclic graphs; otherwise a genuine path that no path exceeds *)
Definition longest_ok (g : graph) (res : option (list nat)) : Prop :=
  match res with
  | None => (exists v, greach g v v)
  | Some p => ((forall v, ~ greach g v v) /\ (valid_path g p /\
              (forall q, valid_path g q -> (length q <= length p)%nat)))
  end.

Theorem check_longest_sound g res : check_longest g res = true -> longest_ok g res.
Proof.
  unfold check_longest, longest_ok. destruct res as [p|]; [|apply cyclicb_spec].
  rewrite !andb_true_iff, negb_true_iff. intros [[Hac Hp] Hlen].
  assert (Hac' : forall v, ~ greach g v v).
  { intros v Hv. assert (cyclicb g = true) by (apply cyclicb_spec; eauto). congruence. }
  split; [exact Hac'|]. split; [now apply valid_pathb_spec|].
  intros q Hq. apply Nat.eqb_eq in Hlen. rewrite Hlen.
  pose proof (nodup_path_short g q Hq (acyclic_path_nodup g Hac' q Hq)) as Hshort.
  destruct q as [|v t]; [inversion Hq|].
  apply fold_max_le. right. exists (height (length g) g v). split.
  - apply in_map. apply in_seq. pose proof (valid_path_in_range g _ Hq v (or_introl eq_refl)). lia.
  - now apply height_bounds_paths.
Qed.

Lemma check_onstack_spec g out : check_onstack g out = true ->
  forall comp on v w, In (comp, on) out -> In v comp -> In w (nth v g []) ->
  (nth w on false = true <-> In w comp).
Proof.
  unfold check_onstack. rewrite forallb_forall. intros H comp on v w Hin Hv Hw.
  specialize (H _ Hin). cbn in H. rewrite forallb_forall in H. specialize (H v Hv).
  rewrite forallb_forall in H. specialize (H w Hw). apply Bool.eqb_prop in H. rewrite H. apply memb_In.
Qed.
