(* Model of /repo/util/graph: tarjan.go, matrix.go (Closure), path.go, transpose.go.
   Executable definitions only.  Vertices are list positions (nat). *)
From Coq Require Import List ZArith Bool Arith.
Import ListNotations.

Definition graph := list (list nat).

Definition upd {A} (l : list A) (i : nat) (x : A) : list A :=
  firstn i l ++ match skipn i l with [] => [] | _ :: t => x :: t end.

(* ---------- Transpose ---------- *)
Fixpoint froms (t : nat) (from : nat) (g : graph) : list nat :=
  match g with
  | [] => []
  | edges :: g' => map (fun _ => from) (filter (Nat.eqb t) edges) ++ froms t (S from) g'
  end.

Definition transpose (g : graph) : graph :=
  map (fun t => froms t 0 g) (seq 0 (length g)).

(* ---------- Matrix.Closure (Warshall, in place) ---------- *)
Definition matrix := list (list bool).

Definition has_edge (m : matrix) (i e : nat) : bool := nth e (nth i m []) false.

Fixpoint or_rows (a b : list bool) : list bool :=
  match a, b with
  | x :: a', y :: b' => (x || y) :: or_rows a' b'
  | _, _ => a
  end.

Definition closure_step (i : nat) (m : matrix) (j : nat) : matrix :=
  if has_edge m j i then upd m j (or_rows (nth j m []) (nth i m [])) else m.

Definition matrix_closure (m : matrix) : matrix :=
  let n := length m in
  fold_left (fun m i => fold_left (closure_step i) (seq 0 n) m) (seq 0 n) m.

Definition matrix_of_graph (g : graph) : matrix :=
  let n := length g in
  map (fun edges => map (fun e => existsb (Nat.eqb e) edges) (seq 0 n)) g.

Definition graph_of_matrix (m : matrix) : graph :=
  map (fun row => filter (fun e => nth e row false) (seq 0 (length row))) m.

(* ---------- Tarjan ---------- *)
Local Open Scope Z_scope.

Record tst := mkT {
  t_stack : list nat;            (* bottom first, as the Go slice *)
  t_index : list Z;
  t_low   : list Z;
  t_on    : list bool;
  t_curr  : Z;
  t_out   : list (list nat * list bool);   (* callbacks: component, onStack snapshot *)
  t_oof   : bool                            (* fuel exhausted (never on well-formed input) *)
}.

Definition getZ (l : list Z) (i : nat) : Z := nth i l (-1).

Definition set_low (s : tst) (v : nat) (x : Z) : tst :=
  mkT (t_stack s) (t_index s) (upd (t_low s) v x) (t_on s) (t_curr s) (t_out s) (t_oof s).

Fixpoint strong_connect (fuel : nat) (g : graph) (v : nat) (s : tst) : tst :=
  match fuel with
  | O => mkT (t_stack s) (t_index s) (t_low s) (t_on s) (t_curr s) (t_out s) true
  | S f =>
    let base := length (t_stack s) in
    let s1 := mkT (t_stack s ++ [v]) (upd (t_index s) v (t_curr s)) (upd (t_low s) v (t_curr s))
                  (upd (t_on s) v true) (t_curr s + 1) (t_out s) (t_oof s) in
    let s2 := fold_left (fun s w =>
        if getZ (t_index s) w =? -1 then
          let s' := strong_connect f g w s in
          if getZ (t_low s') w <? getZ (t_low s') v then set_low s' v (getZ (t_low s') w) else s'
        else if nth w (t_on s) false && (getZ (t_index s) w <? getZ (t_low s) v)
             then set_low s v (getZ (t_index s) w) else s) (nth v g []) s1 in
    if getZ (t_low s2) v =? getZ (t_index s2) v then
      let comp := skipn base (t_stack s2) in
      mkT (firstn base (t_stack s2)) (t_index s2) (t_low s2)
          (fold_left (fun on x => upd on x false) comp (t_on s2))
          (t_curr s2) (t_out s2 ++ [(comp, t_on s2)]) (t_oof s2)
    else s2
  end.

Definition tarjan_run (g : graph) : tst :=
  let n := length g in
  let s0 := mkT [] (repeat (-1) n) (repeat 0 n) (repeat false n) 0 [] false in
  if (n <? 2)%nat then s0 else
  fold_left (fun s i => if getZ (t_index s) i =? -1 then strong_connect (S n) g i s else s) (seq 0 n) s0.

Definition tarjan (g : graph) : list (list nat * list bool) := t_out (tarjan_run g).

(* ---------- LongestPath ---------- *)
Record lpst := mkLP { lp_h : list Z; lp_link : list Z; lp_cycle : bool; lp_oof : bool }.

Fixpoint lp_dfs (fuel : nat) (g : graph) (i : nat) (s : lpst) : lpst :=
  match fuel with
  | O => mkLP (lp_h s) (lp_link s) (lp_cycle s) true
  | S f =>
    let h := nth i (lp_h s) 0 in
    if negb (h =? 0) then
      (if h =? -1 then mkLP (lp_h s) (lp_link s) true (lp_oof s) else s)
    else
      let s1 := mkLP (upd (lp_h s) i (-1)) (lp_link s) (lp_cycle s) (lp_oof s) in
      let '(s2, rh, rl) := fold_left (fun '(s, rh, rl) next =>
          let s' := lp_dfs f g next s in
          let height := nth next (lp_h s') 0 in
          if height >=? rh then (s', height + 1, Z.of_nat next) else (s', rh, rl))
        (nth i g []) (s1, 1, -1) in
      mkLP (upd (lp_h s2) i rh) (upd (lp_link s2) i rl) (lp_cycle s2) (lp_oof s2)
  end.

Fixpoint follow_links (fuel : nat) (link : list Z) (i : Z) : list nat :=
  match fuel with
  | O => []
  | S f => if i =? -1 then [] else Z.to_nat i :: follow_links f link (nth (Z.to_nat i) link (-1))
  end.

(* result: None = nil (cycle); Some path *)
Definition longest_path (g : graph) : option (list nat) :=
  let n := length g in
  let s0 := mkLP (repeat 0 n) (repeat (-1) n) false false in
  let '(s, first) := fold_left (fun '(s, first) i =>
      let s' := lp_dfs (S (S n)) g i s in
      let first' := if (first =? -1) || (nth (Z.to_nat first) (lp_h s') 0 <? nth i (lp_h s') 0)
                    then Z.of_nat i else first in
      (s', first')) (seq 0 n) (s0, -1) in
  if lp_cycle s then None else Some (follow_links (S n) (lp_link s) first).
