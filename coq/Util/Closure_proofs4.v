(* Closure model, part 4: the reported errors are exactly the complements on dependency cycles; reading of a
   stable solution (equations, leastness, uniqueness). *)
From Coq Require Import List ZArith Bool Arith Lia.
From TM Require Import Lib.ListX Util.IntSet Util.IntSet_proofs Util.Graph Util.Graph_proofs Util.GraphSpec
  Util.GraphSpec_proofs Util.Closure Util.ClosureCert Util.ClosureSem Util.Closure_proofs Util.Closure_proofs2 Util.Closure_proofs3.
Import ListNotations.

(* the complement node u of the list l sees its operand on the stack *)
Definition err_here (nodes : list cnode) (on : list bool) (l : list nat) (u : nat) : Prop :=
  In u l /\ n_op (nd nodes u) = OpComplement /\ exists w, n_edges (nd nodes u) = [w] /\ nth w on false = true.

Lemma sp_step_err nodes on st d v : shape nodes st -> v < length nodes ->
  shape nodes (fst (sp_step on (st, d) v)) /\
  forall u, In u (c_err (fst (sp_step on (st, d) v))) <-> In u (c_err st) \/ err_here nodes on [v] u.
Proof.
  intros Hs Hv. pose proof Hs as [Hlen Hsh]. destruct (Hsh v) as [Hop Hed].
  assert (Hno : n_op (nd nodes v) <> OpComplement -> forall u, In u (c_err st) <-> In u (c_err st) \/ err_here nodes on [v] u).
  { intros Hn u. split; [now left|]. intros [H|[[<-|[]] [Ho _]]]; [exact H|contradiction]. }
  unfold sp_step. cbv zeta. rewrite Hop, Hed. destruct (n_op (nd nodes v)) eqn:Eo.
  - destruct (set_equals _ _); cbn [fst]; (split; [|apply Hno; congruence]); [exact Hs|now apply shape_set_val].
  - destruct (set_equals _ _); cbn [fst]; (split; [|apply Hno; congruence]); [exact Hs|now apply shape_set_val].
  - destruct (n_edges (nd nodes v)) as [|w [|w' r]] eqn:Ee; cbn [fst].
    + split; [exact Hs|]. intro u. split; [now left|]. intros [H|[[<-|[]] [_ [w [Hw _]]]]]; [exact H|].
      rewrite Ee in Hw. discriminate.
    + destruct (nth w on false) eqn:Eon; cbn [fst].
      * split; [exact Hs|]. intro u. cbn [add_err c_err]. rewrite in_app_iff. split.
        -- intros [H|[<-|[]]]; [now left|]. right. split; [now left|]. split; [exact Eo|]. exists w. now rewrite Ee.
        -- intros [H|[[<-|[]] _]]; [now left|right; now left].
      * assert (Hn : forall u, In u (c_err st) <-> In u (c_err st) \/ err_here nodes on [v] u).
        { intro u. split; [now left|]. intros [H|[[<-|[]] [_ [w' [Hw' Hon]]]]]; [exact H|].
          rewrite Ee in Hw'. inversion Hw'; subst. congruence. }
        destruct (set_equals _ _); cbn [fst]; (split; [|exact Hn]); [exact Hs|now apply shape_set_val].
    + split; [exact Hs|]. intro u. split; [now left|]. intros [H|[[<-|[]] [_ [w0 [Hw0 _]]]]]; [exact H|].
      rewrite Ee in Hw0. discriminate.
Qed.

Lemma err_here_cons nodes on v l u : err_here nodes on (v :: l) u <-> err_here nodes on [v] u \/ err_here nodes on l u.
Proof.
  unfold err_here. cbn [In]. split.
  - intros [[<-|H] R]; [left; split; [now left|exact R]|right; split; assumption].
  - intros [[[<-|[]] R]|[H R]]; (split; [|exact R]); [now left|now right].
Qed.

Lemma sp_fold_err nodes on l : forall st d, shape nodes st -> (forall v, In v l -> v < length nodes) ->
  shape nodes (fst (fold_left (sp_step on) l (st, d))) /\
  forall u, In u (c_err (fst (fold_left (sp_step on) l (st, d)))) <-> In u (c_err st) \/ err_here nodes on l u.
Proof.
  induction l as [|v l IH]; intros st d Hs Hr; cbn [fold_left].
  - split; [exact Hs|]. intro u. split; [now left|]. intros [H|[[] _]]. exact H.
  - destruct (sp_step_err nodes on st d v Hs (Hr v (or_introl eq_refl))) as [S1 E1].
    destruct (sp_step on (st, d) v) as [st1 d1]. cbn [fst] in S1, E1.
    destruct (IH st1 d1 S1 (fun u Hu => Hr u (or_intror Hu))) as [S2 E2]. split; [exact S2|].
    intro u. rewrite E2, E1, (err_here_cons nodes on v l u). tauto.
Qed.

Lemma slow_closure_err nodes on comp fuel : forall st, shape nodes st -> (forall v, In v comp -> v < length nodes) ->
  shape nodes (slow_closure fuel comp on st) /\
  forall u, In u (c_err (slow_closure fuel comp on st)) <-> In u (c_err st) \/ (fuel <> 0 /\ err_here nodes on comp u).
Proof.
  induction fuel as [|f IH]; intros st Hs Hr; cbn [slow_closure].
  - split; [exact Hs|]. intro u. cbn [c_err]. split; [now left|]. intros [H|[H _]]; [exact H|congruence].
  - rewrite slow_pass_eq. destruct (sp_fold_err nodes on comp st false Hs Hr) as [S1 E1].
    destruct (fold_left (sp_step on) comp (st, false)) as [st1 d]. cbn [fst] in S1, E1.
    destruct d.
    + destruct (IH st1 S1 Hr) as [S2 E2]. split; [exact S2|]. intro u. rewrite E2, E1. split.
      * intros [[H|H]|[_ H]]; [now left|right; split; [discriminate|exact H]|right; split; [discriminate|exact H]].
      * intros [H|[_ H]]; [left; now left|left; now right].
    + split; [exact S1|]. intro u. rewrite E1. split.
      * intros [H|H]; [now left|right; split; [discriminate|exact H]].
      * intros [H|[_ H]]; [now left|now right].
Qed.

Lemma uc_edge_fold_err fs v on edges : forall res st,
  c_nodes (snd (fold_left (uc_edge fs v on) edges (res, st))) = c_nodes st /\
  c_err (snd (fold_left (uc_edge fs v on) edges (res, st))) = c_err st ++ edge_errs on fs v edges.
Proof.
  unfold edge_errs. induction edges as [|e edges IH]; intros res st; cbn [fold_left].
  - cbn [snd]. split; [reflexivity|]. destruct (is_complement _); cbn; now rewrite app_nil_r.
  - rewrite uc_edge_step. destruct (is_complement (n_op fs)) eqn:Ec; destruct (nth e on false) eqn:Eon.
    + destruct (IH res (add_err st v)) as [H1 H2]. split; [exact H1|]. rewrite H2. cbn [add_err c_err filter].
      rewrite Eon. cbn [map]. now rewrite <- app_assoc.
    + destruct (IH (set_merge res (complement (val_at st e))) st) as [H1 H2]. split; [exact H1|]. rewrite H2. cbn [filter].
      now rewrite Eon.
    + apply IH.
    + apply IH.
Qed.

Lemma uc_node_fold_err on (nf : nat -> cnode) comp : forall res st, (forall w, node_at st w = nf w) ->
  c_nodes (snd (fold_left (uc_node on) comp (res, st))) = c_nodes st /\
  c_err (snd (fold_left (uc_node on) comp (res, st))) = c_err st ++ comp_errs nf on comp.
Proof.
  unfold comp_errs. induction comp as [|v comp IH]; intros res st Hst; cbn [fold_left].
  - cbn. now rewrite app_nil_r.
  - rewrite uc_node_step, (Hst v).
    destruct (uc_edge_fold_err (nf v) v on (n_edges (nf v)) (set_merge res (n_val (nf v))) st) as [H1 H2].
    destruct (fold_left (uc_edge (nf v) v on) (n_edges (nf v)) (set_merge res (n_val (nf v)), st)) as [res1 st1].
    cbn [snd] in H1, H2.
    assert (Hst1 : forall w, node_at st1 w = nf w) by (intro w; rewrite (node_at_ext st st1 H1); apply Hst).
    destruct (IH res1 st1 Hst1) as [G1 G2]. split; [congruence|]. rewrite G2, H2. cbn [flat_map]. now rewrite <- app_assoc.
Qed.

Lemma comp_errs_in nodes on st comp u : shape nodes st -> (forall v, In v comp -> node_ok nodes v) ->
  (In u (comp_errs (node_at st) on comp) <-> err_here nodes on comp u).
Proof.
  intros [_ Hsh] Hok. unfold comp_errs, err_here. rewrite in_flat_map. split.
  - intros [v [Hv Hin]]. unfold edge_errs in Hin. destruct (Hsh v) as [Hop Hed]. rewrite Hop, Hed in Hin.
    destruct (n_op (nd nodes v)) eqn:Eo; cbn [is_complement] in Hin; try contradiction.
    destruct (Hok v Hv) as [_ Hk]. rewrite Eo in Hk. destruct Hk as [_ [w Hw]]. rewrite Hw in Hin. cbn [filter] in Hin.
    destruct (nth w on false) eqn:Eon; cbn in Hin; [|contradiction]. destruct Hin as [<-|[]].
    split; [exact Hv|]. split; [exact Eo|]. exists w. now split.
  - intros [Hu [Ho [w [Hw Hon]]]]. exists u. split; [exact Hu|]. unfold edge_errs. destruct (Hsh u) as [Hop Hed].
    rewrite Hop, Hed, Ho, Hw. cbn [is_complement filter]. rewrite Hon. now left.
Qed.

Lemma union_closure_err nodes on comp st : shape nodes st -> (forall v, In v comp -> v < length nodes) ->
  (forall v, In v comp -> node_ok nodes v) ->
  shape nodes (union_closure comp on st) /\
  forall u, In u (c_err (union_closure comp on st)) <-> In u (c_err st) \/ err_here nodes on comp u.
Proof.
  intros Hs Hr Hok. rewrite union_closure_eq.
  destruct (uc_node_fold_err on (node_at st) comp (mkIntSet false []) st (fun w => eq_refl)) as [H1 H2].
  destruct (fold_left (uc_node on) comp (mkIntSet false [], st)) as [res st1]. cbn [snd] in H1, H2.
  assert (Hs1 : shape nodes st1).
  { destruct Hs as [Hlen Hsh]. split; [now rewrite H1|]. intro v. rewrite (node_at_ext st st1 H1). apply Hsh. }
  assert (E1 : forall u, In u (c_err st1) <-> In u (c_err st) \/ err_here nodes on comp u).
  { intro u. rewrite H2, in_app_iff. now rewrite (comp_errs_in nodes on st comp u Hs Hok). }
  destruct (c_err st1) eqn:Ee; [|split; [exact Hs1|intro u; rewrite <- E1, Ee; reflexivity]].
  assert (Hr1 : forall v, In v comp -> v < length (c_nodes st1)).
  { intros v Hv. destruct Hs1 as [-> _]. now apply Hr. }
  destruct (assign_fold res comp st1 Hr1) as [G1 [_ [G3 G4]]]. split.
  - destruct Hs1 as [Hlen Hsh]. split; [now rewrite G3|]. intro v. destruct (G4 v) as [A [B _]]. rewrite A, B. apply Hsh.
  - intro u. rewrite G1, Ee. apply E1.
Qed.

Lemma closure_cb_err nodes fuel on comp st : shape nodes st -> (forall v, In v comp -> v < length nodes) ->
  (forall v, In v comp -> node_ok nodes v) -> fuel <> 0 ->
  shape nodes (closure_cb fuel st (comp, on)) /\
  forall u, In u (c_err (closure_cb fuel st (comp, on))) <-> In u (c_err st) \/ err_here nodes on comp u.
Proof.
  intros Hs Hr Hok Hf. unfold closure_cb. destruct (existsb _ comp).
  - destruct (slow_closure_err nodes on comp fuel st Hs Hr) as [S E]. split; [exact S|]. intro u. rewrite E. tauto.
  - now apply union_closure_err.
Qed.

(* errors: exactly the complement nodes that depend on themselves *)
Theorem closure_fold_errors nodes fuel out : nodes_wf nodes -> tarjan_cert (closure_graph nodes) out -> fuel <> 0 ->
  forall u, In u (c_err (fold_left (closure_cb fuel) out (st_init nodes))) <-> compl_on_cycle nodes u.
Proof.
  intros Hwf Hcert Hf.
  assert (H : forall pre post, out = pre ++ post ->
    shape nodes (fold_left (closure_cb fuel) pre (st_init nodes)) /\
    forall u, In u (c_err (fold_left (closure_cb fuel) pre (st_init nodes))) <-> in_pre pre u /\ compl_on_cycle nodes u).
  { intro pre. induction pre as [|[comp on] pre IH] using rev_ind; intros post E.
    - split; [split; [reflexivity|intro v; split; reflexivity]|]. intro u. cbn. tauto.
    - rewrite fold_left_app. cbn [fold_left]. rewrite <- app_assoc in E. cbn [app] in E.
      destruct (IH _ E) as [S1 E1]. subst out.
      pose proof (c_range nodes pre post comp on Hcert) as Hr.
      destruct (closure_cb_err nodes fuel on comp _ S1 Hr (fun v Hv => proj2 Hwf v (Hr v Hv)) Hf) as [S2 E2].
      split; [exact S2|]. intro u. rewrite E2, E1, in_pre_snoc.
      assert (Hh : err_here nodes on comp u <-> In u comp /\ compl_on_cycle nodes u).
      { unfold err_here, compl_on_cycle. split.
        - intros [Hu [Ho [w [Hw Hon]]]]. split; [exact Hu|]. split; [now apply Hr|]. split; [exact Ho|]. exists w.
          split; [exact Hw|].
          assert (Hwe : In w (n_edges (nd nodes u))) by (rewrite Hw; now left).
          apply (c_cycle nodes pre post comp on Hwf Hcert u w Hu Hwe).
          now apply (c_on nodes pre post comp on Hcert u w Hu Hwe).
        - intros [Hu [_ [Ho [w [Hw Hc]]]]]. split; [exact Hu|]. split; [exact Ho|]. exists w. split; [exact Hw|].
          assert (Hwe : In w (n_edges (nd nodes u))) by (rewrite Hw; now left).
          apply (c_on nodes pre post comp on Hcert u w Hu Hwe).
          now apply (c_cycle nodes pre post comp on Hwf Hcert u w Hu Hwe). }
      rewrite Hh. tauto. }
  intro u. destruct (H out [] (eq_sym (app_nil_r out))) as [_ E]. rewrite E. split; [tauto|].
  intro Hc. split; [|exact Hc]. apply (cert_all_in nodes out Hcert). apply Hc.
Qed.

Theorem compute_errors_exact nodes :
  nodes_wf nodes -> tarjan_cert (closure_graph nodes) (tarjan (closure_graph nodes)) ->
  forall u, In u (c_err (compute nodes)) <-> compl_on_cycle nodes u.
Proof. intros Hwf Hcert. unfold compute. apply closure_fold_errors; [exact Hwf|exact Hcert|lia]. Qed.

Corollary compute_error_iff_cycle nodes :
  nodes_wf nodes -> tarjan_cert (closure_graph nodes) (tarjan (closure_graph nodes)) ->
  (c_err (compute nodes) <> [] <-> exists v, compl_on_cycle nodes v).
Proof.
  intros Hwf Hcert. split.
  - intro H. destruct (c_err (compute nodes)) as [|v l] eqn:E; [congruence|]. exists v.
    apply (compute_errors_exact nodes Hwf Hcert). rewrite E. now left.
  - intros [v Hv] E. apply (compute_errors_exact nodes Hwf Hcert) in Hv. rewrite E in Hv. exact Hv.
Qed.

(* ---------- reading a stable solution ---------- *)
Lemma edge_in_range nodes v w : nodes_wf nodes -> v < length nodes -> In w (n_edges (nd nodes v)) -> w < length nodes.
Proof. intros Hwf Hv Hw. destruct (c_gedge nodes Hwf v w Hv Hw) as [_ [H _]]. now rewrite closure_graph_length in H. Qed.

Theorem stable_is_solution nodes sol : nodes_wf nodes -> stable_solution nodes sol ->
  forall v x, v < length nodes -> eqn_holds nodes sol v x.
Proof.
  intros Hwf Hs v x Hv. unfold eqn_holds. destruct (n_op (nd nodes v)) eqn:Eo; rewrite (Hs v x Hv); split.
  - intro H. inversion H as [v' x' Hv' Ho' Hx'|v' w x' Hv' Ho' Hw Hl|v' x' Hv' Ho' Hall|v' w x' Hv' Ho' He Hn]; subst; try congruence.
    + now left.
    + right. exists w. split; [exact Hw|]. apply Hs; [now apply (edge_in_range nodes v w)|exact Hl].
  - intros [H|[w [Hw H]]]; [now apply lfp_const|].
    apply (lfp_union nodes sol v w x Hv Eo Hw). apply Hs; [now apply (edge_in_range nodes v w)|exact H].
  - intro H. inversion H as [v' x' Hv' Ho' Hx'|v' w x' Hv' Ho' Hw Hl|v' x' Hv' Ho' Hall|v' w x' Hv' Ho' He Hn]; subst; try congruence.
    intros w Hw. apply Hs; [now apply (edge_in_range nodes v w)|now apply Hall].
  - intro H. apply (lfp_inter nodes sol v x Hv Eo). intros w Hw. apply Hs; [now apply (edge_in_range nodes v w)|now apply H].
  - intro H. inversion H as [v' x' Hv' Ho' Hx'|v' w x' Hv' Ho' Hw Hl|v' x' Hv' Ho' Hall|v' w x' Hv' Ho' He Hn]; subst; try congruence.
    exists w. now split.
  - intros [w [Hw H]]. exact (lfp_compl nodes sol v w x Hv Eo Hw H).
Qed.

(* least: contained in every valuation closed under the positive equations that contains the complements *)
Theorem stable_is_least nodes sol sol' : stable_solution nodes sol -> pre_solution nodes sol sol' ->
  forall v x, v < length nodes -> sol v x -> sol' v x.
Proof.
  intros Hs Hp v x Hv H. apply (Hs v x Hv) in H. clear Hv.
  induction H as [v x Hv Ho Hx|v w x Hv Ho Hw Hl IH|v x Hv Ho Hall IH|v w x Hv Ho He Hn];
    specialize (Hp v x Hv); rewrite Ho in Hp.
  - now apply Hp.
  - destruct Hp as [_ Hp]. now apply (Hp w).
  - now apply Hp.
  - now apply (Hp w).
Qed.

(* unique: two stable solutions of a system without a complement on a cycle coincide *)
Theorem stable_unique nodes out sol1 sol2 :
  nodes_wf nodes -> tarjan_cert (closure_graph nodes) out -> (forall v, ~ compl_on_cycle nodes v) ->
  stable_solution nodes sol1 -> stable_solution nodes sol2 ->
  forall v x, v < length nodes -> (sol1 v x <-> sol2 v x).
Proof.
  intros Hwf Hcert Hnc H1 H2.
  assert (Hstep : forall pre comp on post s1 s2, out = pre ++ (comp, on) :: post ->
            stable_solution nodes s1 -> stable_solution nodes s2 ->
            (forall w x, in_pre pre w -> (s1 w x <-> s2 w x)) ->
            forall v x, lfp nodes s1 v x -> In v comp -> lfp nodes s2 v x).
  { intros pre comp on post s1 s2 E S1 S2 Hag v x H. subst out.
    induction H as [v x Hv Ho Hx|v w x Hv Ho Hw Hl IH|v x Hv Ho Hall IH|v w x Hv Ho He Hn]; intro Hc.
    - now apply lfp_const.
    - apply (lfp_union nodes s2 v w x Hv Ho Hw).
      destruct (c_edges nodes pre post comp on Hwf Hcert v w Hc Hw) as [Hwc|Hd]; [now apply IH|].
      assert (Hwn : w < length nodes) by now apply (edge_in_range nodes v w).
      apply (S2 w x Hwn). apply (Hag w x Hd). now apply (S1 w x Hwn).
    - apply (lfp_inter nodes s2 v x Hv Ho). intros w Hw.
      destruct (c_edges nodes pre post comp on Hwf Hcert v w Hc Hw) as [Hwc|Hd]; [now apply IH|].
      assert (Hwn : w < length nodes) by now apply (edge_in_range nodes v w).
      apply (S2 w x Hwn). apply (Hag w x Hd). apply (S1 w x Hwn). now apply Hall.
    - apply (lfp_compl nodes s2 v w x Hv Ho He).
      assert (Hw : In w (n_edges (nd nodes v))) by (rewrite He; now left).
      destruct (c_edges nodes pre post comp on Hwf Hcert v w Hc Hw) as [Hwc|Hd].
      + exfalso. apply (Hnc v). split; [exact Hv|]. split; [exact Ho|]. exists w. split; [exact He|].
        now apply (c_cycle nodes pre post comp on Hwf Hcert v w Hc Hw).
      + intro Hx. apply Hn. now apply (Hag w x Hd). }
  assert (H : forall pre post, out = pre ++ post -> forall w x, in_pre pre w -> (sol1 w x <-> sol2 w x)).
  { intro pre. induction pre as [|[comp on] pre IH] using rev_ind; intros post E w x Hw; [destruct Hw|].
    rewrite <- app_assoc in E. cbn [app] in E. specialize (IH _ E).
    apply in_pre_snoc in Hw as [Hw|Hw]; [now apply IH|].
    assert (Hwn : w < length nodes) by (subst out; now apply (c_range nodes pre post comp on Hcert)).
    rewrite (H1 w x Hwn), (H2 w x Hwn). split; intro Hl.
    - exact (Hstep pre comp on post sol1 sol2 E H1 H2 IH w x Hl Hw).
    - apply (Hstep pre comp on post sol2 sol1 E H2 H1 (fun w x Hw => iff_sym (IH w x Hw)) w x Hl Hw). }
  intros v x Hv. apply (H out [] (eq_sym (app_nil_r out))). now apply (cert_all_in nodes out Hcert).
Qed.

(* the executable well-formedness test *)
Lemma nodes_wfb_sound nodes : nodes_wfb nodes = true -> nodes_wf nodes.
Proof.
  unfold nodes_wfb. rewrite andb_true_iff. intros [Hg Hn]. split; [exact Hg|]. intros v Hv.
  rewrite forallb_forall in Hn. specialize (Hn (nd nodes v) (nth_In nodes dummy_node Hv)).
  unfold node_okb in Hn. apply andb_true_iff in Hn as [Hs Hk]. split; [exact Hs|].
  destruct (n_op (nd nodes v)).
  - exact I.
  - now apply is_empty_den.
  - apply andb_true_iff in Hk as [He Hk]. split; [now apply is_empty_den|].
    destruct (n_edges (nd nodes v)) as [|w [|? ?]]; try discriminate. now exists w.
Qed.

Lemma closure_certb_sound nodes : closure_certb nodes = true ->
  nodes_wf nodes /\ tarjan_cert (closure_graph nodes) (tarjan (closure_graph nodes)).
Proof.
  unfold closure_certb. rewrite !andb_true_iff. intros [[H1 H2] H3].
  split; [now apply nodes_wfb_sound|now apply tarjan_cert_of_checks].
Qed.

(* the theorems with the executable certificate as the only side condition *)
Theorem compute_ok_least nodes : closure_certb nodes = true ->
  c_oof (compute nodes) = false -> c_err (compute nodes) = [] ->
  stable_solution nodes (sol_of (compute nodes)) /\
  (forall sol, stable_solution nodes sol -> forall v x, v < length nodes -> (sol v x <-> sol_of (compute nodes) v x)).
Proof.
  intros Hc Hoof Herr. destruct (closure_certb_sound nodes Hc) as [Hwf Hcert].
  assert (Hnc : forall v, ~ compl_on_cycle nodes v).
  { intros v Hv. apply (compute_errors_exact nodes Hwf Hcert) in Hv. rewrite Herr in Hv. exact Hv. }
  destruct (compute_least_solution nodes Hwf Hcert Hnc Hoof) as [_ [_ Hs]]. split; [exact Hs|].
  intros sol Hsol. exact (stable_unique nodes _ sol _ Hwf Hcert Hnc Hsol Hs).
Qed.

Theorem compute_err_cycle nodes : closure_certb nodes = true ->
  forall u, In u (c_err (compute nodes)) <-> compl_on_cycle nodes u.
Proof. intro Hc. destruct (closure_certb_sound nodes Hc) as [Hwf Hcert]. now apply compute_errors_exact. Qed.
