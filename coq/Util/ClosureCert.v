(* Executable side conditions of the closure theorems (Closure_proofs*.v): well-formedness of the node list as
   Closure.Add / Intersect / Complement build it, and the Tarjan contract checked on the actual Tarjan output
   (GraphSpec.check_scc / check_onstack, both proved sound).  Executable definitions only. *)
From Coq Require Import List ZArith Bool Arith.
From TM Require Import Util.IntSet Util.Graph Util.GraphSpec Util.Closure.
Import ListNotations.

Definition node_okb (nd : cnode) : bool :=
  sortedb (elems (n_val nd)) &&
  match n_op nd with
  | OpUnion => true
  | OpIntersection => is_empty (n_val nd)
  | OpComplement => is_empty (n_val nd) && match n_edges nd with [_] => true | _ => false end
  end.

Definition nodes_wfb (nodes : list cnode) : bool :=
  graph_wf (closure_graph nodes) && forallb node_okb nodes.

Definition closure_certb (nodes : list cnode) : bool :=
  let g := closure_graph nodes in
  let out := tarjan g in
  nodes_wfb nodes && check_scc g (map fst out) && check_onstack g out.
