(* Closure model, part 2: the union branch of a component callback, and the graph facts the callbacks need
   from the Tarjan contract (tarjan_cert). *)
From Coq Require Import List ZArith Bool Arith Lia.
From TM Require Import Lib.ListX Util.IntSet Util.IntSet_proofs Util.Graph Util.Graph_proofs Util.GraphSpec
  Util.GraphSpec_proofs Util.Closure Util.ClosureSem Util.Closure_proofs.
Import ListNotations.

(* ---------- the union branch as named folds ---------- *)
Definition uc_edge (fs : cnode) (v : nat) (on : list bool) (acc : intset * cst) : nat -> intset * cst :=
  let '(res, st) := acc in fun w =>
    let set := val_at st w in
    if is_complement (n_op fs) then
      if nth w on false then (res, add_err st v) else (set_merge res (complement set), st)
    else if nth w on false then (res, st) else (set_merge res set, st).

Definition uc_node (on : list bool) (acc : intset * cst) : nat -> intset * cst :=
  let '(res, st) := acc in fun v =>
    let fs := node_at st v in
    let res := set_merge res (n_val fs) in
    fold_left (uc_edge fs v on) (n_edges fs) (res, st).

Lemma union_closure_eq comp on st : union_closure comp on st =
  let '(res, st1) := fold_left (uc_node on) comp (mkIntSet false [], st) in
  match c_err st1 with [] => fold_left (fun st v => set_val st v res) comp st1 | _ => st1 end.
Proof. reflexivity. Qed.

Lemma uc_edge_step fs v on res st e : uc_edge fs v on (res, st) e =
  if is_complement (n_op fs) then
    if nth e on false then (res, add_err st v) else (set_merge res (complement (val_at st e)), st)
  else if nth e on false then (res, st) else (set_merge res (val_at st e), st).
Proof. reflexivity. Qed.

Lemma uc_node_step on res st v : uc_node on (res, st) v =
  fold_left (uc_edge (node_at st v) v on) (n_edges (node_at st v)) (set_merge res (n_val (node_at st v)), st).
Proof. reflexivity. Qed.

(* contribution of the edge v -> w *)
Definition edge_contrib (nf : nat -> cnode) (on : list bool) (fs : cnode) (w : nat) (x : Z) : Prop :=
  nth w on false = false /\
  (if is_complement (n_op fs) then ~ den (n_val (nf w)) x else den (n_val (nf w)) x).

Definition edge_errs (on : list bool) (fs : cnode) (v : nat) (edges : list nat) : list nat :=
  if is_complement (n_op fs) then map (fun _ => v) (filter (fun w => nth w on false) edges) else [].

Lemma uc_edge_fold fs v on (nf : nat -> cnode) (Hnf : forall w, wf (n_val (nf w))) edges : forall res st,
  (forall w, node_at st w = nf w) -> wf res ->
  let r := fold_left (uc_edge fs v on) edges (res, st) in
  c_nodes (snd r) = c_nodes st /\ c_oof (snd r) = c_oof st /\
  c_err (snd r) = c_err st ++ edge_errs on fs v edges /\
  wf (fst r) /\
  forall x, den (fst r) x <-> den res x \/ exists w, In w edges /\ edge_contrib nf on fs w x.
Proof.
  unfold edge_errs, edge_contrib.
  induction edges as [|e edges IH]; intros res st Hst Hres; cbn [fold_left].
  - cbn. repeat split; try tauto.
    + destruct (is_complement (n_op fs)); cbn; now rewrite app_nil_r.
    + intros [H|[w [[] _]]]; exact H.
  - rewrite uc_edge_step. unfold val_at. rewrite (Hst e).
    destruct (is_complement (n_op fs)) eqn:Ec; destruct (nth e on false) eqn:Eon.
    + destruct (IH res (add_err st v) Hst Hres) as [H1 [H2 [H3 [H4 H5]]]].
      split; [exact H1|]. split; [exact H2|]. split.
      { rewrite H3. cbn [add_err c_err filter]. rewrite Eon. cbn [map]. now rewrite <- app_assoc. }
      split; [exact H4|]. intro x. rewrite H5. split.
      * intros [H|[w [Hw Hc]]]; [now left|right; exists w; split; [now right|exact Hc]].
      * intros [H|[w [[<-|Hw] Hc]]]; [now left| |right; exists w; tauto].
        destruct Hc as [Hc _]. congruence.
    + assert (Hm : wf (set_merge res (complement (n_val (nf e))))) by (apply merge_wf; [exact Hres|apply complement_wf, Hnf]).
      destruct (IH _ st Hst Hm) as [H1 [H2 [H3 [H4 H5]]]].
      split; [exact H1|]. split; [exact H2|]. split.
      { rewrite H3. cbn [filter]. now rewrite Eon. }
      split; [exact H4|]. intro x. rewrite H5.
      rewrite (merge_spec _ _ x Hres (complement_wf _ (Hnf e))). rewrite complement_spec. split.
      * intros [[H|H]|[w [Hw Hc]]]; [now left|right; exists e; split; [now left|tauto]|right; exists w; split; [now right|exact Hc]].
      * intros [H|[w [[<-|Hw] Hc]]]; [left; now left|left; right; tauto|right; exists w; tauto].
    + destruct (IH res st Hst Hres) as [H1 [H2 [H3 [H4 H5]]]].
      split; [exact H1|]. split; [exact H2|]. split; [exact H3|].
      split; [exact H4|]. intro x. rewrite H5. split.
      * intros [H|[w [Hw Hc]]]; [now left|right; exists w; split; [now right|exact Hc]].
      * intros [H|[w [[<-|Hw] Hc]]]; [now left| |right; exists w; tauto].
        destruct Hc as [Hc _]. congruence.
    + assert (Hm : wf (set_merge res (n_val (nf e)))) by (apply merge_wf; [exact Hres|apply Hnf]).
      destruct (IH _ st Hst Hm) as [H1 [H2 [H3 [H4 H5]]]].
      split; [exact H1|]. split; [exact H2|]. split; [exact H3|].
      split; [exact H4|]. intro x. rewrite H5.
      rewrite (merge_spec _ _ x Hres (Hnf e)). split.
      * intros [[H|H]|[w [Hw Hc]]]; [now left|right; exists e; split; [now left|tauto]|right; exists w; split; [now right|exact Hc]].
      * intros [H|[w [[<-|Hw] Hc]]]; [left; now left|left; right; tauto|right; exists w; tauto].
Qed.

Definition node_contrib (nf : nat -> cnode) (on : list bool) (v : nat) (x : Z) : Prop :=
  den (n_val (nf v)) x \/ exists w, In w (n_edges (nf v)) /\ edge_contrib nf on (nf v) w x.

Definition comp_errs (nf : nat -> cnode) (on : list bool) (comp : list nat) : list nat :=
  flat_map (fun v => edge_errs on (nf v) v (n_edges (nf v))) comp.

Lemma node_at_ext st st' : c_nodes st' = c_nodes st -> forall w, node_at st' w = node_at st w.
Proof. intros H w. unfold node_at. now rewrite H. Qed.

Lemma uc_node_fold on (nf : nat -> cnode) (Hnf : forall w, wf (n_val (nf w))) comp : forall res st,
  (forall w, node_at st w = nf w) -> wf res ->
  let r := fold_left (uc_node on) comp (res, st) in
  c_nodes (snd r) = c_nodes st /\ c_oof (snd r) = c_oof st /\
  c_err (snd r) = c_err st ++ comp_errs nf on comp /\
  wf (fst r) /\
  forall x, den (fst r) x <-> den res x \/ exists v, In v comp /\ node_contrib nf on v x.
Proof.
  unfold comp_errs, node_contrib.
  induction comp as [|v comp IH]; intros res st Hst Hres; cbn [fold_left].
  - cbn. rewrite app_nil_r. repeat split; try tauto. intros [H|[w [[] _]]]; exact H.
  - rewrite uc_node_step. rewrite (Hst v).
    assert (Hm : wf (set_merge res (n_val (nf v)))) by (apply merge_wf; [exact Hres|apply Hnf]).
    pose proof (uc_edge_fold (nf v) v on nf Hnf (n_edges (nf v)) _ st Hst Hm) as H. cbv zeta in H.
    destruct (fold_left (uc_edge (nf v) v on) (n_edges (nf v)) (set_merge res (n_val (nf v)), st)) as [res1 st1].
    cbn [fst snd] in H. destruct H as [H1 [H2 [H3 [H4 H5]]]].
    assert (Hst1 : forall w, node_at st1 w = nf w) by (intro w; rewrite (node_at_ext st st1 H1); apply Hst).
    destruct (IH res1 st1 Hst1 H4) as [G1 [G2 [G3 [G4 G5]]]].
    split; [congruence|]. split; [congruence|]. split.
    { rewrite G3, H3. cbn [flat_map]. now rewrite <- app_assoc. }
    split; [exact G4|]. intro x. rewrite G5, H5. rewrite (merge_spec _ _ x Hres (Hnf v)). split.
    + intros [[[H|H]|H]|[u [Hu H]]].
      * now left.
      * right. exists v. split; [now left|now left].
      * right. exists v. split; [now left|now right].
      * right. exists u. split; [now right|exact H].
    + intros [H|[u [[<-|Hu] H]]].
      * left. left. now left.
      * destruct H as [H|H]; [left; left; now right|left; now right].
      * right. exists u. tauto.
Qed.

Lemma assign_fold res comp : forall st, (forall v, In v comp -> v < length (c_nodes st)) ->
  let st' := fold_left (fun st v => set_val st v res) comp st in
  c_err st' = c_err st /\ c_oof st' = c_oof st /\ length (c_nodes st') = length (c_nodes st) /\
  forall u, n_op (node_at st' u) = n_op (node_at st u) /\ n_edges (node_at st' u) = n_edges (node_at st u) /\
            (In u comp -> n_val (node_at st' u) = res) /\ (~ In u comp -> node_at st' u = node_at st u).
Proof.
  induction comp as [|v comp IH]; intros st Hr; cbn [fold_left].
  - repeat split; try reflexivity. intros [].
  - assert (Hv : v < length (c_nodes st)) by (apply Hr; now left).
    assert (Hr' : forall u, In u comp -> u < length (c_nodes (set_val st v res))).
    { intros u Hu. unfold set_val. cbn [c_nodes]. rewrite upd_length. apply Hr. now right. }
    destruct (IH (set_val st v res) Hr') as [H1 [H2 [H3 H4]]].
    split; [exact H1|]. split; [exact H2|]. split; [rewrite H3; unfold set_val; cbn [c_nodes]; apply upd_length|].
    intro u. destruct (H4 u) as [G1 [G2 [G3 G4]]]. rewrite G1, G2. rewrite node_at_set_val by exact Hv.
    destruct (Nat.eq_dec u v) as [->|Hne]; cbn [n_op n_edges].
    + split; [reflexivity|]. split; [reflexivity|]. split.
      * intros _. destruct (in_dec Nat.eq_dec v comp) as [Hi|Hi]; [now apply G3|].
        rewrite (G4 Hi). rewrite node_at_set_val by exact Hv. destruct (Nat.eq_dec v v); [reflexivity|congruence].
      * intro Hn. exfalso. apply Hn. now left.
    + split; [reflexivity|]. split; [reflexivity|]. split.
      * intros [->|Hu]; [congruence|now apply G3].
      * intro Hn. rewrite G4 by (intro; apply Hn; now right). rewrite node_at_set_val by exact Hv.
        destruct (Nat.eq_dec u v); [congruence|reflexivity].
Qed.

Lemma flat_map_nil {A B} (f : A -> list B) l : (forall x, In x l -> f x = []) -> flat_map f l = [].
Proof. induction l as [|a l IH]; intro H; [reflexivity|]. cbn. rewrite (H a (or_introl eq_refl)). apply IH. intros x Hx. apply H. now right. Qed.

Lemma closure_graph_nth nodes v : nth v (closure_graph nodes) [] = n_edges (nd nodes v).
Proof. unfold closure_graph, nd. now rewrite <- (map_nth n_edges nodes dummy_node v). Qed.

Lemma closure_graph_length nodes : length (closure_graph nodes) = length nodes.
Proof. apply map_length. Qed.

Section UnionComponent.
  Variables (nodes : list cnode) (neg : valuation) (comp : list nat) (done : nat -> Prop) (on : list bool) (st0 : cst).
  Let g := closure_graph nodes.
  Hypothesis Hrange : forall v, In v comp -> v < length nodes.
  Hypothesis Hedges : forall v w, In v comp -> In w (n_edges (nd nodes v)) -> In w comp \/ done w.
  Hypothesis Hdisj : forall w, done w -> ~ In w comp.
  Hypothesis Hdone : forall w x, done w -> (den (val_at st0 w) x <-> lfp nodes neg w x).
  Hypothesis Hneg : forall w x, done w -> (neg w x <-> den (val_at st0 w) x).
  Hypothesis Hni : forall v, In v comp -> n_op (nd nodes v) <> OpIntersection.
  Hypothesis Hon : forall v w, In v comp -> In w (n_edges (nd nodes v)) -> (nth w on false = true <-> In w comp).
  Hypothesis Hconn : forall u v, In u comp -> In v comp -> u = v \/ path (matrix_of_graph g) (fun c => In c comp) u v.
  Hypothesis Hcompl : forall v w, In v comp -> n_op (nd nodes v) = OpComplement -> n_edges (nd nodes v) = [w] -> ~ In w comp.
  Hypothesis Hok : forall v, In v comp -> node_ok nodes v.
  Hypothesis Hinit : forall v, In v comp -> n_val (node_at st0 v) = n_val (nd nodes v).
  Hypothesis Herr : c_err st0 = [].
  Hypothesis Hshape : shape nodes st0.
  Hypothesis Hwf : all_wf st0.

  Let nf := node_at st0.

  Lemma uc_on_false v w : In v comp -> In w (n_edges (nd nodes v)) -> ~ In w comp -> nth w on false = false.
  Proof. intros Hv Hw Hn. destruct (nth w on false) eqn:E; [|reflexivity]. exfalso. apply Hn. now apply (Hon v w Hv Hw). Qed.

  (* a vertex of the component with an edge into the component is a union node *)
  Lemma uc_source_union a b : In a comp -> In b comp -> In b (n_edges (nd nodes a)) -> n_op (nd nodes a) = OpUnion.
  Proof.
    intros Ha Hb He. destruct (n_op (nd nodes a)) eqn:Eo; [reflexivity|exfalso; now apply (Hni a Ha)|].
    exfalso. destruct (Hok a Ha) as [_ H]. rewrite Eo in H. destruct H as [_ [w Hw]].
    rewrite Hw in He. destruct He as [<-|[]]. exact (Hcompl a w Ha Eo Hw Hb).
  Qed.

  Lemma uc_back_path x a b : path (matrix_of_graph g) (fun c => In c comp) a b -> In a comp -> In b comp ->
    lfp nodes neg b x -> lfp nodes neg a x.
  Proof.
    intro P. induction P as [a b E|a c b E Hc P IH]; intros Ha Hb Hl.
    - apply matrix_of_graph_edge in E as [_ [_ E]]. unfold g in E. rewrite closure_graph_nth in E.
      apply (lfp_union nodes neg a b x (Hrange a Ha) (uc_source_union a b Ha Hb E) E Hl).
    - apply matrix_of_graph_edge in E as [_ [_ E]]. unfold g in E. rewrite closure_graph_nth in E.
      apply (lfp_union nodes neg a c x (Hrange a Ha) (uc_source_union a c Ha Hc E) E). now apply IH.
  Qed.

  Lemma uc_contrib_sound u x : In u comp -> node_contrib nf on u x -> lfp nodes neg u x.
  Proof.
    intros Hu [H|[w [Hw [Hon' H]]]]; destruct Hshape as [_ Hsh]; destruct (Hsh u) as [Hop Hed]; fold (nf u) in Hop, Hed.
    - unfold nf in H. rewrite (Hinit u Hu) in H. destruct (Hok u Hu) as [_ Ho].
      destruct (n_op (nd nodes u)) eqn:Eo.
      + now apply lfp_const; [apply Hrange| |].
      + exfalso. now apply (Hni u Hu).
      + exfalso. destruct Ho as [Ho _]. exact (Ho x H).
    - rewrite Hed in Hw. rewrite Hop in H.
      assert (Hnc : ~ In w comp). { intro Hc. apply (Hon u w Hu Hw) in Hc. congruence. }
      assert (Hd : done w) by (destruct (Hedges u w Hu Hw); [contradiction|assumption]).
      fold (val_at st0 w) in H.
      destruct (n_op (nd nodes u)) eqn:Eo; cbn [is_complement] in H.
      + apply (lfp_union nodes neg u w x (Hrange u Hu) Eo Hw). now apply Hdone.
      + exfalso. now apply (Hni u Hu).
      + destruct (Hok u Hu) as [_ Ho]. rewrite Eo in Ho. destruct Ho as [_ [w' Hw']].
        assert (w' = w) by (rewrite Hw' in Hw; destruct Hw as [?|[]]; assumption). subst w'.
        apply (lfp_compl nodes neg u w x (Hrange u Hu) Eo Hw'). intro Hn. apply H. now apply Hneg.
  Qed.

  Lemma uc_complete v x : lfp nodes neg v x -> In v comp -> exists u, In u comp /\ node_contrib nf on u x.
  Proof.
    destruct Hshape as [_ Hsh].
    intro H. induction H as [v x Hv Ho Hx|v w x Hv Ho Hw Hl IH|v x Hv Ho Hall IH|v w x Hv Ho He Hn]; intro Hc.
    - exists v. split; [exact Hc|]. left. unfold nf. now rewrite (Hinit v Hc).
    - destruct (Hedges v w Hc Hw) as [Hwc|Hd]; [now apply IH|].
      exists v. split; [exact Hc|]. right. exists w. destruct (Hsh v) as [Hop Hed]. fold (nf v) in Hop, Hed.
      split; [now rewrite Hed|]. split; [apply (uc_on_false v w Hc Hw (Hdisj w Hd))|].
      rewrite Hop, Ho. cbn [is_complement]. fold (val_at st0 w). now apply Hdone.
    - exfalso. now apply (Hni v Hc).
    - assert (Hw : In w (n_edges (nd nodes v))) by (rewrite He; now left).
      pose proof (Hcompl v w Hc Ho He) as Hnc.
      assert (Hd : done w) by (destruct (Hedges v w Hc Hw); [contradiction|assumption]).
      exists v. split; [exact Hc|]. right. exists w. destruct (Hsh v) as [Hop Hed]. fold (nf v) in Hop, Hed.
      split; [now rewrite Hed|]. split; [apply (uc_on_false v w Hc Hw Hnc)|].
      rewrite Hop, Ho. cbn [is_complement]. fold (val_at st0 w). intro Hx. apply Hn. now apply Hneg.
  Qed.

  Lemma uc_no_errs : comp_errs nf on comp = [].
  Proof.
    apply flat_map_nil. intros v Hv. unfold edge_errs. destruct Hshape as [_ Hsh]. destruct (Hsh v) as [Hop Hed].
    fold (nf v) in Hop, Hed. rewrite Hop, Hed.
    destruct (n_op (nd nodes v)) eqn:Eo; cbn [is_complement]; try reflexivity.
    destruct (Hok v Hv) as [_ Ho]. rewrite Eo in Ho. destruct Ho as [_ [w Hw]]. rewrite Hw. cbn [filter].
    rewrite (uc_on_false v w Hv); [reflexivity|rewrite Hw; now left|exact (Hcompl v w Hv Eo Hw)].
  Qed.

  Lemma union_closure_correct :
    let st' := union_closure comp on st0 in
    shape nodes st' /\ all_wf st' /\ c_err st' = [] /\ c_oof st' = c_oof st0 /\
    (forall u, ~ In u comp -> node_at st' u = node_at st0 u) /\
    forall v x, In v comp -> (den (val_at st' v) x <-> lfp nodes neg v x).
  Proof.
    rewrite union_closure_eq.
    pose proof (uc_node_fold on nf (fun w => Hwf w) comp _ st0 (fun w => eq_refl) wf_empty) as H. cbv zeta in H.
    destruct (fold_left (uc_node on) comp (mkIntSet false [], st0)) as [res st1]. cbn [fst snd] in H.
    destruct H as [H1 [H2 [H3 [H4 H5]]]]. rewrite uc_no_errs, Herr in H3. cbn [app] in H3. rewrite H3.
    destruct Hshape as [Hlen Hsh].
    assert (Hr : forall v, In v comp -> v < length (c_nodes st1)) by (intros v Hv; rewrite H1, Hlen; now apply Hrange).
    destruct (assign_fold res comp st1 Hr) as [G1 [G2 [G3 G4]]].
    set (st' := fold_left (fun st v => set_val st v res) comp st1) in *.
    split; [|split; [|split; [|split; [|split]]]].
    - split; [rewrite G3, H1; exact Hlen|]. intro u. destruct (G4 u) as [A [B _]].
      rewrite A, B, (node_at_ext st0 st1 H1). apply Hsh.
    - intro u. unfold val_at. destruct (in_dec Nat.eq_dec u comp) as [Hi|Hi].
      + destruct (G4 u) as [_ [_ [C _]]]. now rewrite (C Hi).
      + destruct (G4 u) as [_ [_ [_ D]]]. rewrite (D Hi), (node_at_ext st0 st1 H1). apply Hwf.
    - now rewrite G1.
    - now rewrite G2.
    - intros u Hu. destruct (G4 u) as [_ [_ [_ D]]]. now rewrite (D Hu), (node_at_ext st0 st1 H1).
    - intros v x Hv. unfold val_at. destruct (G4 v) as [_ [_ [C _]]]. rewrite (C Hv), H5. split.
      + intros [H|[u [Hu Hc]]]; [now apply den_empty in H|].
        pose proof (uc_contrib_sound u x Hu Hc) as Hl.
        destruct (Hconn v u Hv Hu) as [->|P]; [exact Hl|]. exact (uc_back_path x v u P Hv Hu Hl).
      + intro Hl. right. now apply (uc_complete v x Hl).
  Qed.
End UnionComponent.
