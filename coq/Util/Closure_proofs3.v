(* Closure model, part 3: what a callback may assume from the Tarjan contract, the invariant of the fold over
   the callbacks, and the least-solution theorem. *)
From Coq Require Import List ZArith Bool Arith Lia.
From TM Require Import Lib.ListX Util.IntSet Util.IntSet_proofs Util.Graph Util.Graph_proofs Util.GraphSpec
  Util.GraphSpec_proofs Util.Closure Util.ClosureSem Util.Closure_proofs Util.Closure_proofs2.
Import ListNotations.

Lemma FOP_app_mid {A} (R : A -> A -> Prop) l x r : ForallOrdPairs R (l ++ x :: r) ->
  (forall y, In y l -> R y x) /\ (forall y, In y r -> R x y).
Proof.
  induction l as [|a l IH]; cbn; intro H.
  - inversion H; subst. split; [intros y []|]. intros y Hy. rewrite Forall_forall in H2. now apply H2.
  - inversion H; subst. destruct (IH H3) as [I1 I2]. split; [|exact I2].
    intros y [<-|Hy]; [|now apply I1]. rewrite Forall_forall in H2. apply H2. apply in_or_app. right. now left.
Qed.

Definition in_pre (pre : list (list nat * list bool)) (v : nat) : Prop := In v (concat (map fst pre)).

Lemma in_pre_snoc pre comp on v : in_pre (pre ++ [(comp, on)]) v <-> in_pre pre v \/ In v comp.
Proof. unfold in_pre. rewrite map_app, concat_app. cbn. rewrite app_nil_r. apply in_app_iff. Qed.

Section Cert.
  Variables (nodes : list cnode) (pre post : list (list nat * list bool)) (comp : list nat) (on : list bool).
  Let g := closure_graph nodes.
  Hypothesis Hwf : nodes_wf nodes.
  Hypothesis Hcert : tarjan_cert g (pre ++ (comp, on) :: post).
  Let A := concat (map fst pre).
  Let B := concat (map fst post).

  Lemma c_comps : map fst (pre ++ (comp, on) :: post) = map fst pre ++ comp :: map fst post.
  Proof. now rewrite map_app. Qed.

  Lemma c_concat : concat (map fst (pre ++ (comp, on) :: post)) = A ++ comp ++ B.
  Proof. rewrite c_comps, concat_app. reflexivity. Qed.

  Lemma c_glen : length g = length nodes.
  Proof. apply closure_graph_length. Qed.

  Lemma c_in_range v : In v (A ++ comp ++ B) -> v < length nodes.
  Proof. intro H. rewrite <- c_glen. apply (scc_in_range _ _ (proj1 Hcert)). now rewrite c_concat. Qed.

  Lemma c_range v : In v comp -> v < length nodes.
  Proof. intro H. apply c_in_range. apply in_or_app. right. apply in_or_app. now left. Qed.

  Lemma c_count v : v < length nodes ->
    count_occ Nat.eq_dec A v + count_occ Nat.eq_dec comp v + count_occ Nat.eq_dec B v = 1.
  Proof.
    intro H. rewrite <- c_glen in H. pose proof (scc_each_once _ _ (proj1 Hcert) v H) as E.
    rewrite c_concat, !count_occ_app in E. lia.
  Qed.

  Lemma c_disj v : In v A -> ~ In v comp.
  Proof.
    intros Ha Hc. pose proof (c_count v (c_range v Hc)) as E.
    apply (count_occ_In Nat.eq_dec) in Ha. apply (count_occ_In Nat.eq_dec) in Hc. lia.
  Qed.

  Lemma c_in_some w : w < length nodes -> In w A \/ In w comp \/ In w B.
  Proof.
    intro H. pose proof (c_count w H) as E.
    destruct (in_dec Nat.eq_dec w A) as [?|Na]; [now left|].
    destruct (in_dec Nat.eq_dec w comp) as [?|Nc]; [right; now left|].
    destruct (in_dec Nat.eq_dec w B) as [?|Nb]; [right; now right|].
    apply (count_occ_not_In Nat.eq_dec) in Na, Nc, Nb. lia.
  Qed.

  Lemma c_before w v : In w A -> In v comp -> ~ greach g w v.
  Proof.
    intros Hw Hv. apply in_concat in Hw as [c' [Hc' Hw]].
    pose proof (scc_order _ _ (proj1 Hcert)) as Ho. rewrite c_comps in Ho.
    exact (proj1 (FOP_app_mid _ _ _ _ Ho) c' Hc' w v Hw Hv).
  Qed.

  Lemma c_after v w : In v comp -> In w B -> ~ greach g v w.
  Proof.
    intros Hv Hw. apply in_concat in Hw as [c' [Hc' Hw]].
    pose proof (scc_order _ _ (proj1 Hcert)) as Ho. rewrite c_comps in Ho.
    exact (proj2 (FOP_app_mid _ _ _ _ Ho) c' Hc' v w Hv Hw).
  Qed.

  Lemma c_gedge v w : v < length nodes -> In w (n_edges (nd nodes v)) -> gedge g v w.
  Proof.
    intros Hv Hw. destruct Hwf as [Hg _]. unfold graph_wf in Hg. rewrite forallb_forall in Hg.
    fold g in Hg. rewrite <- closure_graph_nth in Hw. fold g in Hw.
    assert (Hin : In (nth v g []) g) by (apply nth_In; now rewrite c_glen).
    specialize (Hg _ Hin). rewrite forallb_forall in Hg. specialize (Hg w Hw). apply Nat.ltb_lt in Hg.
    split; [now rewrite c_glen|]. split; assumption.
  Qed.

  Lemma c_edges v w : In v comp -> In w (n_edges (nd nodes v)) -> In w comp \/ In w A.
  Proof.
    intros Hv Hw. pose proof (c_gedge v w (c_range v Hv) Hw) as E.
    assert (Hwn : w < length nodes) by (rewrite <- c_glen; apply E).
    destruct (c_in_some w Hwn) as [H|[H|H]]; [now right|now left|].
    exfalso. exact (c_after v w Hv H (gedge_greach g v w E)).
  Qed.

  Lemma c_inside u v : greach g u v -> In u comp -> In v comp -> path (matrix_of_graph g) (fun c => In c comp) u v.
  Proof.
    unfold greach, reach. intro P. induction P as [a b E|a c b E _ P IH]; intros Ha Hb.
    - now apply path_edge.
    - assert (Hc : In c comp).
      { pose proof E as E'. apply matrix_of_graph_edge in E' as [_ [Hcn _]]. rewrite c_glen in Hcn.
        destruct (c_in_some c Hcn) as [H|[H|H]]; [|exact H|].
        - exfalso. exact (c_before c b H Hb P).
        - exfalso. apply (c_after a c Ha H). apply gedge_greach. now apply matrix_of_graph_edge. }
      eapply path_step; [exact E|exact Hc|now apply IH].
  Qed.

  Lemma c_conn u v : In u comp -> In v comp -> u = v \/ path (matrix_of_graph g) (fun c => In c comp) u v.
  Proof.
    intros Hu Hv. assert (Hc : In comp (map fst (pre ++ (comp, on) :: post))).
    { rewrite c_comps. apply in_or_app. right. now left. }
    destruct (scc_connected _ _ (proj1 Hcert) comp u v Hc Hu Hv) as [->|H]; [now left|right].
    now apply c_inside.
  Qed.

  Lemma c_cycle v w : In v comp -> In w (n_edges (nd nodes v)) -> (In w comp <-> w = v \/ greach g w v).
  Proof.
    intros Hv Hw. pose proof (c_gedge v w (c_range v Hv) Hw) as E. split.
    - intro Hwc. assert (Hc : In comp (map fst (pre ++ (comp, on) :: post))).
      { rewrite c_comps. apply in_or_app. right. now left. }
      exact (scc_connected _ _ (proj1 Hcert) comp w v Hc Hwc Hv).
    - intros [->|R]; [exact Hv|].
      assert (Hwn : w < length nodes) by (rewrite <- c_glen; apply E).
      destruct (c_in_some w Hwn) as [H|[H|H]]; [|exact H|].
      + exfalso. exact (c_before w v H Hv R).
      + exfalso. exact (c_after v w Hv H (gedge_greach g v w E)).
  Qed.

  Lemma c_on v w : In v comp -> In w (n_edges (nd nodes v)) -> (nth w on false = true <-> In w comp).
  Proof.
    intros Hv Hw. apply (proj2 Hcert comp on v w); [apply in_or_app; right; now left|exact Hv|].
    unfold g. now rewrite closure_graph_nth.
  Qed.

  Lemma c_first a b : path (matrix_of_graph g) (fun c => In c comp) a b -> In b comp ->
    exists c, In c comp /\ In c (n_edges (nd nodes a)).
  Proof.
    intros P Hb. destruct P as [a b E|a c b E Hc _].
    - exists b. split; [exact Hb|]. apply matrix_of_graph_edge in E as [_ [_ E]]. unfold g in E. now rewrite closure_graph_nth in E.
    - exists c. split; [exact Hc|]. apply matrix_of_graph_edge in E as [_ [_ E]]. unfold g in E. now rewrite closure_graph_nth in E.
  Qed.

  (* a complement node inside a component with another vertex, or with a self loop, is on a cycle *)
  Lemma c_compl_alone v q : In v comp -> In q comp -> q <> v -> n_op (nd nodes v) = OpComplement -> compl_on_cycle nodes v.
  Proof.
    intros Hv Hq Hne Ho. destruct (c_conn v q Hv Hq) as [->|P]; [congruence|].
    destruct (c_first v q P Hq) as [c [Hc Hce]].
    destruct Hwf as [_ Hn]. destruct (Hn v (c_range v Hv)) as [_ Hk]. rewrite Ho in Hk. destruct Hk as [_ [w Hw]].
    split; [now apply c_range|]. split; [exact Ho|]. exists w. split; [exact Hw|].
    rewrite Hw in Hce. destruct Hce as [<-|[]]. apply (c_cycle v w Hv); [rewrite Hw; now left|exact Hc].
  Qed.
End Cert.

(* ---------- the invariant of the fold over the callbacks ---------- *)
Definition Inv (nodes : list cnode) (st : cst) (done : nat -> Prop) : Prop :=
  shape nodes st /\ all_wf st /\ c_err st = [] /\
  (forall v, ~ done v -> n_val (node_at st v) = n_val (nd nodes v)) /\
  forall neg, (forall w x, done w -> (neg w x <-> den (val_at st w) x)) ->
    forall v x, done v -> (den (val_at st v) x <-> lfp nodes neg v x).

Lemma step_common nodes pre comp on st st' :
  (forall v, in_pre pre v -> ~ In v comp) ->
  Inv nodes st (in_pre pre) ->
  (forall neg, (forall w x, in_pre pre w -> (neg w x <-> den (val_at st w) x)) ->
               (forall w x, in_pre pre w -> (den (val_at st w) x <-> lfp nodes neg w x)) ->
     shape nodes st' /\ all_wf st' /\ c_err st' = [] /\
     (forall u, ~ In u comp -> node_at st' u = node_at st u) /\
     forall v x, In v comp -> (den (val_at st' v) x <-> lfp nodes neg v x)) ->
  Inv nodes st' (in_pre (pre ++ [(comp, on)])).
Proof.
  intros Hdisj [I1 [I2 [I3 [I4 I5]]]] Hall.
  destruct (Hall (sol_of st) (fun _ _ _ => iff_refl _) (I5 (sol_of st) (fun _ _ _ => iff_refl _)))
    as [S1 [S2 [S3 [S4 _]]]].
  split; [exact S1|]. split; [exact S2|]. split; [exact S3|]. split.
  - intros v Hv. rewrite in_pre_snoc in Hv. rewrite S4 by tauto. apply I4. tauto.
  - intros neg Hneg v x Hv.
    assert (Hneg' : forall w x, in_pre pre w -> (neg w x <-> den (val_at st w) x)).
    { intros w y Hw. rewrite (Hneg w y) by (apply in_pre_snoc; now left).
      unfold val_at. now rewrite (S4 w (Hdisj w Hw)). }
    destruct (Hall neg Hneg' (I5 neg Hneg')) as [_ [_ [_ [_ S5]]]].
    apply in_pre_snoc in Hv as [Hv|Hv]; [|now apply S5].
    unfold val_at. rewrite (S4 v (Hdisj v Hv)). now apply (I5 neg Hneg').
Qed.

Lemma existsb_false {A} (f : A -> bool) l : existsb f l = false -> forall x, In x l -> f x = false.
Proof.
  intros H x Hx. destruct (f x) eqn:E; [|reflexivity].
  assert (existsb f l = true) by (apply existsb_exists; eauto). congruence.
Qed.

Lemma closure_cb_step nodes pre comp on post fuel st :
  nodes_wf nodes -> tarjan_cert (closure_graph nodes) (pre ++ (comp, on) :: post) ->
  (forall v, ~ compl_on_cycle nodes v) ->
  Inv nodes st (in_pre pre) ->
  c_oof (closure_cb fuel st (comp, on)) = false ->
  Inv nodes (closure_cb fuel st (comp, on)) (in_pre (pre ++ [(comp, on)])).
Proof.
  intros Hwf Hcert Hnocyc HI Hoof.
  pose proof (c_disj nodes pre post comp on Hcert) as Hdisj.
  pose proof (c_range nodes pre post comp on Hcert) as Hrange.
  assert (Hedges : forall v w, In v comp -> In w (n_edges (nd nodes v)) -> In w comp \/ in_pre pre w)
    by (intros v w; apply (c_edges nodes pre post comp on Hwf Hcert)).
  destruct HI as [I1 [I2 [I3 [I4 I5]]]].
  assert (Hinit : forall v, In v comp -> n_val (node_at st v) = n_val (nd nodes v)).
  { intros v Hv. apply I4. intro Hp. exact (Hdisj v Hp Hv). }
  apply (step_common nodes pre comp on st); [exact Hdisj|exact (conj I1 (conj I2 (conj I3 (conj I4 I5))))|].
  intros neg Hneg Hdone. unfold closure_cb in *.
  destruct (existsb (fun q => is_intersection (n_op (node_at st q))) comp) eqn:Ex.
  - (* slow closure *)
    apply existsb_exists in Ex as [q [Hq Eq]]. destruct I1 as [Hlen Hsh].
    assert (Hqi : n_op (nd nodes q) = OpIntersection).
    { destruct (Hsh q) as [<- _]. destruct (n_op (node_at st q)); [discriminate|reflexivity|discriminate]. }
    assert (Hnc : forall v, In v comp -> n_op (nd nodes v) <> OpComplement).
    { intros v Hv Ho. apply (Hnocyc v). apply (c_compl_alone nodes pre post comp on Hwf Hcert v q Hv Hq); [|exact Ho].
      intros ->. congruence. }
    assert (HJ : J nodes neg comp st st).
    { constructor; try reflexivity; try assumption; [split; assumption| |].
      - intros v x Hv Hx. unfold val_at in Hx. rewrite (Hinit v Hv) in Hx.
        destruct (proj2 Hwf v (Hrange v Hv)) as [_ Hk].
        destruct (n_op (nd nodes v)) eqn:Eo.
        + now apply lfp_const; [apply Hrange| |].
        + exfalso. exact (Hk x Hx).
        + exfalso. exact (Hnc v Hv Eo).
      - intros v x Hv _ Hx. unfold val_at. now rewrite (Hinit v Hv). }
    destruct (slow_closure_correct nodes neg comp (in_pre pre) on st Hrange Hedges Hdisj Hdone Hnc fuel st HJ Hoof)
      as [HJ' Hex].
    split; [exact (J_shape _ _ _ _ _ HJ')|]. split; [exact (J_wf _ _ _ _ _ HJ')|].
    split; [rewrite (J_err _ _ _ _ _ HJ'); exact I3|]. split; [exact (J_out _ _ _ _ _ HJ')|exact Hex].
  - (* union closure *)
    pose proof (existsb_false _ _ Ex) as Hni'.
    assert (Hni : forall v, In v comp -> n_op (nd nodes v) <> OpIntersection).
    { intros v Hv Ho. specialize (Hni' v Hv). cbn in Hni'. destruct I1 as [_ Hsh]. destruct (Hsh v) as [E _].
      rewrite E, Ho in Hni'. discriminate. }
    assert (Hcompl : forall v w, In v comp -> n_op (nd nodes v) = OpComplement -> n_edges (nd nodes v) = [w] -> ~ In w comp).
    { intros v w Hv Ho He Hw. apply (Hnocyc v). split; [now apply Hrange|]. split; [exact Ho|]. exists w. split; [exact He|].
      apply (c_cycle nodes pre post comp on Hwf Hcert v w Hv); [rewrite He; now left|exact Hw]. }
    destruct (union_closure_correct nodes neg comp (in_pre pre) on st Hrange Hedges Hdisj Hdone Hneg Hni
                (c_on nodes pre post comp on Hcert) (c_conn nodes pre post comp on Hcert) Hcompl
                (fun v Hv => proj2 Hwf v (Hrange v Hv)) Hinit I3 I1 I2) as [U1 [U2 [U3 [_ [U5 U6]]]]].
    split; [exact U1|]. split; [exact U2|]. split; [exact U3|]. split; [exact U5|exact U6].
Qed.

(* ---------- the fuel flag is sticky ---------- *)
Lemma fold_left_pres {A B} (P : A -> Prop) (f : A -> B -> A) l :
  (forall a b, P a -> P (f a b)) -> forall a, P a -> P (fold_left f l a).
Proof. intro H. induction l as [|b l IH]; intros a Ha; [exact Ha|]. cbn. apply IH. now apply H. Qed.

Lemma sp_step_oof on st d v : c_oof (fst (sp_step on (st, d) v)) = c_oof st.
Proof.
  unfold sp_step. destruct (n_op (node_at st v)).
  - destruct (set_equals _ _); reflexivity.
  - destruct (set_equals _ _); reflexivity.
  - destruct (n_edges (node_at st v)) as [|w [|? ?]]; try reflexivity.
    destruct (nth w on false); [reflexivity|]. destruct (set_equals _ _); reflexivity.
Qed.

Lemma slow_closure_oof fuel : forall comp on st, c_oof st = true -> c_oof (slow_closure fuel comp on st) = true.
Proof.
  induction fuel as [|f IH]; intros comp on st H; [reflexivity|]. cbn [slow_closure]. rewrite slow_pass_eq.
  assert (H1 : c_oof (fst (fold_left (sp_step on) comp (st, false))) = true).
  { apply (fold_left_pres (fun acc => c_oof (fst acc) = true)); [|exact H].
    intros [s d] b Hs. cbn [fst] in Hs. now rewrite sp_step_oof. }
  destruct (fold_left (sp_step on) comp (st, false)) as [st1 d]. cbn [fst] in H1. destruct d; [now apply IH|exact H1].
Qed.

Lemma union_closure_oof comp on st : c_oof (union_closure comp on st) = c_oof st.
Proof.
  rewrite union_closure_eq.
  assert (H1 : c_oof (snd (fold_left (uc_node on) comp (mkIntSet false [], st))) = c_oof st).
  { apply (fold_left_pres (fun acc => c_oof (snd acc) = c_oof st)); [|reflexivity].
    intros [r s] v Hs. cbn [snd] in Hs. rewrite uc_node_step.
    apply (fold_left_pres (fun acc => c_oof (snd acc) = c_oof st)); [|exact Hs].
    intros [r' s'] w Hs'. cbn [snd] in Hs'. rewrite uc_edge_step.
    destruct (is_complement _), (nth w on false); exact Hs'. }
  destruct (fold_left (uc_node on) comp (mkIntSet false [], st)) as [res st1]. cbn [snd] in H1.
  destruct (c_err st1); [|exact H1].
  apply (fold_left_pres (fun s => c_oof s = c_oof st)); [|exact H1]. intros a b Ha. exact Ha.
Qed.

Lemma closure_cb_oof fuel st cb : c_oof st = true -> c_oof (closure_cb fuel st cb) = true.
Proof.
  intro H. destruct cb as [comp on]. unfold closure_cb.
  destruct (existsb _ comp); [now apply slow_closure_oof|now rewrite union_closure_oof].
Qed.

(* ---------- the whole fold ---------- *)
Definition st_init (nodes : list cnode) : cst := mkC nodes [] false.

Lemma nd_overflow nodes v : length nodes <= v -> nd nodes v = dummy_node.
Proof. intro H. unfold nd. now apply nth_overflow. Qed.

Lemma Inv_init nodes : nodes_wf nodes -> Inv nodes (st_init nodes) (in_pre []).
Proof.
  intros [_ Hn]. split; [split; [reflexivity|intro v; split; reflexivity]|]. split.
  - intro v. unfold val_at, node_at, st_init. cbn [c_nodes]. fold (nd nodes v).
    destruct (Nat.lt_ge_cases v (length nodes)) as [H|H]; [apply (Hn v H)|]. rewrite nd_overflow by exact H. reflexivity.
  - split; [reflexivity|]. split; [reflexivity|]. intros neg _ v x [].
Qed.

Lemma fold_inv nodes fuel out : nodes_wf nodes -> tarjan_cert (closure_graph nodes) out ->
  (forall v, ~ compl_on_cycle nodes v) ->
  forall pre post, out = pre ++ post ->
  c_oof (fold_left (closure_cb fuel) pre (st_init nodes)) = false ->
  Inv nodes (fold_left (closure_cb fuel) pre (st_init nodes)) (in_pre pre).
Proof.
  intros Hwf Hcert Hnc pre. induction pre as [|[comp on] pre IH] using rev_ind; intros post E Hoof.
  - now apply Inv_init.
  - rewrite fold_left_app in *. cbn [fold_left] in *. rewrite <- app_assoc in E. cbn [app] in E.
    assert (Hoof' : c_oof (fold_left (closure_cb fuel) pre (st_init nodes)) = false).
    { destruct (c_oof (fold_left (closure_cb fuel) pre (st_init nodes))) eqn:Eo; [|reflexivity].
      rewrite (closure_cb_oof fuel _ (comp, on) Eo) in Hoof. discriminate. }
    specialize (IH _ E Hoof'). subst out.
    exact (closure_cb_step nodes pre comp on post fuel _ Hwf Hcert Hnc IH Hoof).
Qed.

Lemma cert_all_in nodes out : tarjan_cert (closure_graph nodes) out -> forall v, v < length nodes -> in_pre out v.
Proof.
  intros [H _] v Hv. rewrite <- closure_graph_length in Hv. pose proof (scc_each_once _ _ H v Hv) as E.
  unfold in_pre. apply (count_occ_In Nat.eq_dec). lia.
Qed.

(* least solution: the values computed for a system without a complement on a dependency cycle *)
Theorem closure_fold_least nodes fuel out :
  nodes_wf nodes -> tarjan_cert (closure_graph nodes) out ->
  (forall v, ~ compl_on_cycle nodes v) ->
  let st := fold_left (closure_cb fuel) out (st_init nodes) in
  c_oof st = false ->
  c_err st = [] /\ shape nodes st /\ all_wf st /\ stable_solution nodes (sol_of st).
Proof.
  intros Hwf Hcert Hnc st Hoof.
  destruct (fold_inv nodes fuel out Hwf Hcert Hnc out [] (eq_sym (app_nil_r out)) Hoof) as [I1 [I2 [I3 [_ I5]]]].
  fold st in I1, I2, I3, I5. split; [exact I3|]. split; [exact I1|]. split; [exact I2|].
  intros v x Hv. apply (I5 (sol_of st) (fun _ _ _ => iff_refl _)). now apply (cert_all_in nodes out Hcert).
Qed.

Theorem compute_least_solution nodes :
  nodes_wf nodes -> tarjan_cert (closure_graph nodes) (tarjan (closure_graph nodes)) ->
  (forall v, ~ compl_on_cycle nodes v) ->
  c_oof (compute nodes) = false ->
  c_err (compute nodes) = [] /\ (forall v, wf (val_at (compute nodes) v)) /\
  stable_solution nodes (sol_of (compute nodes)).
Proof.
  intros Hwf Hcert Hnc Hoof. unfold compute in *.
  destruct (closure_fold_least nodes _ _ Hwf Hcert Hnc Hoof) as [H1 [_ [H3 H4]]]. split; [exact H1|]. split; [exact H3|exact H4].
Qed.

(* the boolean certificate checkers of GraphSpec establish the contract *)
Lemma tarjan_cert_of_checks g out : check_scc g (map fst out) = true -> check_onstack g out = true -> tarjan_cert g out.
Proof. intros H1 H2. split; [now apply check_scc_sound|now apply check_onstack_spec]. Qed.

